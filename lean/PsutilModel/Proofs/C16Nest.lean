/-
  Proofs/C16Nest.lean — the two-level small-step model with RLock re-entrance (Model/C16Conc2.lean):
    * progress of the lock holder (no deadlock on ONE object): whoever holds `self._lock` always has an
      enabled step of its own that brings it strictly closer to releasing the lock; no other thread's
      step can take that away (other threads never change the holder's thread state);
    * nested levels are no-ops: when oneshot() activates the front-end cache at all
      (`Lvl.front ∈ actSeq`), a re-entrant acquire always takes the "already inside" branch, so no
      nested level ever activates or deactivates anything.
  Core Lean only.
-/
import PsutilModel.Proofs.C16Conc2
namespace Psutil.C16.Conc2

/- ------------------------------------------------------------------ progress of the lock holder -/

/-- bytecodes left in the current public call -/
def pcM : PC → Nat
  | .idle => 0
  | .ret .. => 1
  | .retErr .. => 1
  | .f4 .. => 2
  | .p4 .. => 3
  | .p2 .. => 4
  | .p1 .. => 5
  | .p0 .. => 6
  | .f1 .. => 7
  | .f0 .. => 8

/-- steps of oneshot()'s own code left until this level is closed, when the body does nothing more -/
def phM (c : CCfg2) : Phase → Nat
  | .out => 0
  | .oerr => 0
  | .release => 1
  | .deact rest => rest.length + 2
  | .inNoop => 2
  | .inBlock => c.deactSeq.length + 3
  | .act rest => rest.length + c.deactSeq.length + 4
  | .test => c.actSeq.length + c.deactSeq.length + 5

def stM (c : CCfg2) : List Bool → Nat
  | [] => 0
  | b :: rest => (if b then c.deactSeq.length + 3 else 2) + stM c rest

/-- upper bound of the number of own steps after which the thread has released the lock, if its
    program does nothing but leave the blocks it is in -/
def thM (c : CCfg2) (t : Thread) : Nat := pcM t.pc + phM c t.ph + stM c t.stack

theorem thr_setPc_self (s : St) (tid : Nat) (pc : PC) : (setPc s tid pc).thr tid = { s.thr tid with pc := pc } := by
  simp [setPc]

theorem thr_setPh_self (s : St) (tid : Nat) (ph : Phase) : (setPh s tid ph).thr tid = { s.thr tid with ph := ph } := by
  simp [setPh]

/-- a public call in flight always has an enabled next bytecode; it keeps the lock state, the
    thread's phase and stack, and gets closer to its return -/
theorem cstep_prog (c : CCfg2) (s : St) (tid : Nat) (pc : PC) (hpc : pc ≠ .idle) :
    ∃ s1, cstep c s tid pc = some s1 ∧ s1.lock = s.lock ∧ (s1.thr tid).ph = (s.thr tid).ph ∧
      (s1.thr tid).stack = (s.thr tid).stack ∧ pcM (s1.thr tid).pc < pcM pc := by
  have key : ∀ (s0 : St) (pc' : PC), s0.lock = s.lock → s0.thr = s.thr → pcM pc' < pcM pc →
      ∃ s1, some (setPc s0 tid pc') = some s1 ∧ s1.lock = s.lock ∧ (s1.thr tid).ph = (s.thr tid).ph ∧
        (s1.thr tid).stack = (s.thr tid).stack ∧ pcM (s1.thr tid).pc < pcM pc := by
    intro s0 pc' hl ht hm
    refine ⟨_, rfl, hl, ?_, ?_, ?_⟩
    · rw [thr_setPc_self, ht]
    · rw [thr_setPc_self, ht]
    · rw [thr_setPc_self]; exact hm
  have keyA : ∀ (s0 : St) (g cs : Nat) (fd : Option (Nat × Nat × Nat)) (e : Entry) (how : How),
      s0.lock = s.lock → s0.thr = s.thr → 2 < pcM pc →
      ∃ s1, some (afterProc s0 tid g cs fd e how) = some s1 ∧ s1.lock = s.lock ∧ (s1.thr tid).ph = (s.thr tid).ph ∧
        (s1.thr tid).stack = (s.thr tid).stack ∧ pcM (s1.thr tid).pc < pcM pc := by
    intro s0 g cs fd e how hl ht hm
    unfold afterProc
    split
    · exact key s0 _ hl ht (by show 2 < pcM pc; exact hm)
    · exact key s0 _ hl ht (by show 1 < pcM pc; omega)
  have hsM : ∀ (d : Nat) (k : Key) (e : Entry), (storeM c s d k e).lock = s.lock ∧ (storeM c s d k e).thr = s.thr := by
    intro d k e; unfold storeM; split <;> exact ⟨rfl, rfl⟩
  cases pc with
  | idle => exact absurd rfl hpc
  | f0 f g cs =>
    simp only [cstep]
    split
    · split <;> exact key s _ rfl rfl (by simp [pcM])
    · exact key s _ rfl rfl (by simp [pcM])
  | f1 f g cs d t0 =>
    simp only [cstep]
    split <;> exact key s _ rfl rfl (by simp [pcM])
  | p0 g cs fd =>
    simp only [cstep]
    split
    · split
      · split <;> exact key s _ rfl rfl (by simp [pcM])
      · exact key s _ rfl rfl (by simp [pcM])
    · exact key s _ rfl rfl (by simp [pcM])
  | p1 g cs fd pd t0 =>
    simp only [cstep]
    split
    · exact keyA s _ _ _ _ _ rfl rfl (by simp [pcM])
    · exact key s _ rfl rfl (by simp [pcM])
  | p2 g cs fd od =>
    simp only [cstep]
    split
    · exact key s _ rfl rfl (by simp [pcM])
    · split
      · exact key s _ rfl rfl (by simp [pcM])
      · exact keyA s _ _ _ _ _ rfl rfl (by simp [pcM])
  | p4 g cs fd pd e =>
    simp only [cstep]
    exact keyA _ _ _ _ _ _ (hsM pd _ e).1 (hsM pd _ e).2 (by simp [pcM])
  | f4 f g cs d e how =>
    simp only [cstep]
    exact key _ _ (hsM d _ e).1 (hsM d _ e).2 (by simp [pcM])
  | ret g cs e how => simp only [cstep]; exact key s _ rfl rfl (by simp [pcM])
  | retErr g cs => simp only [cstep]; exact key s _ rfl rfl (by simp [pcM])

/-- the actions by which a thread leaves the blocks it is in: run the code it is in, leave the body -/
def Leaving : Choice → Prop
  | .step => True
  | .beginExit => True
  | _ => False

/-- **progress of the lock holder.** In every reachable state the thread that holds the lock has an
    enabled action of its own (a bytecode of the call or of oneshot()'s enter/exit code it is in, or
    leaving the body it is in) after which it is strictly closer (`thM`) to having released the
    lock, and the lock is still its own or free. It never has to wait for anything. -/
theorem owner_progress {c : CCfg2} (hc : c.Covers) (hd : c.delGuard = true) {s : St} (h : Reach c s) (i : Nat)
    (hl : s.lock = some i) :
    ∃ ch s1, Leaving ch ∧ tstep c s i ch = some s1 ∧ thM c (s1.thr i) < thM c (s.thr i) ∧
      (s1.lock = some i ∨ s1.lock = none) := by
  have hI := (reach_inv hc h).l
  have hok := hI.owner i hl
  by_cases hpc : (s.thr i).pc = .idle
  · -- in oneshot()'s own code, or in the body of a block
    cases hph : (s.thr i).ph with
    | out => rw [hph] at hok; cases hok
    | oerr => rw [hph, hd] at hok; cases hok
    | test =>
      refine ⟨.step, ?_⟩
      simp only [tstep, hpc, if_true, hph, ostep]
      split
      · refine ⟨_, trivial, rfl, ?_, Or.inl hl⟩
        rw [thr_setPh_self]; simp only [thM, hpc, hph, pcM, phM]; omega
      · refine ⟨_, trivial, rfl, ?_, Or.inl hl⟩
        rw [thr_setPh_self]; simp only [thM, hpc, hph, pcM, phM]; omega
    | act rest =>
      refine ⟨.step, ?_⟩
      simp only [tstep, hpc, if_true, hph]
      cases rest with
      | nil =>
        simp only [ostep]
        refine ⟨_, trivial, rfl, ?_, Or.inl hl⟩
        rw [thr_setPh_self]; simp only [thM, hpc, hph, pcM, phM, List.length_nil]; omega
      | cons l rest =>
        simp only [ostep]
        have hthr : (actSt s i l).thr = s.thr := by cases l <;> rfl
        have hlk : (actSt s i l).lock = s.lock := by cases l <;> rfl
        refine ⟨_, trivial, rfl, ?_, Or.inl (by show (actSt s i l).lock = some i; rw [hlk]; exact hl)⟩
        rw [thr_setPh_self, hthr]; simp only [thM, hpc, hph, pcM, phM, List.length_cons]; omega
    | inBlock =>
      refine ⟨.beginExit, setPh s i (.deact c.deactSeq), trivial, ?_, ?_, Or.inl hl⟩
      · simp only [tstep, hpc, if_true, hph]
      · rw [thr_setPh_self]; simp only [thM, hpc, hph, pcM, phM]; omega
    | inNoop =>
      refine ⟨.beginExit, setPh s i .release, trivial, ?_, ?_, Or.inl hl⟩
      · simp only [tstep, hpc, if_true, hph]
      · rw [thr_setPh_self]; simp only [thM, hpc, hph, pcM, phM]; omega
    | deact rest =>
      refine ⟨.step, ?_⟩
      simp only [tstep, hpc, if_true, hph]
      cases rest with
      | nil =>
        simp only [ostep]
        refine ⟨_, trivial, rfl, ?_, Or.inl hl⟩
        rw [thr_setPh_self]; simp only [thM, hpc, hph, pcM, phM, List.length_nil]; omega
      | cons l rest =>
        simp only [ostep]
        split
        · have hthr : (delAttr s l).thr = s.thr := by cases l <;> rfl
          refine ⟨_, trivial, rfl, ?_, Or.inl (by cases l <;> exact hl)⟩
          rw [thr_setPh_self, hthr]; simp only [thM, hpc, hph, pcM, phM, List.length_cons]; omega
        · refine ⟨_, trivial, rfl, ?_, Or.inl hl⟩
          rw [thr_setPh_self, hd]; simp only [if_true, thM, hpc, hph, pcM, phM, List.length_cons]; omega
    | release =>
      refine ⟨.step, ?_⟩
      simp only [tstep, hpc, if_true, hph, ostep]
      split
      · rename_i hs
        refine ⟨_, trivial, rfl, ?_, Or.inr rfl⟩
        rw [thr_setPh_self]; simp only [thM, hpc, hph, pcM, phM, hs, stM]; omega
      · rename_i b rest hs
        refine ⟨_, trivial, rfl, ?_, Or.inl hl⟩
        have : (popTo s i (if b = true then Phase.inBlock else Phase.inNoop) rest).thr i =
            { s.thr i with ph := (if b = true then Phase.inBlock else Phase.inNoop), stack := rest } := by simp [popTo]
        rw [this]
        cases b <;> simp only [thM, hpc, hph, pcM, phM, hs, stM] <;> simp <;> omega
  · -- inside a public call
    obtain ⟨s1, h1, h2, h3, h4, h5⟩ := cstep_prog c s i (s.thr i).pc hpc
    refine ⟨.step, s1, trivial, ?_, ?_, Or.inl (by rw [h2]; exact hl)⟩
    · simp only [tstep, hpc, if_false]; exact h1
    · simp only [thM, h3, h4]; omega

theorem thr_tick (s : St) : (tick s).thr = s.thr := rfl
theorem lock_tick (s : St) : (tick s).lock = s.lock := rfl

/-- **no deadlock on one object.** From every reachable state in which the lock is held there is a
    finite run made of the HOLDER's own leaving actions only (at most `thM` of them) after which the
    lock is free — whatever the other threads were doing, and without any of them having to move. A
    thread waiting in `acquire` (another thread's as_dict() / oneshot() on the same object) therefore
    only ever waits for a thread that can finish on its own. -/
theorem owner_can_release {c : CCfg2} (hc : c.Covers) (hd : c.delGuard = true) :
    ∀ (n : Nat) {s : St}, Reach c s → ∀ i, s.lock = some i → thM c (s.thr i) ≤ n →
      ∃ as : List Action, (∀ a ∈ as, ∃ ch, a = .thr i ch ∧ Leaving ch) ∧ as.length ≤ n ∧ (runD c s as).lock = none := by
  intro n
  induction n with
  | zero =>
    intro s h i hl hm
    obtain ⟨ch, s1, _, _, hlt, _⟩ := owner_progress hc hd h i hl
    omega
  | succ n ih =>
    intro s h i hl hm
    obtain ⟨ch, s1, hlv, hst, hlt, hlk⟩ := owner_progress hc hd h i hl
    have hstep : step c s (.thr i ch) = some (tick s1) := by simp [step, hst]
    have hr : Reach c (tick s1) := Reach.step _ h hstep
    cases hlk with
    | inr hfree =>
      refine ⟨[.thr i ch], ?_, by simp, ?_⟩
      · intro a ha; simp only [List.mem_singleton] at ha; exact ⟨ch, ha, hlv⟩
      · simp only [runD, hstep]; exact hfree
    | inl hown =>
      obtain ⟨as, h1, h2, h3⟩ := ih hr i hown (by rw [thr_tick]; omega)
      refine ⟨.thr i ch :: as, ?_, by simp; omega, ?_⟩
      · intro a ha
        cases ha with
        | head => exact ⟨ch, rfl, hlv⟩
        | tail _ ha => exact h1 a ha
      · simp only [runD, hstep]; exact h3

/-- no step of ANOTHER thread, and no change of the world, touches a thread's own state: the
    holder's distance to the release never grows behind its back -/
theorem other_keeps_thread {c : CCfg2} {s s' : St} (i : Nat) (a : Action) (hs : step c s a = some s')
    (ha : ∀ ch, a ≠ .thr i ch) : s'.thr i = s.thr i := by
  cases a with
  | setVer g v => simp only [step, Option.some.injEq] at hs; subst hs; rfl
  | setDenied g b => simp only [step, Option.some.injEq] at hs; subst hs; rfl
  | thr tid ch =>
    have hne : i ≠ tid := fun e => ha ch (by rw [e])
    simp only [step, Option.map_eq_some_iff] at hs
    obtain ⟨s1, h1, rfl⟩ := hs
    rw [thr_tick]
    have frame : ∀ (s0 : St) (pc : PC), s0.thr i = s.thr i → (setPc s0 tid pc).thr i = s.thr i := by
      intro s0 pc h0; simp [setPc, hne, h0]
    have frameH : ∀ (s0 : St) (ph : Phase), s0.thr i = s.thr i → (setPh s0 tid ph).thr i = s.thr i := by
      intro s0 ph h0; simp [setPh, hne, h0]
    have frameA : ∀ (s0 : St) (g cs : Nat) (fd : Option (Nat × Nat × Nat)) (e : Entry) (how : How),
        s0.thr i = s.thr i → (afterProc s0 tid g cs fd e how).thr i = s.thr i := by
      intro s0 g cs fd e how h0; unfold afterProc; split <;> exact frame s0 _ h0
    have frameS : ∀ (d : Nat) (k : Key) (e : Entry), (storeM c s d k e).thr i = s.thr i := by
      intro d k e; unfold storeM; split <;> rfl
    cases ch with
    | call ff g =>
      simp only [tstep] at h1
      split at h1
      · split at h1
        · split at h1
          · simp only [Option.some.injEq] at h1; subst h1; exact frame s _ rfl
          · cases h1
        · simp only [Option.some.injEq] at h1; subst h1; exact frame s _ rfl
      · cases h1
    | acquire =>
      simp only [tstep] at h1
      split at h1
      · simp only [Option.some.injEq] at h1; subst h1; exact frameH _ _ rfl
      · split at h1
        · simp only [Option.some.injEq] at h1; subst h1; simp [pushTest, hne]
        · split at h1
          · simp only [Option.some.injEq] at h1; subst h1; simp [pushTest, hne]
          · cases h1
    | beginExit =>
      simp only [tstep] at h1
      split at h1
      · split at h1
        · simp only [Option.some.injEq] at h1; subst h1; exact frameH _ _ rfl
        · simp only [Option.some.injEq] at h1; subst h1; exact frameH _ _ rfl
        · cases h1
      · cases h1
    | step =>
      simp only [tstep] at h1
      split at h1
      · -- ostep
        generalize (s.thr tid).ph = ph at h1
        cases ph with
        | out => simp [ostep] at h1
        | inBlock => simp [ostep] at h1
        | inNoop => simp [ostep] at h1
        | oerr => simp [ostep] at h1
        | test =>
          simp only [ostep] at h1
          split at h1 <;> (simp only [Option.some.injEq] at h1; subst h1; exact frameH _ _ rfl)
        | act rest =>
          cases rest with
          | nil => simp only [ostep, Option.some.injEq] at h1; subst h1; exact frameH _ _ rfl
          | cons l rest =>
            simp only [ostep, Option.some.injEq] at h1; subst h1
            exact frameH _ _ (by cases l <;> rfl)
        | deact rest =>
          cases rest with
          | nil => simp only [ostep, Option.some.injEq] at h1; subst h1; exact frameH _ _ rfl
          | cons l rest =>
            simp only [ostep] at h1
            split at h1
            · simp only [Option.some.injEq] at h1; subst h1; exact frameH _ _ (by cases l <;> rfl)
            · simp only [Option.some.injEq] at h1; subst h1; exact frameH _ _ rfl
        | release =>
          simp only [ostep] at h1
          split at h1
          · simp only [Option.some.injEq] at h1; subst h1; exact frameH _ _ rfl
          · simp only [Option.some.injEq] at h1; subst h1; simp [popTo, hne]
      · -- cstep
        generalize (s.thr tid).pc = pc at h1
        cases pc with
        | idle => simp [cstep] at h1
        | f0 f g cs =>
          simp only [cstep] at h1
          split at h1
          · split at h1 <;> (simp only [Option.some.injEq] at h1; subst h1; exact frame s _ rfl)
          · simp only [Option.some.injEq] at h1; subst h1; exact frame s _ rfl
        | f1 f g cs d t0 =>
          simp only [cstep] at h1
          split at h1 <;> (simp only [Option.some.injEq] at h1; subst h1; exact frame s _ rfl)
        | p0 g cs fd =>
          simp only [cstep] at h1
          split at h1
          · split at h1
            · split at h1 <;> (simp only [Option.some.injEq] at h1; subst h1; exact frame s _ rfl)
            · simp only [Option.some.injEq] at h1; subst h1; exact frame s _ rfl
          · simp only [Option.some.injEq] at h1; subst h1; exact frame s _ rfl
        | p1 g cs fd pd t0 =>
          simp only [cstep] at h1
          split at h1
          · simp only [Option.some.injEq] at h1; subst h1; exact frameA s _ _ _ _ _ rfl
          · simp only [Option.some.injEq] at h1; subst h1; exact frame s _ rfl
        | p2 g cs fd od =>
          simp only [cstep] at h1
          split at h1
          · simp only [Option.some.injEq] at h1; subst h1; exact frame s _ rfl
          · split at h1
            · simp only [Option.some.injEq] at h1; subst h1; exact frame s _ rfl
            · simp only [Option.some.injEq] at h1; subst h1; exact frameA s _ _ _ _ _ rfl
        | p4 g cs fd pd e =>
          simp only [cstep, Option.some.injEq] at h1; subst h1
          exact frameA _ _ _ _ _ _ (frameS pd _ e)
        | f4 f g cs d e how =>
          simp only [cstep, Option.some.injEq] at h1; subst h1
          exact frame _ _ (frameS d _ e)
        | ret g cs e how => simp only [cstep, Option.some.injEq] at h1; subst h1; exact frame s _ rfl
        | retErr g cs => simp only [cstep, Option.some.injEq] at h1; subst h1; exact frame s _ rfl

/- ------------------------------------------------------------------ nested levels are no-ops -/

/-- only the outermost level of a thread's stack is an activating one -/
def shapeOK : List Bool → Prop
  | [] => True
  | [b] => b = true
  | false :: (b :: r) => shapeOK (b :: r)
  | true :: _ :: _ => False

theorem shapeOK_true {rest : List Bool} (h : shapeOK (true :: rest)) : rest = [] := by
  cases rest with
  | nil => rfl
  | cons b r => cases h

theorem shapeOK_false {rest : List Bool} (h : shapeOK (false :: rest)) : rest ≠ [] ∧ shapeOK rest := by
  cases rest with
  | nil => cases h
  | cons b r => exact ⟨by simp, h⟩

def NOK (aF : Option Nat) (stack : List Bool) : Phase → Prop
  | .out => stack = []
  | .test => stack ≠ [] → aF ≠ none
  | .act rest => stack = [] ∧ (Lvl.front ∉ rest → aF ≠ none)
  | .inBlock => stack = [] ∧ aF ≠ none
  | .inNoop => aF ≠ none
  | .deact _ => stack = []
  | .release => stack ≠ [] → aF ≠ none
  | .oerr => stack = []

structure NInv (s : St) : Prop where
  ok : ∀ i, NOK s.attrF (s.thr i).stack (s.thr i).ph
  shape : ∀ i, shapeOK (s.thr i).stack

theorem cstep_attrF {c : CCfg2} {s s1 : St} (tid : Nat) (pc : PC) (h : cstep c s tid pc = some s1) : s1.attrF = s.attrF := by
  have hA : ∀ (s0 : St) (g cs : Nat) (fd : Option (Nat × Nat × Nat)) (e : Entry) (how : How),
      (afterProc s0 tid g cs fd e how).attrF = s0.attrF := by
    intro s0 g cs fd e how; unfold afterProc; split <;> rfl
  have hS : ∀ (d : Nat) (k : Key) (e : Entry), (storeM c s d k e).attrF = s.attrF := by
    intro d k e; unfold storeM; split <;> rfl
  cases pc with
  | idle => simp [cstep] at h
  | f0 f g cs =>
    simp only [cstep] at h
    split at h
    · split at h <;> (simp only [Option.some.injEq] at h; subst h; rfl)
    · simp only [Option.some.injEq] at h; subst h; rfl
  | f1 f g cs d t0 =>
    simp only [cstep] at h
    split at h <;> (simp only [Option.some.injEq] at h; subst h; rfl)
  | p0 g cs fd =>
    simp only [cstep] at h
    split at h
    · split at h
      · split at h <;> (simp only [Option.some.injEq] at h; subst h; rfl)
      · simp only [Option.some.injEq] at h; subst h; rfl
    · simp only [Option.some.injEq] at h; subst h; rfl
  | p1 g cs fd pd t0 =>
    simp only [cstep] at h
    split at h
    · simp only [Option.some.injEq] at h; subst h; exact hA _ _ _ _ _ _
    · simp only [Option.some.injEq] at h; subst h; rfl
  | p2 g cs fd od =>
    simp only [cstep] at h
    split at h
    · simp only [Option.some.injEq] at h; subst h; rfl
    · split at h
      · simp only [Option.some.injEq] at h; subst h; rfl
      · simp only [Option.some.injEq] at h; subst h; exact hA _ _ _ _ _ _
  | p4 g cs fd pd e =>
    simp only [cstep, Option.some.injEq] at h; subst h
    rw [hA]; exact hS _ _ _
  | f4 f g cs d e how =>
    simp only [cstep, Option.some.injEq] at h; subst h
    exact hS _ _ _
  | ret g cs e how => simp only [cstep, Option.some.injEq] at h; subst h; rfl
  | retErr g cs => simp only [cstep, Option.some.injEq] at h; subst h; rfl

/-- the moving thread's own part of NInv -/
theorem tstep_nok {c : CCfg2} (hF : Lvl.front ∈ c.actSeq) {s s1 : St} (tid : Nat) (ch : Choice) (hL : LInv c s)
    (hN : NOK s.attrF (s.thr tid).stack (s.thr tid).ph) (hS : shapeOK (s.thr tid).stack)
    (h : tstep c s tid ch = some s1) :
    NOK s1.attrF (s1.thr tid).stack (s1.thr tid).ph ∧ shapeOK (s1.thr tid).stack := by
  cases ch with
  | call ff g =>
    simp only [tstep] at h
    split at h
    · split at h
      · split at h
        · simp only [Option.some.injEq] at h; subst h
          rw [thr_setPc_self]; exact ⟨hN, hS⟩
        · cases h
      · simp only [Option.some.injEq] at h; subst h
        rw [thr_setPc_self]; exact ⟨hN, hS⟩
    · cases h
  | acquire =>
    simp only [tstep] at h
    split at h
    · rename_i hcnd
      simp only [Option.some.injEq] at h; subst h
      rw [thr_setPh_self]
      rw [hcnd.2.1] at hN
      exact ⟨fun hne => absurd hN hne, hS⟩
    · split at h
      · rename_i hcnd
        simp only [Option.some.injEq] at h; subst h
        rw [hcnd.2.2] at hN
        have hthr : (pushTest s tid true).thr tid = { s.thr tid with ph := .test, stack := true :: (s.thr tid).stack } := by
          simp [pushTest]
        rw [hthr]
        refine ⟨fun _ => hN.2, ?_⟩
        show shapeOK (true :: (s.thr tid).stack)
        rw [hN.1]; rfl
      · split at h
        · rename_i hcnd
          simp only [Option.some.injEq] at h; subst h
          rw [hcnd.2.2] at hN
          have hne : (s.thr tid).stack ≠ [] := by
            have := hL.owner tid hcnd.2.1
            rw [hcnd.2.2] at this; exact this
          have hthr : (pushTest s tid false).thr tid = { s.thr tid with ph := .test, stack := false :: (s.thr tid).stack } := by
            simp [pushTest]
          rw [hthr]
          refine ⟨fun _ => hN, ?_⟩
          show shapeOK (false :: (s.thr tid).stack)
          cases hst : (s.thr tid).stack with
          | nil => exact absurd hst hne
          | cons b r => rw [hst] at hS; exact hS
        · cases h
  | beginExit =>
    simp only [tstep] at h
    split at h
    · cases hph : (s.thr tid).ph with
      | inBlock =>
        rw [hph] at h hN
        simp only [Option.some.injEq] at h; subst h
        rw [thr_setPh_self]; exact ⟨hN.1, hS⟩
      | inNoop =>
        rw [hph] at h hN
        simp only [Option.some.injEq] at h; subst h
        rw [thr_setPh_self]; exact ⟨fun _ => hN, hS⟩
      | out => rw [hph] at h; cases h
      | test => rw [hph] at h; cases h
      | act r => rw [hph] at h; cases h
      | deact r => rw [hph] at h; cases h
      | release => rw [hph] at h; cases h
      | oerr => rw [hph] at h; cases h
    · cases h
  | step =>
    simp only [tstep] at h
    split at h
    · cases hph : (s.thr tid).ph with
      | out => rw [hph] at h; simp [ostep] at h
      | inBlock => rw [hph] at h; simp [ostep] at h
      | inNoop => rw [hph] at h; simp [ostep] at h
      | oerr => rw [hph] at h; simp [ostep] at h
      | test =>
        rw [hph] at h hN
        simp only [ostep] at h
        split at h
        · rename_i d hd
          simp only [Option.some.injEq] at h; subst h
          rw [thr_setPh_self]
          refine ⟨?_, hS⟩
          show s.attrF ≠ none
          have hd' : s.attrF = some d := hd
          rw [hd']; simp
        · rename_i hnone
          simp only [Option.some.injEq] at h; subst h
          rw [thr_setPh_self]
          refine ⟨⟨?_, fun hn => absurd hF hn⟩, hS⟩
          show (s.thr tid).stack = []
          cases hst : (s.thr tid).stack with
          | nil => rfl
          | cons b r =>
            have := hN (by rw [hst]; simp)
            have hnone' : s.attrF = none := hnone
            exact absurd hnone' this
      | act rest =>
        rw [hph] at h hN
        cases rest with
        | nil =>
          simp only [ostep, Option.some.injEq] at h; subst h
          rw [thr_setPh_self]
          exact ⟨⟨hN.1, hN.2 (by simp)⟩, hS⟩
        | cons l rest =>
          simp only [ostep, Option.some.injEq] at h; subst h
          have hthr : (actSt s tid l).thr = s.thr := by cases l <;> rfl
          rw [thr_setPh_self, hthr]
          refine ⟨⟨hN.1, fun hn => ?_⟩, hS⟩
          show (actSt s tid l).attrF ≠ none
          cases l with
          | front => simp [actSt]
          | proc =>
            have : (actSt s tid Lvl.proc).attrF = s.attrF := rfl
            rw [this]
            exact hN.2 (mem_of_not_mem_tail hn (by decide))
      | deact rest =>
        rw [hph] at h hN
        cases rest with
        | nil =>
          simp only [ostep, Option.some.injEq] at h; subst h
          rw [thr_setPh_self]
          exact ⟨fun hne => absurd hN hne, hS⟩
        | cons l rest =>
          simp only [ostep] at h
          split at h
          · simp only [Option.some.injEq] at h; subst h
            have hthr : (delAttr s l).thr = s.thr := by cases l <;> rfl
            rw [thr_setPh_self, hthr]; exact ⟨hN, hS⟩
          · simp only [Option.some.injEq] at h; subst h
            rw [thr_setPh_self]
            refine ⟨?_, hS⟩
            cases c.delGuard
            · exact hN
            · exact hN
      | release =>
        rw [hph] at h hN
        simp only [ostep] at h
        split at h
        · rename_i hs
          simp only [Option.some.injEq] at h; subst h
          rw [thr_setPh_self]; exact ⟨hs, hS⟩
        · rename_i b rest hs
          simp only [Option.some.injEq] at h; subst h
          have hthr : (popTo s tid (if b = true then Phase.inBlock else Phase.inNoop) rest).thr tid =
              { s.thr tid with ph := (if b = true then Phase.inBlock else Phase.inNoop), stack := rest } := by simp [popTo]
          rw [hthr]
          have haF : s.attrF ≠ none := hN (by rw [hs]; simp)
          rw [hs] at hS
          cases b with
          | true =>
            have hr := shapeOK_true hS
            subst hr
            exact ⟨⟨rfl, haF⟩, trivial⟩
          | false =>
            exact ⟨haF, (shapeOK_false hS).2⟩
    · rename_i hpc
      obtain ⟨s1', h1, _, h3, h4, _⟩ := cstep_prog c s tid (s.thr tid).pc hpc
      rw [h1] at h
      simp only [Option.some.injEq] at h; subst h
      rw [h3, h4, cstep_attrF tid _ h1]; exact ⟨hN, hS⟩

/-- a thread that is outside every block cannot change the front-end attribute -/
theorem tstep_out_attrF {c : CCfg2} {s s1 : St} (tid : Nat) (ch : Choice) (hout : (s.thr tid).ph = .out)
    (h : tstep c s tid ch = some s1) : s1.attrF = s.attrF := by
  cases ch with
  | call ff g =>
    simp only [tstep] at h
    split at h
    · split at h
      · split at h
        · simp only [Option.some.injEq] at h; subst h; rfl
        · cases h
      · simp only [Option.some.injEq] at h; subst h; rfl
    · cases h
  | acquire =>
    simp only [tstep] at h
    split at h
    · simp only [Option.some.injEq] at h; subst h; rfl
    · split at h
      · simp only [Option.some.injEq] at h; subst h; rfl
      · split at h
        · simp only [Option.some.injEq] at h; subst h; rfl
        · cases h
  | beginExit =>
    simp only [tstep, hout] at h
    split at h <;> cases h
  | step =>
    simp only [tstep] at h
    split at h
    · rw [hout] at h; simp [ostep] at h
    · exact cstep_attrF tid _ h

theorem ninv_init : NInv St.init := ⟨fun _ => rfl, fun _ => trivial⟩

theorem step_ninv {c : CCfg2} (hF : Lvl.front ∈ c.actSeq) {s s' : St} (a : Action) (hL : LInv c s) (hN : NInv s)
    (h : step c s a = some s') : NInv s' := by
  cases a with
  | setVer g v => simp only [step, Option.some.injEq] at h; subst h; exact ⟨hN.ok, hN.shape⟩
  | setDenied g b => simp only [step, Option.some.injEq] at h; subst h; exact ⟨hN.ok, hN.shape⟩
  | thr tid ch =>
    have hother : ∀ i, i ≠ tid → s'.thr i = s.thr i := fun i hi =>
      other_keeps_thread i _ h (fun ch' e => by injection e with e1 _; exact hi e1.symm)
    simp only [step, Option.map_eq_some_iff] at h
    obtain ⟨s1, h1, rfl⟩ := h
    obtain ⟨hok, hsh⟩ := tstep_nok hF tid ch hL (hN.ok tid) (hN.shape tid) h1
    refine ⟨fun i => ?_, fun i => ?_⟩
    · by_cases hi : i = tid
      · rw [hi]; exact hok
      · rw [hother i hi]
        show NOK s1.attrF (s.thr i).stack (s.thr i).ph
        by_cases hout : (s.thr tid).ph = .out
        · rw [tstep_out_attrF tid ch hout h1]; exact hN.ok i
        · -- the mover holds the lock, so thread i is outside every block: NOK does not look at the attribute
          have hl := hL.own tid hout
          have hio : (s.thr i).ph = .out := Decidable.byContradiction (fun hne => by
            have := hL.own i hne
            rw [hl] at this
            exact hi (Option.some.inj this).symm)
          have := hN.ok i
          rw [hio] at this ⊢
          exact this
    · by_cases hi : i = tid
      · rw [hi]; exact hsh
      · rw [hother i hi]; exact hN.shape i

theorem reach_ninv {c : CCfg2} (hc : c.Covers) (hF : Lvl.front ∈ c.actSeq) {s : St} (h : Reach c s) : NInv s := by
  induction h with
  | init => exact ninv_init
  | step a hr hs ih => exact step_ninv hF a (reach_inv hc hr).l ih hs

end Psutil.C16.Conc2
