/-
  Spec/C10.lean — what `nowrap=True` promises, recomputed from the whole history each time
  (no incremental state, no look at the algorithm). Import-free.

  For a function `n` and a device `k`: take the nowrap=True snapshots of `n`, newest first,
  since the last `cache_clear`; the *epoch* of `k` is the longest newest-first run of
  snapshots that all list `k` (so it restarts when the device was absent from a snapshot —
  including a snapshot listing no device at all). The promised value of counter `i` is the
  newest raw value plus, for every consecutive pair in the epoch where the counter went
  backwards, the value it had just before.
-/
import PsutilModel.Model.C10
namespace Psutil.C10.Spec
open Psutil.C10

/-- nowrap=True snapshots of function `n` since its last clear, newest first -/
def snapsStep (n : Name) (s : List Raw) : Op → List Raw
  | .call m nowrap raw => if m = n ∧ nowrap = true then raw :: s else s
  | .clear m => if m = n then [] else s
  | .clearAll => []

def snapsOf (n : Name) (h : List Op) : List Raw := h.foldl (snapsStep n) []

/-- counter tuples of `k` in its current epoch, newest first -/
def epochVals (k : Key) : List Raw → List (List Nat)
  | [] => []
  | r :: rs =>
    match r.lookup k with
    | none => []
    | some v => v :: epochVals k rs

/-- sum of the values counter `i` had just before each backwards step (newest-first list) -/
def wrapSum (i : Nat) : List (List Nat) → Nat
  | new :: old :: rest =>
    (if tupleAt new i < tupleAt old i then tupleAt old i else 0) + wrapSum i (old :: rest)
  | _ => 0

/-- promised tuple for device `k` given the snapshots (newest first) -/
def expectedTuple (snaps : List Raw) (k : Key) : Option (List Nat) :=
  match epochVals k snaps with
  | [] => none
  | v :: rest => some (v.mapIdx fun i x => x + wrapSum i (v :: rest))

/-- promised result of a `nowrap=True` call of `n` with snapshot `raw` after history `h` -/
def expected (h : List Op) (n : Name) (raw : Raw) : Raw :=
  raw.map fun kv => (kv.1, ((expectedTuple (raw :: snapsOf n h) kv.1).getD kv.2))

/-! ## System-wide form: field-wise sum over the devices -/

/-- field `i` of the system-wide result = Σ over the listed devices of their field `i`;
    as many fields as the first device has -/
def totalOf (r : Raw) : List Nat :=
  match r with
  | [] => []
  | kv :: _ => (List.range kv.2.length).map fun i => (r.map fun e => tupleAt e.2 i).sum

/-- promised value of counter `i` of device `k` after the snapshots `snaps` (newest first) -/
def valueAt (snaps : List Raw) (k : Key) (i : Nat) : Nat :=
  ((expectedTuple snaps k).getD []).getD i 0

/-- promised field `i` of the system-wide form when the newest snapshot is `r` -/
def totalField (snaps : List Raw) (r : Raw) (i : Nat) : Nat :=
  (r.map fun kv => valueAt (r :: snaps) kv.1 i).sum

/-! ## "Stays present" at the level of the kernel's listing (what the property statement says),
     independent of which devices a given form of the call hands to `wrap_numbers`.
     `pastNewestFirst`: the earlier public operations, newest first, as
     (function is disk?, kind) where kind = `none` for a cache_clear reaching this function,
     `some (nowrap, perdev, names listed by the kernel)` for a call of this function. -/

/-- index (newest = 0) of the previous per-device `nowrap=True` call of the same function such
    that no cache_clear lies in between and `k` was listed by the kernel at every `nowrap=True`
    call of that function in between (of either form); `none` if there is none. -/
def prevPresent (k : Key) : List (Option (Bool × Bool × List Key)) → Option Nat
  | [] => none
  | none :: _ => none                                   -- cache_clear: history forgotten
  | some (nowrap, perdev, names) :: rest =>
    if nowrap then
      if names.contains k then
        if perdev then some 0 else (prevPresent k rest).map (· + 1)
      else none                                         -- the device was away: it starts afresh
    else (prevPresent k rest).map (· + 1)

end Psutil.C10.Spec
