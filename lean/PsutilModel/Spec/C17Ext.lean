/-
  Spec/C17Ext.lean — what C17 promises for the entry points modelled in Model/C17Ext.lean, written
  from getifaddrs(3), netdevice(7), fstab(5)/getmntent(3), sysinfo(2) and getpriority(2) — not from
  psutil's algorithm.
-/
import PsutilModel.Model.C17Ext
import PsutilModel.Spec.C17
namespace Psutil.C17.Spec
open Psutil.C17

/-! ### getifaddrs(3)

    "ifa_addr … may be NULL; ifa_netmask: the netmask associated with ifa_addr, if applicable for
    the address family; depending on whether the bit IFF_BROADCAST or IFF_POINTOPOINT is set in
    ifa_flags (only one can be set at a time), either ifa_broadaddr will contain the broadcast
    address associated with ifa_addr or ifa_dstaddr the destination address of the point-to-point
    interface."  Linux ABI numbers: AF_INET 2, AF_INET6 10, AF_PACKET 17, IFF_BROADCAST 0x2,
    IFF_POINTOPOINT 0x10; `struct sockaddr_ll`: sll_halen at 11, sll_addr from 12. -/

/-- hardware address carried by a link-level sockaddr -/
def hwAddr (s : Sock) : Bytes := (s.store.drop 12).take (s.store.getD 11 0)

/-- how an address belonging to an entry of family `fam` is shown; `hw` renders a non-empty
    hardware address -/
def sockText (hw : Bytes → Option Bytes) (fam : Nat) (o : Option Sock) : Val :=
  match o with
  | none => .none
  | some s =>
    if fam = 2 ∨ fam = 10 then (match s.text with | some t => .str t | none => .none)
    else if fam = 17 then (match hw (hwAddr s) with | some t => .str t | none => .none)
    else .none

/-- one row `(name, family, address, netmask, broadcast, ptp)`; entries without an address, or
    whose address cannot be shown, are not listed -/
def ifRow (hw : Bytes → Option Bytes) (e : IfEntry) : Option (List Val) :=
  match e.addr with
  | none => none
  | some a =>
    match sockText hw a.fam e.addr with
    | .none => none
    | t =>
      some [.str e.name, .int a.fam, t, sockText hw a.fam e.netmask,
            (if e.flags / 2 % 2 = 1 then sockText hw a.fam e.ifu else .none),
            (if e.flags / 2 % 2 = 0 ∧ e.flags / 16 % 2 = 1 then sockText hw a.fam e.ifu else .none)]

def ifRows (hw : Bytes → Option Bytes) (es : List IfEntry) : List (List Val) := es.filterMap (ifRow hw)

/-- what the C library guarantees about one sockaddr of the list (glibc ifaddrs.c: every sockaddr
    lives in a `union sockaddr_us` and a link-level address is stored only if it fits in it;
    netmask / broadcast / destination have the family of the address they belong to): -/
structure SockWF (fam : Nat) (s : Sock) : Prop where
  /-- INET families: own family = the entry's, `need` = sizeof its struct, text fits NI_MAXHOST -/
  inet : (fam = 2 → s.fam = 2 ∧ s.need = 16 ∧ 16 ≤ s.store.length)
  inet6 : (fam = 10 → s.fam = 10 ∧ s.need = 28 ∧ 28 ≤ s.store.length)
  text : ∀ t, s.text = some t → t.length < 1025
  /-- link level: the stored address lies inside the object -/
  link : fam = 17 → 12 + s.store.getD 11 0 ≤ s.store.length ∧ s.store.getD 11 0 ≤ 255

def optWF (fam : Nat) (o : Option Sock) : Prop := ∀ s, o = some s → SockWF fam s

structure EntryWF (e : IfEntry) : Prop where
  addr : ∀ a, e.addr = some a → SockWF a.fam a ∧ optWF a.fam e.netmask ∧ optWF a.fam e.ifu

/-! ### mount table lines (fstab(5), getmntent(3))

    "Fields are separated by tabs or spaces; … space, tab, newline and backslash in a field are
    written \040 \011 \012 \134." -/

def escapeByte (c : Nat) : Bytes :=
  if c = 32 then [92, 48, 52, 48] else if c = 9 then [92, 48, 49, 49]
  else if c = 10 then [92, 48, 49, 50] else if c = 92 then [92, 49, 51, 52] else [c]

def escapeName (b : Bytes) : Bytes := b.flatMap escapeByte

/-- the line the kernel prints for a mount entry: four escaped fields and the two numbers -/
def renderMnt (m : Mnt) : Bytes :=
  escapeName m.dev ++ [32] ++ escapeName m.dir ++ [32] ++ escapeName m.typ ++ [32] ++ escapeName m.opts
    ++ [32, 48, 32, 48]

/-! ### sysinfo(2): `unsigned long totalram, freeram, sharedram, bufferram, totalswap, freeswap;
    unsigned int mem_unit` — psutil documents (total, free, buffers, shared, swap total, swap free,
    unit) -/

def sysinfoOrder : List String :=
  ["totalram", "freeram", "bufferram", "sharedram", "totalswap", "freeswap", "mem_unit"]

def sysinfoTuple (info : String → Nat) : List Slot := sysinfoOrder.map (fun f => .val (info f))

/-- member values a kernel can store -/
def SysinfoWF (info : String → Nat) : Prop :=
  (∀ f ∈ sysinfoOrder, f ≠ "mem_unit" → info f < 2 ^ 64) ∧ info "mem_unit" < 2 ^ 32

/-! ### getpriority(2): "since a successful call can legitimately return -1, clear errno prior to
    the call and check it afterwards" — the result is the kernel's answer, whatever errno held -/

def getPriority (k : Except Nat Int) : PrioOut :=
  match k with
  | .ok v => .value v
  | .error c => .osError c

end Psutil.C17.Spec
