/-
  Spec/C05Range.lean — the PID range of the kernel, from its documentation (not from psutil):

    proc(5), /proc/sys/kernel/pid_max: "the value at which PIDs wrap around (i.e., the value in this file is one
    greater than the maximum PID) … On 64-bit systems, pid_max can be set to any value up to 2^22
    (PID_MAX_LIMIT, approximately 4 million)."  include/linux/threads.h: PID_MAX_LIMIT = 4 * 1024 * 1024.

  So every PID a process table can show lies in [0, 2^22) — and ANYWHERE in it (systemd raises pid_max to the
  limit on 64-bit machines). The property statement quantifies over "every process table … any number of
  processes": the tree methods must not depend on how large a listed PID is. The specification itself
  (Spec/C05.lean, Spec/C05Dyn.lean) never looks at the magnitude of a PID; this file only names the range.
-/
import PsutilModel.Model.C05Dyn
namespace Psutil.C05.Spec
open Psutil.C05

/-- PID_MAX_LIMIT of 64-bit Linux: every PID the kernel hands out is below it -/
def pidMaxLimit : Nat := 4194304

/-- every listed PID is one the kernel can hand out -/
def PidsInRange (T : Table) : Prop := ∀ r ∈ T, r.pid < pidMaxLimit

def XPidsInRange (T : XTable) : Prop := ∀ r ∈ T, r.pid < pidMaxLimit

/-- a world that shows no process at a PID from `lim` on -/
def InRangeL (lim : Nat) (look : Look) : Prop := ∀ p, lim ≤ p → look p = none

def InRangeW (lim : Nat) (w : XWorld) : Prop := ∀ p, lim ≤ p → w p = .gone

/-- the four worlds of a `parent()` step that go through a construction show nothing from `lim` on -/
def InRangeS (lim : Nat) (s : PStep) : Prop := InRangeW lim s.wi ∧ InRangeW lim s.wp

end Psutil.C05.Spec
