/-
  Spec/C16Rec.lean — the first clause of the property for records with independent fields, written from the
  statement: "inside a oneshot() block every Process method returns what it would return OUTSIDE the block at
  the moment its underlying source was first read in that block; after the block exits — normally or by an
  exception — the next call reads fresh data; nesting blocks changes nothing".

  `outside c r l` is what public method `r` returns outside any block when the kernel's record is `l`: the
  method's own computation on a record of its own. The specification keeps a depth counter and, for the current
  outermost block, the kernel record as it was when the source was first read in that block — nothing else:
  no cache attribute, no dict, no memoisation, no notion of WHICH other methods ran before.
-/
import PsutilModel.Model.C16Rec
namespace Psutil.C16.Rec.RSpec
open Psutil.C16.Rec

/-- what `p.<r>()` returns outside a block while the kernel's record is `l` -/
def outside (c : RCfg) (r : Route) (l : Line) : Except Err Ans :=
  match parse c.fields l with
  | none => .error .indexError
  | some rec => (runUses rec (usesOf c r)).2

structure SSt where
  depth : Nat
  frozen : Option Line        -- the record at the first read of the source in the current outermost block

def SSt.init : SSt := ⟨0, none⟩

def callS (c : RCfg) (r : Route) (ss : SSt) (l : Line) : SSt × Except Err Ans :=
  match ss.depth with
  | 0 => (ss, outside c r l)
  | _ + 1 =>
    match ss.frozen with
    | some l0 => (ss, outside c r l0)
    | none => ({ ss with frozen := some l }, outside c r l)

def enterS (ss : SSt) : SSt := { ss with depth := ss.depth + 1 }

/-- leaving a level, normally or by an exception: the outermost one forgets everything -/
def exitS (ss : SSt) : SSt :=
  match ss.depth with
  | 0 => ss
  | 1 => ⟨0, none⟩
  | n + 2 => { ss with depth := n + 1 }

structure SSys where
  ss : SSt
  line : Line

def stepS (c : RCfg) (y : SSys) : Op → SSys × Out
  | .enter => (⟨enterS y.ss, y.line⟩, .unit)
  | .exit _ => (⟨exitS y.ss, y.line⟩, .unit)
  | .call i =>
    match c.routes[i]? with
    | none => (y, .badIndex)
    | some r => (⟨(callS c r y.ss y.line).1, y.line⟩, .ret (callS c r y.ss y.line).2)
  | .setLine l => (⟨y.ss, l⟩, .unit)

def outsR (c : RCfg) : SSys → List Op → List Out
  | _, [] => []
  | y, op :: ops => (stepS c y op).2 :: outsR c (stepS c y op).1 ops

/-- kernel-format assumption: every record the kernel publishes has the positions the parser insists on -/
def lineOK (c : RCfg) (l : Line) : Prop := (parse c.fields l).isSome = true

instance (c : RCfg) (l : Line) : Decidable (lineOK c l) := by unfold lineOK; infer_instance

def opOK (c : RCfg) : Op → Prop
  | .setLine l => lineOK c l
  | _ => True

end Psutil.C16.Rec.RSpec
