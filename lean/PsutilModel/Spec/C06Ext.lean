/-
  Spec/C06Ext.lean — the world around a process record, described from the kernel's side:
  the device nodes under /dev, the `btime` line of /proc/stat, the task directory of a process
  whose threads may end while it is being read. Written from proc(5) / the property statement,
  not from psutil's code. Import-free (Base + Spec/C06 only).
-/
import PsutilModel.Spec.C06
namespace Psutil.C06.Spec

/-! ## /dev -/

/-- what a path matched by `/dev/tty*` or `/dev/pts/*` is when it is looked at -/
inductive NodeKind
  | vanished              -- unlinked between the listing and the look (a pty that was closed)
  | chr (rdev : Nat)      -- a character device with that device number
  | other (rdev : Nat)    -- anything else (regular file, directory: `st_rdev` 0; block device: its number)
  deriving DecidableEq, Repr

/-- `path` is a terminal device whose number is `nr` -/
def IsTerminalOf (listing : List (Bytes × NodeKind)) (nr : Nat) (path : Bytes) : Prop :=
  (path, NodeKind.chr nr) ∈ listing

/-- "tty number mapped to its device path": a path of a character device with that number;
    none exactly when there is no such device -/
def TerminalOk (listing : List (Bytes × NodeKind)) (nr : Nat) (out : Option Bytes) : Prop :=
  match out with
  | some p => IsTerminalOf listing nr p
  | none => ∀ p, ¬ IsTerminalOf listing nr p

/-- every listed path is a device node or has vanished (true of a stock /dev) -/
def AllDevices (listing : List (Bytes × NodeKind)) : Prop :=
  ∀ e ∈ listing, ∀ r, e.2 ≠ NodeKind.other r

/-! ## the public process name: kernel name + command line -/

/-- `argv[0]` as a path: an optional directory part, then the last component (no `/` in it) -/
structure ExePath where
  dir : Option Bytes
  base : Bytes

def ExePath.WF (p : ExePath) : Prop := 47 ∉ p.base

def ExePath.render (p : ExePath) : Bytes :=
  match p.dir with
  | some d => d ++ [47] ++ p.base
  | none => p.base

/-- TASK_COMM_LEN - 1: a comm of this length may be the truncation of a longer name -/
def commMax : Nat := 15

/-- Documented behaviour of the public `Process.name()`: the kernel name (comm), except that a name
    the kernel may have TRUNCATED (15 bytes) is replaced by the last path component of `argv[0]` when
    that component starts with it ("gnome-keyring-d" → "gnome-keyring-daemon"). A name shorter than 15
    bytes is never replaced: for it the result is the comm, byte for byte. -/
def publicName (comm : Bytes) (arg0 : Option ExePath) : Bytes :=
  match arg0 with
  | some p => if commMax ≤ comm.length ∧ comm <+: p.base then p.base else comm
  | none => comm

/-- /proc/<pid>/cmdline: the arguments, each followed by a NUL -/
def renderCmdline (args : List Bytes) : Bytes := (args.map fun a => a ++ [0]).flatten

/-! ## /proc/stat -/

/-- /proc/stat as far as boot time is concerned: `pre` = the lines the kernel prints before
    (cpu, cpuN, intr, ctxt), then `btime <seconds>`, then `post` (processes, procs_running, …). -/
structure ProcStatW where
  pre : List Bytes
  btime : Nat
  post : List Bytes

/-- "btime" -/
def keyBtime : Bytes := [98, 116, 105, 109, 101]

def btimeLine (n : Nat) : Bytes := keyBtime ++ [32] ++ renderDec n

/-- one `\n`-terminated line per fact -/
def renderProcStat (w : ProcStatW) : Bytes :=
  joinWith [10] (w.pre ++ [btimeLine w.btime] ++ w.post ++ [[]])

/-- no line contains a newline; no earlier line starts with "btime" -/
def ProcStatW.WF (w : ProcStatW) : Prop :=
  (∀ l ∈ w.pre ++ w.post, 10 ∉ l) ∧ (∀ l ∈ w.pre, keyBtime.isPrefixOf l = false)

/-! ## /proc/<pid>/task -/

/-- `a <= b` for ASCII strings as Python compares them: lexicographic by code point, a proper
    prefix first ("10" <= "100" <= "9") -/
def strLE : Bytes → Bytes → Bool
  | [], _ => true
  | _ :: _, [] => false
  | a :: as, b :: bs => a < b || (a == b && strLE as bs)

/-- `order` lists exactly the directory entries `listing`, in ascending order of their NAMES
    (the decimal tids compared as strings, not as numbers) -/
def IsNameOrder (listing order : List Nat) : Prop :=
  order.Perm listing ∧ order.Pairwise fun a b => strLE (renderDec a) (renderDec b) = true

/-- the view promised for the threads that could be read, given the order in which they are
    reported: a vanished thread (`none`) contributes nothing -/
def threadsValue (tck : Nat) (order : List Nat) (recs : Nat → Option StatRec) : List ThreadV :=
  order.filterMap fun t => (recs t).map (threadView tck)

end Psutil.C06.Spec
