/-
  Spec/C17R3.lean — round 3: what C17 promises for the paths added in Model/C17R3.lean, written from getifaddrs(3),
  sysfs' `address` format, the kernel's "%s\t%s\n" /proc/filesystems format and fstab(5) — not from psutil's algorithm.
-/
import PsutilModel.Model.C17R3
import PsutilModel.Spec.C17Ext
import PsutilModel.Base.C09Text
namespace Psutil.C17.Spec
open Psutil.C17

/-- a hardware address the way the kernel shows it (`/sys/class/net/<nic>/address`): `aa:bb:…`; an empty one is not shown -/
def hwText (d : Bytes) : Option Bytes := if d = [] then none else some (macText d)

/-- getifaddrs(3): "On error, -1 is returned, and errno is set to indicate the error" — the caller sees OSError(errno), a
    Python exception, WHATEVER the library left in `*ifap`; on success the rows of `ifRows` with the kernel's hardware text -/
def nifOutcome : GiaAns → NifOut
  | .fail e _ => .osError e
  | .ok es => .rows (ifRows hwText es)

/-- /proc/filesystems as fs/filesystems.c prints it: one "%s\t%s\n" line per registered type -/
def renderFsText (fs : List FsEntry) : Bytes := Psutil.C09.unlines (fs.map renderFsLine)

/-- a line of a mounts file: a mount entry as the kernel prints it, a comment (`#` after optional blanks: fstab(5)),
    or a line of blanks -/
inductive MLine
  | entry (m : Mnt)
  | comment (indent : Bytes) (text : Bytes)
  | blank (ws : Bytes)

def renderMLine : MLine → Bytes
  | .entry m => renderMnt m
  | .comment ind t => ind ++ 35 :: t
  | .blank ws => ws

def entryOf : MLine → Option Mnt
  | .entry m => some m
  | _ => none

def entriesOf : List MLine → List Mnt
  | [] => []
  | .entry m :: r => m :: entriesOf r
  | _ :: r => entriesOf r

/-- mount entries the quantifier ranges over: four non-empty fields (any bytes), the device not starting with `#`,
    the printed line within the 4095 bytes libc's line buffer holds -/
structure MntOk (m : Mnt) : Prop where
  dev : m.dev ≠ []
  dir : m.dir ≠ []
  typ : m.typ ≠ []
  opts : m.opts ≠ []
  nohash : m.dev.head? ≠ some 35
  fits : (renderMnt m).length ≤ 4095

def MLineOk : MLine → Prop
  | .entry m => MntOk m
  | .comment ind t => (∀ c ∈ ind, isBlank c = true) ∧ ind.length + 1 + t.length ≤ 4095
  | .blank ws => (∀ c ∈ ws, isBlank c = true) ∧ ws.length ≤ 4095

end Psutil.C17.Spec
