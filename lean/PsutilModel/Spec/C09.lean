/-
  Spec/C09.lean — what C09 promises, written from the kernel's documented file formats and
  psutil's documented field names; no look at the parsing algorithm. Import-free (Base only).

  Kernel side (trusted transcriptions):
  * `/proc/net/dev` (net/core/net-procfs.c): two header lines, then per interface
      "%6s: %7llu %7llu %4llu %4llu %4llu %5llu %10llu %9llu %8llu %7llu %4llu %4llu %4llu %5llu %7llu %10llu\n"
    = name, then receive {bytes packets errs drop fifo frame compressed multicast},
    then transmit {bytes packets errs drop fifo colls carrier compressed}.
  * `/proc/diskstats` (Documentation/admin-guide/iostats.rst, block/genhd.c):
      "%4d %7d %s" major minor name, then 11 counters (2.6 … 4.17), +4 discard counters (4.18+),
      +2 flush counters (5.5+), one blank between fields; 2.6.0–2.6.24 partitions: 4 counters
      (reads, sectors read, writes, sectors written).
  * the 15-field "Linux 2.4" layout is psutil's own (`major minor reads name` + the other ten
    counters + one more field), pinned by its test-suite (`test_emulate_kernel_2_4`).
  * `/sys/block` lists whole disks (not partitions); a `/` in a device name appears as `!`.
  * `/sys/block/<disk>/stat` and `/sys/block/<disk>/<partition>/stat` (Documentation/block/stat.rst,
    block/genhd.c `part_stat_show`): one line, the same eleven counters as `/proc/diskstats`
    (2.6 … 4.17), +4 discard counters (4.18+), +2 flush counters (5.5+), each right-aligned in
    eight columns ("%8lu %8lu %8llu %8u …"), one blank between, "\n" at the end.
  User side: the documented fields of `snetio`, `sdiskio` (sectors × 512 = bytes), `sdiskusage`.
-/
import PsutilModel.Base.Bytes
import PsutilModel.Base.Dec
import PsutilModel.Base.C09Text
import PsutilModel.Base.C09Sysfs
namespace Psutil.C09.Spec

/-- `%<w>s`: right-aligned in a minimum width -/
def padLeft (w : Nat) (s : Bytes) : Bytes := List.replicate (w - s.length) 32 ++ s

/-- `%<w>llu` -/
def numW (w n : Nat) : Bytes := padLeft w (renderDec n)

/-! ### /proc/net/dev -/

structure Iface where
  name : Bytes
  rxBytes : Nat
  rxPackets : Nat
  rxErrs : Nat
  rxDrop : Nat
  rxFifo : Nat
  rxFrame : Nat
  rxCompressed : Nat
  rxMulticast : Nat
  txBytes : Nat
  txPackets : Nat
  txErrs : Nat
  txDrop : Nat
  txFifo : Nat
  txColls : Nat
  txCarrier : Nat
  txCompressed : Nat

/-- (minimum width, value) of the sixteen columns, in the kernel's order -/
def Iface.cells (i : Iface) : List (Nat × Nat) :=
  [(7, i.rxBytes), (7, i.rxPackets), (4, i.rxErrs), (4, i.rxDrop), (4, i.rxFifo), (5, i.rxFrame),
   (10, i.rxCompressed), (9, i.rxMulticast),
   (8, i.txBytes), (7, i.txPackets), (4, i.txErrs), (4, i.txDrop), (4, i.txFifo), (5, i.txColls),
   (7, i.txCarrier), (10, i.txCompressed)]

/-- " %<w>llu" for every cell -/
def renderCells : List (Nat × Nat) → Bytes
  | [] => []
  | wv :: r => 32 :: numW wv.1 wv.2 ++ renderCells r

def renderNetLine (i : Iface) : Bytes := padLeft 6 i.name ++ 58 :: renderCells i.cells

/-- the whole file; `h1`, `h2` are the two header lines (without `\n`) -/
def renderNetDev (h1 h2 : Bytes) (ifs : List Iface) : Bytes :=
  unlines (h1 :: h2 :: ifs.map renderNetLine)

/-- an interface name: non-empty and free of C-locale whitespace. A superset of what the
    kernel's `dev_valid_name` accepts (which also rejects `/`, `:` and 0xa0): in particular
    the ASCII separators 0x1c–0x1f and every byte ≥ 0x80 may occur anywhere in it. -/
def KName (n : Bytes) : Prop := n ≠ [] ∧ ∀ c ∈ n, isWs c = false

def netFieldNames : List String :=
  ["bytes_sent", "bytes_recv", "packets_sent", "packets_recv", "errin", "errout", "dropin", "dropout"]

/-- the eight documented fields of `snetio` for one interface -/
def documented8 (i : Iface) : List (String × Nat) :=
  [("bytes_sent", i.txBytes), ("bytes_recv", i.rxBytes), ("packets_sent", i.txPackets),
   ("packets_recv", i.rxPackets), ("errin", i.rxErrs), ("errout", i.txErrs),
   ("dropin", i.rxDrop), ("dropout", i.txDrop)]

/-! ### /proc/diskstats -/

/-- the eleven counters of Documentation/iostats, in file order -/
structure Io11 where
  reads : Nat
  readsMerged : Nat
  sectorsRead : Nat
  msReading : Nat
  writes : Nat
  writesMerged : Nat
  sectorsWritten : Nat
  msWriting : Nat
  inFlight : Nat
  msIo : Nat
  msWeighted : Nat

def Io11.cols (s : Io11) : List Nat :=
  [s.reads, s.readsMerged, s.sectorsRead, s.msReading, s.writes, s.writesMerged, s.sectorsWritten,
   s.msWriting, s.inFlight, s.msIo, s.msWeighted]

inductive Rec
  /-- 14 + `ext.length` fields: `ext = []` (2.6 … 4.17), 4 discard counters (4.18+),
      4 + 2 flush counters (5.5+), possibly more in the future -/
  | full (s : Io11) (ext : List Nat)
  /-- 7 fields: partition line of 2.6.0–2.6.24 -/
  | part (reads sectorsRead writes sectorsWritten : Nat)
  /-- 15 fields: psutil's "Linux 2.4" layout -/
  | old24 (s : Io11) (last : Nat)

structure Dev where
  major : Nat
  minor : Nat
  name : Bytes
  /-- a partition (not listed in `/sys/block`) as opposed to a whole disk -/
  partition : Bool
  stat : Rec

/-- " %lu" for every value -/
def spaced : List Nat → Bytes
  | [] => []
  | n :: r => 32 :: renderDec n ++ spaced r

def renderDiskLine (d : Dev) : Bytes :=
  numW 4 d.major ++ 32 :: numW 7 d.minor ++
    match d.stat with
    | .full s ext => 32 :: d.name ++ spaced (s.cols ++ ext)
    | .part a b c e => 32 :: d.name ++ spaced [a, b, c, e]
    | .old24 s last => spaced [s.reads] ++ 32 :: d.name ++ spaced (s.cols.drop 1 ++ [last])

/-- the field counts a `/proc/diskstats` line can have (7, 14, 15, 18, 20 and any future
    extension of the 18-field layout); every other count is not a layout → ValueError -/
def layoutKnown (n : Nat) : Bool := n == 7 || n == 14 || n == 15 || decide (18 ≤ n)

def renderDiskstats (devs : List Dev) : Bytes := unlines (devs.map renderDiskLine)

/-- name of a block device's directory under `/sys/block` -/
def sysName (name : Bytes) : Bytes := name.map fun c => if c = 47 then 33 else c

/-- entries of `/sys/block`: the whole disks -/
def sysBlock (devs : List Dev) : List Bytes :=
  (devs.filter fun d => !d.partition).map fun d => sysName d.name

def sectorSize : Nat := 512

def diskFieldNames : List String :=
  ["read_count", "write_count", "read_bytes", "write_bytes", "read_time", "write_time",
   "read_merged_count", "write_merged_count", "busy_time"]

def doc11 (s : Io11) : List (String × Nat) :=
  [("read_count", s.reads), ("write_count", s.writes),
   ("read_bytes", s.sectorsRead * sectorSize), ("write_bytes", s.sectorsWritten * sectorSize),
   ("read_time", s.msReading), ("write_time", s.msWriting),
   ("read_merged_count", s.readsMerged), ("write_merged_count", s.writesMerged),
   ("busy_time", s.msIo)]

/-- the nine documented fields of `sdiskio` for one device -/
def documented9 : Rec → List (String × Nat)
  | .full s _ => doc11 s
  | .old24 s _ => doc11 s
  | .part r sr w sw =>
    [("read_count", r), ("write_count", w), ("read_bytes", sr * sectorSize),
     ("write_bytes", sw * sectorSize), ("read_time", 0), ("write_time", 0),
     ("read_merged_count", 0), ("write_merged_count", 0), ("busy_time", 0)]

/-! ### what the user is promised -/

/-- field-wise sum: for every documented field, the sum of that field over all rows -/
def sumFields (names : List String) (rows : List (List (String × Nat))) : List (String × Nat) :=
  names.map fun f => (f, (rows.map fun r => (r.lookup f).getD 0).sum)

inductive Expect
  | none
  | emptyDict
  | perdev (d : List (Bytes × List (String × Nat)))
  | total (t : List (String × Nat))

def expectNet (pernic : Bool) (ifs : List Iface) : Expect :=
  if ifs.isEmpty then (if pernic then .emptyDict else .none)
  else if pernic then .perdev (ifs.map fun i => (i.name, documented8 i))
  else .total (sumFields netFieldNames (ifs.map documented8))

def wholeDisks (devs : List Dev) : List Dev := devs.filter fun d => !d.partition

def expectDisk (perdisk : Bool) (devs : List Dev) : Expect :=
  if perdisk then
    (if devs.isEmpty then .emptyDict else .perdev (devs.map fun d => (d.name, documented9 d.stat)))
  else
    (if (wholeDisks devs).isEmpty then .none
     else .total (sumFields diskFieldNames ((wholeDisks devs).map fun d => documented9 d.stat)))

/-! ### /sys/block (the source when `/proc/diskstats` does not exist) -/

/-- "%8lu %8lu … %8u\n" -/
def renderStatLine : List Nat → Bytes
  | [] => [10]
  | v :: r => numW 8 v ++ renderCells (r.map fun x => (8, x)) ++ [10]

/-- the `stat` attribute: 11 (+4, +6, …) counters -/
def renderStat (s : Io11) (ext : List Nat) : Bytes := renderStatLine (s.cols ++ ext)

def statName : Bytes := [115, 116, 97, 116]

/-- a partition's directory `/sys/block/<disk>/<partition>/` -/
structure SysPart where
  minor : Nat
  name : Bytes
  s : Io11
  ext : List Nat
  /-- the other attribute files (`dev`, `size`, `start`, …) -/
  others : List (Bytes × Bytes)
  /-- attribute directories (`holders/`, `power/`, …): no file called `stat` anywhere below -/
  attrs : List SysDir

/-- a whole disk's directory `/sys/block/<disk>/` -/
structure SysDisk where
  major : Nat
  minor : Nat
  name : Bytes
  s : Io11
  ext : List Nat
  others : List (Bytes × Bytes)
  attrs : List SysDir
  parts : List SysPart

def partDir (p : SysPart) : SysDir :=
  .node (sysName p.name) (p.others ++ [(statName, renderStat p.s p.ext)]) p.attrs

def diskDir (d : SysDisk) : SysDir :=
  .node (sysName d.name) (d.others ++ [(statName, renderStat d.s d.ext)]) (d.parts.map partDir ++ d.attrs)

/-- the directories listed in `/sys/block` -/
def renderSysfs (disks : List SysDisk) : List SysDir := disks.map diskDir

/-- the same kernel state as `/proc/diskstats` presents it: the disk, then its partitions -/
def SysDisk.devs (d : SysDisk) : List Dev :=
  ⟨d.major, d.minor, d.name, false, .full d.s d.ext⟩ ::
    d.parts.map fun p => ⟨d.major, p.minor, p.name, true, .full p.s p.ext⟩

def sysDevs (disks : List SysDisk) : List Dev := disks.flatMap SysDisk.devs

/-- sysfs presents a device under its directory name (`/` → `!`) -/
def sysfsNamed (devs : List Dev) : List Dev := devs.map fun d => { d with name := sysName d.name }

/-- what the user is promised when the counters come from `/sys/block`: exactly what
    `/proc/diskstats` would have given for the same kernel state — every device under the name the
    kernel gives it (`cciss/c0d0`, not the directory name `cciss!c0d0`) -/
def expectSysfs (perdisk : Bool) (disks : List SysDisk) : Expect :=
  expectDisk perdisk (sysDevs disks)

/-! ### disk_usage -/

structure StatVfs where
  bsize : Nat
  frsize : Nat
  blocks : Nat
  bfree : Nat
  bavail : Nat
  files : Nat
  ffree : Nat
  favail : Nat
  flag : Nat
  namemax : Nat

structure UsageSpec where
  total : Int
  used : Int
  free : Int
  percent : Rat     -- before rounding to one decimal

/-- total = all blocks; used = total − free-for-root; free = available to unprivileged users;
    percent = used / (used + free) · 100 (0 when used + free = 0) -/
def usage (st : StatVfs) : UsageSpec :=
  let total : Int := st.blocks * st.frsize
  let used : Int := total - st.bfree * st.frsize
  let free : Int := st.bavail * st.frsize
  { total := total, used := used, free := free,
    percent := if used + free = 0 then 0 else (used : Rat) / ((used + free : Int) : Rat) * 100 }

end Psutil.C09.Spec
