/-
  Spec/C04.lean — what C04 promises, written from the property statement, not from the
  algorithm. Imports the model only for the shared vocabulary (kernel, events, ops, outputs,
  the `dict` primitives).

  * `IsPidList k l`  — `l` is THE ascending list of the PIDs in the process table.
  * `Exists k n`     — `pid_exists(n)` must be True exactly for listed PIDs.
  * a ghost machine with ONE shared cache that is updated immediately (no private copies, no
    set differences, no publish-at-the-end): an iteration, when it starts, looks at the table
    once, drops cached entries whose PID is not listed or was flagged recycled by
    `is_running()`, and then walks the listed PIDs in ascending order; at each PID it yields
    the cached object if there is one, else a fresh one which it caches; a PID it has to touch
    (to build the object or to fill `info`) and which has vanished meanwhile is skipped and its
    entry dropped; `cache_clear()` empties the cache.
-/
import PsutilModel.Model.C04
namespace Psutil.C04.Spec
open Psutil.C04

/-- PIDs in the process table (thread ids are not in it) -/
def listed (k : Kernel) : List Nat := k.procs.map (·.pid)

def IsPidList (k : Kernel) (l : List Nat) : Prop :=
  l.Pairwise (· < ·) ∧ ∀ n, n ∈ l ↔ ∃ p ∈ k.procs, p.pid = n

def Exists (k : Kernel) (n : Int) : Prop := 0 ≤ n ∧ ∃ p ∈ k.procs, (p.pid : Int) = n

/-- ghost object: the incarnation it was built for, and whether `is_running()` already said no -/
structure GObj where
  pid : Nat
  birth : Nat
  dead : Bool
  deriving DecidableEq, Repr

inductive SGSt
  | fresh
  | running (todo : List Nat)
  | done
  deriving DecidableEq, Repr

structure SGen where
  attrs : Attrs
  st : SGSt
  deriving DecidableEq, Repr

structure SSt where
  k : Kernel
  cache : PMap
  flagged : List Nat
  objs : List GObj
  gens : List SGen
  deriving DecidableEq, Repr

def SSt.init (k : Kernel) : SSt := ⟨k, [], [], [], []⟩

def SSt.setGen (s : SSt) (g : Nat) (st : SGSt) : SSt :=
  { s with gens := s.gens.modify g fun x => { x with st := st } }

/-- does filling `info` for these names have to look at the process? -/
def touches (noAccess : List String) (ls : List String) : Bool := ls.any fun n => !noAccess.contains n

/-- keys of the `info` dict: exactly the requested names (all valid names for `attrs=[]`) -/
def infoKeys (valid : List String) (l : List String) : List String :=
  if l.isEmpty then valid else dedup l

/-- the cached object of `p`, or a fresh one if `p` is (still) there -/
def scached (s : SSt) (p : Nat) : Option (SSt × Ref) :=
  match s.cache.get p with
  | some r => some (s, r)
  | none =>
    match s.k.statStart p with
    | none => none
    | some b =>
      let r := s.objs.length
      some ({ s with objs := s.objs ++ [⟨p, b, false⟩], cache := s.cache.set p r }, r)

inductive SFill
  | ok (info : Option (List String))
  | vanished
  | bad

/-- what `attrs` asks for at a PID which is / is not there any more -/
def sfill (valid noAccess : List String) (attrs : Attrs) (alive : Bool) : SFill :=
  match attrs with
  | .none => .ok none
  | .names l =>
    if !(l.all valid.contains) then .bad
    else
      let ks := infoKeys valid l
      if touches noAccess ks && !alive then .vanished else .ok (some ks)

/-- walk the remaining listed PIDs until the next yield -/
def svisit (valid noAccess : List String) (attrs : Attrs) (g : Nat) : SSt → List Nat → SSt × Out
  | s, [] => (s.setGen g .done, .stop)
  | s, p :: rest =>
    match scached s p with
    | none => svisit valid noAccess attrs g { s with cache := s.cache.remove p } rest      -- vanished
    | some (s1, r) =>
      match sfill valid noAccess attrs (s.k.statStart p).isSome with
      | .ok info => (s1.setGen g (.running rest), .yield r p info)
      | .bad => (s1.setGen g .done, .exc "ValueError")
      | .vanished => svisit valid noAccess attrs g { s1 with cache := s1.cache.remove p } rest

def sIsRunning (s : SSt) (r : Ref) (o : GObj) : SSt × Bool :=
  if o.dead then (s, false)
  else
    match s.k.statStart o.pid with
    | none => ({ s with objs := s.objs.set r { o with dead := true } }, false)
    | some b =>
      if b == o.birth then (s, true)
      else ({ s with objs := s.objs.set r { o with dead := true }, flagged := addFlag s.flagged o.pid }, false)

/-- one operation of the history; `none` = the statement makes no promise about the result -/
def sstep (valid noAccess : List String) (s : SSt) : Op → SSt × Option Out
  | .kev e => ({ s with k := s.k.apply e }, some .unit)
  | .pids =>
    match sortNat (listed s.k) with
    | [] => (s, none)
    | l => (s, some (.pidList l))
  | .pidExists n =>
    -- an empty process table is outside the statement's world (the caller itself is a process)
    if n = 0 ∧ (listed s.k).isEmpty then (s, none)
    else (s, some (.bool (decide (0 ≤ n) && (listed s.k).contains n.toNat)))
  | .iter attrs => ({ s with gens := s.gens ++ [⟨attrs, .fresh⟩] }, some (.gen s.gens.length))
  | .next g mid =>
    match s.gens[g]? with
    | none => ({ s with k := s.k.applyAll mid }, some .badArg)
    | some gen =>
      match gen.st with
      | .done => ({ s with k := s.k.applyAll mid }, some .stop)
      | .running todo =>
        let (s', o) := svisit valid noAccess gen.attrs g { s with k := s.k.applyAll mid } todo
        (s', some o)
      | .fresh =>
        let ls := listed s.k
        if ls.isEmpty then ({ s.setGen g .done with k := s.k.applyAll mid }, none)
        else
          let c1 := s.cache.filter fun e => !s.flagged.contains e.1
          let c2 := c1.filter fun e => ls.contains e.1
          let s1 := { s with cache := c2, flagged := [], k := s.k.applyAll mid }
          let (s', o) := svisit valid noAccess gen.attrs g s1 (sortNat ls)
          (s', some o)
  | .close g =>
    match s.gens[g]? with
    | none => (s, some .badArg)
    | some _ => (s.setGen g .done, some .unit)
  | .cacheClear => ({ s with cache := [] }, some .unit)
  | .isRunning r =>
    match s.objs[r]? with
    | none => (s, some .badArg)
    | some o => let (s', b) := sIsRunning s r o; (s', some (.bool b))

/-- What `is_running()` FINDS when it says "recycled": the table holds the number `pid`, but as another
    incarnation (start time) than `birth`, the one the object was built for. The statement's clause "an entry
    whose PID was found recycled by is_running() is replaced by a fresh object" speaks about objects for which
    an `is_running()` call was made in such a table. -/
def Recycled (k : Kernel) (pid birth : Nat) : Prop := ∃ b, k.statStart pid = some b ∧ b ≠ birth

def strace (valid noAccess : List String) (s : SSt) : List Op → List (Option Out)
  | [] => []
  | op :: ops => (sstep valid noAccess s op).2 :: strace valid noAccess (sstep valid noAccess s op).1 ops

end Psutil.C04.Spec
