/-
  Spec/C17.lean — what property C17 promises, written from the property statement and from the
  documented record formats (utmp(5), proc(5) "filesystems", netdevice(7), C11 §6.5.7), not from
  psutil's algorithm.
-/
import PsutilModel.Model.C17
namespace Psutil.C17.Spec
open Psutil.C17

/-! ### login records (utmp(5), glibc x86-64 layout) -/

/-- one login record, field by field; strings are the raw fixed-width arrays -/
structure Utmp where
  typ : Int              -- short ut_type
  pid : Int              -- pid_t ut_pid
  line : Bytes           -- char ut_line[32]
  id : Bytes             -- char ut_id[4]
  user : Bytes           -- char ut_user[32]
  host : Bytes           -- char ut_host[256]
  exit : Bytes           -- struct exit_status (4 bytes)
  session : Bytes        -- int32 (4 bytes)
  sec : Int              -- int32 ut_tv.tv_sec
  usec : Bytes           -- int32 (4 bytes)
  addr : Bytes           -- int32[4] (16 bytes)
  unused : Bytes         -- char[20]

/-- widths and integer ranges of a well-formed record -/
structure Utmp.WF (r : Utmp) : Prop where
  typ : -32768 ≤ r.typ ∧ r.typ < 32768
  pid : -2147483648 ≤ r.pid ∧ r.pid < 2147483648
  sec : -2147483648 ≤ r.sec ∧ r.sec < 2147483648
  line : r.line.length = 32
  id : r.id.length = 4
  user : r.user.length = 32
  host : r.host.length = 256
  exit : r.exit.length = 4
  session : r.session.length = 4
  usec : r.usec.length = 4
  addr : r.addr.length = 16
  unused : r.unused.length = 20

/-- `k` little-endian bytes of `n` -/
def encLE : Nat → Nat → Bytes
  | 0, _ => []
  | k + 1, n => n % 256 :: encLE k (n / 256)

/-- two's complement, `k` bytes -/
def encS (k : Nat) (v : Int) : Bytes := encLE k (v % (256 ^ k : Nat)).toNat

/-- the 384 bytes of a record as they lie in the file -/
def render (r : Utmp) : Bytes :=
  encS 2 r.typ ++ ([0, 0] ++ (encS 4 r.pid ++ (r.line ++ (r.id ++ (r.user ++ (r.host ++
    (r.exit ++ (r.session ++ (encS 4 r.sec ++ (r.usec ++ (r.addr ++ r.unused)))))))))))

def renderAll (rs : List Utmp) : Bytes := rs.flatMap render

/-- a fixed-width field holds a string that ends at the first NUL **or at the field's end** -/
def cut (field : Bytes) : Bytes := field.takeWhile (fun c => c != 0)

def display0 : Bytes := [58, 48]                -- ":0"
def display00 : Bytes := [58, 48, 46, 48]       -- ":0.0"
def localhost : Bytes := [108, 111, 99, 97, 108, 104, 111, 115, 116]

/-- ':0' / ':0.0' shown as localhost -/
def hostRule (h : Bytes) : Bytes := if h = display0 ∨ h = display00 then localhost else h

/-- `suser(name, terminal, host, started, pid)`; an empty terminal is `None` -/
def row (r : Utmp) : List Val :=
  [.str (cut r.user),
   (if cut r.line = [] then .none else .str (cut r.line)),
   .str (hostRule (cut r.host)),
   .int r.sec,
   .int r.pid]

/-- only USER_PROCESS (= 7) records are logins -/
def users (rs : List Utmp) : List (List Val) :=
  (rs.filter (fun r => r.typ == 7)).map row

/-! ### mount table -/

/-- one line of /proc/filesystems: `seq_printf(m, "%s\t%s\n", requires_dev ? "" : "nodev", name)` -/
structure FsEntry where
  nodev : Bool
  name : Bytes

def nodevWord : Bytes := [110, 111, 100, 101, 118]
def zfs : Bytes := [122, 102, 115]

def renderFsLine (e : FsEntry) : Bytes := (if e.nodev then nodevWord else []) ++ [9] ++ e.name

/-- the disk-backed file system types: the non-`nodev` ones, plus zfs when registered -/
def diskFs (fs : List FsEntry) : List Bytes :=
  (fs.filter (fun e => !e.nodev || e.name == zfs)).map (·.name)

def noneWord : Bytes := [110, 111, 110, 101]
def devRoot : Bytes := [47, 100, 101, 118, 47, 114, 111, 111, 116]
def rootfsWord : Bytes := [114, 111, 111, 116, 102, 115]

/-- the device a mount entry is shown with: `none` is "no device"; `/dev/root` and `rootfs` are
    replaced by the real root device when that is known -/
def shownDev (rootDev : Option Bytes) (dev : Bytes) : Bytes :=
  if dev = noneWord then []
  else if dev = devRoot ∨ dev = rootfsWord then
    (match rootDev with
     | some r => if r = [] then dev else r
     | none => dev)
  else dev

def shown (rootDev : Option Bytes) (m : Mnt) : Mnt := { m with dev := shownDev rootDev m.dev }

/-- kept unless all=True: entries with a device and a disk-backed type -/
def Kept (disk : List Bytes) (m : Mnt) : Prop := m.dev ≠ [] ∧ m.typ ∈ disk

instance (disk : List Bytes) (m : Mnt) : Decidable (Kept disk m) := by unfold Kept; infer_instance

def partitions (all : Bool) (disk : List Bytes) (rootDev : Option Bytes) (ms : List Mnt) : List Mnt :=
  (ms.map (shown rootDev)).filter (fun m => all || decide (Kept disk m))

/-! ### bounded copy, MAC text -/

/-- content of a `char[n]` after a bounded, always terminated copy of the C string `src` -/
def boundedCopy (src : Bytes) (n : Nat) : Bytes := (cut src).take (n - 1)

def hexLower (n : Nat) : Nat := if n < 10 then 48 + n else 87 + n

/-- `aa:bb:cc` — two lower-case hex digits per byte, colon separated (sysfs `address`) -/
def macText : Bytes → Bytes
  | [] => []
  | [b] => [hexLower (b / 16), hexLower (b % 16)]
  | b :: c :: rest => [hexLower (b / 16), hexLower (b % 16), 58] ++ macText (c :: rest)

/-! ### C `int` -/

def Representable (x : Int) : Prop := -2147483648 ≤ x ∧ x ≤ 2147483647

/-- a pid is acceptable iff it is a non-negative `pid_t` -/
def PidOk (v : Int) : Prop := 0 ≤ v ∧ v ≤ 2147483647

/-! ### NIC speed (ethtool(8) / linux/ethtool.h: 32-bit Mb/s value split in two 16-bit halves;
    0xFFFFFFFF = SPEED_UNKNOWN; psutil documents 0 when the speed cannot be determined) -/

def nicSpeed (hi lo : Nat) : Int :=
  let u := hi * 65536 + lo
  if u = 4294967295 ∨ u > 2147483647 then 0 else u

/-! ### interface flags (netdevice(7), include/uapi/linux/if.h) -/

def linuxIff : List (Nat × String) :=
  [(0x1, "up"), (0x2, "broadcast"), (0x4, "debug"), (0x8, "loopback"), (0x10, "pointopoint"),
   (0x20, "notrailers"), (0x40, "running"), (0x80, "noarp"), (0x100, "promisc"),
   (0x200, "allmulti"), (0x400, "master"), (0x800, "slave"), (0x1000, "multicast"),
   (0x2000, "portsel"), (0x4000, "automedia"), (0x8000, "dynamic")]

/-- names of the set bits of the 16-bit flags word, lowest bit first -/
def flagNames (flags : Nat) : List String :=
  (linuxIff.filter (fun e => flags / e.1 % 2 == 1)).map (·.2)

end Psutil.C17.Spec
