/-
  Spec/C01.lean — what C01 and C02 promise, stated over the simulated kernel and the *ghost*
  field of each object (the `start` stamp of the incarnation that owned the PID when the object was
  built — `C02_ghost_meaning` ties it to the kernel table at creation time).  Nothing here looks at
  `_ident`, `_gone`, `_pid_reused`, `BOOT_TIME` or at how psutil decides anything.
-/
import PsutilModel.Model.C01
namespace Psutil.C01.Spec
open Psutil.C01

/-- the very incarnation the object was built for is still in the process table (zombie included) -/
def Listed (k : Kernel) (o : PObj) : Prop := ∃ x ∈ k.procs, x.pid = o.pid ∧ x.start = o.ghost

/-- executable form of `Listed` (what the driver prints) -/
def listedB (k : Kernel) (o : PObj) : Bool := k.procs.any fun x => x.pid == o.pid && x.start == o.ghost

/-- zombie flag of the object's own incarnation while it is in the table (what `str(p)` may show then) -/
def ownZombie (k : Kernel) (o : PObj) : Option Bool :=
  (k.procs.find? fun x => x.pid == o.pid && x.start == o.ghost).map (·.zombie)

/-- `open("/proc/pid/stat")` does not fail with PermissionError right now: the PID is free (the open fails with
    ENOENT — nobody there) or its holder's stat file can be read.  An INPUT of the kernel (hidepid mounts, LSMs),
    like the permission answers; the process table itself is not touched by it. -/
def StatOpens (k : Kernel) (pid : Nat) : Prop := k.find pid = none ∨ k.isHidden pid = false

/-- executable form of `StatOpens` (what the driver prints as "readable") -/
def statOpensB (k : Kernel) (pid : Nat) : Bool := (k.find pid).isNone || !k.isHidden pid

/-- two objects denote the same process: same PID, same process start -/
def SameIncarnation (a b : PObj) : Prop := a.pid = b.pid ∧ a.ghost = b.ghost

def sameB (a b : PObj) : Bool := a.pid == b.pid && a.ghost == b.ghost

/-- Linux signal numbers (signal(7): x86, ARM and most other architectures) -/
def SIGKILL : Nat := 9
def SIGTERM : Nat := 15
def SIGCONT : Nat := 18
def SIGSTOP : Nat := 19

/-- number of CPUs a `cpu_set_t` holds (CPU_SET(3): CPU_SETSIZE, "currently 1024") — what
    `sched_setaffinity` can be asked for at most; the kernel keeps the CPUs the process may run on -/
def CPU_SETSIZE : Nat := 1024

/-- the signal each method is documented to send -/
def sigNumber : SigMethod → Nat
  | .send s => s
  | .suspend => SIGSTOP
  | .resume => SIGCONT
  | .terminate => SIGTERM
  | .kill => SIGKILL

/-- a delivered effect reached the process the asking object was built for, under exactly the
    object's PID, and a signal never goes to PID ≤ 0 (a process group) -/
def EffOK (objs : List PObj) (e : Eff) : Prop :=
  ∃ o, objs[e.obj]? = some o ∧ e.pid = (o.pid : Int) ∧ e.owner = some o.ghost ∧ (e.kind = .kill → 0 < e.pid)

/-- … and no OS call of ANY kind is made with a PID ≤ 0: for `kill` that is a process group, for setpriority /
    ioprio_set / sched_setaffinity / prlimit PID 0 means "the calling process" (setpriority(2), ioprio_set(2),
    sched_setaffinity(2), prlimit(2)) — such a call would not reach "the process with PID 0" at all -/
def EffOKStrict (objs : List PObj) (e : Eff) : Prop := EffOK objs e ∧ 0 < e.pid

/-- the values handed to the OS are the values the caller asked for -/
def ArgOK : Call → EffKind → List Int → Prop
  | .signal _ m, .kill, a => a = [(sigNumber m : Int)]
  | .setter _ .nice [v], .set .nice, a => a = [v]
  | .setter _ .ionice [c], .set .ionice, a => a = [c, 0]
  | .setter _ .ionice [c, v], .set .ionice, a => a = [c, v]
  | .setter _ .rlimit args, .set .rlimit, a => a = args
  | .setter _ .affinity [], .set .affinity, a => ∀ c : Int, c ∈ a ↔ (0 ≤ c ∧ c < (CPU_SETSIZE : Int))   -- "all eligible CPUs"
  | .setter _ .affinity (c0 :: cs), .set .affinity, a => ∀ c, c ∈ a ↔ c ∈ c0 :: cs
  | _, _, _ => False

/-- what the driver prints as "requested": kind and raw values (the harness turns an affinity list into a set) -/
def wanted : Call → Option (EffKind × List Int)
  | .signal _ m => some (.kill, [(sigNumber m : Int)])
  | .setter _ .nice [v] => some (.set .nice, [v])
  | .setter _ .ionice [c] => some (.set .ionice, [c, 0])
  | .setter _ .ionice [c, v] => some (.set .ionice, [c, v])
  | .setter _ .rlimit args => some (.set .rlimit, args)
  | .setter _ .affinity [] => some (.set .affinity, (List.range CPU_SETSIZE).map Int.ofNat)
  | .setter _ .affinity (c0 :: cs) => some (.set .affinity, c0 :: cs)
  | _ => none

/-- the calls C01 speaks about: signals and the setting forms -/
def isEffectCall : Call → Bool
  | .signal _ _ | .setter _ _ _ => true
  | _ => false

end Psutil.C01.Spec
