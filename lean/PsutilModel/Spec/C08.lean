/-
  Spec/C08.lean — what `virtual_memory()` / `swap_memory()` promise, written from the
  property statement and from the kernel's file formats, without looking at the algorithm.
  Import-free (the driver evaluates it next to the model).

  Kernel side: renderers of /proc/meminfo (`"%s:%*lu kB\n"`), /proc/zoneinfo (only the shape
  that matters: `low` watermark lines among arbitrary other lines) and /proc/vmstat
  (`"%s %lu\n"`), and the abstract finite maps they are a rendering of.
  User side: the documented formulas over the abstract `MemInfo` map (values in kB as the
  kernel prints them, any subset of the optional keys), in exact rational arithmetic.
-/
import PsutilModel.Base.Bytes
import PsutilModel.Base.Dec
namespace Psutil.C08.Spec

/-- ASCII text as bytes (reduces under `decide`) -/
def K (s : String) : Bytes := s.toList.map Char.toNat

def spaces (n : Nat) : Bytes := List.replicate n 32

/-! ### /proc/meminfo -/

/-- one line `Name:      value kB` (a few lines, e.g. `HugePages_Total:`, carry no unit) -/
structure Entry where
  name : Bytes       -- without the colon
  val : Nat          -- as printed
  pad : Nat          -- blanks beyond the first (the kernel right-aligns the number)
  unit : Bool        -- `" kB"` suffix present
  deriving DecidableEq, Repr

def renderEntry (e : Entry) : Bytes :=
  e.name ++ [58] ++ spaces (e.pad + 1) ++ renderDec e.val ++ (if e.unit then K " kB" else [])

def renderMeminfo (es : List Entry) : Bytes := (es.map fun e => renderEntry e ++ [10]).flatten

/-- names a kernel can print: non-empty, no blanks/newlines (a colon inside the name is allowed:
    the reader splits on blanks, the key it stores is the whole first field) -/
def Entry.WF (e : Entry) : Prop := e.name ≠ [] ∧ NoWs e.name

/-- the abstract meminfo: name ↦ printed value (a later line wins, as for any reader) -/
structure MemInfo where
  get : Bytes → Option Nat

def MemInfo.ofEntries (es : List Entry) : MemInfo :=
  ⟨fun k => (es.reverse.find? (fun e => e.name == k)).map (·.val)⟩

/-- the kernel's figure for key `k`, in bytes (`kB * 1024`) -/
def MemInfo.bytes (m : MemInfo) (k : String) : Option Nat := (m.get (K k)).map (· * 1024)

/-! ### /proc/zoneinfo -/

inductive ZLine
  | low (indent pad v : Nat)              -- `"        low      81"`
  | other (indent : Nat) (body : Bytes)   -- any other line
  deriving DecidableEq, Repr

def renderZLine : ZLine → Bytes
  | .low i p v => spaces i ++ K "low" ++ spaces (p + 1) ++ renderDec v
  | .other i b => spaces i ++ b

def renderZoneinfo (zs : List ZLine) : Bytes := (zs.map fun z => renderZLine z ++ [10]).flatten

/-- the only kernel fact used: no other line, once stripped, begins with `low` -/
def ZLine.WF : ZLine → Prop
  | .low _ _ _ => True
  | .other _ b => 10 ∉ b ∧ startsWith (K "low") (stripWs b) = false

/-- sum of the zones' low watermarks, in pages -/
def lowSum : List ZLine → Nat
  | [] => 0
  | .low _ _ v :: zs => v + lowSum zs
  | .other _ _ :: zs => lowSum zs

/-! ### /proc/vmstat -/

structure VLine where
  name : Bytes
  val : Nat
  deriving DecidableEq, Repr

def renderVLine (l : VLine) : Bytes := l.name ++ [32] ++ renderDec l.val

def renderVmstat (vs : List VLine) : Bytes := (vs.map fun l => renderVLine l ++ [10]).flatten

def vmstatGet (vs : List VLine) (k : Bytes) : Option Nat :=
  (vs.find? (fun l => l.name == k)).map (·.val)

/-! ### virtual_memory: the documented formulas -/

def buffers (m : MemInfo) : Nat := (m.bytes "Buffers").getD 0

/-- page cache plus reclaimable slab -/
def cached (m : MemInfo) : Nat :=
  match m.bytes "Cached" with
  | none => 0
  | some c => c + (m.bytes "SReclaimable").getD 0

/-- `Shmem` (since 2.6.32), `MemShared` on 2.4 kernels -/
def shared (m : MemInfo) : Nat :=
  match m.bytes "Shmem" with
  | some s => s
  | none => (m.bytes "MemShared").getD 0

def active (m : MemInfo) : Nat := (m.bytes "Active").getD 0

/-- `Inactive`, or the sum of the three 2.4-era counters -/
def inactive (m : MemInfo) : Nat :=
  match m.bytes "Inactive" with
  | some i => i
  | none =>
    match m.bytes "Inact_dirty", m.bytes "Inact_clean", m.bytes "Inact_laundry" with
    | some a, some b, some c => a + b + c
    | _, _, _ => 0

def slab (m : MemInfo) : Nat := (m.bytes "Slab").getD 0

/-- used = total - free - cached - buffers, total - free when that is negative -/
def used (total free cached buffers : Nat) : Int :=
  let u : Int := (total : Int) - free - cached - buffers
  if u < 0 then (total : Int) - free else u

/-- integer part of a rational (toward zero) -/
def truncRat (q : Rat) : Int := if 0 ≤ q then q.floor else -((-q).floor)

/-- the kernel's MemAvailable algorithm (commit 34e431b0ae): free minus the low watermarks,
    plus the part of the file LRU and of the reclaimable slab above half of itself / the
    watermark. `wm` in bytes. -/
def kernelEstimate (free wm activeFile inactiveFile slabRecl : Nat) : Rat :=
  let pagecache : Rat := (activeFile : Rat) + inactiveFile
  (free : Rat) - wm + (pagecache - min (pagecache / 2) wm)
    + ((slabRecl : Rat) - min ((slabRecl : Rat) / 2) wm)

/-- the documented fallback: the kernel's algorithm when all of its inputs exist (`wm = none`:
    /proc/zoneinfo unreadable), the historical `free + cached` otherwise -/
def fallbackEstimate (m : MemInfo) (free : Nat) (wm : Option Nat) : Int :=
  match m.bytes "Active(file)", m.bytes "Inactive(file)", m.bytes "SReclaimable", wm with
  | some af, some inf, some sr, some w => truncRat (kernelEstimate free w af inf sr)
  | _, _, _, _ => ((free + (m.bytes "Cached").getD 0 : Nat) : Int)

/-- the kernel's estimate; the fallback when it is absent or zero -/
def availRaw (m : MemInfo) (free : Nat) (wm : Option Nat) : Int :=
  match m.bytes "MemAvailable" with
  | none => fallbackEstimate m free wm
  | some 0 => fallbackEstimate m free wm
  | some a => a

/-- forced into [0, total]: below 0 ↦ 0, above total ↦ free.
    The second arm is what `free(1)` (procps sysinfo.c) documents for containers whose figures
    are distorted, and it lands in [0, total] exactly when free ≤ total — the condition the
    property's own range clause carries ("whenever free <= total"). For free > total the result
    is free > total: `C08_avail_in_range` is therefore conditional and the unconditional reading
    is refuted (`C08_avail_in_range_needs_free_le_total`); integrator's decision: the property
    text stands, no finding. NB this arm is a decision taken from the documented behaviour of
    `free`, not derived from the words "forced into": the statement does not say which value
    inside the range is chosen. -/
def clamp (a : Int) (total free : Nat) : Int :=
  if a < 0 then 0 else if a > total then free else a

/-- (total - available) / total * 100, before rounding; 0 for a zero total -/
def percentExact (total : Nat) (avail : Int) : Rat :=
  if total = 0 then 0 else ((total : Rat) - avail) / total * 100

/-- `r` is `q` rounded to one decimal: a multiple of 1/10 at distance ≤ 1/20; on an exact tie
    either neighbour is "rounded" (binary floating point cannot even represent the tie) -/
def IsRound1 (q r : Rat) : Prop :=
  (∃ k : Int, r = (k : Rat) / 10) ∧ r - q ≤ 1 / 20 ∧ q - r ≤ 1 / 20

/-- metrics reported as 0 with a warning naming them (slab is silently 0) -/
def warned (m : MemInfo) (free : Nat) (wm : Option Nat) : List String :=
  (if (m.get (K "Buffers")).isNone then ["buffers"] else [])
  ++ (if (m.get (K "Cached")).isNone then ["cached"] else [])
  ++ (if (m.get (K "Shmem")).isNone && (m.get (K "MemShared")).isNone then ["shared"] else [])
  ++ (if (m.get (K "Active")).isNone then ["active"] else [])
  ++ (if (m.get (K "Inactive")).isNone
        && !((m.get (K "Inact_dirty")).isSome && (m.get (K "Inact_clean")).isSome
              && (m.get (K "Inact_laundry")).isSome) then ["inactive"] else [])
  ++ (if availRaw m free wm < 0 then ["available"] else [])

structure Vm where
  total : Nat
  available : Int
  percentExact : Rat
  used : Int
  free : Nat
  active : Nat
  inactive : Nat
  buffers : Nat
  cached : Nat
  shared : Nat
  slab : Nat
  warned : List String

/-- what `virtual_memory()` promises for a meminfo map and a low-watermark total `wm` (bytes;
    `none` when /proc/zoneinfo cannot be read). No promise without MemTotal / MemFree. -/
def vm (m : MemInfo) (wm : Option Nat) : Option Vm :=
  match m.bytes "MemTotal", m.bytes "MemFree" with
  | some total, some free =>
    let avail := clamp (availRaw m free wm) total free
    some { total := total, available := avail, percentExact := percentExact total avail,
           used := used total free (cached m) (buffers m), free := free, active := active m,
           inactive := inactive m, buffers := buffers m, cached := cached m, shared := shared m,
           slab := slab m, warned := warned m free wm }
  | _, _ => none

/-! ### swap_memory -/

structure Swap where
  total : Nat
  used : Int
  free : Nat
  percentExact : Rat
  sin : Nat
  sout : Nat
  warned : Bool
  viaSysinfo : Bool

/-- `used / total * 100`, 0 for a zero total -/
def swapPercentExact (total : Nat) (used : Int) : Rat :=
  if total = 0 then 0 else (used : Rat) / total * 100

/-- totals from SwapTotal/SwapFree (kB), from sysinfo(2) (`sysTotal`, `sysFree` in bytes) when
    either is missing; cumulative swapped-in/out BYTES: the kernel's `pswpin` / `pswpout` events
    of /proc/vmstat count PAGES (mm/page_io.c: `count_vm_events(PSWPIN, folio_nr_pages(folio))`),
    so bytes = pages × `page`, the kernel's PAGE_SIZE (4096 on x86; 16384 / 65536 on many arm64,
    ppc64 and loongarch kernels). `vmstat = none`: file unreadable.
    Pair rule (a NAMED DEVIATION from "0 for the affected metric"): the two counters are one
    metric for the warning (its text names both): when only ONE of them is listed BOTH are
    reported 0 with the warning, although the listed one could have been reported. -/
def swap (m : MemInfo) (sysTotal sysFree : Nat) (page : Nat)
    (vmstat : Option (Bytes → Option Nat)) : Swap :=
  let (total, free, via) : Nat × Nat × Bool :=
    match m.bytes "SwapTotal", m.bytes "SwapFree" with
    | some t, some f => (t, f, false)
    | _, _ => (sysTotal, sysFree, true)
  let used : Int := (total : Int) - free
  let io : Option (Nat × Nat) :=
    match vmstat with
    | none => none
    | some g =>
      match g (K "pswpin"), g (K "pswpout") with
      | some i, some o => some (i * page, o * page)
      | _, _ => none
  { total := total, used := used, free := free, percentExact := swapPercentExact total used,
    sin := (io.map (·.1)).getD 0, sout := (io.map (·.2)).getD 0, warned := io.isNone,
    viaSysinfo := via }

end Psutil.C08.Spec
