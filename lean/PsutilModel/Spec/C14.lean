/-
  Spec/C14.lean — what C14 promises, written from the property statement and the kernel's
  documented formats (proc(5): /proc/pid/fd, /proc/pid/fdinfo, /proc/pid/io; open(2): O_ACCMODE,
  O_APPEND), not from psutil's algorithm.

  * a *descriptor table*: every descriptor has a number, a kind, an offset, a flag word and
    possibly closes while psutil is scanning;
  * the kernel-side renderers: the link text of `/proc/<pid>/fd/<n>` and the text of
    `/proc/<pid>/fdinfo/<n>` (`pos:\t%lli\nflags:\t0%o\n…`) and of `/proc/<pid>/io`;
  * the projection the user is promised: `expectedOpenFiles`, `expectedNumFds`, `expectedIo`.

  Only the *types* `Entry`, `Proc`, `FS`, `POpenFile`, `Outcome`, `Exc` are shared with the model.
-/
import PsutilModel.Model.C14Io
namespace Psutil.C14.Spec
open Psutil.C14

/-! ### open(2): what a flag word means -/

/-- the five documented mode strings -/
def mR : Bytes := [114]          -- "r"
def mW : Bytes := [119]          -- "w"
def mA : Bytes := [97]           -- "a"
def mRp : Bytes := [114, 43]     -- "r+"
def mAp : Bytes := [97, 43]      -- "a+"

/-- O_APPEND = 0o2000 (asm-generic ABI: x86, arm, riscv, …): bit 10 of the flag word -/
def appendSet (flags : Nat) : Bool := flags / 1024 % 2 == 1

/-- The mode string implied by a flag word. The access mode is `flags mod 4` (O_ACCMODE = 3):
    0 = O_RDONLY, 1 = O_WRONLY, 2 = O_RDWR; Linux's access mode 3 ("check for read and write
    permission", open(2)) is reported like O_RDWR. O_APPEND turns `w` into `a` and `r+` into
    `a+`; it says nothing about a descriptor that cannot write. No other bit matters. -/
def mode (flags : Nat) : Bytes :=
  match flags % 4 with
  | 0 => mR
  | 1 => if appendSet flags then mA else mW
  | _ => if appendSet flags then mAp else mRp

/-! ### the descriptor table -/

inductive FdKind
  /-- a regular file opened under the absolute path `path`; `deleted` = the kernel marks the
      dentry as unlinked and appends `" (deleted)"` to the link text -/
  | regular (path : Bytes) (deleted : Bool)
  | socket (ino : Nat)
  | pipe (ino : Nat)
  /-- `anon_inode:[eventfd]`, `anon_inode:inotify`, … -/
  | anon (name : Bytes)
  /-- an absolute path that is not a regular file: `/dev/null`, a directory, a FIFO, `/memfd:x` -/
  | device (path : Bytes)
  /-- a link text that is not an absolute path (`net:[4026531840]`, `mnt:[…]`, …) -/
  | relative (target : Bytes)

/-- the errno the kernel answers for a descriptor that is gone -/
abbrev CloseErr := GoneErr

/-- when a descriptor that was listed by `listdir` goes away -/
inductive Stage
  | beforeReadlink (e : CloseErr)      -- readlink of /proc/pid/fd/n fails
  | beforeFdinfo (e : CloseErr)        -- the link was read, opening fdinfo/n fails
  /-- fdinfo/n was opened, then the descriptor went away: the first (`second = false`) or the
      second read of the open file fails -/
  | duringFdinfo (second : Bool) (e : CloseErr)

/-- where the kernel refuses the monitor while it inspects one descriptor (EACCES: the ptrace
    access check of /proc/pid/fd/n and /proc/pid/fdinfo/n fails, e.g. after the target changed
    credentials) -/
inductive DenyAt
  | readlink      -- readlink of /proc/pid/fd/n
  | fdinfo        -- open of /proc/pid/fdinfo/n
  deriving DecidableEq, Repr

structure Fd where
  n : Nat
  kind : FdKind
  pos : Nat
  flags : Nat
  /-- whatever follows the `flags:` line in fdinfo (mnt_id, ino, lock and eventfd lines, …) -/
  tail : Bytes
  closesAt : Option Stage
  /-- the monitor is refused at this access of this descriptor -/
  deniedAt : Option DenyAt := none

def delText : Bytes := [32, 40, 100, 101, 108, 101, 116, 101, 100, 41]      -- " (deleted)"

def ofAscii (s : String) : Bytes := s.toList.map Char.toNat

/-- text of the symlink `/proc/<pid>/fd/<n>` (fs/proc/fd.c, d_path) -/
def linkText : FdKind → Bytes
  | .regular path deleted => if deleted then path ++ delText else path
  | .socket ino => [115, 111, 99, 107, 101, 116, 58, 91] ++ renderDec ino ++ [93]        -- socket:[ino]
  | .pipe ino => [112, 105, 112, 101, 58, 91] ++ renderDec ino ++ [93]                    -- pipe:[ino]
  | .anon name => [97, 110, 111, 110, 95, 105, 110, 111, 100, 101, 58] ++ name            -- anon_inode:name
  | .device path => path
  | .relative target => target

/-- text of `/proc/<pid>/fdinfo/<n>`: `"pos:\t%lli\nflags:\t0%o\n"` followed by further lines -/
def fdinfoText (d : Fd) : Bytes :=
  ([112, 111, 115, 58] ++ [9] ++ renderDec d.pos) ++ 10 ::
    (([102, 108, 97, 103, 115, 58] ++ [9] ++ (48 :: renderRadix octal d.flags)) ++ 10 :: d.tail)

def linkErrOf : CloseErr → LinkErr
  | .enoent => .enoent
  | .esrch => .esrch

/-- what the three accesses answer for one descriptor -/
def renderFd (d : Fd) : Entry :=
  { name := renderDec d.n
    link := match d.closesAt with
      | some (.beforeReadlink e) => .err (linkErrOf e)         -- a descriptor that is gone answers ENOENT
      | _ => if d.deniedAt = some .readlink then .err .eacces else .ok (linkText d.kind)
    info := match d.closesAt with
      | some (.beforeReadlink e) => .openErr e
      | some (.beforeFdinfo e) => .openErr e
      | some (.duringFdinfo second e) =>
        if d.deniedAt = some .fdinfo then .openDenied else .readErr (fdinfoText d) second e
      | none => if d.deniedAt = some .fdinfo then .openDenied else .ok (fdinfoText d) }

/-- a process seen through /proc while one call runs -/
structure World where
  fds : List Fd
  fs : FS
  /-- the process was reaped before the call: `/proc/<pid>` does not exist -/
  goneBefore : Bool
  /-- the process disappears while the scan is at descriptor index `k` (counting from 0):
      from then on nothing under `/proc/<pid>` can be read -/
  diesAt : Option Nat
  /-- the process is a zombie (state `Z` in /proc/pid/stat): it has exited and holds no
      descriptors any more, but its pid is still there -/
  zombie : Bool := false
  /-- `/proc/<pid>/fd` itself may not be listed by the monitor (another user's process, or a
      zombie seen by a non-root monitor: the directory then belongs to root) -/
  dirDenied : Bool := false
  /-- round 3 — the STAGE at which the process of `diesAt = some k` disappears: `false` = before
      the link of descriptor `k` is read, `true` = right after that link was read (before anything
      else under `/proc/<pid>` is opened for it) -/
  diesAfterLink : Bool := false

/-- the table as the scan meets it when the process dies at index `k` -/
def killFrom : Nat → List Fd → List Fd
  | _, [] => []
  | 0, d :: ds => { d with closesAt := some (.beforeReadlink .enoent) } :: killFrom 0 ds
  | k + 1, d :: ds => d :: killFrom k ds

/-- descriptor whose link was still read when the process went away: its fdinfo is gone (unless the
    descriptor had closed even before its link was read) -/
def afterLink (d : Fd) : Fd :=
  match d.closesAt with
  | some (.beforeReadlink _) => d
  | _ => { d with closesAt := some (.beforeFdinfo .enoent) }

/-- the table as the scan meets it when the process dies right AFTER the link of descriptor `k` was read -/
def killAfter : Nat → List Fd → List Fd
  | _, [] => []
  | 0, d :: ds => afterLink d :: killFrom 0 ds
  | k + 1, d :: ds => d :: killAfter k ds

def World.seen (w : World) : List Fd :=
  match w.diesAt with
  | some k => if w.diesAfterLink then killAfter k w.fds else killFrom k w.fds
  | none => w.fds

/-! ### what the user is promised -/

/-- A descriptor is listed iff it points to a regular file by absolute path (a regular file is
    at that path now) and stays open during the scan; then number, offset, flags are the
    kernel's and the mode string is the one the flags imply. -/
def listed (fs : FS) (d : Fd) : Option POpenFile :=
  match d.kind, d.closesAt with
  | .regular path _, none =>
    if fs.isFile path then some ⟨path, d.n, d.pos, mode d.flags, d.flags⟩ else none
  | _, _ => none

/-! ### ground truth (round 3): what the descriptor IS, as opposed to what its link text says

  `FdKind.regular path deleted` is a descriptor whose open file IS a regular file (the kernel knows
  the inode); `listed` above asks the FILE SYSTEM about the link text instead (`fs.isFile path`:
  what the monitor's `os.stat` of that name says now). The two differ when the name was unlinked
  (the open file is still a regular file, nothing is at the name), re-created (another file is at the
  name) or when a non-regular descriptor's text `x (deleted)` loses its marker and `x` is a regular
  file. psutil reads nothing but the link text and the file system, so it cannot tell
  (`C14_ground_truth_unobservable`). -/

/-- the open file behind the descriptor is a regular file -/
def Fd.isReg (d : Fd) : Bool :=
  match d.kind with
  | .regular _ _ => true
  | _ => false

/-- "exactly the descriptors pointing to regular files by absolute path", read with the kernel's
    knowledge of the open file: every still-open `regular` descriptor, under the path it was
    opened at, whatever is at that name now -/
def groundListed (d : Fd) : Option POpenFile :=
  match d.kind, d.closesAt with
  | .regular path _, none => some ⟨path, d.n, d.pos, mode d.flags, d.flags⟩
  | _, _ => none

/-! ### permission: what the monitor is refused

  psutil's documented contract: a call that the operating system refuses for lack of
  permission raises `AccessDenied(pid)` — never a bare PermissionError, and never a silently
  shortened list (the statement says *exactly*). -/

/-- a NON-absolute link text is handed to `os.stat` in one situation only: it ends in `" (deleted)"`
    (the documented rule "the marker is dropped unless a file of the full name exists" looks the
    full name up — relative to the monitor's cwd); that look-up can be refused -/
def textStatDenied (fs : FS) (text : Bytes) : Bool :=
  let t := text.takeWhile (· != 0)
  endsWith delText t && fs.denied t

/-- `os.stat` of the path the descriptor points to is refused (the monitor cannot tell whether
    it is a regular file). Absolute targets are stat'ed; a non-absolute text only for the
    `" (deleted)"` rule (`textStatDenied`) — round 3: no assumption that the file system never
    refuses a non-absolute name. -/
def statDenied (fs : FS) : FdKind → Bool
  | .regular path deleted => fs.denied path || (deleted && fs.denied (path ++ delText))
  | .device path => fs.denied path
  | .anon name => textStatDenied fs (linkText (.anon name))
  | .relative target => textStatDenied fs target
  | _ => false

/-- fdinfo is consulted only for descriptors that were found to point to a regular file -/
def reachesFdinfo (fs : FS) : FdKind → Bool
  | .regular path _ => fs.isFile path
  | _ => false

/-- an access psutil makes for this descriptor fails with ENOENT / ESRCH (the descriptor, or the
    whole process, is gone): the readlink, or — only for a descriptor that reaches that stage — the
    open / a read of its fdinfo -/
def failsGone (fs : FS) (d : Fd) : Bool :=
  match d.closesAt with
  | some (.beforeReadlink _) => true
  | some _ => reachesFdinfo fs d.kind
  | none => false

/-- the process went away while the call was running (some listed descriptor's link had not been
    read, or had just been read, when it died) -/
def World.died (w : World) : Bool :=
  match w.diesAt with | some k => decide (k < w.fds.length) | none => false

/-- the process VANISHED as far as the call can tell: it was gone before the call, or it went away
    during the scan and some access made afterwards failed because of it. (A process that goes
    away after the last access psutil needed — its last descriptor being a socket whose link was
    already read, say — is indistinguishable from one that goes away after the call returned.) -/
def World.vanished (w : World) : Bool :=
  w.goneBefore || (w.died && w.seen.any (failsGone w.fs))

def renderWorld (w : World) : Proc :=
  { fdDir := if w.goneBefore then .err (.gone .enoent)
             else if w.dirDenied then .err .denied else .ok (w.seen.map renderFd)
    alive := !(w.goneBefore || w.died)
    zombie := w.zombie }

/-- the monitor is refused while inspecting this descriptor (a descriptor that is already gone
    when its link is read answers ENOENT, not EACCES) -/
def deniedFd (fs : FS) (d : Fd) : Bool :=
  match d.closesAt with
  | some (.beforeReadlink _) => false
  | some (.beforeFdinfo _) => d.deniedAt == some .readlink || statDenied fs d.kind
  | _ => d.deniedAt == some .readlink || statDenied fs d.kind ||
         (d.deniedAt == some .fdinfo && reachesFdinfo fs d.kind)

/-- the call is refused: the descriptor directory may not be listed, or some descriptor met
    while the process is still there may not be inspected -/
def World.denied (w : World) : Bool := w.dirDenied || w.seen.any (deniedFd w.fs)

def expectedOpenFiles (w : World) : Outcome (List POpenFile) :=
  if w.goneBefore then .exc .noSuchProcess
  else if w.denied then .exc .accessDenied
  else if w.vanished then .exc .noSuchProcess
  else .ok (w.fds.filterMap (listed w.fs))

/-- psutil's documented answer when the per-process directory / file itself cannot be opened
    (`/proc/pid/fd` for open_files and num_fds, `/proc/pid/io` for io_counters): AccessDenied when
    refused; for ENOENT / ESRCH: NoSuchProcess when the process is gone, ZombieProcess when it is a
    zombie. (Nothing is promised about ENOENT / ESRCH on a running process.) -/
def expectedOnError (alive zombie : Bool) : FileErr → Option Exc
  | .denied => some .accessDenied
  | .gone _ => if !alive then some .noSuchProcess else if zombie then some .zombieProcess else none

def expectedNumFds (w : World) : Outcome Nat :=
  if w.goneBefore then .exc .noSuchProcess
  else if w.dirDenied then .exc .accessDenied
  else .ok w.fds.length

/-! ### well-formed tables: what the kernel can print, minus the inherently ambiguous texts

  The link text `"x (deleted)"` is ambiguous by the kernel's own format (file literally called
  `x (deleted)` vs unlinked `x`). psutil documents the rule "the suffix is dropped unless a file
  with the full name exists"; the table is required to stay clear of the ambiguity. -/

def stripDel (p : Bytes) : Bytes :=
  if endsWith delText p then p.take (p.length - 10) else p

def WFKind (fs : FS) : FdKind → Prop
  | .regular path deleted =>
    path.head? = some 47 ∧ 0 ∉ path ∧
      (if deleted then fs.pathExists (path ++ delText) = false
       else (endsWith delText path = true → fs.pathExists path = true))
  | .device path =>
    path.head? = some 47 ∧ 0 ∉ path ∧ fs.isFile path = false ∧ fs.isFile (stripDel path) = false ∧
      (fs.denied (stripDel path) = true → fs.denied path = true)
  | .relative target => target.head? ≠ some 47
  | _ => True

def WFFd (fs : FS) (d : Fd) : Prop := WFKind fs d.kind

instance (fs : FS) (k : FdKind) : Decidable (WFKind fs k) := by
  cases k <;> simp only [WFKind] <;> infer_instance

instance (fs : FS) (d : Fd) : Decidable (WFFd fs d) := by unfold WFFd; infer_instance

/-! ### targets that can no longer be stat'ed (seeded round 5)

  The statement: descriptors that do not point to a regular file "are left out and never make the
  call fail for a live process". A descriptor whose target name cannot be stat'ed by the monitor for
  a reason other than permission — a parent directory was replaced by a file (ENOTDIR) or by a
  symlink loop (ELOOP), the name is too long for the monitor's view (ENAMETOOLONG), the mount went
  stale or its server died (ESTALE, EIO, ENOTCONN, ETIMEDOUT), … — does not point to a regular file
  as far as anybody can tell: it is left out, whatever the errno and whatever exception class the
  runtime picks for it. (`FS.statErr`; the promised list `listed` already says so: `fs.isFile` of
  such a path is `false`.) -/

/-- the same `os.stat` cannot both fail and succeed -/
def StatCoherent (fs : FS) : Prop :=
  ∀ p, (fs.statErr p).isSome = true → fs.isFile p = false ∧ fs.pathExists p = false

/-- `os.stat` of the name the descriptor was opened under fails (with whatever errno) -/
def targetUnstatable (fs : FS) (d : Fd) : Bool :=
  match d.kind with
  | .regular path _ => (fs.statErr path).isSome
  | .device path => (fs.statErr path).isSome
  | _ => false

/-! ### /proc/<pid>/io -/

/-- the kernel's per-task I/O accounting (Documentation/filesystems/proc.rst, 3.3) -/
structure IoAcct where
  rchar : Nat
  wchar : Nat
  syscr : Nat
  syscw : Nat
  readBytes : Nat
  writeBytes : Nat
  cancelledWriteBytes : Nat

def kRchar : Bytes := [114, 99, 104, 97, 114]
def kWchar : Bytes := [119, 99, 104, 97, 114]
def kSyscr : Bytes := [115, 121, 115, 99, 114]
def kSyscw : Bytes := [115, 121, 115, 99, 119]
def kReadBytes : Bytes := [114, 101, 97, 100, 95, 98, 121, 116, 101, 115]
def kWriteBytes : Bytes := [119, 114, 105, 116, 101, 95, 98, 121, 116, 101, 115]
def kCancelled : Bytes :=
  [99, 97, 110, 99, 101, 108, 108, 101, 100, 95, 119, 114, 105, 116, 101, 95, 98, 121, 116, 101, 115]

/-- one line of an io-like file -/
inductive Item
  /-- `name: value` -/
  | kv (name : Bytes) (val : Nat)
  /-- a line of blanks (possibly empty) -/
  | blank (ws : Bytes)
  /-- any other text that is not of the `name: value` form -/
  | junk (s : Bytes)
  /-- `name: text` where `text` is not a number -/
  | badval (name : Bytes) (val : Bytes)

def sepText : Bytes := [58, 32]     -- ": "

def Item.text : Item → Bytes
  | .kv name val => name ++ sepText ++ renderDec val
  | .blank ws => ws
  | .junk s => s
  | .badval name val => name ++ sepText ++ val

/-- a file: every line terminated by `\n` -/
def renderItems : List Item → Bytes
  | [] => []
  | it :: its => it.text ++ 10 :: renderItems its

def acctItems (a : IoAcct) : List Item :=
  [.kv kRchar a.rchar, .kv kWchar a.wchar, .kv kSyscr a.syscr, .kv kSyscw a.syscw,
   .kv kReadBytes a.readBytes, .kv kWriteBytes a.writeBytes, .kv kCancelled a.cancelledWriteBytes]

/-- `/proc/<pid>/io` as the kernel prints it -/
def renderIo (a : IoAcct) : Bytes := renderItems (acctItems a)

/-- the `name: value` lines of a file, in file order -/
def kvs : List Item → List (Bytes × Int)
  | [] => []
  | .kv n v :: its => (n, (v : Int)) :: kvs its
  | _ :: its => kvs its

/-- psutil's documented field ← kernel counter:
    read_count ← syscr, write_count ← syscw, read_bytes, write_bytes, read_chars ← rchar,
    write_chars ← wchar (docs: Process.io_counters, Linux) -/
def documentedKeys : List Bytes := [kSyscr, kSyscw, kReadBytes, kWriteBytes, kRchar, kWchar]

def documentedFields : List Bytes :=
  [ofAscii "read_count", ofAscii "write_count", ofAscii "read_bytes", ofAscii "write_bytes",
   ofAscii "read_chars", ofAscii "write_chars"]

def pick (m : List (Bytes × Int)) : List Bytes → Option (List Int)
  | [] => some []
  | k :: ks =>
    match m.lookup k, pick m ks with
    | some v, some vs => some (v :: vs)
    | _, _ => none

/-- the six values in the documented order; an entirely empty file (no counter line at all)
    is reported as RuntimeError, a file lacking one of the six counters as ValueError -/
def expectedIo (its : List Item) : Outcome (List Int) :=
  if (kvs its).isEmpty then .exc .runtimeError
  else match pick (kvs its) documentedKeys with
    | some vs => .ok vs
    | none => .exc .valueError

def expectedIoAcct (a : IoAcct) : List Int :=
  [(a.syscr : Int), a.syscw, a.readBytes, a.writeBytes, a.rchar, a.wchar]

/-- does `sep` occur in `s`? -/
def containsSeq (sep : Bytes) : Bytes → Bool
  | [] => sep.isEmpty
  | c :: cs => sep.isPrefixOf (c :: cs) || containsSeq sep cs

def allWs (s : Bytes) : Bool := s.all isWs

/-- well-formed lines: names are non-empty words without `:`; blank lines are blanks without
    a newline; junk has no newline and does not contain `": "`; a bad value is a word without
    `:` that Python's `int()` does not read as a number (`+5`, `1_0` ARE numbers) -/
def WFItem : Item → Prop
  | .kv name _ => name ≠ [] ∧ 58 ∉ name ∧ NoWs name
  | .blank ws => allWs ws = true ∧ 10 ∉ ws
  | .junk s => 10 ∉ s ∧ containsSeq sepText s = false
  | .badval name val =>
    (name ≠ [] ∧ 58 ∉ name ∧ NoWs name) ∧ val ≠ [] ∧ 58 ∉ val ∧ NoWs val ∧ pyIntZ val = none

instance (it : Item) : Decidable (WFItem it) := by
  cases it <;> simp only [WFItem, NoWs] <;> infer_instance

def Item.isKv : Item → Bool
  | .kv _ _ => true
  | _ => false

def Item.isBadval : Item → Bool
  | .badval _ _ => true
  | _ => false

/-- each counter appears on one line only (what the kernel prints) -/
def DistinctKeys (its : List Item) : Prop := ((kvs its).map (·.1)).Nodup

instance (its : List Item) : Decidable (DistinctKeys its) := by unfold DistinctKeys; infer_instance

end Psutil.C14.Spec
