/-
  Spec/C13.lean — what the property promises, written from the kernel's documented formats
  (Documentation/filesystems/proc.rst, fs/proc/task_mmu.c, fs/proc/array.c), not from
  psutil's algorithm.

  * the kernel side: a process is a `Statm` record and a list of `Mapping`s; `renderStatm`,
    `renderSmaps`, `renderRollup` print them the way the kernel does;
  * the user side: `specMemInfo`, `specFull`, `specRow`, `specGroupedField`, `specPercent`
    say which numbers psutil's API promises for that process.
-/
import PsutilModel.Base.Bytes
import PsutilModel.Base.Dec
import PsutilModel.Model.C13
namespace Psutil.C13.Spec
open Psutil Psutil.C13

/-! ### /proc/pid/statm — "size resident shared text lib data dt", in pages -/

structure Statm where
  size : Nat
  resident : Nat
  shared : Nat
  text : Nat
  lib : Nat
  data : Nat
  dt : Nat
  deriving DecidableEq, Repr

def Statm.cols (r : Statm) : List Nat := [r.size, r.resident, r.shared, r.text, r.lib, r.data, r.dt]

def renderStatm (r : Statm) : Bytes := joinWith [32] (r.cols.map renderDec) ++ [10]

/-- documented meaning of the `pmem` fields (rss, vms, shared, text, lib, data, dirty), bytes -/
def specMemInfo (pagesize : Nat) (r : Statm) : List Nat :=
  [r.resident * pagesize, r.size * pagesize, r.shared * pagesize, r.text * pagesize,
   r.lib * pagesize, r.data * pagesize, r.dt * pagesize]

def pmemNames : List String := ["rss", "vms", "shared", "text", "lib", "data", "dirty"]
def pfullmemNames : List String := pmemNames ++ ["uss", "pss", "swap"]

/-! ### /proc/pid/smaps -/

/-- lower-case hexadecimal, as `%lx` prints -/
def hexLower : Radix where
  base := 16
  hbase := by decide
  chr d := if d < 10 then 48 + d else 87 + d
  val c :=
    if 48 ≤ c ∧ c ≤ 57 then some (c - 48)
    else if 97 ≤ c ∧ c ≤ 102 then some (c - 87)
    else none
  val_chr d h := by
    by_cases hd : d < 10
    · have h1 : 48 ≤ 48 + d ∧ 48 + d ≤ 57 := by omega
      simp only [hd, if_true, h1, and_self]
      congr 1; omega
    · have h1 : ¬ (48 ≤ 87 + d ∧ 87 + d ≤ 57) := by omega
      have h2 : 97 ≤ 87 + d ∧ 87 + d ≤ 102 := by omega
      simp only [hd, if_false, h1, h2, and_self, if_true]
      congr 1; omega

/-- `%0<w>lx` -/
def hexPad (w n : Nat) : Bytes :=
  let s := renderRadix hexLower n
  List.replicate (w - s.length) 48 ++ s

/-- one `Key:   value kB` line of a mapping; `kb = false` for the unit-less lines
    (`THPeligible:`, `ProtectionKey:`) -/
structure KV where
  key : Bytes
  val : Nat
  kb : Bool
  deriving DecidableEq, Repr

structure Mapping where
  lo : Nat
  hi : Nat
  r : Bool
  w : Bool
  x : Bool
  shared : Bool
  off : Nat
  maj : Nat
  min : Nat
  ino : Nat
  /-- file name (or `[heap]`, `[stack]`…); `none` for an anonymous mapping -/
  path : Option Bytes
  /-- the file was unlinked: the kernel appends ` (deleted)` -/
  deleted : Bool
  kv : List KV
  /-- the `VmFlags:` line (two-letter mnemonics), absent on old kernels -/
  flags : Option (List Bytes)
  deriving DecidableEq, Repr

def addrStr (m : Mapping) : Bytes := hexPad 8 m.lo ++ [45] ++ hexPad 8 m.hi

def permsStr (m : Mapping) : Bytes :=
  [if m.r then 114 else 45, if m.w then 119 else 45, if m.x then 120 else 45,
   if m.shared then 115 else 112]

def devStr (m : Mapping) : Bytes := hexPad 2 m.maj ++ [58] ++ hexPad 2 m.min

def deletedMarker : Bytes := [32, 40, 100, 101, 108, 101, 116, 101, 100, 41]   -- " (deleted)"

/-- the name the kernel prints for a mapping that has one -/
def shownName (p : Bytes) (deleted : Bool) : Bytes := if deleted then p ++ deletedMarker else p

/-- "lo-hi perms offset dev inode " — the part before the name padding -/
def headerCore (m : Mapping) : Bytes :=
  addrStr m ++ [32] ++ permsStr m ++ [32] ++ hexPad 8 m.off ++ [32] ++ devStr m ++ [32]
    ++ renderDec m.ino

/-- `seq_setwidth(m, 25 + sizeof(void*)*6 - 1)` … `seq_pad(m, ' ')`: blanks up to column 72,
    then one more blank, then the name. -/
def headerLine (m : Mapping) : Bytes :=
  let core := headerCore m ++ [32]
  match m.path with
  | none => core
  | some p => core ++ List.replicate (72 - core.length) 32 ++ [32] ++ shownName p m.deleted

/-- number of blanks between `Key:` and the number: the label is padded to 16 columns (at
    least one blank), the number right-aligned so that the line is 24 columns wide -/
def gap (key : Bytes) (digits : Nat) : Nat :=
  let lab := key.length + 1
  let sp1 := if lab < 16 then 16 - lab else 1
  sp1 + ((24 - lab - sp1) - digits)

def unitKb : Bytes := [32, 107, 66]     -- " kB"

def kvLine (e : KV) : Bytes :=
  let ds := renderDec e.val
  e.key ++ [58] ++ List.replicate (gap e.key ds.length) 32 ++ ds ++ (if e.kb then unitKb else [])

def vmFlagsLabel : Bytes := [86, 109, 70, 108, 97, 103, 115, 58]    -- "VmFlags:"

/-- "VmFlags: rd ex mr mw me " — every mnemonic is followed by a blank -/
def flagsLine (fs : List Bytes) : Bytes := vmFlagsLabel ++ [32] ++ fs.flatMap (· ++ [32])

def mappingLines (m : Mapping) : List Bytes :=
  headerLine m :: (m.kv.map kvLine ++ (match m.flags with | none => [] | some fs => [flagsLine fs]))

def unlines (ls : List Bytes) : Bytes := ls.flatMap (· ++ [10])

def renderSmaps (ms : List Mapping) : Bytes := unlines (ms.flatMap mappingLines)

/-- value (kB) of key `k` in mapping `m`; a key the kernel did not print counts as 0 -/
def Mapping.get (m : Mapping) (k : Bytes) : Nat :=
  ((m.kv.find? (fun e => e.key == k)).map (·.val)).getD 0

/-! ### /proc/pid/smaps_rollup: one pseudo header + the field-wise sums of the kB keys -/

def total (ms : List Mapping) (k : Bytes) : Nat := (ms.map (·.get k)).sum

/-- the pseudo mapping whose header the roll-up file starts with: whole address range,
    `---p 00000000 00:00 0`, name `[rollup]` -/
def rollupMapping (lo hi : Nat) : Mapping :=
  { lo := lo, hi := hi, r := false, w := false, x := false, shared := false, off := 0, maj := 0,
    min := 0, ino := 0, path := some [91, 114, 111, 108, 108, 117, 112, 93], deleted := false,
    kv := [], flags := none }

def rollupHeader (lo hi : Nat) : Bytes := headerLine (rollupMapping lo hi)

/-- `keys`: the kB keys the kernel prints in the roll-up (those of the mappings) -/
def renderRollup (keys : List Bytes) (ms : List Mapping) : Bytes :=
  unlines (rollupHeader (ms.head?.map (·.lo) |>.getD 0) (ms.getLast?.map (·.hi) |>.getD 0)
    :: keys.map fun k => kvLine ⟨k, total ms k, true⟩)

/-! ### what the API promises -/

def bPrivateClean : Bytes := [80, 114, 105, 118, 97, 116, 101, 95, 67, 108, 101, 97, 110]
def bPrivateDirty : Bytes := [80, 114, 105, 118, 97, 116, 101, 95, 68, 105, 114, 116, 121]
def bPrivateHugetlb : Bytes := [80, 114, 105, 118, 97, 116, 101, 95, 72, 117, 103, 101, 116, 108, 98]
def bPss : Bytes := [80, 115, 115]
def bSwap : Bytes := [83, 119, 97, 112]

/-- USS/PSS/swap in bytes: sums over all mappings of the private, proportional, swapped kB -/
def specFull (ms : List Mapping) : Full :=
  { uss := 1024 * (ms.map fun m => m.get bPrivateClean + m.get bPrivateDirty + m.get bPrivateHugetlb).sum
    pss := 1024 * (ms.map (·.get bPss)).sum
    swap := 1024 * (ms.map (·.get bSwap)).sum }

def specFullInfo (pagesize : Nat) (r : Statm) (ms : List Mapping) : List Nat :=
  let f := specFull ms
  specMemInfo pagesize r ++ [f.uss, f.pss, f.swap]

/-- documented kernel key behind each numeric field of `pmmap_ext` / `pmmap_grouped`
    (rss, size, pss, shared_clean, shared_dirty, private_clean, private_dirty, referenced,
    anonymous, swap) -/
def rowKeys : List Bytes :=
  [[82, 115, 115], [83, 105, 122, 101], [80, 115, 115], [83, 104, 97, 114, 101, 100, 95, 67, 108, 101, 97, 110], [83, 104, 97, 114, 101, 100, 95, 68, 105, 114, 116, 121],
   [80, 114, 105, 118, 97, 116, 101, 95, 67, 108, 101, 97, 110], [80, 114, 105, 118, 97, 116, 101, 95, 68, 105, 114, 116, 121], [82, 101, 102, 101, 114, 101, 110, 99, 101, 100], [65, 110, 111, 110, 121, 109, 111, 117, 115],
   [83, 119, 97, 112]]

def extNames : List String :=
  ["addr", "perms", "path", "rss", "size", "pss", "shared_clean", "shared_dirty", "private_clean",
   "private_dirty", "referenced", "anonymous", "swap"]
def groupedNames : List String := extNames.drop 2

def anon : Bytes := [91, 97, 110, 111, 110, 93]

/-- the row promised for mapping `m`: its own address range, permissions, path, figures (bytes) -/
def specRow (m : Mapping) : Row :=
  { addr := addrStr m, perms := permsStr m, path := m.path.getD anon
    nums := rowKeys.map fun k => 1024 * m.get k }

/-- grouped view: field `i` of the row of path `p` is the sum over that path's mappings -/
def specGroupedField (rows : List Row) (p : Bytes) (i : Nat) : Nat :=
  ((rows.filter fun r => r.path == p).map fun r => r.nums.getD i 0).sum

/-- distinct paths, in order of first appearance (the order is not promised; the harness
    compares as a set) -/
def distinctPaths : List Bytes → List Bytes
  | [] => []
  | p :: ps => p :: (distinctPaths ps).filter (· != p)

def specGrouped (width : Nat) (rows : List Row) : List GRow :=
  (distinctPaths (rows.map (·.path))).map fun p =>
    (p, (List.range width).map fun i => specGroupedField rows p i)

/-- `100 * field / total physical memory` -/
def specPercent (value : Nat) (total : Int) : Rat := 100 * (value : Rat) / (total : Rat)

/-! ### well-formedness of kernel content (hypotheses of the round-trip theorems; decidable,
    the driver evaluates the very same definitions to decide whether the spec applies) -/

def isLower (c : Nat) : Bool := 97 ≤ c && c ≤ 122

/-- a key label: non-empty, no blanks, no colon (the kernel's are `[A-Za-z_]+`) -/
def wfKey (k : Bytes) : Bool := !k.isEmpty && k.all (fun c => !isWs c && c != 58)

/-- `Private…` labels are the three documented ones; the figures psutil sums carry a unit -/
def wfKV (e : KV) : Bool :=
  wfKey e.key
  && (!(startsWith kPrivate e.key) || [bPrivateClean, bPrivateDirty, bPrivateHugetlb].contains e.key)
  && (!([bPrivateClean, bPrivateDirty, bPrivateHugetlb, bPss, bSwap].contains e.key) || e.kb)

/-- the VmFlags line lists at least one two-letter lower-case mnemonic -/
def wfFlags (fs : List Bytes) : Bool := !fs.isEmpty && fs.all (fun f => !f.isEmpty && f.all isLower)

/-- a name the kernel can print: non-empty, no newline (the kernel escapes it as `\012`),
    first character not blank. `strips`: psutil strips the decoded name, so a name ending in
    a blank is outside the round trip for that variant of the code. -/
def wfPath (strips : Bool) (p : Bytes) (deleted : Bool) : Bool :=
  match p with
  | [] => false
  | c :: _ =>
    !isUWs c && !p.contains 10
      && (!strips || deleted || match p.reverse with | l :: _ => !isUWs l | [] => false)

def wfMapping (strips : Bool) (keys : List Bytes) (m : Mapping) : Bool :=
  (m.kv.map (·.key) == keys) && m.kv.all wfKV
  && (match m.flags with | none => true | some fs => wfFlags fs)
  && (match m.path with | none => !m.deleted | some p => wfPath strips p m.deleted)

/-- keys of the first mapping (every kernel prints the same key list for every mapping) -/
def keysOf (ms : List Mapping) : List Bytes :=
  match ms with
  | [] => []
  | m :: _ => m.kv.map (·.key)

/-- `UniformKeys` + per-mapping well-formedness -/
def wfSmaps (strips : Bool) (ms : List Mapping) : Bool :=
  let keys := keysOf ms
  !keys.isEmpty && keys.Nodup && ms.all (wfMapping strips keys)

/-- the file system agrees with the kernel: the name printed for an unlinked file does not
    exist (any more), a file whose real name ends in ` (deleted)` does -/
def fsConsistent (probe : Bytes → Probe) (m : Mapping) : Bool :=
  match m.path with
  | none => true
  | some p =>
    if m.deleted then probe (p ++ deletedMarker) == .missing
    else !(endsWith deletedMarker p) || probe p == .present

/-- kB keys of the roll-up: those the mappings print with a unit -/
def rollupKeysOf (ms : List Mapping) : List Bytes :=
  match ms with
  | [] => []
  | m :: _ => (m.kv.filter (·.kb)).map (·.key)

/-! ### mappings that do NOT all print the same key list (no kernel does this within one read of
    the file: `show_smap` prints `Size`, the `__show_smap` block, `THPeligible`, `ProtectionKey`
    — a per-system, not per-mapping, condition — and `VmFlags` for every vma; the harness
    checks it on the live `/proc/self/smaps` on every run) -/

def Mapping.has (m : Mapping) (k : Bytes) : Bool := (m.kv.find? (fun e => e.key == k)).isSome

/-- the value of key `k` in the most recent mapping that printed it (`seen`: the mappings read so
    far, newest first) -/
def lastSeen? : List Mapping → Bytes → Option Nat
  | [], _ => none
  | m :: ms, k =>
    match m.kv.find? (fun e => e.key == k) with
    | some e => some e.val
    | none => lastSeen? ms k

def lastSeen (seen : List Mapping) (k : Bytes) : Nat := (lastSeen? seen k).getD 0

/-- the row a reader that never forgets a key reports for `m` after having read `seen` -/
def inheritRow (seen : List Mapping) (m : Mapping) : Row :=
  { addr := addrStr m, perms := permsStr m, path := m.path.getD anon
    nums := rowKeys.map fun k => 1024 * lastSeen (m :: seen) k }

/-- `perBlock = true`: the reader forgets everything at each header (then every row is `specRow`) -/
def inheritRows (perBlock : Bool) : List Mapping → List Mapping → List Row
  | _, [] => []
  | seen, m :: ms => inheritRow seen m :: inheritRows perBlock (if perBlock then [] else m :: seen) ms

/-- exactly the files on which a never-forgetting reader is right: no mapping omits a row key
    that an earlier mapping printed with a non-zero value (the latest one counts) -/
def noStale : List Mapping → List Mapping → Bool
  | _, [] => true
  | seen, m :: ms => rowKeys.all (fun k => m.has k || lastSeen seen k == 0) && noStale (m :: seen) ms

/-- a mapping that is well-formed for its OWN key list (no common list required) -/
def wfOwn (strips : Bool) (m : Mapping) : Bool :=
  let keys := m.kv.map (·.key)
  !keys.isEmpty && keys.Nodup && wfMapping strips keys m

def wfSmapsOwn (strips : Bool) (ms : List Mapping) : Bool := ms.all (wfOwn strips)

/-- every mapping prints the same key list (what every kernel does) -/
def uniformKeys (ms : List Mapping) : Bool := ms.all fun m => m.kv.map (·.key) == keysOf ms

/-! ### /proc/meminfo — `show_val_kb(m, "MemTotal:       ", …)`: the label padded to 16 columns,
    the number right-aligned to 8, ` kB`; the HugePages_* counters carry no unit. Same line
    shape as the smaps key lines (`kvLine`). -/

def bMemTotal : Bytes := [77, 101, 109, 84, 111, 116, 97, 108]     -- "MemTotal"
def bMemFree : Bytes := [77, 101, 109, 70, 114, 101, 101]          -- "MemFree"

def renderMeminfo (ls : List KV) : Bytes := unlines (ls.map kvLine)

def kvGet (ls : List KV) (k : Bytes) : Option Nat := (ls.find? (fun e => e.key == k)).map (·.val)

/-- total physical memory in bytes: the `MemTotal` line (kB) × 1024 -/
def memTotal (ls : List KV) : Nat := 1024 * (kvGet ls bMemTotal).getD 0

/-- labels without blanks/colons, each printed once, `MemTotal` and `MemFree` present (the
    kernel prints them first, unconditionally) -/
def wfMeminfo (ls : List KV) : Bool :=
  ls.all (fun e => wfKey e.key) && (ls.map (·.key)).Nodup
    && (kvGet ls bMemTotal).isSome && (kvGet ls bMemFree).isSome

/-! ### /proc/pid/smaps_rollup as a record of its own (`show_smaps_rollup`): the pseudo header and
    ANY list of `Key:  value kB` lines — the real kernel prints keys the per-mapping listing does
    not have (`Pss_Anon`, `Pss_File`, `Pss_Shmem`) and keeps sub-kB precision while summing, so its
    `Pss` line is in general NOT the sum of the per-mapping `Pss` lines. -/

def renderRollupRec (lo hi : Nat) (kvs : List KV) : Bytes :=
  unlines (rollupHeader lo hi :: kvs.map kvLine)

def bPrivate_ : Bytes := [80, 114, 105, 118, 97, 116, 101, 95]     -- "Private_"

/-- what the API promises when the roll-up is the source: uss = the roll-up's `Private_*` lines
    added up, pss / swap = its `Pss` / `Swap` line (kB → bytes; 0 for a line that is absent) -/
def specFullRollup (kvs : List KV) : Full :=
  { uss := 1024 * ((kvs.filter fun e => startsWith bPrivate_ e.key).map (·.val)).sum
    pss := 1024 * (kvGet kvs bPss).getD 0
    swap := 1024 * (kvGet kvs bSwap).getD 0 }

def wfRollupRec (kvs : List KV) : Bool := kvs.all (fun e => wfKey e.key) && (kvs.map (·.key)).Nodup

/-- the kernel accumulates PSS in bytes × 2¹² (`PSS_SHIFT`) and prints `>> (10 + PSS_SHIFT)` -/
def pssUnit : Nat := 4194304

/-- `Pss:` of the per-mapping listing, summed (each mapping's line is truncated to kB first) -/
def pssListed (fine : List Nat) : Nat := (fine.map (· / pssUnit)).sum

/-- `Pss:` of the roll-up (the sum is truncated once) -/
def pssRolled (fine : List Nat) : Nat := fine.sum / pssUnit

/-! ### ONE process, BOTH files: the kernel's fine-grained PSS

  `smaps_account` adds every page's share to `mss->pss` in units of 2⁻¹² byte (`PSS_SHIFT`).
  `/proc/pid/smaps` starts a fresh `mss` for every mapping and prints `Pss: mss->pss >> 22` — each
  mapping's share truncated to kB. `/proc/pid/smaps_rollup` runs ONE `mss` over all mappings and
  prints the same expression once. Every other figure psutil reads (`Private_*`, `Swap`) counts
  whole pages, so its roll-up line IS the sum of the per-mapping lines. -/

/-- a mapping together with its proportional share as the kernel keeps it (units of 2⁻¹² byte) -/
structure FineMapping where
  m : Mapping
  fine : Nat
  deriving Repr

/-- replace the value printed for key `k` (the key list itself is untouched) -/
def setVal (kv : List KV) (k : Bytes) (v : Nat) : List KV :=
  kv.map fun e => if e.key == k then { e with val := v } else e

/-- the mapping as `/proc/pid/smaps` shows it: `Pss:` is the fine share truncated to kB -/
def FineMapping.shown (f : FineMapping) : Mapping :=
  { f.m with kv := setVal f.m.kv bPss (f.fine / pssUnit) }

def shownAll (fms : List FineMapping) : List Mapping := fms.map (·.shown)

def fines (fms : List FineMapping) : List Nat := fms.map (·.fine)

def renderSmapsFine (fms : List FineMapping) : Bytes := renderSmaps (shownAll fms)

/-- field-wise kB sums of the keys the mappings print with a unit -/
def rollupSums (ms : List Mapping) : List KV :=
  (rollupKeysOf ms).map fun k => (⟨k, total ms k, true⟩ : KV)

/-- the key lines of `/proc/pid/smaps_rollup` of the same process: the field-wise sums, except
    `Pss`, which is the sum of the FINE shares truncated once -/
def rollupKVsFine (fms : List FineMapping) : List KV :=
  setVal (rollupSums (shownAll fms)) bPss (pssRolled (fines fms))

def renderRollupFine (fms : List FineMapping) : Bytes :=
  renderRollupRec ((shownAll fms).head?.map (·.lo) |>.getD 0) ((shownAll fms).getLast?.map (·.hi) |>.getD 0)
    (rollupKVsFine fms)

/-! ### histories of `memory_percent` / `virtual_memory()`, spec side

  Written over the RECORDS of `/proc/meminfo` (never over its text, never with the model's
  functions): the property's "100 · field / total physical memory", where — psutil caching the
  total by design — "total physical memory" is the `MemTotal` psutil last read: by the latest
  `virtual_memory()`, or by the first `memory_percent()` when none was made; a total of 0 counts
  as not read. -/

inductive SOp
  | setMeminfo (ls : List KV)       -- `/proc/meminfo` now holds these records
  | vm                              -- `psutil.virtual_memory()`
  | pct (memtype : String)          -- `p.memory_percent(memtype)`
  deriving Repr

inductive SOut
  | none
  | total (t : Nat)                 -- `virtual_memory().total`
  | pct (r : Rat)
  | valueError                      -- unknown field name, or a total of 0
  deriving DecidableEq

/-- the total psutil works with: the one last read, unless nothing (or 0) was read — then the
    `MemTotal` of the moment -/
def totalInUse (last : Option Nat) (cur : Nat) : Nat :=
  match last with
  | some t => if t = 0 then cur else t
  | none => cur

/-- `val`: the promised value of every field name (`none`: not a field of `pfullmem`);
    `cur`: the records `/proc/meminfo` holds now; `last`: the total last read -/
def specHist (val : String → Option Nat) : List SOp → List KV → Option Nat → List SOut
  | [], _, _ => []
  | .setMeminfo ls :: ops, _, last => .none :: specHist val ops ls last
  | .vm :: ops, cur, _ => .total (memTotal cur) :: specHist val ops cur (some (memTotal cur))
  | .pct mt :: ops, cur, last =>
    match val mt with
    | none => .valueError :: specHist val ops cur last
    | some v =>
      (if 0 < totalInUse last (memTotal cur) then .pct (specPercent v (totalInUse last (memTotal cur) : Nat))
        else .valueError) :: specHist val ops cur (some (totalInUse last (memTotal cur)))

end Psutil.C13.Spec
