/-
  Spec/C17Thr.lean — seeded round 5: what C17 promises when several threads use the extension at once.

  Written from the property statement ("disk_partitions() returns each mount entry's device, mount point, type and
  options"; "users() returns each login record's …"): the rows a call returns are the records of the file THAT call
  read, in the file's order — the statement knows no other input, so neither the other threads' files nor the order in
  which the threads happen to run may show in the result.  Nothing here mentions the GIL or libc's static object.
-/
namespace Psutil.C17.Spec.Thr

/-- the rows call number `t` must return once it has returned: the records of its own file -/
def callResult {α : Type} (files : Nat → List α) (t : Nat) : List α := files t

/-- while a call is still running, what it has built so far is a beginning of that list -/
def PartialOk {α : Type} (files : Nat → List α) (t : Nat) (rows : List α) : Prop := rows <+: callResult files t

instance {α : Type} [DecidableEq α] (files : Nat → List α) (t : Nat) (rows : List α) : Decidable (PartialOk files t rows) := by
  unfold PartialOk; infer_instance

/-- an implementation `impl schedule files t` (rows returned by call `t`) is thread-safe when the schedule does not show -/
def ScheduleIndependent {α σ : Type} (impl : σ → (Nat → List α) → Nat → List α) : Prop :=
  ∀ s files t, impl s files t = callResult files t

end Psutil.C17.Spec.Thr
