/-
  Spec/C07.lean — what C07 promises, written from the property statement and from the
  kernel's `/proc/stat` format (fs/proc/stat.c), not from psutil's algorithm:

    * the kernel keeps, per CPU, ten tick counters and prints the first `ncols` of them, in a
      fixed order, as decimal numbers after a `cpu`/`cpuN` label;
    * "time a counter advanced" between two samples is `new − old`, or nothing if it went
      backwards; guest time is *contained* in user time and guest_nice in nice time, so elapsed
      time is the sum over the other eight columns; idle and iowait are not busy;
    * a percentage is 100·part/elapsed rounded to one decimal; shares add up to 100;
    * every thread is measured against the sample it took itself the last time;
    * a process' percentage is 100·(CPU seconds used)/(wall seconds elapsed).

  No list indexing, no name lookups, no dictionaries: plain records and a fold over the history.
-/
import PsutilModel.Model.C07
namespace Psutil.C07.Spec
open Psutil.C07

/-! ## the kernel side -/

/-- `struct kernel_cpustat` of one CPU, in USER_HZ ticks -/
structure Ticks where
  user : Nat
  nice : Nat
  system : Nat
  idle : Nat
  iowait : Nat
  irq : Nat
  softirq : Nat
  steal : Nat
  guest : Nat
  guestNice : Nat
  deriving DecidableEq, Repr

/-- print order of fs/proc/stat.c -/
def Ticks.cols (t : Ticks) : List Nat :=
  [t.user, t.nice, t.system, t.idle, t.iowait, t.irq, t.softirq, t.steal, t.guest, t.guestNice]

/-- the column names in the same order (man 5 proc) -/
def kernelOrder : List Fld :=
  [.user, .nice, .system, .idle, .iowait, .irq, .softirq, .steal, .guest, .guestNice]

structure ProcStat where
  total : Ticks
  cpus : List Ticks
  /-- the remaining lines (`intr …`, `ctxt …`, `btime …`, `processes …`, `softirq …`) -/
  other : List Bytes

def cpuLabel : Bytes := [99, 112, 117]            -- "cpu"

/-- `label` + one blank + the first `ncols` counters separated by single blanks -/
def renderCols (ncols : Nat) (t : Ticks) : Bytes :=
  joinWith [32] ((t.cols.take ncols).map renderDec)

/-- first line: `seq_put_decimal_ull(p, "cpu  ", user)` — *two* blanks -/
def renderTotalLine (ncols : Nat) (t : Ticks) : Bytes :=
  cpuLabel ++ [32, 32] ++ renderCols ncols t

/-- `seq_printf(p, "cpu%d", i)` then the counters each preceded by one blank -/
def renderCpuLine (ncols : Nat) (i : Nat) (t : Ticks) : Bytes :=
  cpuLabel ++ renderDec i ++ [32] ++ renderCols ncols t

def renderCpuLines (ncols : Nat) : Nat → List Ticks → List Bytes
  | _, [] => []
  | i, t :: ts => renderCpuLine ncols i t :: renderCpuLines ncols (i + 1) ts

def unlines : List Bytes → Bytes
  | [] => []
  | l :: ls => l ++ [10] ++ unlines ls

def statLines (ncols : Nat) (w : ProcStat) : List Bytes :=
  renderTotalLine ncols w.total :: (renderCpuLines ncols 0 w.cpus ++ w.other)

def renderProcStat (ncols : Nat) (w : ProcStat) : Bytes := unlines (statLines ncols w)

/-! ## what the user is promised for `cpu_times()` -/

/-- seconds = ticks / USER_HZ, for the first `nf` columns, kernel order -/
def seconds (tck nf : Nat) (t : Ticks) : List Rat :=
  (t.cols.take nf).map fun (n : Nat) => (n : Rat) / (tck : Rat)

/-- how many columns the platform layer exposes after seeing `vlen` values at start-up -/
def nfOf (vlen : Nat) : Nat := if vlen ≤ 7 then 7 else if 10 ≤ vlen then 10 else vlen

/-! ## percentages between two samples -/

/-- one CPU's times in seconds (a column that is not exposed is simply not looked at) -/
structure Times where
  user : Rat
  nice : Rat
  system : Rat
  idle : Rat
  iowait : Rat
  irq : Rat
  softirq : Rat
  steal : Rat
  guest : Rat
  guestNice : Rat
  deriving DecidableEq, Repr

def Times.cols (t : Times) : List Rat :=
  [t.user, t.nice, t.system, t.idle, t.iowait, t.irq, t.softirq, t.steal, t.guest, t.guestNice]

/-- a kernel record in seconds -/
def Times.ofTicks (tck : Nat) (t : Ticks) : Times :=
  let f (n : Nat) : Rat := (n : Rat) / (tck : Rat)
  ⟨f t.user, f t.nice, f t.system, f t.idle, f t.iowait, f t.irq, f t.softirq, f t.steal,
   f t.guest, f t.guestNice⟩

/-- the tuple the platform exposes -/
def Times.expose (nf : Nat) (t : Times) : List Rat := t.cols.take nf

/-- how long a counter advanced between two samples; a counter that went backwards contributes nothing -/
def adv (old new : Rat) : Rat := if new ≤ old then 0 else new - old

/-- steal exists from the 8th column on -/
def stealAdv (nf : Nat) (o n : Times) : Rat := if 8 ≤ nf then adv o.steal n.steal else 0

/-- CPU time that was not idle and not waiting for I/O (guest time is inside user/nice already) -/
def busy (nf : Nat) (o n : Times) : Rat :=
  adv o.user n.user + adv o.nice n.nice + adv o.system n.system + adv o.irq n.irq
    + adv o.softirq n.softirq + stealAdv nf o n

/-- elapsed CPU time -/
def total (nf : Nat) (o n : Times) : Rat :=
  busy nf o n + adv o.idle n.idle + adv o.iowait n.iowait

/-- `r` is `x` rounded to one decimal, ties to even -/
def IsRound1 (x r : Rat) : Prop :=
  ∃ k : Int, r = (k : Rat) / 10 ∧ r - x ≤ 1 / 20 ∧ x - r ≤ 1 / 20 ∧
    ((r - x = 1 / 20 ∨ x - r = 1 / 20) → k % 2 = 0)

def round1 (x : Rat) : Rat := roundN 1 x

/-- `cpu_percent()` between two samples (exact value before rounding) -/
def percentExact (nf : Nat) (o n : Times) : Rat :=
  if total nf o n = 0 then 0 else 100 * busy nf o n / total nf o n

def percent (nf : Nat) (o n : Times) : Rat := round1 (percentExact nf o n)

/-- advance of every exposed column, kernel order -/
def advs (nf : Nat) (o n : Times) : List Rat :=
  (List.zipWith adv o.cols n.cols).take nf

def clamp100 (x : Rat) : Rat := if x < 0 then 0 else if 100 < x then 100 else x

/-- share of one column in the elapsed time, exact (requires `total > 0`) -/
def shareExact (nf : Nat) (o n : Times) (a : Rat) : Rat := 100 * a / total nf o n

/-- `cpu_times_percent()` when some time elapsed -/
def shares (nf : Nat) (o n : Times) : List Rat :=
  (advs nf o n).map fun a => clamp100 (round1 (shareExact nf o n a))

/-! ## histories: whom a call is measured against -/

/-- a remembered sample that can serve as a reference (an empty per-CPU list cannot) -/
def usable : Option Stored → Option Stored
  | some v => if v.truthy then some v else none
  | none => none

/-- the sample a call leaves behind for its thread, if it gets that far.
    `rd percpu data` = what reading `/proc/stat` with content `data` yields. -/
def taken (rd : Bool → Bytes → PRes Stored) (c : Call) (ref : Option Stored) : Option Stored :=
  if c.negative then none
  else
    match (if c.blocking then none else ref) with
    | some _ =>
      match c.reads with
      | r :: _ => (rd c.percpu r).toOption
      | [] => none
    | none =>
      match c.reads with
      | r0 :: r1 :: _ =>
        match rd c.percpu r0 with
        | .ok _ => (rd c.percpu r1).toOption
        | .error _ => none
      | _ => none

def prevStep (rd : Bool → Bytes → PRes Stored) (fam : Fam) (tid : Tid)
    (p : Option Stored) (c : Call) : Option Stored :=
  if c.fam = fam ∧ c.tid = tid then
    match taken rd c (usable p) with
    | some v => some v
    | none => p
  else p

/-- the sample thread `tid` last took through the function/variant `fam` -/
def prev (rd : Bool → Bytes → PRes Stored) (fam : Fam) (tid : Tid) (h : List Call) : Option Stored :=
  h.foldl (prevStep rd fam tid) none

/-- what a call returns when the sample remembered for its thread (and function/variant) is
    `ref`: `ref` (or a fresh first sample when there is none / it is an empty CPU list / the call
    blocks) compared with the newest sample -/
def expectedRef (rd : Bool → Bytes → PRes Stored) (cmp : Fn → Stored → Stored → PRes Val)
    (ref : Option Stored) (c : Call) : Out :=
  if c.negative then .exc .valueError 0
  else
    match (if c.blocking then none else usable ref) with
    | some t1 =>
      match c.reads with
      | [] => .starved
      | r :: _ =>
        match rd c.percpu r with
        | .error x => .exc x 1
        | .ok t2 =>
          match cmp c.fn t1 t2 with
          | .error x => .exc x 1
          | .ok v => .ok v 1
    | none =>
      match c.reads with
      | [] => .starved
      | r0 :: rest =>
        match rd c.percpu r0 with
        | .error x => .exc x 1
        | .ok t1 =>
          match rest with
          | [] => .starved
          | r1 :: _ =>
            match rd c.percpu r1 with
            | .error x => .exc x 2
            | .ok t2 =>
              match cmp c.fn t1 t2 with
              | .error x => .exc x 2
              | .ok v => .ok v 2

/-- what a call returns after history `h` (nothing remembered before `h`): its own thread's
    previous sample (or a fresh one when there is none / the call blocks) compared with the
    newest sample -/
def expected (rd : Bool → Bytes → PRes Stored) (cmp : Fn → Stored → Stored → PRes Val)
    (h : List Call) (c : Call) : Out :=
  expectedRef rd cmp (prev rd c.fam c.tid h) c

/-! ### "since last call **or module import**" -/

/-- what importing the module leaves behind: the importing thread `tid0` has taken one sample of
    each variant (`r0` = `/proc/stat` when the system-wide sample was taken, `r1` when the per-CPU
    one was), shared by both functions; a sample that could not be taken is simply absent; no
    other thread has any -/
def importSample (rd : Bool → Bytes → PRes Stored) (tid0 : Tid) (r0 r1 : Bytes)
    (fam : Fam) (tid : Tid) : Option Stored :=
  if tid = tid0 then (rd fam.percpu (if fam.percpu then r1 else r0)).toOption else none

/-- the sample thread `tid` last took through `fam`, when `init` is what it had before `h` -/
def prevFrom (rd : Bool → Bytes → PRes Stored) (init : Option Stored) (fam : Fam) (tid : Tid)
    (h : List Call) : Option Stored :=
  h.foldl (prevStep rd fam tid) init

/-- what a call returns after the module was imported by `tid0` and history `h` followed -/
def expectedSinceImport (rd : Bool → Bytes → PRes Stored) (cmp : Fn → Stored → Stored → PRes Val)
    (tid0 : Tid) (r0 r1 : Bytes) (h : List Call) (c : Call) : Out :=
  expectedRef rd cmp (prevFrom rd (importSample rd tid0 r0 r1 c.fam c.tid) c.fam c.tid h) c

/-! ### threads versus thread identifiers

In a history `Call.tid` can be read as *who* calls (the thread). The code, however, files a
sample under `threading.current_thread().ident`, a number the interpreter may hand out again once
a thread has ended. `ident` below is that assignment. -/

/-- the call as the code sees it: filed under the caller's identifier -/
def reTid (ident : Tid → Tid) (c : Call) : Call := { c with tid := ident c.tid }

/-- no two threads that call in `h` or in `c` share an identifier -/
def IdentInjectiveOn (ident : Tid → Tid) (h : List Call) (c : Call) : Prop :=
  ∀ a ∈ c :: h, ∀ b ∈ c :: h, ident a.tid = ident b.tid → a.tid = b.tid

/-- threads that share an identifier never overlap in time: once another thread with the same
    identifier has called (position `j`), the earlier one (position `i`) has ended and never
    calls again -/
def DisjointLifetimes (ident : Tid → Tid) (h : List Call) : Prop :=
  ∀ (i j k : Nat) (_ : i < j) (_ : j < k) (hk : k < h.length),
    ident (h[i]'(by omega)).tid = ident (h[j]'(by omega)).tid →
    (h[i]'(by omega)).tid ≠ (h[j]'(by omega)).tid → (h[k]'hk).tid ≠ (h[i]'(by omega)).tid

/-! ### per-CPU results when the number of CPUs changes between two samples -/

/-- `percpu=True`: one percentage per CPU that is present in BOTH samples, in kernel order, each
    from that CPU's own two records; CPUs present in only one of the samples are not reported
    (CPU numbering is taken as the position in the list) -/
def perCpuPercent (nf : Nat) : List Times → List Times → List Rat
  | o :: os, n :: ns => percent nf o n :: perCpuPercent nf os ns
  | _, _ => []

/-! ### the tokens a kernel prints -/

/-- `%llu` as the kernel prints it (`seq_put_decimal_ull`): a non-empty string of ASCII decimal
    digits without a leading zero, except for the number zero itself -/
def isKernelTok : Bytes → Bool
  | [] => false
  | [d] => isDigit d
  | d :: rest => isDigit d && decide (d ≠ 48) && rest.all isDigit

/-! ## `Process.cpu_percent` -/

/-- 100 · (CPU seconds used) / (wall seconds elapsed), exact -/
def procExact (tck : Nat) (u1 s1 u2 s2 : Nat) (w1 w2 : Rat) : Rat :=
  if w2 - w1 = 0 then 0
  else 100 * ((((u2 : Rat) - u1) + ((s2 : Rat) - s1)) / (tck : Rat)) / (w2 - w1)

/-- the last (wall clock, utime, stime) a call samples, if it gets that far -/
def ptaken (p : PCall) : Option (Rat × Nat × Nat) :=
  if p.negative then none
  else if p.vanishes then none        -- a call that found the process gone is no sample
  else if p.blocking then
    match p.timer, p.times with
    | _ :: t2 :: _, _ :: (u2, s2) :: _ => some (t2, u2, s2)
    | _, _ => none
  else
    match p.timer, p.times with
    | t :: _, (u, s) :: _ => some (t, u, s)
    | _, _ => none

def pprevStep (obj : Nat) (p : Option (Rat × Nat × Nat)) (c : PCall) : Option (Rat × Nat × Nat) :=
  if c.obj = obj then
    match ptaken c with
    | some v => some v
    | none => p
  else p

/-- the sample `Process` object `obj` took at its previous call -/
def pprev (obj : Nat) (h : List PCall) : Option (Rat × Nat × Nat) := h.foldl (pprevStep obj) none

/-- what `Process.cpu_percent` returns after history `h` (exact and rounded) -/
def pexpectedExact (tck : Nat) (h : List PCall) (p : PCall) : POut :=
  if p.negative then .exc .valueError
  else if p.vanishes then .exc .noSuchProcess   -- beyond the statement (characterisation): the error is not swallowed
  else if p.blocking then
    match p.timer, p.times with
    | w1 :: w2 :: _, (u1, s1) :: (u2, s2) :: _ => .val (procExact tck u1 s1 u2 s2 w1 w2)
    | _, _ => .starved
  else
    match p.timer, p.times with
    | w2 :: _, (u2, s2) :: _ =>
      match pprev p.obj h with
      | none => .val 0
      | some (w1, u1, s1) => .val (procExact tck u1 s1 u2 s2 w1 w2)
    | _, _ => .starved

def pexpected (tck : Nat) (h : List PCall) (p : PCall) : POut :=
  match pexpectedExact tck h p with
  | .val v => .val (round1 v)
  | o => o

end Psutil.C07.Spec
