/-
  Spec/C01Kill.lean — "No psutil call ever signals PID 0 or a negative PID (which the OS would treat as a whole
  process group)", as a predicate on the pid arguments of the kill(2) calls one psutil call made.  Written from the
  property statement and kill(2): nothing about guards, probes or signal numbers (signal 0 addresses the same targets).
-/
namespace Psutil.C01.Kill

def NoGroupKill (ks : List Int) : Prop := ∀ k ∈ ks, 0 < k

def noGroupKillB (ks : List Int) : Bool := ks.all fun k => decide (0 < k)

theorem noGroupKillB_iff (ks : List Int) : noGroupKillB ks = true ↔ NoGroupKill ks := by
  simp [noGroupKillB, NoGroupKill]

end Psutil.C01.Kill
