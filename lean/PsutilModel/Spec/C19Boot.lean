/-
  Spec/C19Boot.lean — what C19 promises about a HISTORY of calls in one interpreter while the
  kernel's `btime` moves (the system clock was stepped: settimeofday, an NTP step, a leap second;
  by any amount — one second, two, an hour, backwards).

  Written from the statement ("boot_time() report[s] what the kernel's … tables contain") and the
  documentation of `psutil.boot_time()` ("we are not caching this because it is subject to system
  clock updates"): the promise has NO state. Each `boot_time()` / `cpu_stats()` of a history answers
  from the tables of ITS moment, whatever was called before and whatever the tables said before.
  About `Process.create_time()` the property says nothing (`Answers … = True`); what the source's own
  comment promises about it — it does not follow later clock updates — is `StableCreate`.

  Uses the vocabulary of Model/C19Boot.lean (`HCall`, `HOut`), none of its functions.
-/
import PsutilModel.Spec.C19
import PsutilModel.Model.C19Boot
namespace Psutil.C19.Spec
open Psutil.C19

/-- one moment as the KERNEL describes it: the record behind /proc/stat and the call made -/
structure KStep where
  krec : StatRec
  call : HCall

/-- the files of that moment -/
def KStep.toH (k : KStep) : HStep := { stat := .content (renderStat k.krec), call := k.call }

/-- what the call of that moment must hand back; `none` = the property is silent (create_time) -/
def expected (k : KStep) : Option HOut :=
  match k.call with
  | .bootTime => some (.time (.ok (k.krec.btime : Rat)))
  | .cpuStats => some (.stats (.ok ⟨some k.krec.ctxt, some k.krec.intr, some k.krec.softirq⟩))
  | .createTime _ => none

/-- the answer `o` given at moment `k` is the one the property promises -/
def Answers (o : HOut) (k : KStep) : Prop :=
  match expected k with
  | some e => o = e
  | none => True

/-- the whole history: every answer agrees with the tables of its own moment -/
def HistoryMirrors : List HOut → List KStep → Prop
  | [], [] => True
  | o :: os, k :: ks => Answers o k ∧ HistoryMirrors os ks
  | _, _ => False

/-- create_time() does not follow clock updates: ONE boot time `x` explains every successful
    `create_time()` of the history (`start / ticks + x`), whatever `btime` did in between -/
def StableCreate (ticks : Nat) (outs : List HOut) (steps : List HStep) : Prop :=
  ∃ x : Rat, ∀ p ∈ outs.zip steps, ∀ start v,
    p.2.call = .createTime start → p.1 = .time (.ok v) → v = (start : Rat) / (ticks : Rat) + x

end Psutil.C19.Spec
