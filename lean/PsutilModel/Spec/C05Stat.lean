/-
  Spec/C05Stat.lean — the kernel side of `/proc/<pid>/stat` (fs/proc/array.c `do_task_stat`,
  proc(5)): `pid (comm) state ppid f5 … f21 starttime f23 …\n`, single spaces, decimal numbers.
  `comm` is chosen by the process (any bytes: spaces, parentheses, newlines). `pre` are the 17
  fields between ppid and starttime (pgrp … itrealvalue), `post` the fields after starttime.
-/
import PsutilModel.Base.Bytes
import PsutilModel.Base.Dec
namespace Psutil.C05.Spec
open Psutil

def renderStat (pid : Nat) (comm state : Bytes) (ppid : Nat) (pre : List Bytes) (start : Nat)
    (post : List Bytes) : Bytes :=
  renderDec pid ++ [32, 40] ++ comm ++ [41, 32]
    ++ joinWith [32] (state :: renderDec ppid :: (pre ++ renderDec start :: post)) ++ [10]

end Psutil.C05.Spec
