/-
  Spec/C02Stat.lean — what C02 promises over histories whose kernel publishes stat BYTES (Model/C02Stat.lean).

  From the statement: "equal exactly when they have the same PID and refer to the same process start; is_running() is
  True for as long as that very process is still in the process table and False ever after … These answers depend
  only on the process's own lifetime".  What a process CALLS itself — the comm field, which it may change at any
  moment with `prctl(PR_SET_NAME)` or by `execve()` — and the counters in the other fields of its stat line are not
  part of its lifetime.  So the specification is read on the kernel's own process table (`ListedB` of
  Spec/C01Stat.lean, `SameIncarnation` of Spec/C01.lean: PID + the incarnation the object was built for), never on
  what psutil's reader makes of the bytes; a transient failure of the read may withhold the answer (Spec/C02Fault.lean)
  and nothing else.
-/
import PsutilModel.Spec.C01Stat
import PsutilModel.Spec.C02Fault
import PsutilModel.Model.C02Stat
namespace Psutil.C02.Spec
open Psutil.C01 Psutil.C01.Spec Psutil.C02

/-- the outcome of `is_running()` on object `o` in a world with stat bytes: True while the object's own incarnation
    is in the kernel's table — whatever its line shows now —, False once it is not — whoever holds the PID now and
    whatever THAT line shows —, or the OS error, and that only while reads of the object's own PID fail.  `none` (no
    prediction) satisfies nothing. -/
def RightOrWithheldB (F : List Nat) (k : KernelB) (o : PObj) (out : Option OutF) : Prop :=
  (ListedB k o ∧ out = some (.ok (.bool true))) ∨ (¬ ListedB k o ∧ out = some (.ok (.bool false)))
    ∨ (out = some .osError ∧ o.pid ∈ F)

end Psutil.C02.Spec
