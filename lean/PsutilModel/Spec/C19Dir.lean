/-
  Spec/C19Dir.lean — the kernel's naming of trip-point files (Documentation/ABI/testing/
  sysfs-class-thermal, drivers/thermal/thermal_sysfs.c: `trip_point_%d_type`, `trip_point_%d_temp`,
  `trip_point_%d_hyst`, the index printed with `%d`: canonical decimal, ANY number of digits) and of
  hwmon attribute files (Documentation/hwmon/sysfs-interface.rst: `temp[1-*]_input`, `fan[1-*]_input`
  …), and what the property promises for a zone directory given by its file names.
  Written from those formats: the index of a file is obtained by matching the kernel's pattern, not
  by splitting on `_`.
-/
import PsutilModel.Model.C19Dir
import PsutilModel.Spec.C19
namespace Psutil.C19.Spec
open Psutil.C19

/-- `trip_point_<n>` -/
def tripPointName (n : Nat) : Bytes := bTripPoint ++ [95] ++ renderDec n

/-- `trip_point_<n><suffix>` with suffix `_type` / `_temp` / `_hyst` -/
def tripFile (n : Nat) (suffix : Bytes) : Bytes := tripPointName n ++ suffix

def kernelSuffixes : List Bytes := [bSufType, bSufTemp, bSufHyst]

/-- the index of a kernel-named trip-point file; `none` = not of the form `trip_point_%d_{type,temp,hyst}` -/
def tripIndex? (name : Bytes) : Option Nat :=
  if (bTripPoint ++ [95]).isPrefixOf name then
    let rest := name.drop (bTripPoint ++ [95]).length
    let ds := rest.takeWhile isDigit
    let suf := rest.dropWhile isDigit
    match parseDec? ds with
    | some n => if renderDec n = ds ∧ suf ∈ kernelSuffixes then some n else none
    | none => none
  else none

/-- every file the zone glob can see is one of the kernel's trip-point files -/
def KernelNamed (d : Dir) : Prop := ∀ name ∈ tripFiles d, (tripIndex? name).isSome

instance (d : Dir) : Decidable (KernelNamed d) := by unfold KernelNamed; exact inferInstance

/-- the distinct trip-point indices present in the directory -/
def tripIdxs (d : Dir) : List Nat := ((tripFiles d).filterMap tripIndex?).eraseDups

/-- trip point `n` of the directory: its `_type` and `_temp` files -/
def dirTrip (d : Dir) (n : Nat) : Trip :=
  { typ := d.file (tripFile n bSufType), temp := d.file (tripFile n bSufTemp), hyst := true }

/-- the zone the kernel describes by directory `d`: every trip point, whatever its index -/
def kernelZone (d : Dir) : Zone :=
  { temp := d.file bNameTemp, typ := d.file bNameType, trips := (tripIdxs d).map (dirTrip d) }

/-- hwmon attribute base `temp<n>` / `fan<n>` (`%d`: canonical decimal, any number of digits) -/
def attrBase (pre : Bytes) (n : Nat) : Bytes := pre ++ renderDec n

end Psutil.C19.Spec
