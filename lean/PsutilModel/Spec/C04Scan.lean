/-
  Spec/C04Scan.lean — what the statement promises about the visit of ONE listed PID while the process
  changes state under the scan (written from the statement, not from the code):

    "process_iter() yields one Process per listed PID … and silently skips processes that VANISH
     while iterating … attrs=[...] attaches an info dict with exactly those keys."

  A PID is listed (`pids()`, `pid_exists()`) as long as the process is in the process table: alive OR a
  zombie not yet reaped. A process leaves the table once (alive → zombie → gone; a recycled number is
  another process). So: the visit may skip the PID only if the process was gone at one of the instants
  the visit looked at it; otherwise it yields, with exactly the requested keys; nothing else may come
  out of it.
-/
import PsutilModel.Model.C04Scan
namespace Psutil.C04.Spec

/-- in the process table -/
def Listed (l : Life) : Prop := l ≠ .gone

/-- a process never comes back: alive → zombie → gone -/
def OneWay (life : Nat → Life) : Prop := ∀ i j, i ≤ j → (life i).rank ≤ (life j).rank

/-- the process left the table at one of the first `n` instants the visit looked at it -/
def Vanished (life : Nat → Life) (n : Nat) : Prop := ∃ i, i < n ∧ life i = .gone

/-- what the visit of a listed PID may do, `n` = number of instants it looked at the process -/
def VisitOk (life : Nat → Life) (n : Nat) (names : List String) : VisitOut → Prop
  | .yielded items => items.map (·.1) = names
  | .skipped => Vanished life n
  | .exc _ => False

/-- executable form for a finite schedule (the last state persists): must the PID be yielded? -/
def mustYield (sched : List Life) : Bool := sched.all fun l => l != .gone

end Psutil.C04.Spec
