/-
  Spec/C04Status.lean — the text of `/proc/<id>/status` as the kernel prints it (proc(5),
  fs/proc/array.c), written from the documented format, not from psutil's parser.

  One record per line, `Key:\tvalue\n`. The thread-group id is printed once, as
  `Tgid:\t<decimal>\n`, after `Name:` / `Umask:` / `State:` (which lines come before and after it
  differs between kernel versions: both are arbitrary here). A newline inside the command name is
  printed escaped (`\n` as two characters), so no value contains a line feed, and every line
  before the `Tgid:` line starts with its own key — never with `Tgid:`. What comes AFTER it is not
  constrained at all (`NStgid:`, `Pid:`, `PPid:` … lines carrying other numbers; even a second
  line starting with `Tgid:` would not matter).

  The statement's clause: `pid_exists(n)` is False for a thread id — an id whose status file names
  ANOTHER number as thread-group id — whatever the two numbers look like in decimal.
-/
import PsutilModel.Base.Bytes
import PsutilModel.Base.Dec
namespace Psutil.C04.Spec
open Psutil

/-- `Tgid:` -/
def tgidLabel : Bytes := [84, 103, 105, 100, 58]

/-- the line `Tgid:\t<t>` (without its terminator) -/
def tgidLine (t : Nat) : Bytes := tgidLabel ++ [9] ++ renderDec t

structure StatusText where
  before : List Bytes        -- `Name:\t…`, `Umask:\t…`, `State:\t…`
  tgid : Nat
  after : List Bytes         -- `Ngid:`, `Pid:`, `PPid:`, `TracerPid:`, `Uid:` …
  deriving Repr

def StatusText.lines (t : StatusText) : List Bytes := t.before ++ tgidLine t.tgid :: t.after

/-- the bytes of the file: every line followed by a line feed -/
def StatusText.render (t : StatusText) : Bytes := joinWith [10] (t.lines ++ [[]])

structure StatusText.WF (t : StatusText) : Prop where
  noLf : ∀ l ∈ t.before ++ t.after, 10 ∉ l
  ownKey : ∀ l ∈ t.before, tgidLabel.isPrefixOf l = false

/-- executable form of `WF` (for the driver) -/
def StatusText.wfb (t : StatusText) : Bool :=
  (t.before ++ t.after).all (fun l => !l.contains 10) && t.before.all (fun l => !tgidLabel.isPrefixOf l)

end Psutil.C04.Spec
