/-
  Spec/C20.lean — what property C20 promises, written from the property statement and the
  per-platform contract table of DESIGN.md §5/C20 (not from the decorators' code).

  1. Error contract. For an OS error leaving a Process method:
       * a "no such process" failure  → NoSuchProcess(pid, name), or ZombieProcess(pid, name, ppid)
         when the module's own probe still sees the pid as a zombie;
       * a permission failure         → AccessDenied(pid, name);
       * anything else                → unchanged, except on BSD and Solaris: an otherwise
         unexplained OS error on the existing PID 0 → AccessDenied.
     What counts as which failure is the platform's documented convention:
       ESRCH everywhere; ENOENT too where process data is read through /proc (Solaris, AIX);
       EPERM/EACCES everywhere, plus winerror 5 (ERROR_ACCESS_DENIED) and 1314
       (ERROR_PRIVILEGE_NOT_HELD) on Windows; Windows has no zombies.
     "Still listed as a zombie" is a fact about the process, on every platform that has zombies:
     its status in the process table is the zombie status (`Env.state = .zombie`), whatever
     probe the platform module happens to use. (Rounds 1–2 had copied the Solaris/AIX probe —
     "the pid still exists" — into this definition; round 3 removed that: see
     `knownZombieDeviation` and finding C20-sunos-aix-exists-means-zombie.)
  2. Recoverable situations: places where a method is *documented* (in the code's comments /
     psutil's docs) to carry on instead of failing; there the method may also return a value.
  3. Record layout: which slot of the native record is *named for* which namedtuple field,
     which label the C source gives each slot, which namedtuple each method documents.
  4. Front-end post-processing: MAC padded to six groups; Windows broadcast address.
  Import-free apart from the vocabulary of Model/C20 (platforms, errors, outcomes).
-/
import PsutilModel.Model.C20
namespace Psutil.C20.Spec
open Psutil.C20

/-! ## 1. Error contract -/

inductive Kind | noSuchProcess | permission | other
  deriving DecidableEq, Repr

def kind (f : Family) (e : Err) : Kind :=
  match f with
  | .bsd | .osx =>
    (match e.errno with
     | .ESRCH => .noSuchProcess
     | .EPERM | .EACCES => .permission
     | _ => .other)
  | .sunos | .aix =>
    (match e.errno with
     | .ESRCH | .ENOENT => .noSuchProcess
     | .EPERM | .EACCES => .permission
     | _ => .other)
  | .windows =>
    if e.winerror == some 5 || e.winerror == some 1314 then .permission
    else
      (match e.errno with
       | .EPERM | .EACCES => .permission
       | .ESRCH => .noSuchProcess
       | _ => .other)

/-- is the pid still listed as a zombie? (the statement's words; Windows has no zombies).
    The same on every platform: it does NOT depend on which probe the module uses. -/
def listedAsZombie (f : Family) (env : Env) : Bool :=
  match f with
  | .windows => false
  | _ => env.state == .zombie

/-- KNOWN DEVIATION (finding C20-sunos-aix-exists-means-zombie): the region in which the Solaris
    and AIX decorators report ZombieProcess for a process that is NOT a zombie, because their only
    probe is "does the pid still exist" (`pid_exists`; Solaris: PID 0 always "exists"): a
    "no such process" failure while the process is alive — or, on Solaris, on PID 0 whatever its
    state. In this region the code's outcome is `.zombie pid true`, the contract cell is
    `.nsp pid true`. Not part of the contract: only used to state the `_partial` theorems. -/
def knownZombieDeviation (f : Family) (e : Err) (env : Env) : Bool :=
  (f == .sunos || f == .aix) && kind f e == .noSuchProcess &&
    (env.state == .alive || (f == .sunos && env.pid == 0 && env.state == .gone))

/-- Native process-status codes that mean "zombie" on each platform (sys/proc.h of the platform;
    OpenBSD: `SZOMB` is declared but unused since 5.x, a real zombie is `SDEAD` — both are
    reported as STATUS_ZOMBIE). Windows has no zombies. -/
def zombieCodes (p : Platform) : List String :=
  match p with
  | .openbsd => ["SDEAD", "SZOMB"]
  | .windows => []
  | _ => ["SZOMB"]

def documentedZombie (p : Platform) (code : String) : Bool := (zombieCodes p).contains code

/-- the world the contract speaks about, from the native status code of the process
    (`none`: the process is gone): a zombie iff the platform documents that code as zombie -/
def docEnv (p : Platform) (pid : Nat) (status : Option String) (listed : Bool) : Env :=
  ⟨pid, (match status with
         | none => .gone
         | some c => if documentedZombie p c then .zombie else .alive), listed⟩

/-- the documented pid-0 exception -/
def pid0Exception (f : Family) : Bool := f == .bsd || f == .sunos

/-- the cell of the contract table -/
def contract (f : Family) (e : Err) (env : Env) : Outcome :=
  match kind f e with
  | .noSuchProcess => if listedAsZombie f env then .zombie env.pid true else .nsp env.pid true
  | .permission => .ad env.pid true
  | .other => if pid0Exception f && env.pid == 0 && env.pid0Listed then .ad env.pid true else .raw e

/-! ## 2. Recoverable situations (each one is a comment in the code or a sentence in the docs) -/

inductive Recover
  | none
  /-- Windows: "attempting <x>() fallback (slower)": the fast per-process call was denied,
      the information is taken from the system-wide process list instead -/
  | slowerFallbackOnDenied
  /-- Solaris uids()/gids(): /proc/<pid>/cred denied → real/effective ids from psinfo, saved = None -/
  | psinfoFallbackOnDenied
  /-- Solaris exe(): "continue and guess the exe name from the cmdline" (which probes the process again) -/
  | guessFromCmdline
  /-- a sub-resource (one fd link, one lwp) vanished: not the process; the method re-checks
      /proc/<pid> afterwards (`hit_enoent` → `_assert_alive`), so: value if still there, else
      the "no such process" cell -/
  | subResourceVanished
  /-- NetBSD cmdline(): EINVAL is a known kernel quirk → zombie / gone by the probe, else [] -/
  | netbsdEinval
  /-- NetBSD exe() reads /proc: ENOENT there is "no such process" -/
  | procfsEnoent
  /-- AIX io_counters(): "if process is terminated, proc_io_counters returns OSError instead of NSP" -/
  | goneMeansNsp
  /-- a yes/no question about ONE path that is not the process entry itself — is this fd link a link
      (Solaris open_files()), is this candidate path an executable file (AIX exe(): "search for exe name
      PATH") —: when the question cannot be answered the answer is "no", that one item is left out and
      the method returns -/
  | pathQuestion
  /-- Solaris, PID 0 (`sched`): inside a zone /proc/0/psinfo is not there although the process is; the
      module reports AccessDenied whenever it cannot see that file (the statement's PID-0 exception:
      "an otherwise unexplained OS error on the existing PID 0 is reported as AccessDenied") -/
  | pid0Psinfo
  deriving DecidableEq, Repr

/-- Solaris methods documented to come from the psinfo record (`_proc_basic_info`; uids()/gids() fall back to it) -/
def sunosPsinfoMethods : List String :=
  ["ppid", "nice_get", "create_time", "num_threads", "status", "terminal", "memory_info", "memory_full_info",
   "uids", "gids"]

def recoverable (p : Platform) (meth call : String) : Recover :=
  match p with
  | .windows =>
    if (meth == "cmdline" && call == "proc_cmdline")
       || ((meth == "create_time" || meth == "cpu_times") && call == "proc_times")
       || ((meth == "memory_info" || meth == "memory_full_info") && call == "proc_memory_info")
       || (meth == "io_counters" && call == "proc_io_counters")
       || (meth == "num_handles" && call == "proc_num_handles") then .slowerFallbackOnDenied
    else .none
  | .sunos =>
    if (meth == "uids" || meth == "gids") && call == "proc_cred" then .psinfoFallbackOnDenied
    else if meth == "exe" && call == "os.readlink" then .guessFromCmdline
    else if (meth == "terminal" || meth == "cwd" || meth == "open_files" || meth == "memory_maps")
            && call == "os.readlink" then .subResourceVanished
    else if meth == "threads" && call == "query_process_thread" then .subResourceVanished
    else if meth == "open_files" && call == "os.path.islink" then .pathQuestion
    else if call == "os.path.exists" && sunosPsinfoMethods.contains meth then .pid0Psinfo
    else .none
  | .aix =>
    if meth == "cwd" && call == "os.readlink" then .subResourceVanished
    else if meth == "exe" && call == "os.path.isfile" then .pathQuestion
    else if meth == "io_counters" && call == "proc_io_counters" then .goneMeansNsp
    else .none
  | .netbsd =>
    if meth == "cmdline" && call == "proc_cmdline" then .netbsdEinval
    else if meth == "exe" && call == "os.readlink" then .procfsEnoent
    else .none
  | _ => .none

/-- Windows `ERROR_PARTIAL_COPY` (299): "retried 33×, then AccessDenied" — the methods that
    read another process's memory (issue #875) -/
def partialCopyCode : Nat := 299
def partialCopyRetries : Nat := 33
def retriesPartialCopy (meth : String) : Bool := meth == "cmdline" || meth == "environ" || meth == "cwd"

/-- which outcomes the property accepts for one faulted native call of method `meth` -/
def allowed (p : Platform) (meth : String) (r : Recover) (e : Err) (env : Env) (o : Outcome) : Bool :=
  let f := p.family
  o == contract f e env ||
  (p == .windows && retriesPartialCopy meth && e.winerror == some partialCopyCode &&
     (o == .value || o == .ad env.pid true)) ||
  (match r with
   | .none => false
   | .slowerFallbackOnDenied => kind f e == .permission && o == .value
   | .psinfoFallbackOnDenied => contract f e env == .ad env.pid true && o == .value
   | .guessFromCmdline => o == .value
   | .subResourceVanished =>
     e.errno == .ENOENT && (o == .value || o == contract f ⟨.ENOENT, none⟩ env)
   | .netbsdEinval =>
     e.errno == .EINVAL &&
       (o == (if listedAsZombie f env then .zombie env.pid true
              else if env.pid != 0 && env.state == .gone then .nsp env.pid true else .value))
   | .procfsEnoent => e.errno == .ENOENT && o == contract f ⟨.ESRCH, none⟩ env
   | .goneMeansNsp => env.state == .gone && o == .nsp env.pid true
   | .pathQuestion => o == .value
   | .pid0Psinfo => env.pid == 0 && o == .ad env.pid true)

/-- Two-fault sequences. The first failing call was recovered from (one of the documented
    recoverable situations above, or the partial-copy retry), so the method is still running;
    the second failing call is then judged exactly like a single failure at that call: the
    contract cell of the *second* error, or what is documented as recoverable at that call. What
    the first error was does not widen or narrow this (in particular the outcome must not be the
    translation of the first, already recovered, error unless that is also the second's cell). -/
def allowed2 (p : Platform) (meth : String) (_call1 : String) (_e1 : Err) (call2 : String) (e2 : Err) (env : Env)
    (o : Outcome) : Bool :=
  allowed p meth (recoverable p meth call2) e2 env o

/-! ## 3. Record layout -/

/-- label the C source (`Py_BuildValue` comment) gives the slot that the Python side calls `key` -/
def slotLabel : List (String × List (String × List String)) :=  -- several labels = either is accepted
  [ ("bsd.kinfo_proc_map",
      [ ("ppid", ["ppid"]), ("status", ["status"]), ("real_uid", ["real uid"]), ("effective_uid", ["effective uid"]),
        ("saved_uid", ["saved uid"]), ("real_gid", ["real gid"]), ("effective_gid", ["effective gid"]),
        ("saved_gid", ["saved gid"]), ("ttynr", ["tty nr"]), ("create_time", ["create time"]),
        ("ctx_switches_vol", ["ctx switches (voluntary)"]), ("ctx_switches_unvol", ["ctx switches (unvoluntary)"]),
        ("read_io_count", ["read io count"]), ("write_io_count", ["write io count"]),
        ("user_time", ["user time"]), ("sys_time", ["sys time"]),
        ("ch_user_time", ["children utime", "ch utime"]), ("ch_sys_time", ["children stime", "ch stime"]),
        ("rss", ["rss"]), ("vms", ["vms"]), ("memtext", ["mem text"]), ("memdata", ["mem data"]),
        ("memstack", ["mem stack"]), ("cpunum", ["the CPU we are on"]), ("name", ["name"]) ]),
    ("osx.kinfo_proc_map",
      [ ("ppid", ["ppid"]), ("ruid", ["real uid"]), ("euid", ["effective uid"]), ("suid", ["saved uid"]),
        ("rgid", ["real gid"]), ("egid", ["effective gid"]), ("sgid", ["saved gid"]), ("ttynr", ["tty nr"]),
        ("ctime", ["create time"]), ("status", ["status"]), ("name", ["name"]) ]),
    ("osx.pidtaskinfo_map",
      [ ("cpuutime", ["cpu user time"]), ("cpustime", ["cpu sys time"]), ("rss", ["rss"]), ("vms", ["vms"]),
        ("pfaults", ["number of page faults (pages)"]), ("pageins", ["number of actual pageins (pages)"]),
        ("numthreads", ["num threads"]), ("volctxsw", ["voluntary ctx switches"]) ]),
    ("sunos.proc_info_map",
      [ ("ppid", ["parent pid"]), ("rss", ["rss"]), ("vms", ["vms"]), ("create_time", ["create time"]),
        ("nice", ["nice"]), ("num_threads", ["no. of threads"]), ("status", ["status code"]), ("ttynr", ["tty nr"]),
        ("uid", ["real user id"]), ("euid", ["effective user id"]), ("gid", ["real group id"]),
        ("egid", ["effective group id"]) ]),
    ("aix.proc_info_map",
      [ ("ppid", ["parent pid"]), ("rss", ["rss"]), ("vms", ["vms"]), ("create_time", ["create time"]),
        ("nice", ["nice"]), ("num_threads", ["no. of threads"]), ("status", ["status code"]), ("ttynr", ["tty nr"]) ]),
    ("windows.pinfo_map",
      [ ("num_handles", ["num handles"]), ("ctx_switches", ["num ctx switches"]), ("user_time", ["cpu user time"]),
        ("kernel_time", ["cpu kernel time"]), ("create_time", ["create time"]), ("num_threads", ["num threads"]),
        ("io_rcount", ["io rcount"]), ("io_wcount", ["io wcount"]), ("io_rbytes", ["io rbytes"]),
        ("io_wbytes", ["io wbytes"]), ("io_count_others", ["io others count"]), ("io_bytes_others", ["io others bytes"]),
        ("num_page_faults", ["num page faults"]), ("peak_wset", ["peak wset"]), ("wset", ["wset"]),
        ("peak_paged_pool", ["peak paged pool"]), ("paged_pool", ["paged pool"]),
        ("peak_non_paged_pool", ["peak non paged pool"]), ("non_paged_pool", ["non paged pool"]),
        ("pagefile", ["pagefile"]), ("peak_pagefile", ["peak pagefile"]), ("mem_private", ["private"]) ]) ]

/-- The slot *named for* each namedtuple field (or bare return value, field "#k" = k-th slot the
    method reads outside a namedtuple), per platform module: (method, namedtuple, field, source).
    Written from the field names of the documented namedtuples and the slot names of the maps:
    `user` ↔ `user_time`/`cpuutime`, `real` ↔ `real_uid`/`ruid`/`uid`, … Fields a platform
    cannot provide are documented constants (`-1`, `0`, `0.0`); Solaris/AIX sizes are in KiB. -/
def slotNamedFor : List (String × List (String × String × String × String)) :=
  [ ("bsd",
      [ ("cpu_num", "", "#0", "kinfo_proc_map.cpunum"),
        ("cpu_times", "pcputimes", "user", "kinfo_proc_map.user_time"),
        ("cpu_times", "pcputimes", "system", "kinfo_proc_map.sys_time"),
        ("cpu_times", "pcputimes", "children_user", "kinfo_proc_map.ch_user_time"),
        ("cpu_times", "pcputimes", "children_system", "kinfo_proc_map.ch_sys_time"),
        ("create_time", "", "#0", "kinfo_proc_map.create_time"),
        ("gids", "pgids", "real", "kinfo_proc_map.real_gid"),
        ("gids", "pgids", "effective", "kinfo_proc_map.effective_gid"),
        ("gids", "pgids", "saved", "kinfo_proc_map.saved_gid"),
        ("io_counters", "pio", "read_count", "kinfo_proc_map.read_io_count"),
        ("io_counters", "pio", "write_count", "kinfo_proc_map.write_io_count"),
        ("io_counters", "pio", "read_bytes", "const:-1"),
        ("io_counters", "pio", "write_bytes", "const:-1"),
        ("memory_info", "pmem", "rss", "kinfo_proc_map.rss"),
        ("memory_info", "pmem", "vms", "kinfo_proc_map.vms"),
        ("memory_info", "pmem", "text", "kinfo_proc_map.memtext"),
        ("memory_info", "pmem", "data", "kinfo_proc_map.memdata"),
        ("memory_info", "pmem", "stack", "kinfo_proc_map.memstack"),
        ("name", "", "#0", "kinfo_proc_map.name"),
        ("num_ctx_switches", "pctxsw", "voluntary", "kinfo_proc_map.ctx_switches_vol"),
        ("num_ctx_switches", "pctxsw", "involuntary", "kinfo_proc_map.ctx_switches_unvol"),
        ("ppid", "", "#0", "kinfo_proc_map.ppid"),
        ("status", "", "#0", "kinfo_proc_map.status"),
        ("terminal", "", "#0", "kinfo_proc_map.ttynr"),
        ("uids", "puids", "real", "kinfo_proc_map.real_uid"),
        ("uids", "puids", "effective", "kinfo_proc_map.effective_uid"),
        ("uids", "puids", "saved", "kinfo_proc_map.saved_uid") ]),
    ("osx",
      [ ("cpu_times", "pcputimes", "user", "pidtaskinfo_map.cpuutime"),
        ("cpu_times", "pcputimes", "system", "pidtaskinfo_map.cpustime"),
        ("cpu_times", "pcputimes", "children_user", "const:0.0"),
        ("cpu_times", "pcputimes", "children_system", "const:0.0"),
        ("create_time", "", "#0", "kinfo_proc_map.ctime"),
        ("gids", "pgids", "real", "kinfo_proc_map.rgid"),
        ("gids", "pgids", "effective", "kinfo_proc_map.egid"),
        ("gids", "pgids", "saved", "kinfo_proc_map.sgid"),
        ("memory_info", "pmem", "rss", "pidtaskinfo_map.rss"),
        ("memory_info", "pmem", "vms", "pidtaskinfo_map.vms"),
        ("memory_info", "pmem", "pfaults", "pidtaskinfo_map.pfaults"),
        ("memory_info", "pmem", "pageins", "pidtaskinfo_map.pageins"),
        ("name", "", "#0", "kinfo_proc_map.name"),
        ("num_ctx_switches", "pctxsw", "voluntary", "pidtaskinfo_map.volctxsw"),
        ("num_ctx_switches", "pctxsw", "involuntary", "const:0"),
        ("num_threads", "", "#0", "pidtaskinfo_map.numthreads"),
        ("ppid", "", "#0", "kinfo_proc_map.ppid"),
        ("status", "", "#0", "kinfo_proc_map.status"),
        ("terminal", "", "#0", "kinfo_proc_map.ttynr"),
        ("uids", "puids", "real", "kinfo_proc_map.ruid"),
        ("uids", "puids", "effective", "kinfo_proc_map.euid"),
        ("uids", "puids", "saved", "kinfo_proc_map.suid") ]),
    ("sunos",
      [ ("create_time", "", "#0", "proc_info_map.create_time"),
        ("gids", "pgids", "real", "proc_info_map.gid"),
        ("gids", "pgids", "effective", "proc_info_map.egid"),
        ("memory_info", "pmem", "rss", "proc_info_map.rss*1024"),
        ("memory_info", "pmem", "vms", "proc_info_map.vms*1024"),
        ("nice_get", "", "#0", "proc_info_map.nice"),
        ("num_threads", "", "#0", "proc_info_map.num_threads"),
        ("ppid", "", "#0", "proc_info_map.ppid"),
        ("status", "", "#0", "proc_info_map.status"),
        ("terminal", "", "#0", "proc_info_map.ttynr"),
        ("uids", "puids", "real", "proc_info_map.uid"),
        ("uids", "puids", "effective", "proc_info_map.euid") ]),
    ("aix",
      [ ("create_time", "", "#0", "proc_info_map.create_time"),
        ("memory_info", "pmem", "rss", "proc_info_map.rss*1024"),
        ("memory_info", "pmem", "vms", "proc_info_map.vms*1024"),
        ("num_threads", "", "#0", "proc_info_map.num_threads"),
        ("ppid", "", "#0", "proc_info_map.ppid"),
        ("status", "", "#0", "proc_info_map.status"),
        ("terminal", "", "#0", "proc_info_map.ttynr") ]),
    ("windows",
      [ ("_get_raw_meminfo", "", "#0", "pinfo_map.num_page_faults"),
        ("_get_raw_meminfo", "", "#1", "pinfo_map.peak_wset"),
        ("_get_raw_meminfo", "", "#2", "pinfo_map.wset"),
        ("_get_raw_meminfo", "", "#3", "pinfo_map.peak_paged_pool"),
        ("_get_raw_meminfo", "", "#4", "pinfo_map.paged_pool"),
        ("_get_raw_meminfo", "", "#5", "pinfo_map.peak_non_paged_pool"),
        ("_get_raw_meminfo", "", "#6", "pinfo_map.non_paged_pool"),
        ("_get_raw_meminfo", "", "#7", "pinfo_map.pagefile"),
        ("_get_raw_meminfo", "", "#8", "pinfo_map.peak_pagefile"),
        ("_get_raw_meminfo", "", "#9", "pinfo_map.mem_private"),
        ("cpu_times", "pcputimes", "user", "pinfo_map.user_time"),
        ("cpu_times", "pcputimes", "system", "pinfo_map.kernel_time"),
        ("cpu_times", "pcputimes", "children_user", "const:0.0"),
        ("cpu_times", "pcputimes", "children_system", "const:0.0"),
        ("create_time", "", "#0", "pinfo_map.create_time"),
        ("io_counters", "", "#0", "pinfo_map.io_rcount"),
        ("io_counters", "", "#1", "pinfo_map.io_wcount"),
        ("io_counters", "", "#2", "pinfo_map.io_rbytes"),
        ("io_counters", "", "#3", "pinfo_map.io_wbytes"),
        ("io_counters", "", "#4", "pinfo_map.io_count_others"),
        ("io_counters", "", "#5", "pinfo_map.io_bytes_others"),
        ("num_ctx_switches", "pctxsw", "voluntary", "pinfo_map.ctx_switches"),
        ("num_ctx_switches", "pctxsw", "involuntary", "const:0"),
        ("num_handles", "", "#0", "pinfo_map.num_handles"),
        ("num_threads", "", "#0", "pinfo_map.num_threads"),
        ("open_files", "popenfile", "fd", "const:-1") ]) ]

/-- The alternative paths: slots read only when the fast per-process call was refused — the
    Windows "attempting <x>() fallback (slower)" branches and Solaris `uids()/gids()` when
    `/proc/<pid>/cred` is denied. (method, slot) per module; every other slot read is on the main path. -/
def fallbackSlots : List (String × List (String × String)) :=
  [ ("bsd", []), ("osx", []),
    ("sunos",
      [ ("gids", "proc_info_map.gid"), ("gids", "proc_info_map.egid"),
        ("uids", "proc_info_map.uid"), ("uids", "proc_info_map.euid") ]),
    ("aix", []),
    ("windows",
      [ ("_get_raw_meminfo", "pinfo_map.num_page_faults"), ("_get_raw_meminfo", "pinfo_map.peak_wset"),
        ("_get_raw_meminfo", "pinfo_map.wset"), ("_get_raw_meminfo", "pinfo_map.peak_paged_pool"),
        ("_get_raw_meminfo", "pinfo_map.paged_pool"), ("_get_raw_meminfo", "pinfo_map.peak_non_paged_pool"),
        ("_get_raw_meminfo", "pinfo_map.non_paged_pool"), ("_get_raw_meminfo", "pinfo_map.pagefile"),
        ("_get_raw_meminfo", "pinfo_map.peak_pagefile"), ("_get_raw_meminfo", "pinfo_map.mem_private"),
        ("cpu_times", "pinfo_map.user_time"), ("cpu_times", "pinfo_map.kernel_time"),
        ("create_time", "pinfo_map.create_time"),
        ("io_counters", "pinfo_map.io_rcount"), ("io_counters", "pinfo_map.io_wcount"),
        ("io_counters", "pinfo_map.io_rbytes"), ("io_counters", "pinfo_map.io_wbytes"),
        ("io_counters", "pinfo_map.io_count_others"), ("io_counters", "pinfo_map.io_bytes_others"),
        ("num_handles", "pinfo_map.num_handles") ]) ]

/-- field of Windows `pmem` / `pio` that the k-th slot of the fall-back tuples stands for -/
def winFallbackField : List (String × String) :=
  [ ("pinfo_map.num_page_faults", "num_page_faults"), ("pinfo_map.peak_wset", "peak_wset"),
    ("pinfo_map.wset", "wset"), ("pinfo_map.peak_paged_pool", "peak_paged_pool"),
    ("pinfo_map.paged_pool", "paged_pool"), ("pinfo_map.peak_non_paged_pool", "peak_nonpaged_pool"),
    ("pinfo_map.non_paged_pool", "nonpaged_pool"), ("pinfo_map.pagefile", "pagefile"),
    ("pinfo_map.peak_pagefile", "peak_pagefile"), ("pinfo_map.mem_private", "private") ]

/-- Windows `pmem`: rss is the working set, vms the pagefile usage, then the ten
    PROCESS_MEMORY_COUNTERS_EX members in this order -/
def winPmemFields : List String :=
  ["rss", "vms", "num_page_faults", "peak_wset", "wset", "peak_paged_pool", "paged_pool",
   "peak_nonpaged_pool", "nonpaged_pool", "pagefile", "peak_pagefile", "private"]
def winRssFrom : String := "wset"
def winVmsFrom : String := "pagefile"

/-- the namedtuple each Process method documents (docs/index.rst examples) -/
def documentedNtuple : List (String × List String) :=
  [ ("uids", ["puids"]), ("gids", ["pgids"]), ("cpu_times", ["pcputimes"]),
    ("memory_info", ["pmem"]), ("memory_full_info", ["pfullmem", "pmem"]),
    ("num_ctx_switches", ["pctxsw"]), ("io_counters", ["pio"]) ]

/-! ## 3b. The native side of the record layout: the C call that builds each record (round 2)

  REVIEWED correspondence tables, written by reading the C sources slot name by slot name
  (struct member ↔ slot name: `ki_ruid` real uid, `ki_uid` effective uid, `ki_svuid` saved uid,
  `ki_rgid` real gid, `ki_groups[0]` effective gid, `ru_nvcsw` / `ru_nivcsw` voluntary / involuntary
  context switches, `ru_inblock` / `ru_oublock` block reads / writes, `pr_rssize` resident size,
  `pr_size` image size, `pr_nlwp` number of lwps, `pti_csw` context switches, `HandleCount`, …).
  Expressions are normalised by the translator: comments and one leading cast dropped, no blanks.
  The table states the INTENDED member for every slot. One slot of the C source differs from it
  (finding C20-bsd-saved-gid, PENDING(fixes/C20-bsd-saved-gid.diff)): on the three BSDs the slot
  the Python side calls `saved_gid` is filled from the saved *uid* member (`ki_svuid` / `p_svuid`)
  instead of the saved gid member (`ki_svgid` of FreeBSD's `struct kinfo_proc`, `p_svgid` of
  OpenBSD's `struct kinfo_proc` and NetBSD's `struct kinfo_proc2`) — `gids().saved` is the saved
  uid there. macOS reads `e_pcred.p_svgid`. -/

/-- (slot map, identity) → for every slot name the C expression `Py_BuildValue` is given at that slot -/
def slotCExpr : List ((String × String) × List (String × String)) :=
  [
    (("aix.proc_info_map", "aix"),
      [ ("ppid", "info.pr_ppid"),
        ("rss", "info.pr_rssize"),
        ("vms", "info.pr_size"),
        ("create_time", "TV2DOUBLE(info.pr_start)"),
        ("nice", "info.pr_lwp.pr_nice"),
        ("num_threads", "info.pr_nlwp"),
        ("status", "status.pr_stat"),
        ("ttynr", "info.pr_ttydev") ]),
    (("bsd.kinfo_proc_map", "freebsd"),
      [ ("ppid", "py_ppid"),
        ("status", "kp.ki_stat"),
        ("real_uid", "kp.ki_ruid"),
        ("effective_uid", "kp.ki_uid"),
        ("saved_uid", "kp.ki_svuid"),
        ("real_gid", "kp.ki_rgid"),
        ("effective_gid", "kp.ki_groups[0]"),
        ("saved_gid", "kp.ki_svgid"),
        ("ttynr", "kp.ki_tdev"),
        ("create_time", "PSUTIL_TV2DOUBLE(kp.ki_start)"),
        ("ctx_switches_vol", "kp.ki_rusage.ru_nvcsw"),
        ("ctx_switches_unvol", "kp.ki_rusage.ru_nivcsw"),
        ("read_io_count", "kp.ki_rusage.ru_inblock"),
        ("write_io_count", "kp.ki_rusage.ru_oublock"),
        ("user_time", "PSUTIL_TV2DOUBLE(kp.ki_rusage.ru_utime)"),
        ("sys_time", "PSUTIL_TV2DOUBLE(kp.ki_rusage.ru_stime)"),
        ("ch_user_time", "PSUTIL_TV2DOUBLE(kp.ki_rusage_ch.ru_utime)"),
        ("ch_sys_time", "PSUTIL_TV2DOUBLE(kp.ki_rusage_ch.ru_stime)"),
        ("rss", "rss"),
        ("vms", "vms"),
        ("memtext", "memtext"),
        ("memdata", "memdata"),
        ("memstack", "memstack"),
        ("cpunum", "oncpu"),
        ("name", "py_name") ]),
    (("bsd.kinfo_proc_map", "openbsd"),
      [ ("ppid", "py_ppid"),
        ("status", "kp.p_stat"),
        ("real_uid", "kp.p_ruid"),
        ("effective_uid", "kp.p_uid"),
        ("saved_uid", "kp.p_svuid"),
        ("real_gid", "kp.p_rgid"),
        ("effective_gid", "kp.p_groups[0]"),
        ("saved_gid", "kp.p_svgid"),
        ("ttynr", "kp.p_tdev"),
        ("create_time", "PSUTIL_KPT2DOUBLE(kp.p_ustart)"),
        ("ctx_switches_vol", "kp.p_uru_nvcsw"),
        ("ctx_switches_unvol", "kp.p_uru_nivcsw"),
        ("read_io_count", "kp.p_uru_inblock"),
        ("write_io_count", "kp.p_uru_oublock"),
        ("user_time", "PSUTIL_KPT2DOUBLE(kp.p_uutime)"),
        ("sys_time", "PSUTIL_KPT2DOUBLE(kp.p_ustime)"),
        ("ch_user_time", "kp.p_uctime_sec+kp.p_uctime_usec/1000000.0"),
        ("ch_sys_time", "kp.p_uctime_sec+kp.p_uctime_usec/1000000.0"),
        ("rss", "rss"),
        ("vms", "vms"),
        ("memtext", "memtext"),
        ("memdata", "memdata"),
        ("memstack", "memstack"),
        ("cpunum", "oncpu"),
        ("name", "py_name") ]),
    (("bsd.kinfo_proc_map", "netbsd"),
      [ ("ppid", "py_ppid"),
        ("status", "kp.p_stat"),
        ("real_uid", "kp.p_ruid"),
        ("effective_uid", "kp.p_uid"),
        ("saved_uid", "kp.p_svuid"),
        ("real_gid", "kp.p_rgid"),
        ("effective_gid", "kp.p_groups[0]"),
        ("saved_gid", "kp.p_svgid"),
        ("ttynr", "kp.p_tdev"),
        ("create_time", "PSUTIL_KPT2DOUBLE(kp.p_ustart)"),
        ("ctx_switches_vol", "kp.p_uru_nvcsw"),
        ("ctx_switches_unvol", "kp.p_uru_nivcsw"),
        ("read_io_count", "kp.p_uru_inblock"),
        ("write_io_count", "kp.p_uru_oublock"),
        ("user_time", "PSUTIL_KPT2DOUBLE(kp.p_uutime)"),
        ("sys_time", "PSUTIL_KPT2DOUBLE(kp.p_ustime)"),
        ("ch_user_time", "kp.p_uctime_sec+kp.p_uctime_usec/1000000.0"),
        ("ch_sys_time", "kp.p_uctime_sec+kp.p_uctime_usec/1000000.0"),
        ("rss", "rss"),
        ("vms", "vms"),
        ("memtext", "memtext"),
        ("memdata", "memdata"),
        ("memstack", "memstack"),
        ("cpunum", "oncpu"),
        ("name", "py_name") ]),
    (("osx.kinfo_proc_map", "macos"),
      [ ("ppid", "kp.kp_eproc.e_ppid"),
        ("ruid", "kp.kp_eproc.e_pcred.p_ruid"),
        ("euid", "kp.kp_eproc.e_ucred.cr_uid"),
        ("suid", "kp.kp_eproc.e_pcred.p_svuid"),
        ("rgid", "kp.kp_eproc.e_pcred.p_rgid"),
        ("egid", "kp.kp_eproc.e_ucred.cr_groups[0]"),
        ("sgid", "kp.kp_eproc.e_pcred.p_svgid"),
        ("ttynr", "kp.kp_eproc.e_tdev"),
        ("ctime", "PSUTIL_TV2DOUBLE(kp.kp_proc.p_starttime)"),
        ("status", "kp.kp_proc.p_stat"),
        ("name", "py_name") ]),
    (("osx.pidtaskinfo_map", "macos"),
      [ ("cpuutime", "total_user/1000000000.0"),
        ("cpustime", "total_system/1000000000.0"),
        ("rss", "pti.pti_resident_size"),
        ("vms", "pti.pti_virtual_size"),
        ("pfaults", "pti.pti_faults"),
        ("pageins", "pti.pti_pageins"),
        ("numthreads", "pti.pti_threadnum"),
        ("volctxsw", "pti.pti_csw") ]),
    (("sunos.proc_info_map", "sunos"),
      [ ("ppid", "info.pr_ppid"),
        ("rss", "info.pr_rssize"),
        ("vms", "info.pr_size"),
        ("create_time", "PSUTIL_TV2DOUBLE(info.pr_start)"),
        ("nice", "info.pr_lwp.pr_nice"),
        ("num_threads", "info.pr_nlwp"),
        ("status", "info.pr_lwp.pr_state"),
        ("ttynr", "info.pr_ttydev"),
        ("uid", "info.pr_uid"),
        ("euid", "info.pr_euid"),
        ("gid", "info.pr_gid"),
        ("egid", "info.pr_egid") ]),
    (("windows.pinfo_map", "windows"),
      [ ("num_handles", "process->HandleCount"),
        ("ctx_switches", "ctx_switches"),
        ("user_time", "user_time"),
        ("kernel_time", "kernel_time"),
        ("create_time", "create_time"),
        ("num_threads", "process->NumberOfThreads"),
        ("io_rcount", "process->ReadOperationCount.QuadPart"),
        ("io_wcount", "process->WriteOperationCount.QuadPart"),
        ("io_rbytes", "process->ReadTransferCount.QuadPart"),
        ("io_wbytes", "process->WriteTransferCount.QuadPart"),
        ("io_count_others", "process->OtherOperationCount.QuadPart"),
        ("io_bytes_others", "process->OtherTransferCount.QuadPart"),
        ("num_page_faults", "process->PageFaultCount"),
        ("peak_wset", "process->PeakWorkingSetSize"),
        ("wset", "process->WorkingSetSize"),
        ("peak_paged_pool", "process->QuotaPeakPagedPoolUsage"),
        ("paged_pool", "process->QuotaPagedPoolUsage"),
        ("peak_non_paged_pool", "process->QuotaPeakNonPagedPoolUsage"),
        ("non_paged_pool", "process->QuotaNonPagedPoolUsage"),
        ("pagefile", "process->PagefileUsage"),
        ("peak_pagefile", "process->PeakPagefileUsage"),
        ("mem_private", "process->PrivatePageCount") ]) ]


/-- native tuples that the Python side unpacks positionally (no slot map): (native function, identity) →
    (what the position means, C expression), in the order of the documented namedtuple fields -/
def tupleCExpr : List ((String × String) × List (String × String)) :=
  [ (("proc_cred", "sunos"),
      [ ("real uid", "info.pr_ruid"), ("effective uid", "info.pr_euid"), ("saved uid", "info.pr_suid"),
        ("real gid", "info.pr_rgid"), ("effective gid", "info.pr_egid"), ("saved gid", "info.pr_sgid") ]),
    (("proc_cpu_times", "sunos"),
      [ ("user", "PSUTIL_TV2DOUBLE(info.pr_utime)"), ("system", "PSUTIL_TV2DOUBLE(info.pr_stime)"),
        ("children user", "PSUTIL_TV2DOUBLE(info.pr_cutime)"), ("children system", "PSUTIL_TV2DOUBLE(info.pr_cstime)") ]),
    (("proc_num_ctx_switches", "sunos"), [ ("voluntary", "info.pr_vctx"), ("involuntary", "info.pr_ictx") ]),
    (("proc_cred", "aix"),
      [ ("real uid", "info.pr_ruid"), ("effective uid", "info.pr_euid"), ("saved uid", "info.pr_suid"),
        ("real gid", "info.pr_rgid"), ("effective gid", "info.pr_egid"), ("saved gid", "info.pr_sgid") ]),
    (("proc_cpu_times", "aix"),
      [ ("user", "TV2DOUBLE(info.pr_utime)"), ("system", "TV2DOUBLE(info.pr_stime)"),
        ("children user", "TV2DOUBLE(info.pr_cutime)"), ("children system", "TV2DOUBLE(info.pr_cstime)") ]),
    (("proc_num_ctx_switches", "aix"), [ ("voluntary", "p->pi_ru.ru_nvcsw"), ("involuntary", "p->pi_ru.ru_nivcsw") ]),
    (("proc_io_counters", "aix"),
      [ ("read count", "procinfo.inOps"), ("write count", "procinfo.outOps"),
        ("read bytes", "procinfo.inBytes"), ("write bytes", "procinfo.outBytes") ]),
    (("proc_times", "windows"),
      [ ("user", "(ftUser.dwHighDateTime*HI_T+ftUser.dwLowDateTime*LO_T)"),
        ("system", "(ftKernel.dwHighDateTime*HI_T+ftKernel.dwLowDateTime*LO_T)"),
        ("create time", "psutil_FiletimeToUnixTime(ftCreate)") ]),
    (("proc_memory_info", "windows"),
      [ ("num_page_faults", "cnt.PageFaultCount"), ("peak_wset", "cnt.PeakWorkingSetSize"), ("wset", "cnt.WorkingSetSize"),
        ("peak_paged_pool", "cnt.QuotaPeakPagedPoolUsage"), ("paged_pool", "cnt.QuotaPagedPoolUsage"),
        ("peak_nonpaged_pool", "cnt.QuotaPeakNonPagedPoolUsage"), ("nonpaged_pool", "cnt.QuotaNonPagedPoolUsage"),
        ("pagefile", "cnt.PagefileUsage"), ("peak_pagefile", "cnt.PeakPagefileUsage"), ("private", "cnt.PrivateUsage") ]),
    (("proc_io_counters", "windows"),
      [ ("read_count", "IoCounters.ReadOperationCount"), ("write_count", "IoCounters.WriteOperationCount"),
        ("read_bytes", "IoCounters.ReadTransferCount"), ("write_bytes", "IoCounters.WriteTransferCount"),
        ("other_count", "IoCounters.OtherOperationCount"), ("other_bytes", "IoCounters.OtherTransferCount") ]) ]

/-- Windows: the fields of `pmem` after `rss`, `vms` are the positions of `proc_memory_info`'s tuple, in order -/
def winMemTupleFields : List String := winPmemFields.drop 2

/-! ## 4. Post-processing -/

/-- a MAC with fewer than six groups is completed with null groups, and nothing else changes -/
def macPadded (sep : Char) (a : List Char) : List Char :=
  a ++ (List.replicate (5 - a.count sep) [sep, '0', '0']).flatten

/-- `b` is the IPv4 broadcast address of `addr/plen`: every host bit (the low `32 - plen` bits)
    is set, every other bit is the address's -/
def IsBroadcast (addr plen b : Nat) : Prop :=
  ∀ i, b.testBit i = (decide (i < 32 - plen) || addr.testBit i)

/-- `b` is the IPv6 "broadcast" address (`ipaddress.IPv6Network(...).broadcast_address`: the
    highest address of the network) of `addr/plen`: the low `128 - plen` bits set, the others
    the address's -/
def IsBroadcast6 (addr plen b : Nat) : Prop :=
  ∀ i, b.testBit i = (decide (i < 128 - plen) || addr.testBit i)

/-! ### One call, many records

  "Each method returns the documented named tuple filled from the matching slots of the record the
  native layer hands back, [and] platform-conditional post-processing in the package front end takes
  effect": the statement speaks record by record. What the front end returns for one native record
  may depend on that record (and the platform) only — never on which other records the same native
  answer holds, nor on their order. A record whose broadcast address cannot be computed (no netmask,
  or a netmask that is not a prefix of the family's width) is returned exactly as handed back. -/

/-- the netmask of an AF_INET / AF_INET6 record is present but is not a prefix of the family's
    width (here: a `plen` beyond the width stands for every such netmask text) -/
def NetmaskRejected (r : RawAddr) : Prop :=
  (r.fam = .inet ∧ ∃ n, r.plen = some n ∧ 32 < n) ∨ (r.fam = .inet6 ∧ ∃ n, r.plen = some n ∧ 128 < n)

/-- `f` post-processes a native answer record by record with `g`: every returned pair comes from
    one native pair of the same NIC through `g` alone, nothing is lost, nothing invented -/
def RecordWise (g : RawAddr → OutAddr) (f : List (Nat × RawAddr) → List (Nat × OutAddr)) : Prop :=
  ∀ rs, (f rs).Perm (rs.map fun x => (x.1, g x.2))

/-! ## 5. The front end's platform-conditional branches -/

inductive FrontClass
  /-- transforms a value; modelled (`Model.front*`), driven under emulation -/
  | modelled
  /-- modelled earlier: `net_if_addrs()` (MAC padding, AF_LINK, Windows broadcast) -/
  | netIfAddrs
  /-- only decides whether a method / function exists on the platform: covered by `C20_api_names` -/
  | apiSurface
  /-- the branch is taken on Linux only (other properties' business); off Linux it is the identity -/
  | linuxOnly
  /-- chooses which cache / which platform primitive is used, no value is transformed -/
  | noValue
  /-- transforms behaviour but is NOT modelled here (reason in notes/C20.md) -/
  | notModelled
  deriving DecidableEq, Repr

/-- every `if` / conditional expression inside a function or class body of `psutil/__init__.py`
    whose test names a platform constant: (where, test, classification), in source order -/
def frontBranches : List (String × String × FrontClass) :=
  [ ("Process._get_ident", "WINDOWS", .modelled),
    ("Process.__eq__", "OPENBSD or NETBSD", .modelled),
    ("Process.oneshot", "POSIX", .noValue),
    ("Process.oneshot", "POSIX", .noValue),
    ("Process.ppid", "POSIX", .modelled),
    ("Process.name", "WINDOWS and self._name is not None", .modelled),
    ("Process.name", "POSIX", .modelled),
    ("Process.name", "POSIX and len(bname) >= 15", .modelled),
    ("Process.username", "POSIX", .modelled),
    ("Process", "POSIX", .apiSurface),
    ("Process.cpu_affinity", "LINUX", .modelled),
    ("Process", "WINDOWS", .apiSurface),
    ("Process", "POSIX", .apiSurface),
    ("Process._send_signal", "OPENBSD and pid_exists(pid)", .modelled),
    ("Process.send_signal", "POSIX", .modelled),
    ("Process.suspend", "POSIX", .noValue),
    ("Process.resume", "POSIX", .noValue),
    ("Process.terminate", "POSIX", .noValue),
    ("Process.kill", "POSIX", .noValue),
    ("pid_exists", "pid == 0 and POSIX", .modelled),
    ("_cpu_tot_time", "LINUX", .linuxOnly),
    ("cpu_freq", "LINUX and cpu.min is None", .linuxOnly),
    ("disk_io_counters", "LINUX", .modelled),
    ("net_if_addrs", "WINDOWS and fam == -1", .netIfAddrs),
    ("net_if_addrs", "POSIX", .netIfAddrs),
    ("net_if_addrs", "WINDOWS and fam in {socket.AF_INET, socket.AF_INET6}", .netIfAddrs) ]

/-- `Process.ppid()`: "On Windows the return value is cached after first call" — on POSIX the
    current parent; on Windows the first answer for good -/
def ppidExpected (posix : Bool) (cached : Option Nat) (native : Nat) : Nat :=
  match posix, cached with
  | false, some c => c
  | _, _ => native

/-- `Process.name()`: "On Windows the return value is cached after first call"; on UNIX a name
    truncated by the kernel (≥ 15 bytes) is replaced by the base name of `cmdline()[0]` when that
    begins with it; in every other case it is the platform layer's name -/
def nameExpected (windows posix : Bool) (cached : Option String) (native : String) (argv : Option (List String)) :
    String :=
  match windows, cached with
  | true, some c => c
  | _, _ =>
    match argv with
    | some (a0 :: _) =>
      let b := ((a0.splitOn "/").getLast?).getD ""
      if posix && 15 ≤ native.length && native.toList.isPrefixOf b.toList then b else native
    | _ => native

/-- `Process.username()`: "On UNIX this is calculated by using *real* process uid" -/
def usernameExpected (posix : Bool) (realUid : Nat) (pw : Option String) (native : String) : String :=
  match posix, pw with
  | true, some n => n
  | true, none => toString realUid
  | false, _ => native

/-- `pid_exists(0)` on POSIX: PID 0 is never signalled; it exists iff it is listed -/
def pidExistsExpected (posix : Bool) (pid : Int) (pids : List Nat) (native : Bool) : Bool :=
  if pid < 0 then false else if posix && pid == 0 then 0 ∈ pids else native

/-! ## 6. Front end, round 2: identity, equality, signals; documented namedtuple fields -/

/-- `Process(pid)`: the identity is (pid, creation time). "Use create_time() fast method … we'll get
    AccessDenied for most ADMIN processes, but that's fine": on Windows the identity query never
    takes the slower fall-back, so a permission failure leaves `(pid, None)`; the same for a zombie
    ("Zombies can still be queried by this class"); a "no such process" failure is
    `NoSuchProcess("process PID not found")` unless the caller asked to ignore it (then the object
    is marked gone); any other error is not the constructor's business.
    Stated through the contract cell of the failed creation-time query. -/
def initExpected (p : Platform) (e : Err) (env : Env) (ignoreNsp : Bool) : InitRes :=
  match contract p.family e env with
  | .ad _ _ | .zombie _ _ => .built none none false
  | .nsp _ _ => if ignoreNsp then .built none none true else .raisesNsp
  | .raw e' => .raisesOther e'
  | _ => .unmodelled

/-- what the constructor may ALSO be left with because the failing call of the creation-time query sits at a
    documented recoverable place (`recoverable`): only the Solaris PID-0 psinfo gate — AccessDenied there, so
    the object is built with `(0, None)` -/
def initAlso (p : Platform) (call : String) (env : Env) : List InitRes :=
  if recoverable p "create_time" call == .pid0Psinfo && env.pid == 0 then [.built none none false] else []

/-- "Zombie processes on Open/NetBSD have a creation time of 0.0. This covers the case when a
    process started normally (so it has a ctime), then it turned into a zombie": there, two
    objects for the same pid of which the first has a creation time and the second has none are
    the same process exactly when the process is a zombie now; everywhere else (and on every other
    platform) equality is equality of (pid, creation time). -/
def eqExpected (openOrNetbsd : Bool) (i1 i2 : Nat × Option Nat) (zombieNow : Bool) : Bool :=
  let hasCtime : Option Nat → Bool := fun c => c.isSome && c != some 0
  if openOrNetbsd && i1.1 == i2.1 && hasCtime i1.2 && !hasCtime i2.2 then zombieNow
  else i1.1 == i2.1 && i1.2 == i2.2

/-- is the process a zombie now, as far as `status()` can tell (an error: not known to be one) -/
def zombieNow : StatusRes → Bool
  | .status z => z
  | .zombieExc => true
  | .error => false

/-- POSIX signals: the contract again, at the front end. "os.kill() lies in case of zombie
    processes" on OpenBSD: ESRCH for a pid that still exists is ZombieProcess there; PID 0 is
    never signalled. -/
def sendSignalPosixExpected (openbsd : Bool) (pid : Nat) (k : KillRes) (pidExists : Bool) : SigRes :=
  if pid == 0 then .valueError
  else match k with
    | .ok => .sent
    | .esrch => if openbsd && pidExists then .zombie true else .nsp true
    | .eperm => .ad true
    | .other e => .raw e

/-- docs/index.rst, `send_signal`: "On Windows only SIGTERM, CTRL_C_EVENT and CTRL_BREAK_EVENT signals
    are supported and SIGTERM is treated as an alias for kill()"; `terminate`: "On Windows this is an
    alias for kill()". A console event for a process that no longer runs is NoSuchProcess. -/
def sendSignalWinExpected (sig : WinSig) (running : Bool) : WinSigAct :=
  match sig with
  | .sigterm => frontKillWin
  | .ctrlC | .ctrlBreak => if running then .osKill else .nspNotRunning
  | .otherSig => if running then .valueError else .nspNotRunning

/-- Documented fields that the platform's namedtuple does NOT have (identity, function, field).
    Observations beyond the property's statement (it promises function and constant NAMES):
    docs/index.rst marks `nice` of `cpu_times()` and `active` / `inactive` of `virtual_memory()`
    as *(UNIX)*, but the Solaris and AIX tuples are `scputimes(user, system, idle, iowait)` and
    `svmem(total, available, percent, used, free)`. Kept exact by
    `C20_api_fields_gaps_characterisation`. -/
def fieldGaps : List (String × String × String) :=
  [ ("sunos", "cpu_times", "nice"), ("sunos", "virtual_memory", "active"), ("sunos", "virtual_memory", "inactive"),
    ("aix", "cpu_times", "nice"), ("aix", "virtual_memory", "active"), ("aix", "virtual_memory", "inactive") ]

end Psutil.C20.Spec
