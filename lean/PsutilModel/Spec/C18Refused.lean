/-
  Spec/C18Refused.lean — the get forms where the kernel REFUSES the question (seeded round 5, C18-7).

  Statement: "the get form returns what the kernel reports for that process". `Spec.expectP` is silent
  where the caller is not permitted to make the request (prlimit(2): the limits of a process of
  another user can be read only with CAP_SYS_RESOURCE), because the statement's promise about sets is
  about *successful* sets. For a GET form the statement is not silent: whatever source the answer is
  taken from (the refused system call, /proc/<pid>/limits, /proc/<pid>/stat, a cache …), an answer
  that is given must be what the kernel holds for that attribute — here: for that RESOURCE — of that
  process. The only other honest outcome is to pass the refusal on (AccessDenied for that pid). In
  both cases the kernel is left as it was.

  Written from the statement and prlimit(2) only: the admissible answers are computed from the
  kernel state; nothing here knows where the implementation looks.
-/
import PsutilModel.Spec.C18
namespace Psutil.C18.Spec
open Psutil.C18

/-- is this request a get form? -/
def isGetReq : Req → Bool
  | .nice none => true
  | .ionice none none => true
  | .cpuAffinity none => true
  | .rlimit _ none => true
  | _ => false

/-- The admissible results of a get form the caller is NOT permitted to make: what the kernel holds
    (`expect` never looks at permissions for a get form), or the honest refusal. `none`: not a get
    form, or the caller is permitted (then `expectP` speaks), or the statement does not speak about
    the value (a resource outside RLIMIT_*, a raw value the `resource` module cannot show). -/
def refusedGetAnswers (k : Kernel) (pid : Nat) (st : PState) (req : Req) : Option (List Out) :=
  if isGetReq req && !permitted k st req then
    match expect k pid st req with
    | .promised o _ => some [o, .exc (.accessDenied pid)]
    | .unconstrained => none
  else none

/-- the same for a call whose arguments are Python objects (a get form has scalar arguments only) -/
def refusedGetAnswersPy (k : Kernel) (pid : Nat) (st : PState) (r : PyReq) : Option (List Out) :=
  refusedGetAnswers k pid st r.erase

end Psutil.C18.Spec
