/-
  Spec/C05.lean — what `children()`, `parent()` and `parents()` promise, written from the
  property statement, without looking at the walk:

    * a *world* is (a) the parent links as listed — pairs `(pid, ppid)`, one per listed PID — and
      (b) for every PID the start time of the process that owns it when it is examined
      (`none` = it is gone). For a process table read in one go both come from the same table;
      for "processes vanishing while the tree is walked" (b) is the later table.
    * `Child p c`   : `c` is listed with parent link `p`, still exists, and did not start before the caller;
    * `Desc c`      : `c` is reachable from the caller through one or more `Child` steps
                      (inductive closure; on a cyclic table this is still a finite set);
    * the results are finite sets: a list is compared by `Nodup` + membership (`IsSetOf`);
    * the caller is never its own child/descendant;
    * `parentLit`   : LITERAL reading — the process named by the caller's recorded ppid, unless that PID now
                      belongs to a process younger than the caller (or to nobody). No lowest-PID rule;
    * `ChainLit`    : `parentLit` iterated until there is no parent — or, on a table whose parent links are
                      cyclic, up to the first process that is already on the chain;
    * `parentOf`/`Chain` : the same WITH psutil's lowest-PID stop ("the lowest listed PID has no parent") — a
                      characterisation of the code, equal to the literal reading whenever the lowest listed
                      PID shows no parent (`RootParentless`: every table a kernel shows without hidepid), and
                      different from it otherwise (known finding C05-lowest-pid-parent, Props/C05.lean);
    * `Recycled`    : the caller's PID now belongs to a process with another start time;
    * `Alive`       : the caller's PID still belongs to the incarnation the object was built for.

  History independence: every result is a function of the world at the time of the call (the
  tables above) and of the caller object only. Nothing psutil did earlier in the interpreter —
  `process_iter()` and the `Process` objects it caches in `psutil._pmap`, earlier `children()`
  calls, `pids()` — may change it, and every `Process` object handed out describes the
  incarnation that owns its PID when it is examined (`create_time() = look pid`), never a
  previous owner of that PID. The specification therefore has no argument through which an
  earlier call could be seen.

  The executable functions at the end (`childList`, `descList`, `chainList`) are what the
  driver prints as `spec(x)`; they are saturation / iteration from the definitions, and
  Props/C05.lean proves them equal to the relations above (`descList` under the run-time
  checked flag `closed`).
-/
import PsutilModel.Model.C05
namespace Psutil.C05.Spec
open Psutil.C05

/-- `l` lists exactly the elements satisfying `P`, each once -/
def IsSetOf (l : List Nat) (P : Nat → Prop) : Prop := l.Nodup ∧ ∀ x, x ∈ l ↔ P x

/-- `c` is a child of `p` for a caller created at `ct` -/
def Child (links : PpidMap) (look : Look) (ct : Nat) (p c : Nat) : Prop :=
  (c, p) ∈ links ∧ ∃ s, look c = some s ∧ ct ≤ s

/-- descendants of `root`: closure of `Child` (every step tested against the caller's own start time) -/
inductive Desc (links : PpidMap) (look : Look) (ct : Nat) (root : Nat) : Nat → Prop where
  | base {c : Nat} : Child links look ct root c → Desc links look ct root c
  | step {d c : Nat} : Desc links look ct root d → Child links look ct d c → Desc links look ct root c

/-- each listed PID has one parent link (it is a directory name / a dict key) -/
def UniquePids (links : PpidMap) : Prop := (links.map (·.1)).Nodup

/-- the caller's PID now belongs to another process -/
def Recycled (look : Look) (me : Caller) : Prop := ∃ s, look me.pid = some s ∧ s ≠ me.ctime

/-- the incarnation the object was built for still owns its PID (otherwise it is gone — whether
    or not the PID is listed again — and every call raises NoSuchProcess) -/
def Alive (look : Look) (me : Caller) : Prop := look me.pid = some me.ctime

/-! ### Table-level reading -/

def ChildT (T : Table) (pid ct : Nat) (r : Row) : Prop := r ∈ T ∧ r.ppid = pid ∧ ct ≤ r.start

/-- LITERAL: the parent of the process `(pid, ct)` in table `T` — the process named by its recorded ppid,
    unless that PID is not listed or now belongs to a younger process -/
def parentLit (T : Table) (pid ct : Nat) : Option Row :=
  match T.find pid with
  | none => none
  | some r =>
    match T.find r.ppid with
    | none => none
    | some q => if q.start ≤ ct then some q else none

/-- LITERAL: `parentLit` iterated from `(pid, ct)`; `seen` = PIDs already on the chain (caller included) -/
inductive ChainLit (T : Table) : List Nat → Nat → Nat → List Row → Prop where
  | root {seen : List Nat} {pid ct : Nat} : parentLit T pid ct = none → ChainLit T seen pid ct []
  | cycle {seen : List Nat} {pid ct : Nat} {q : Row} :
      parentLit T pid ct = some q → q.pid ∈ seen → ChainLit T seen pid ct []
  | step {seen : List Nat} {pid ct : Nat} {q : Row} {rest : List Row} :
      parentLit T pid ct = some q → q.pid ∉ seen →
      ChainLit T (q.pid :: seen) q.pid q.start rest → ChainLit T seen pid ct (q :: rest)

/-- the root of a table is its lowest listed PID -/
def isRoot (T : Table) (pid : Nat) : Bool := minPid? T == some pid

/-- the lowest listed PID shows no parent: its recorded ppid is not listed or names a younger process (PID 1 /
    the init of a PID namespace has ppid 0; false e.g. under hidepid=2 when the lowest VISIBLE PID is an ordinary
    process whose parent got a higher PID) -/
def RootParentless (T : Table) : Prop :=
  ∀ m r, minPid? T = some m → T.find m = some r → parentLit T m r.start = none

/-- CHARACTERISATION OF THE CODE: `parentLit` with psutil's lowest-PID stop in front -/
def parentOf (T : Table) (pid ct : Nat) : Option Row :=
  if isRoot T pid then none
  else
    match T.find pid with
    | none => none
    | some r =>
      match T.find r.ppid with
      | none => none
      | some q => if q.start ≤ ct then some q else none      -- a younger owner of that PID is not the parent

/-- `parent()` iterated from `(pid, ct)`; `seen` = PIDs already on the chain (caller included) -/
inductive Chain (T : Table) : List Nat → Nat → Nat → List Row → Prop where
  | root {seen : List Nat} {pid ct : Nat} : parentOf T pid ct = none → Chain T seen pid ct []
  | cycle {seen : List Nat} {pid ct : Nat} {q : Row} :
      parentOf T pid ct = some q → q.pid ∈ seen → Chain T seen pid ct []
  | step {seen : List Nat} {pid ct : Nat} {q : Row} {rest : List Row} :
      parentOf T pid ct = some q → q.pid ∉ seen →
      Chain T (q.pid :: seen) q.pid q.start rest → Chain T seen pid ct (q :: rest)

/-- the chain reaches the root: the plain iteration of `parentOf`, no cut -/
inductive ChainToRoot (T : Table) : Nat → Nat → List Row → Prop where
  | root {pid ct : Nat} : parentOf T pid ct = none → ChainToRoot T pid ct []
  | step {pid ct : Nat} {q : Row} {rest : List Row} :
      parentOf T pid ct = some q → ChainToRoot T q.pid q.start rest → ChainToRoot T pid ct (q :: rest)

/-! ### Executable counterparts (printed by the driver) -/

def childOk (look : Look) (ct : Nat) (c : Nat) : Bool :=
  match look c with
  | none => false
  | some s => decide (ct ≤ s)

/-- direct children, caller excluded -/
def childList (links : PpidMap) (look : Look) (ct root : Nat) : List Nat :=
  (links.filter fun e => e.2 == root && e.1 != root && childOk look ct e.1).map (·.1)

/-- one saturation round: add every listed PID whose parent link points at the root or into `S` -/
def satStep (links : PpidMap) (look : Look) (ct root : Nat) (S : List Nat) : List Nat :=
  links.foldl (fun acc e =>
    if (e.2 == root || acc.contains e.2) && childOk look ct e.1 && !acc.contains e.1 then acc ++ [e.1] else acc) S

def sat (links : PpidMap) (look : Look) (ct root : Nat) : Nat → List Nat → List Nat
  | 0, S => S
  | n + 1, S => sat links look ct root n (satStep links look ct root S)

/-- nothing more can be added to `S` -/
def closed (links : PpidMap) (look : Look) (ct root : Nat) (S : List Nat) : Bool :=
  links.all fun e => !((e.2 == root || S.contains e.2) && childOk look ct e.1) || S.contains e.1

def descSat (links : PpidMap) (look : Look) (ct root : Nat) : List Nat :=
  sat links look ct root links.length []

/-- descendants, caller excluded -/
def descList (links : PpidMap) (look : Look) (ct root : Nat) : List Nat :=
  (descSat links look ct root).filter (· != root)

/-- LITERAL: iterate `parentLit`, stop when there is no parent or at a PID already on the chain -/
def chainLitList (T : Table) : Nat → List Nat → Nat → Nat → List Row
  | 0, _, _, _ => []
  | n + 1, seen, pid, ct =>
    match parentLit T pid ct with
    | none => []
    | some q => if seen.contains q.pid then [] else q :: chainLitList T n (q.pid :: seen) q.pid q.start

/-- iterate `parentOf`, stop at the root or at a PID already on the chain -/
def chainList (T : Table) : Nat → List Nat → Nat → Nat → List Row
  | 0, _, _, _ => []
  | n + 1, seen, pid, ct =>
    match parentOf T pid ct with
    | none => []
    | some q => if seen.contains q.pid then [] else q :: chainList T n (q.pid :: seen) q.pid q.start

end Psutil.C05.Spec
