/-
  Spec/C18.lean — what the property promises for one public call, written from the property
  statement and the kernel's documented interfaces (setpriority(2), ioprio_set(2),
  sched_setaffinity(2), prlimit(2)); it looks at the kernel state before the call and at the
  request, never at psutil's algorithm (no packing, no diagnosis loop, no status file).

    * get forms return what the kernel holds for that process;
    * a set with a valid value succeeds and replaces exactly that attribute of exactly that
      process (every other attribute, every other process and the kernel parameters stay);
    * the listed invalid requests raise ValueError and leave the kernel as it was;
    * `cpu_affinity([])` selects all eligible CPUs;
    * everything else (values the statement does not speak about: a niceness outside −20..19,
      an unknown I/O class, a CPU list mixing usable and unusable CPUs, limits the caller is
      not privileged to set …) is `unconstrained`.

  Import-free apart from the shared TYPE definitions of Model/C18.lean (`Kernel`, `PState`, `Req`,
  `PyReq`, `Out`) and of `PyReq.erase` / `Scalar.val` (the value an argument denotes: `True` is 1, an
  enum member is its value, a tuple / set / range is its elements — how the statement's "value" is read
  off a Python object; that the CODE treats the forms alike is `C18_arg_form_irrelevant` and is checked
  with real objects by the harness).
-/
import PsutilModel.Model.C18
namespace Psutil.C18.Spec
open Psutil.C18

inductive Verdict
  | unconstrained
  | promised (o : Out) (k' : Kernel)

/-- the kernel after replacing the state of exactly process `pid` and noting one change -/
def replaced (k : Kernel) (pid : Nat) (st' : PState) (e : Eff) : Kernel :=
  { procs := fun q => if q = pid then some st' else k.procs q
    self := k.self, ncpu := k.ncpu, statCpus := k.statCpus, nrOpen := k.nrOpen, capResource := k.capResource
    capNice := k.capNice
    log := k.log ++ [e] }

/-- CPUs that exist and that the process is allowed to run on, ascending -/
def eligible (k : Kernel) (st : PState) : List Nat :=
  (List.range k.ncpu).filter fun c => st.cpuset.contains c

/-- the CPUs of `k` that belong to the set `s`, ascending — how a CPU *set* is reported -/
def ascending (k : Kernel) (s : List Nat) : List Nat :=
  (List.range k.ncpu).filter fun c => s.contains c

/-- ioprio_set(2): the class lives in bits 13..15 of the priority value, the level below -/
def ioprioValue (cls level : Nat) : Nat := cls * 8192 + level

def rlimInfinity : Nat := 18446744073709551615

/-- a limit as the `resource` module writes it: −1 is RLIM_INFINITY, else a value < 2^63 -/
def limitOfPy (v : Int) : Option Nat :=
  if v = -1 then some rlimInfinity
  else if 0 ≤ v ∧ v < 9223372036854775808 then some v.toNat
  else none

def limitToPy (n : Nat) : Option Int :=
  if n = rlimInfinity then some (-1)
  else if n < 9223372036854775808 then some (n : Int)
  else none

def isNonexistentOrIneligible (k : Kernel) (st : PState) (c : Int) : Bool :=
  decide (c < 0) || !(eligible k st).contains c.toNat

/-- what the property promises for the call `req` on `psutil.Process(pid)`, `st` being the
    kernel's state of that process -/
def expect (k : Kernel) (pid : Nat) (st : PState) : Req → Verdict
  | .nice none => .promised (.ok (.int st.nice)) k
  | .nice (some v) =>
    if -20 ≤ v ∧ v ≤ 19 then
      .promised (.ok .none) (replaced k pid { st with nice := v } (.nice pid v))
    else .unconstrained
  | .ionice none none =>
    if st.ioprio / 8192 ≤ 3 then
      .promised (.ok (.ionice (st.ioprio / 8192) (st.ioprio % 8192))) k
    else .unconstrained
  | .ionice none (some _) => .promised (.exc .valueError) k          -- a level without a class
  | .ionice (some cls) value =>
    let level := value.getD 0
    if level < 0 ∨ level > 7 then .promised (.exc .valueError) k      -- level outside 0-7, whatever the class
    else if 0 ≤ cls ∧ cls ≤ 3 then
      if (cls = 0 ∨ cls = 3) ∧ level ≠ 0 then .promised (.exc .valueError) k  -- idle/none take no level
      else
        let v := ioprioValue cls.toNat level.toNat
        .promised (.ok .none) (replaced k pid { st with ioprio := v } (.ioprio pid v))
    else .unconstrained
  | .cpuAffinity none => .promised (.ok (.cpus (ascending k st.affinity))) k
  | .cpuAffinity (some cpus) =>
    if cpus.isEmpty then
      let a := eligible k st
      .promised (.ok .none) (replaced k pid { st with affinity := a } (.affinity pid a))
    else if cpus.all fun c => decide (0 ≤ c) && (eligible k st).contains c.toNat then
      let a := ascending k (cpus.map Int.toNat)
      .promised (.ok .none) (replaced k pid { st with affinity := a } (.affinity pid a))
    else if cpus.all fun c => isNonexistentOrIneligible k st c then
      .promised (.exc .valueError) k                                  -- only unusable CPUs
    else .unconstrained
  | .rlimit res none =>
    if 0 ≤ res ∧ res < 16 then
      match limitToPy (st.rlimits res.toNat).1, limitToPy (st.rlimits res.toNat).2 with
      | some s, some h => .promised (.ok (.limits s h)) k
      | _, _ => .unconstrained
    else .unconstrained
  | .rlimit res (some limits) =>
    match limits with
    | [s, h] =>
      if 0 ≤ res ∧ res < 16 then
        match limitOfPy s, limitOfPy h with
        | some s', some h' =>
          if s' ≤ h' ∧ (res = 7 → h' ≤ k.nrOpen) ∧
              (k.capResource = true ∨ h' ≤ (st.rlimits res.toNat).2) then
            .promised (.ok .none)
              (replaced k pid
                { st with rlimits := fun r => if r = res.toNat then (s', h') else st.rlimits r }
                (.rlimit pid res.toNat s' h'))
          else .unconstrained
        | _, _ => .unconstrained
      else .unconstrained
    | _ => .promised (.exc .valueError) k                             -- not a pair

/-- Is the caller permitted to make this request on this process? Written from the EPERM / EACCES
    sections of setpriority(2), ioprio_set(2), sched_setaffinity(2) and prlimit(2): reading niceness,
    I/O priority and affinity needs nothing; changing a process of another user needs CAP_SYS_NICE;
    lowering the nice value needs CAP_SYS_NICE or room under the process's RLIMIT_NICE
    (`20 - value ≤ soft limit`); the realtime I/O class needs CAP_SYS_NICE; reading or changing the
    limits of a process of another user needs CAP_SYS_RESOURCE. The statement speaks about
    *successful* sets: where the caller is not permitted nothing is promised. -/
def permitted (k : Kernel) (st : PState) : Req → Bool
  | .nice none => true
  | .nice (some v) =>
    (!st.foreign || k.capNice) &&
      (k.capNice || decide (st.nice ≤ v) || decide (20 - v ≤ ((st.rlimits 13).1 : Int)))
  | .ionice none _ => true
  | .ionice (some cls) _ => (!st.foreign || k.capNice) && (k.capNice || decide (cls ≠ 1))
  | .cpuAffinity none => true
  | .cpuAffinity (some _) => !st.foreign || k.capNice
  | .rlimit _ _ => !st.foreign || k.capResource

/-- what the property promises to the caller of this world: `expect` where the caller is permitted -/
def expectP (k : Kernel) (pid : Nat) (st : PState) (req : Req) : Verdict :=
  if permitted k st req then expect k pid st req else .unconstrained

/-- The same for a call whose arguments are Python objects. The statement speaks about values — an
    I/O class IS one of the `IOPRIO_CLASS_*` constants (enum members), a CPU list, a pair of limits —
    so an int-like scalar counts as its value and a tuple / list / set / range as its elements. It
    names `cpu_affinity([])`, the empty *list*: about an exhausted iterator nothing is said; whether
    an iterator that would yield two ints is "a pair" is not said either. -/
def expectPy (k : Kernel) (pid : Nat) (st : PState) : PyReq → Verdict
  | .cpuAffinity (some (.iterator, [])) => .unconstrained
  | .rlimit _ (some (.iterator, _)) => .unconstrained
  | r => expectP k pid st r.erase

end Psutil.C18.Spec
