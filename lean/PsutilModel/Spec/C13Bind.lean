/-
  Spec/C13Bind.lean — WHICH process the figures of a `Process` object describe, when the
  application points `psutil.PROCFS_PATH` at several procfs trees during one run (the host's
  `/host/proc` and the container's own `/proc`, two PID namespaces, …).

  Written from the property statement ("memory_info() equals the kernel's PER-PROCESS page
  counts …; memory_full_info() adds … sums over all THE PROCESS's mappings, the same whether the
  roll-up file or the per-mapping listing is the source; memory_maps lists every mapping …"): every
  clause speaks about ONE process. An object stands for the process that had its pid under the
  tree psutil was pointed at when the object was CREATED (psutil's documentation of PROCFS_PATH:
  set it, then create the objects); all of its figures describe that process, whatever
  PROCFS_PATH says by the time a method is called. Nothing here mentions read sites or sources.
-/
import PsutilModel.Spec.C13
import PsutilModel.Model.C13Bind
namespace Psutil.C13.Spec
open Psutil Psutil.C13

/-- the pid's entry under tree `i` of a world whose trees are described by values of any type `τ`
    (file contents, or the kernel-side records they are rendered from) -/
def treeAtG {τ : Type} (w : List (Option τ)) (i : Nat) : Option τ := (w[i]?).join

/-- one step of the promised run: `ans t m` is whatever is promised for method `m` of the process
    `t`. State: where PROCFS_PATH points, and the tree each object was created under. -/
def specStepB {τ : Type} (ans : τ → Meth → Ans) (w : List (Option τ)) (cur : Nat) (objs : List Nat) :
    BStep → Ans × Nat × List Nat
  | .point r => (.unit, r, objs)
  | .new =>
    match treeAtG w cur with
    | some _ => (.ctor (.ok ()), cur, objs ++ [cur])
    | none => (.ctor (.error .noSuchProcess), cur, objs)
  | .call k m =>
    match objs[k]? with
    | none => (.noObject, cur, objs)
    | some o =>
      match treeAtG w o with
      | some t => (ans t m, cur, objs)             -- the process the object was created for
      | none => (.noObject, cur, objs)             -- (no object is ever created where the pid is absent)
  | .enter _ => (.unit, cur, objs)
  | .exit _ => (.unit, cur, objs)

def specRunB {τ : Type} (ans : τ → Meth → Ans) (w : List (Option τ)) : List BStep → Nat → List Nat → List Ans
  | [], _, _ => []
  | st :: rest, cur, objs =>
    let (a, cur', objs') := specStepB ans w cur objs st
    a :: specRunB ans w rest cur' objs'

/-! ### a process as the kernel knows it, and what its procfs files hold -/

/-- what `/proc/pid/smaps_rollup` answers -/
inductive RollupHow
  | sums                                   -- the field-wise kB sums of the mappings (idealised kernel)
  | record (lo hi : Nat) (kvs : List KV)   -- a record of its own
  | enoent | esrch

structure PTree where
  st : Statm
  ms : List Mapping
  zombie : Bool
  rollup : RollupHow

def PTree.render (p : PTree) : Tree :=
  { statm := renderStatm p.st
    smaps := renderSmaps p.ms
    rollup := match p.rollup with
      | .sums => .data (renderRollup (rollupKeysOf p.ms) p.ms)
      | .record lo hi kvs => .data (renderRollupRec lo hi kvs)
      | .enoent => .enoent
      | .esrch => .esrch
    zombie := p.zombie }

def renderWorld (pw : List (Option PTree)) : World := pw.map (Option.map PTree.render)

/-- the figures the property promises for a process (statm record + mappings), method by method;
    `other` stands for the clauses stated elsewhere (grouped: `C13_grouped_end_to_end`,
    memory_percent: `C13_percent`, the roll-up as a source: `C13_full_info_from_rollup` /
    `C13_rollup_agrees`), which are properties of ONE process's files as well -/
def figures (e : Env) (other : PTree → Meth → Ans) (p : PTree) : Meth → Ans
  | .info => .nums (.ok (specMemInfo e.pagesize p.st))
  | .maps => .rows (.ok (p.ms.map specRow))
  | .full => if e.hasRollup then other p .full else .nums (.ok (specFullInfo e.pagesize p.st p.ms))
  | m => other p m

end Psutil.C13.Spec
