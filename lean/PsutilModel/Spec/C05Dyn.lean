/-
  Spec/C05Dyn.lean — what the property promises in the richer world of Model/C05Dyn.lean, written
  from the property statement:

    * the parent links a call can see are those of the listed PIDs whose stat file can be read
      (`linksOf`): a process that vanished between the listing and the read, and a process whose
      stat file is unreadable, are LEFT OUT — they never make the call fail. A zombie is a listed
      process with a readable stat file: it has links like everybody else;
    * `children()` / `children(recursive=True)` are then the `Child` / `Desc` sets of Spec/C05.lean
      over these links and over the start times seen when each PID is examined;
    * `parents()` while the table changes between the steps: every element of the chain was the
      parent of the previous one WHEN IT WAS LOOKED UP (`ParentAt` in the worlds of that step), is
      not younger than it, the previous one was still the same incarnation at that moment
      (`SameAt`), and no PID occurs twice. `parentOfW` is `parent()` read off the property statement
      for one step; `chainDyn` iterates it. When the turn comes to an ancestor whose incarnation is
      gone (exited, reaped, PID reused) nothing above it can be trusted: the walk ends there with
      `NoSuchProcess(that pid)` — `parent()` called on a dead object, as the statement says.
-/
import PsutilModel.Model.C05Dyn
import PsutilModel.Spec.C05
namespace Psutil.C05.Spec
open Psutil.C05

/-- parent links visible in world `w` for the listing `L` -/
def linksOf (L : List Nat) (w : XWorld) : PpidMap :=
  L.filterMap fun p =>
    match w p with
    | .ok pp _ => some (p, pp)
    | _ => none

/-- `q` is what the step's worlds show as the parent of the process `(pid, ct)` -/
def ParentAt (s : PStep) (pid ct : Nat) (q : Row) : Prop :=
  (∃ st, s.wo pid = .ok q.pid st) ∧ s.wp q.pid = .ok q.ppid q.start ∧ q.start ≤ ct

/-- the incarnation `(pid, ct)` still owns its PID at the step's identity check -/
def SameAt (s : PStep) (pid ct : Nat) : Prop := ∃ pp, s.wi pid = .ok pp ct

/-- every element was the parent of the previous one at the time it was looked up -/
inductive Linked (W : Nat → PStep) : Nat → Nat → Nat → List Row → Prop where
  | nil {i pid ct : Nat} : Linked W i pid ct []
  | cons {i pid ct : Nat} {q : Row} {rest : List Row} :
      SameAt (W i) pid ct → ParentAt (W i) pid ct q → Linked W (i + 1) q.pid q.start rest →
      Linked W i pid ct (q :: rest)

/-- outcome of one `parent()` according to the statement -/
inductive PRes where
  | none                     -- no parent known: root, parent gone, or its PID now belongs to a younger process
  | some (q : Row)
  | nsp (pid : Nat)          -- the process asked is not the one the object was built for any more
  | denied (pid : Nat)       -- a stat file that has to be read is unreadable
deriving DecidableEq, Repr

/-- CHARACTERISATION OF THE CODE (not the statement: see `parentLitW` below for the literal reading):
    `parent()` of the process `(pid, ct)` in the worlds of one step, WITH psutil's lowest-PID stop — `lowest`
    is what `_LOWEST_PID`/`pids()[0]` gives. `rg = false` is psutil as found (the stop answers None before any
    identity check: a recycled lowest PID gets None), `rg = true` the repaired order
    (fixes/C05-parent-root-recycled.diff: identity first). Look-up order as in the code: identity check →
    own stat → parent. -/
def parentOfW (rg : Bool) (s : PStep) (lowest pid ct : Nat) : PRes :=
  if pid = lowest then
    if rg then
      match s.wi pid with
      | .ok _ s0 => if s0 = ct then .none else .nsp pid
      | _ => .nsp pid
    else .none
  else
    match s.wi pid with
    | .ok _ s0 =>
      if s0 = ct then
        match s.wo pid with
        | .gone => .nsp pid
        | .denied => .denied pid
        | .ok pp _ =>
          match s.wp pp with
          | .gone => .none
          | .denied => .denied pp
          | .ok gp st => if st ≤ ct then .some ⟨pp, gp, st⟩ else .none
      else .nsp pid
    | _ => .nsp pid

/-- `parents()`: iterate `parentOfW`, step `i` in the worlds `W i`; stop at the root, at a PID
    already on the chain, or (NoSuchProcess) at an element that is no longer itself -/
def chainDyn (rg : Bool) (W : Nat → PStep) (lowest : Nat) : Nat → Nat → List Nat → Nat → Nat → List Row → XOut (List Row)
  | 0, _, _, _, _, _ => .diverged
  | n + 1, i, seen, pid, ct, acc =>
    match parentOfW rg (W i) lowest pid ct with
    | .none => .ok acc
    | .nsp p => .nsp p
    | .denied p => .denied p
    | .some q =>
      if seen.contains q.pid then .ok acc
      else chainDyn rg W lowest n (i + 1) (q.pid :: seen) q.pid q.start (acc ++ [q])

/-! ### The LITERAL reading of the statement (no lowest-PID rule)

  "parent() is the process named by ppid() unless that PID now belongs to a process younger than the caller
  (then None) … and all of these raise NoSuchProcess when the caller's own PID has been recycled": first the
  caller must still be itself, then its recorded ppid names the parent. Nothing about a lowest PID. -/

def parentLitW (s : PStep) (pid ct : Nat) : PRes :=
  match s.wi pid with
  | .ok _ s0 =>
    if s0 = ct then
      match s.wo pid with
      | .gone => .nsp pid
      | .denied => .denied pid
      | .ok pp _ =>
        match s.wp pp with
        | .gone => .none
        | .denied => .denied pp
        | .ok gp st => if st ≤ ct then .some ⟨pp, gp, st⟩ else .none
    else .nsp pid
  | _ => .nsp pid

/-- `parents()` read literally: iterate `parentLitW` until there is no parent (or a PID repeats) -/
def chainLitDyn (W : Nat → PStep) : Nat → Nat → List Nat → Nat → Nat → List Row → XOut (List Row)
  | 0, _, _, _, _, _ => .diverged
  | n + 1, i, seen, pid, ct, acc =>
    match parentLitW (W i) pid ct with
    | .none => .ok acc
    | .nsp p => .nsp p
    | .denied p => .denied p
    | .some q =>
      if seen.contains q.pid then .ok acc
      else chainLitDyn W n (i + 1) (q.pid :: seen) q.pid q.start (acc ++ [q])

end Psutil.C05.Spec
