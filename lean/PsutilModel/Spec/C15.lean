/-
  Spec/C15.lean — what property C15 promises about ONE observed call, written from the property
  statement and from wait(2)'s description of the status word — not from psutil's algorithm.

  An observation is what a caller (holding a virtual clock) can see: the result or exception,
  the instant the call came back, every sleep the call made. Each clause below is a decidable
  predicate over (question asked, observation): the driver evaluates it on the observation of
  the REAL implementation, the theorems in Props/C15.lean prove it of the model for every
  environment. Import-free (uses only the data types of Model/C15.lean).
-/
import PsutilModel.Model.C15
namespace Psutil.C15.Spec
open Psutil.C15

/-! ### how a process can end, and the status word the kernel then reports (wait(2)) -/

inductive Cause
  | exited (code : Nat)                   -- `exit(code)`, 0 ≤ code ≤ 255
  | signaled (sig : Nat) (core : Bool)    -- killed by signal `sig` (1 … 126), maybe dumping core
  deriving DecidableEq, Repr

def Cause.Valid : Cause → Prop
  | .exited c => c ≤ 255
  | .signaled s _ => 1 ≤ s ∧ s ≤ 126

/-- low 7 bits: terminating signal (0 = normal exit); bit 7: core dumped; bits 8–15: exit code -/
def Cause.status : Cause → Nat
  | .exited c => c * 256
  | .signaled s core => s + (if core then 128 else 0)

/-- what `wait()` must return: the exit code, or the negated signal number -/
def Cause.value : Cause → Int
  | .exited c => (c : Int)
  | .signaled s _ => -(s : Int)

/-- every valid cause (finite: 256 + 2·126) -/
def allCauses : List Cause :=
  (List.range 256).map .exited ++
  (List.range 126).flatMap fun i => [.signaled (i + 1) false, .signaled (i + 1) true]

/-! ### the polling schedule the property states: 0.1 ms, doubling, never above 40 ms -/

def pow2 : Nat → Rat
  | 0 => 1
  | n + 1 => pow2 n * 2

def i0 : Rat := 1 / 10000
def cap : Rat := 1 / 25

/-- the n-th sleep -/
def iv (n : Nat) : Rat := rmin (i0 * pow2 n) cap

/-! ### one `wait` call -/

structure Ask where
  env : Env
  pid : Nat
  timeout : Option Rat
  start : Rat                -- instant of the call

structure Obs where
  out : Outcome
  ret : Rat                  -- instant of return / raise
  sleeps : List Rat

/-- the process had really ended by instant `t` (a PID that never existed counts as ended) -/
def endedBy (env : Env) (t : Rat) : Prop :=
  env.kind = .neverExisted ∨
    match env.exitAt with
    | some e => e ≤ t
    | none => False

instance (env : Env) (t : Rat) : Decidable (endedBy env t) := by
  unfold endedBy; split <;> infer_instance

def isChild (env : Env) : Prop :=
  match env.kind with
  | .child _ => True
  | _ => False

instance (env : Env) : Decidable (isChild env) := by
  unfold isChild; split <;> infer_instance

/-- never early: a result is given only once the process has ended;
    an exit status only for a child, None only for a non-child -/
def neverEarly (a : Ask) (o : Obs) : Prop :=
  match o.out with
  | .code _ => isChild a.env ∧ endedBy a.env o.ret
  | .none => ¬ isChild a.env ∧ endedBy a.env o.ret
  | _ => True

instance (a : Ask) (o : Obs) : Decidable (neverEarly a o) := by
  unfold neverEarly; split <;> infer_instance

/-- right status: a child that ended by `cause` yields `cause.value` -/
def rightStatus (a : Ask) (o : Obs) : Prop :=
  match a.env.kind, o.out with
  | .child st, .code c => ∀ cause ∈ allCauses, cause.status = st → c = cause.value
  | _, _ => True

instance (a : Ask) (o : Obs) : Decidable (rightStatus a o) := by
  unfold rightStatus; split <;> infer_instance

/-- a PID that never existed: None at once, no sleep (`clean` = the call was valid and no
    waitpid was interrupted) -/
def neverExistedAtOnce (a : Ask) (o : Obs) (clean : Bool) : Prop :=
  a.env.kind = .neverExisted → clean = true →
    o.out = .none ∧ o.ret = a.start ∧ o.sleeps = []

instance (a : Ask) (o : Obs) (c : Bool) : Decidable (neverExistedAtOnce a o c) := by
  unfold neverExistedAtOnce; infer_instance

/-- TimeoutExpired only if the deadline passed with the process still alive; carries seconds, pid -/
def timeoutSound (a : Ask) (o : Obs) : Prop :=
  match o.out with
  | .timeout sec p =>
    a.timeout = some sec ∧ p = a.pid ∧ a.start + sec ≤ o.ret ∧ ¬ endedBy a.env o.ret
  | _ => True

instance (a : Ask) (o : Obs) : Decidable (timeoutSound a o) := by
  unfold timeoutSound; split <;> infer_instance

/-- … and at most one 40 ms poll late -/
def onePollLate (a : Ask) (o : Obs) : Prop :=
  match o.out with
  | .timeout sec _ => 0 ≤ sec → o.ret < a.start + sec + cap
  | _ => True

instance (a : Ask) (o : Obs) : Decidable (onePollLate a o) := by
  unfold onePollLate; split <;> infer_instance

/-- polls start at 0.1 ms, double, never exceed 40 ms -/
def intervalsOk (o : Obs) : Prop := ∀ p ∈ o.sleeps.zipIdx, p.1 = iv p.2

instance (o : Obs) : Decidable (intervalsOk o) := by
  unfold intervalsOk; infer_instance

def zeroNeverSleeps (a : Ask) (o : Obs) : Prop := a.timeout = some 0 → o.sleeps = []

instance (a : Ask) (o : Obs) : Decidable (zeroNeverSleeps a o) := by
  unfold zeroNeverSleeps; infer_instance

def negativeIsValueError (a : Ask) (o : Obs) : Prop :=
  negative a.timeout = true → o.out = .valueError ∧ o.ret = a.start ∧ o.sleeps = []

instance (a : Ask) (o : Obs) : Decidable (negativeIsValueError a o) := by
  unfold negativeIsValueError; infer_instance

/-- with a timeout the call comes back (it neither blocks for ever nor polls for ever) -/
def comesBack (a : Ask) (o : Obs) : Prop :=
  a.timeout.isSome = true → o.out ≠ .hang ∧ o.out ≠ .outOfFuel

instance (a : Ask) (o : Obs) : Decidable (comesBack a o) := by
  unfold comesBack; infer_instance

/-- names of the clauses the observation violates (empty = allowed) -/
def violations (a : Ask) (o : Obs) (clean : Bool) : List String :=
  (if neverEarly a o then [] else ["neverEarly"]) ++
  (if rightStatus a o then [] else ["rightStatus"]) ++
  (if neverExistedAtOnce a o clean then [] else ["neverExistedAtOnce"]) ++
  (if timeoutSound a o then [] else ["timeoutSound"]) ++
  (if onePollLate a o then [] else ["onePollLate"]) ++
  (if intervalsOk o then [] else ["intervals"]) ++
  (if zeroNeverSleeps a o then [] else ["zeroNeverSleeps"]) ++
  (if negativeIsValueError a o then [] else ["negativeIsValueError"]) ++
  (if comesBack a o then [] else ["comesBack"])

/-! ### a later `wait()` on the same object -/

/-- once a call gave a result, a later call gives the stored value, at once, with an empty
    trace (`osCalls` = waitpid/pid_exists/sleep/timer calls the later call made) -/
def cachedOk (first : Outcome) (later : Obs) (laterStart : Rat) (osCalls : Nat) : Prop :=
  match first with
  | .code _ | .none => later.out = first ∧ later.ret = laterStart ∧ later.sleeps = [] ∧ osCalls = 0
  | _ => True

instance (f : Outcome) (l : Obs) (s : Rat) (n : Nat) : Decidable (cachedOk f l s n) := by
  unfold cachedOk; split <;> infer_instance

/-! ### `wait_procs` -/

structure WPAsk where
  envOf : Nat → Env
  procs : List Nat            -- the pids handed in (duplicates allowed)
  timeout : Option Rat
  start : Rat
  hasCb : Bool

structure WPObs where
  gone : List Nat
  alive : List Nat
  returncode : Nat → Option (Option Int)    -- attribute of each object after the call (none = absent)
  cbLog : List Nat
  ret : Rat

/-- disjoint lists covering every input exactly once -/
def partitionOk (a : WPAsk) (o : WPObs) : Prop :=
  (o.gone ++ o.alive).Nodup ∧ ∀ pid, pid ∈ o.gone ++ o.alive ↔ pid ∈ a.procs

instance (a : WPAsk) (o : WPObs) : Decidable (partitionOk a o) :=
  decidable_of_iff ((o.gone ++ o.alive).Nodup ∧ (∀ pid ∈ o.gone ++ o.alive, pid ∈ a.procs) ∧
      (∀ pid ∈ a.procs, pid ∈ o.gone ++ o.alive)) (by
    unfold partitionOk
    constructor
    · rintro ⟨h1, h2, h3⟩; exact ⟨h1, fun pid => ⟨h2 pid, h3 pid⟩⟩
    · rintro ⟨h1, h2⟩; exact ⟨h1, fun pid h => (h2 pid).1 h, fun pid h => (h2 pid).2 h⟩)

/-- the callback was called exactly once for each gone process, and for nothing else -/
def callbackOnce (a : WPAsk) (o : WPObs) : Prop :=
  if a.hasCb then o.cbLog.Nodup ∧ (∀ pid ∈ o.cbLog, pid ∈ o.gone) ∧ (∀ pid ∈ o.gone, pid ∈ o.cbLog)
  else o.cbLog = []

instance (a : WPAsk) (o : WPObs) : Decidable (callbackOnce a o) := by
  unfold callbackOnce; infer_instance

/-- `returncode` is set on every gone process: to the value of the cause its status word
    encodes (a child), to None (not a child) -/
def returncodeSet (a : WPAsk) (o : WPObs) : Prop :=
  ∀ pid ∈ o.gone,
    match o.returncode pid, (a.envOf pid).kind with
    | none, _ => False
    | some v, .child st => ∀ cause ∈ allCauses, cause.status = st → v = some cause.value
    | some v, _ => v = none

instance (a : WPAsk) (o : WPObs) : Decidable (returncodeSet a o) := by
  unfold returncodeSet
  refine @List.decidableBAll _ _ (fun pid => ?_) _
  split <;> infer_instance

/-- every process reported gone had really ended -/
def goneEnded (a : WPAsk) (o : WPObs) : Prop := ∀ pid ∈ o.gone, endedBy (a.envOf pid) o.ret

instance (a : WPAsk) (o : WPObs) : Decidable (goneEnded a o) := by
  unfold goneEnded; infer_instance

/-- returns no later than the timeout plus one poll -/
def deadlineOk (a : WPAsk) (o : WPObs) : Prop :=
  match a.timeout with
  | some τ => 0 ≤ τ → o.ret < a.start + τ + cap
  | none => True

instance (a : WPAsk) (o : WPObs) : Decidable (deadlineOk a o) := by
  unfold deadlineOk; split <;> infer_instance

/-- without a timeout it returns only when nothing is left alive -/
def noTimeoutAllGone (a : WPAsk) (o : WPObs) : Prop := a.timeout = none → o.alive = []

instance (a : WPAsk) (o : WPObs) : Decidable (noTimeoutAllGone a o) := by
  unfold noTimeoutAllGone; infer_instance

/-- "which ones are still alive" (docstring of wait_procs): a process reported alive had not
    ended when `wait_procs` returned — the last thing `wait_procs` does is to poll every survivor
    once more (`clean pid` = no waitpid call on that PID was interrupted; an interrupted poll
    learns nothing, see the finding C15-eintr-deadline) -/
def aliveRunning (a : WPAsk) (o : WPObs) (clean : Nat → Bool) : Prop :=
  ∀ pid ∈ o.alive, clean pid = true → ¬ endedBy (a.envOf pid) o.ret

instance (a : WPAsk) (o : WPObs) (c : Nat → Bool) : Decidable (aliveRunning a o c) := by
  unfold aliveRunning; infer_instance

def wpViolations (a : WPAsk) (o : WPObs) (clean : Nat → Bool := fun _ => false) : List String :=
  (if partitionOk a o then [] else ["partition"]) ++
  (if callbackOnce a o then [] else ["callbackOnce"]) ++
  (if returncodeSet a o then [] else ["returncodeSet"]) ++
  (if goneEnded a o then [] else ["goneEnded"]) ++
  (if deadlineOk a o then [] else ["deadline"]) ++
  (if noTimeoutAllGone a o then [] else ["noTimeoutAllGone"]) ++
  (if aliveRunning a o clean then [] else ["aliveRunning"])

/-! ### arguments `wait_procs` / `wait` refuse (what a caller sees instead of a result) -/

/-- what `wait_procs` answers when it does not return the two lists -/
inductive WPRefusal
  | valueError | typeError
  deriving DecidableEq, Repr

/-- a negative timeout is a ValueError (whatever the callback is); otherwise a callback that is
    neither None nor callable is a TypeError; otherwise the arguments are accepted -/
def wpRefusal (timeout : Option Rat) (cbGiven cbCallable : Bool) : Option WPRefusal :=
  if negative timeout then some .valueError
  else if cbGiven && !cbCallable then some .typeError
  else none

/-- the calling process cannot see its own end: it is not its own child and it exists for as long
    as it can ask -/
def isSelf (env : Env) : Prop := env.kind = .nonChild ∧ env.exitAt = none

instance (env : Env) : Decidable (isSelf env) := by unfold isSelf; infer_instance

/-- waiting for oneself can only time out (never a result, never a wrong exception) -/
def selfWait (a : Ask) (o : Obs) : Prop :=
  isSelf a.env → 0 < a.pid →
    match a.timeout with
    | some τ => 0 ≤ τ → o.out = .timeout τ a.pid ∨ o.out = .outOfFuel
    | none => o.out = .outOfFuel

instance (a : Ask) (o : Obs) : Decidable (selfWait a o) := by
  unfold selfWait; split <;> infer_instance

/-- PID 0 ("every process in the caller's process group" for waitpid) is refused -/
def pidZeroRefused (a : Ask) (o : Obs) : Prop :=
  a.pid = 0 → negative a.timeout = false → o.out = .valueError ∧ o.ret = a.start ∧ o.sleeps = []

instance (a : Ask) (o : Obs) : Decidable (pidZeroRefused a o) := by
  unfold pidZeroRefused; infer_instance

/- `extraViolations` (which also evaluates the third-round clause `valueErrorJustified`) is defined at the end of the file -/

/-! ### `psutil.Popen.wait`: the same promises as `Process.wait`, plus agreement with
    `subprocess.Popen.returncode` (the attribute every `subprocess` method reads) -/

/-- once `returncode` is set — by an earlier `wait()` or by subprocess's own poll()/communicate() —
    `wait()` gives it back at once, without sleeping or asking the kernel -/
def popenCachedOk (stored : Int) (later : Obs) (laterStart : Rat) (osCalls : Nat) : Prop :=
  later.out = .code stored ∧ later.ret = laterStart ∧ later.sleeps = [] ∧ osCalls = 0

instance (c : Int) (l : Obs) (s : Rat) (n : Nat) : Decidable (popenCachedOk c l s n) := by
  unfold popenCachedOk; infer_instance

/-- `returncode` after a call that found it unset: the exit status the call returned; still unset
    when the call returned None or raised -/
def popenStoredOk (o : Obs) (after : Option Int) : Prop :=
  match o.out with
  | .code c => after = some c
  | _ => after = none

instance (o : Obs) (a : Option Int) : Decidable (popenStoredOk o a) := by
  unfold popenStoredOk; split <;> infer_instance


/-! ### second extension -/

/-- what `wait_procs` must refuse, items included: negative timeout → ValueError; otherwise an item
    that cannot be hashed → TypeError (`set(procs)`); otherwise a non-callable callback → TypeError -/
def wpRefusalM (timeout : Option Rat) (hashable cbGiven cbCallable : Bool) : Option WPRefusal :=
  if negative timeout then some .valueError
  else if !hashable then some .typeError
  else wpRefusal timeout cbGiven cbCallable

/-- system calls that take up to δ: whatever the call does, it has done it before
    start + timeout + 40 ms + 5·δ -/
def returnsByC (a : Ask) (o : Obs) (δ : Rat) : Prop :=
  match a.timeout with
  | some τ => 0 ≤ τ → o.ret < a.start + τ + cap + 5 * δ
  | none => True

instance (a : Ask) (o : Obs) (δ : Rat) : Decidable (returnsByC a o δ) := by
  unfold returnsByC; split <;> infer_instance

/-- … and TimeoutExpired(seconds = timeout, pid) comes at/after the deadline, the process not
    having ended δ before the raise instant -/
def timeoutSoundC (a : Ask) (o : Obs) (δ : Rat) : Prop :=
  match o.out with
  | .timeout sec p =>
    a.timeout = some sec ∧ p = a.pid ∧ a.start + sec ≤ o.ret ∧ ¬ endedBy a.env (o.ret - δ)
  | _ => True

instance (a : Ask) (o : Obs) (δ : Rat) : Decidable (timeoutSoundC a o δ) := by
  unfold timeoutSoundC; split <;> infer_instance

def violationsC (a : Ask) (o : Obs) (δ : Rat) (clean : Bool) : List String :=
  (if neverEarly a o then [] else ["neverEarly"]) ++
  (if rightStatus a o then [] else ["rightStatus"]) ++
  (if returnsByC a o δ then [] else ["returnsBy+5δ"]) ++
  (if clean = false ∨ timeoutSoundC a o δ then [] else ["timeoutSound-δ"]) ++
  (if intervalsOk o then [] else ["intervals"]) ++
  (if zeroNeverSleeps a o then [] else ["zeroNeverSleeps"]) ++
  (if comesBack a o then [] else ["comesBack"])

/-! ### third round (audit-driven) -/

/-- the answer the property promises once the process has ended: the value of the cause its status
    word encodes (a child), None (anything waitpid does not know as a child) -/
def answered (env : Env) (o : Outcome) : Prop :=
  match env.kind with
  | .child st => ∀ cause ∈ allCauses, cause.status = st → o = .code cause.value
  | _ => o = .none

instance (env : Env) (o : Outcome) : Decidable (answered env o) := by
  unfold answered; split <;> infer_instance

/-- `wait_pid` names ONE process: a pid that is not positive (0 = the caller's process group, -1 = any
    child, -g = process group g for waitpid(2)) is refused at once — nothing is waited for, nobody's
    exit status is consumed -/
def nonPositivePidRefused (pid : Int) (start : Rat) (o : Obs) : Prop :=
  pid ≤ 0 → o.out = .valueError ∧ o.ret = start ∧ o.sleeps = []

instance (pid : Int) (start : Rat) (o : Obs) : Decidable (nonPositivePidRefused pid start o) := by
  unfold nonPositivePidRefused; infer_instance

/-- the status word is no termination report (stopped / continued / garbage): wait(2) hands such a
    word out only to a caller that asked for it with WUNTRACED / WCONTINUED -/
def notTermination (st : Nat) : Prop := ∀ cause ∈ allCauses, cause.status ≠ st

instance (st : Nat) : Decidable (notTermination st) := by unfold notTermination; infer_instance

/-- ValueError is an answer only to arguments that must be refused (pid 0, negative timeout) or to a
    child whose FINAL status word is not a termination report; never for a process that is merely
    still running (or stopped) -/
def valueErrorJustified (a : Ask) (o : Obs) : Prop :=
  o.out = .valueError →
    a.pid = 0 ∨ negative a.timeout = true ∨
    match a.env.kind with
    | .child st => notTermination st ∧ endedBy a.env o.ret
    | _ => False

instance (a : Ask) (o : Obs) : Decidable (valueErrorJustified a o) := by
  unfold valueErrorJustified
  refine @instDecidableForall _ _ _ (@instDecidableOr _ _ _ (@instDecidableOr _ _ _ ?_))
  split <;> infer_instance

/-- what a callback invocation must find on the object it is handed: `returncode` already set, to the
    value of the cause (a child) / None (not a child); one invocation per entry of the callback log -/
def callbackSees (a : WPAsk) (seen : List CbView) (cbLog : List Nat) : Prop :=
  seen.map (·.pid) = cbLog ∧
  ∀ e ∈ seen,
    match e.rc, (a.envOf e.pid).kind with
    | none, _ => False
    | some v, .child st => ∀ cause ∈ allCauses, cause.status = st → v = some cause.value
    | some v, _ => v = none

instance (a : WPAsk) (seen : List CbView) (cbLog : List Nat) : Decidable (callbackSees a seen cbLog) := by
  unfold callbackSees
  refine @instDecidableAnd _ _ _ (@List.decidableBAll _ _ (fun e => ?_) _)
  split <;> infer_instance


def extraViolations (a : Ask) (o : Obs) : List String :=
  (if selfWait a o then [] else ["selfWait"]) ++
  (if pidZeroRefused a o then [] else ["pidZeroRefused"]) ++
  (if valueErrorJustified a o then [] else ["valueErrorJustified"])

/-! ### seeded round 5: a procfs tree is no evidence of an end

The property speaks about the process having REALLY ended — `endedBy`, the kernel's own process table,
what `waitpid` / `kill(pid, 0)` answer from. What the procfs tree under `PROCFS_PATH` lists is a view of
that table which may not show a live process (`hidepid=`, a `PROCFS_PATH` pointed somewhere else after
the object was made). Every clause above is stated without the view, i.e. for every view; the two
clauses below name the situation the view adds. -/

/-- what a procfs tree shows of the process over time (`true` = it is listed for as long as it exists) -/
abbrev ProcfsView := Rat → Bool

/-- alive at `t`, but the procfs view does not list it -/
def hiddenAlive (env : Env) (view : ProcfsView) (t : Rat) : Prop := ¬ endedBy env t ∧ view t = false

instance (env : Env) (view : ProcfsView) (t : Rat) : Decidable (hiddenAlive env view t) := by
  unfold hiddenAlive; infer_instance

/-- no result (exit status / None) comes back at an instant at which the process is alive but hidden -/
def noResultWhileHidden (a : Ask) (view : ProcfsView) (o : Obs) : Prop :=
  match o.out with
  | .code _ => ¬ hiddenAlive a.env view o.ret
  | .none => ¬ hiddenAlive a.env view o.ret
  | _ => True

instance (a : Ask) (view : ProcfsView) (o : Obs) : Decidable (noResultWhileHidden a view o) := by
  unfold noResultWhileHidden; split <;> infer_instance

/-- `wait_procs`: no process is reported gone while it is alive but hidden -/
def noGoneWhileHidden (a : WPAsk) (viewOf : Nat → ProcfsView) (o : WPObs) : Prop :=
  ∀ pid ∈ o.gone, ¬ hiddenAlive (a.envOf pid) (viewOf pid) o.ret

instance (a : WPAsk) (viewOf : Nat → ProcfsView) (o : WPObs) : Decidable (noGoneWhileHidden a viewOf o) := by
  unfold noGoneWhileHidden; infer_instance

def viewViolations (a : Ask) (view : ProcfsView) (o : Obs) : List String :=
  if noResultWhileHidden a view o then [] else ["noResultWhileHidden"]

def wpViewViolations (a : WPAsk) (viewOf : Nat → ProcfsView) (o : WPObs) : List String :=
  if noGoneWhileHidden a viewOf o then [] else ["noGoneWhileHidden"]

/-! ### seeded round 5 (C15-8): time is the STEADY clock; the wall clock is no part of any promise

Every instant in this file — `Ask.start`, `Obs.ret`, `Env.exitAt`, the deadline `start + timeout` — is an
instant of the steady clock (CLOCK_MONOTONIC): the clock `sleep` sleeps by and on which a process "has
ended by t". "Timeouts honoured" is a promise about elapsed time: a caller who asked for at most τ
seconds gets the answer within τ seconds plus one poll, whatever an administrator, NTP or a VM resume
does to the WALL clock (`time.time()`) meanwhile. No clause above mentions the wall clock, i.e. each is
stated for every wall clock; the clause below says what the timeout promises about ANY way the call
ends (the clauses `timeoutSound` / `onePollLate` speak about TimeoutExpired only). -/

/-- what the wall clock reads at each steady instant: anything -/
abbrev WallClock := Rat → Rat

/-- with a timeout τ ≥ 0 the call is over — exit status, None, TimeoutExpired — before
    start + τ + one 40 ms poll of steady time (a run cut by the observer's loop bound is judged by
    `comesBack`) -/
def timeoutHonoured (a : Ask) (o : Obs) : Prop :=
  match a.timeout with
  | some τ => 0 ≤ τ → o.out ≠ .outOfFuel → o.out ≠ .hang → o.ret < a.start + τ + cap
  | none => True

instance (a : Ask) (o : Obs) : Decidable (timeoutHonoured a o) := by
  unfold timeoutHonoured; split <;> infer_instance

def clockViolations (a : Ask) (o : Obs) : List String :=
  if timeoutHonoured a o then [] else ["timeoutHonoured"]

end Psutil.C15.Spec
