/-
  Spec/C01Stat.lean — what C01 promises over histories whose kernel publishes stat BYTES (Model/C01Stat.lean).
  The property speaks about processes and PIDs: which incarnation holds which PID.  Command names and the other
  fields of `/proc/<pid>/stat` are not part of it — so the specification is the one of Spec/C01.lean read on the
  kernel's process table with the bytes forgotten (`KernelB.forget`), never on what psutil's reader makes of them.
-/
import PsutilModel.Model.C01Stat
import PsutilModel.Spec.C01
namespace Psutil.C01.Spec
open Psutil.C01

/-- the very incarnation the object was built for is still in the process table — whatever its stat line shows -/
def ListedB (k : KernelB) (o : PObj) : Prop := ∃ x ∈ k.procs, x.pid = o.pid ∧ x.start = o.ghost

theorem listedB_forget (k : KernelB) (o : PObj) : ListedB k o ↔ Listed k.forget o := by
  constructor
  · rintro ⟨x, hx, hp, hs⟩
    exact ⟨x.forget, List.mem_map.2 ⟨x, hx, rfl⟩, hp, hs⟩
  · rintro ⟨y, hy, hp, hs⟩
    obtain ⟨x, hx, rfl⟩ := List.mem_map.1 hy
    exact ⟨x, hx, hp, hs⟩

end Psutil.C01.Spec
