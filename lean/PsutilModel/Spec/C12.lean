/-
  Spec/C12.lean — what property C12 promises, written from the property statement and from
  the kernel's layout of `/proc/<pid>/cmdline`, `/proc/<pid>/environ` and the `exe`/`cwd`
  links (proc(5)), on BYTES. It imports Model/C12 for the TYPES only (`World`, `Err`, `Exc`, `Res`, `FsEnt`,
  `FileSt`, `LinkSt`, `Dict`, `Call`, `Out`); no function of the model is used here.

  Kernel side (renderers):
    * cmdline = every argument followed by one NUL (`renderArgv`); a process that rewrote
      its title leaves arbitrary bytes, usually without NULs;
    * environ = every `NAME=value` string followed by one NUL (`renderEnv`);
    * exe/cwd = a path, possibly followed by NUL garbage, possibly with ` (deleted)` appended.

  WHERE THE RULES COME FROM. Two layers, kept apart on purpose:
    1. the BYTE rules (`fields`, `args`, `envEntries`, `parseEntry`, `assignments`, `environOf`, `stripDeleted`,
       `linkClean`, `base`, `nameRule`) are the statement's; they are characterised independently of the code
       (`IsFields` uniqueness, the kernel-layout round-trips, `lastValue`). Four details are NOT fixed by the
       statement and were chosen to agree with the code (code-derived, listed in the MANIFEST assumptions):
       only ONE trailing space of a NUL-less title is ignored; a cmdline file whose last byte is not NUL keeps
       its NULs inside the returned strings; an unterminated last environ entry is dropped (the kernel's
       `renderEnv` always terminates entries, so this only concerns blocks cut by the kernel); an entry with an
       empty NAME (`=x`) is not an assignment.
    2. the EXCEPTION vocabulary (`fileErr`, the error arms of `link`, `exeOnce`, `name`) is psutil's documented
       one (EACCES = AccessDenied, ESRCH = the process is gone, a withheld file of a zombie = ZombieProcess, …).
       The statement itself only fixes a few of these arms (zombie's empty cmdline, `''` for a withheld link of a
       live process, fallback + caching of exe()); the others are a second, declarative transcription of what
       the front end documents in its comments. The theorems that compare model and spec on those arms are
       therefore CHARACTERISATIONS of the code; the branch-free invariants `C12_exe_result_invariant`,
       `C12_exe_remembers_only_what_it_returned`, `C12_exe_denied_never_remembered`,
       `C12_zombie_never_empty_string` in Props/C12.lean are stated without them.

  NUL-PADDED TITLES. A title followed by two or more NULs (nginx / sshd / postgres) is, byte for byte, the
  kernel layout of the argument vector `title, "", "", …` (`C12_padded_title_is_an_argv`), so the statement's
  FIRST rule applies ("NUL-separated with empty arguments preserved") and the title comes back unsplit followed
  by empty strings. The statement's second rule ("split on spaces when the process overwrote its title without
  NUL separators") is read as: no NUL separators in the file, i.e. a single piece. That reading is a
  characterisation of the code (integrator decision, round 3), not a consequence of the statement's words.

  `none` as a result means: the property is silent about this situation. The silent region is delimited
  exactly by `C12_silent_region` (Props/C12.lean): ENOENT on the cmdline/environ file of a LIVE process whose
  `/proc/<pid>/stat` still exists (and therefore name() of a ≥ 15-byte name and an exe() that has to guess, in
  such a world); an existence test of the ` (deleted)` path that is itself denied; a withheld link while `stat`
  is missing or unreadable (we cannot tell whether the process is live). Such cases are compared against the
  model only.
-/
import PsutilModel.Model.C12
namespace Psutil.C12.Spec
open Psutil.C12

/-! ### fields -/

/-- the pieces of `s` between occurrences of `sep` (empty pieces kept) -/
def fields (sep : Nat) (s : Bytes) : List Bytes :=
  s.foldr (fun c acc =>
    if c = sep then [] :: acc
    else match acc with
      | h :: t => (c :: h) :: t
      | [] => [[c]]) [[]]

/-- what "`fs` are the `sep`-separated fields of `s`" means -/
def IsFields (sep : Nat) (s : Bytes) (fs : List Bytes) : Prop :=
  fs ≠ [] ∧ (∀ f ∈ fs, sep ∉ f) ∧ joinWith [sep] fs = s

/-! ### cmdline -/

/-- the kernel's layout of an argument vector -/
def renderArgv (argv : List Bytes) : Bytes := argv.flatMap (· ++ [0])

/-- the documented reading of a non-empty cmdline file -/
def args (data : Bytes) : List Bytes :=
  let body := data.dropLast
  if data.getLast? = some 0 then
    -- NUL-terminated, as the kernel writes it
    if 0 ∈ body then fields 0 body            -- several arguments, empty ones preserved
    else if 32 ∈ body then fields 32 body     -- one NUL-terminated piece with spaces: a rewritten title
    else [body]
  else
    -- a title rewritten without NULs: split on spaces, one trailing space ignored
    fields 32 (if data.getLast? = some 32 then body else data)

/-- empty file: `[]` for a live process, ZombieProcess for a zombie -/
def cmdlineOf (zombie : Bool) (data : Bytes) : Res (List Bytes) :=
  if data = [] then (if zombie then .error .zombieProcess else .ok [])
  else .ok (args data)

/-- the process is KNOWN to be a zombie: its `stat` entry is there, can be read, and says `Z`
    (only used for worlds whose `/proc/<pid>` exists) -/
def zombie (w : World) : Bool := w.statExists && w.statReadable && w.zombie

/-- an OS error when opening `/proc/<pid>/cmdline` or `…/environ` while `/proc/<pid>` exists, in
    psutil's documented vocabulary: EACCES = AccessDenied; ESRCH ("no such process") = the
    process died under our feet: NoSuchProcess, ZombieProcess if its entry says `Z`; ENOENT on
    a zombie = ZombieProcess; ENOENT when `/proc/<pid>/stat` is gone as well = the process is going away,
    only its directory lingers: NoSuchProcess (psutil #2418). ENOENT on a single file of a live process whose
    `stat` is still there: the property is silent. -/
def fileErr (w : World) : Err → Option Exc
  | .eacces => some .accessDenied
  | .esrch => some (if zombie w then .zombieProcess else .noSuchProcess)
  | .enoent => if zombie w then some .zombieProcess
               else if !w.statExists then some .noSuchProcess else none

def cmdline (w : World) : Option (Res (List Bytes)) :=
  if !w.dirExists then some (.error .noSuchProcess)
  else match w.cmdline with
    | .data d => some (cmdlineOf (zombie w) d)
    | .err e => (fileErr w e).map .error

/-! ### what the kernel exposes after the process rewrote its title (proc(5); `get_mm_cmdline`) -/

/-- the bytes of `/proc/<pid>/cmdline` given the memory of the argument area `[arg_start, arg_end)` and of
    the environment area that follows it: the argument area as it is — unless its last byte is no longer
    NUL (the process overwrote it: setproctitle), in which case the C string at `arg_start`, running on into
    the environment area, with its terminating NUL when there is one -/
def kernelCmdline (argArea envArea : Bytes) : Bytes :=
  if argArea = [] ∨ argArea.getLast? = some 0 then argArea
  else
    let all := argArea ++ envArea
    let s := all.takeWhile (· != 0)
    if s.length < all.length then s ++ [0] else s

/-- an `n`-byte area after the title `t` was written at its start and the rest padded with NUL bytes
    (nginx, sshd, postgres, python-setproctitle on Linux) -/
def titleArea (t : Bytes) (n : Nat) : Bytes := t ++ List.replicate (n - t.length) 0

/-! ### environ -/

/-- the kernel's layout of an environment -/
def renderEnv (env : List (Bytes × Bytes)) : Bytes :=
  env.flatMap fun kv => kv.1 ++ [61] ++ kv.2 ++ [0]

/-- the NUL-terminated entries up to (not including) the first empty one; an unterminated
    tail is garbage -/
def envEntries (data : Bytes) : List Bytes :=
  ((fields 0 data).dropLast).takeWhile (fun e => !e.isEmpty)

/-- `NAME=value` with a non-empty NAME (no `=` at all, or a leading `=`: not an assignment) -/
def parseEntry (e : Bytes) : Option (Bytes × Bytes) :=
  let key := e.takeWhile (· != 61)
  if key.isEmpty || key.length == e.length then none
  else some (key, e.drop (key.length + 1))

def assignments (data : Bytes) : List (Bytes × Bytes) := (envEntries data).filterMap parseEntry

/-- dictionary update: an existing name keeps its place and gets the new value -/
def put (d : Dict) (kv : Bytes × Bytes) : Dict :=
  match d with
  | [] => [kv]
  | e :: rest => if e.1 = kv.1 then kv :: rest else e :: put rest kv

/-- the promised dictionary: all assignments, the last duplicate winning -/
def environOf (data : Bytes) : Dict := (assignments data).foldl put []

/-- "the last duplicate wins", said directly -/
def lastValue (as : List (Bytes × Bytes)) (k : Bytes) : Option Bytes :=
  (as.reverse.find? (fun kv => kv.1 == k)).map (·.2)

def environ (w : World) : Option (Res Dict) :=
  if !w.dirExists then some (.error .noSuchProcess)
  else match w.environ with
    | .data d => some (.ok (environOf d))
    | .err e => (fileErr w e).map .error

/-! ### exe / cwd links -/

def deleted : Bytes := [32, 40, 100, 101, 108, 101, 116, 101, 100, 41]   -- " (deleted)"

/-- `some q` iff `p = q ++ " (deleted)"` -/
def stripDeleted (p : Bytes) : Option Bytes :=
  if deleted.length ≤ p.length ∧ p.drop (p.length - deleted.length) = deleted
  then some (p.take (p.length - deleted.length)) else none

/-- what the file system says about a name: `some true` = something of that name exists, `some false` = nothing
    does — there is no such entry (ENOENT), or the name cannot lead to one at all: a component on the way is not
    a directory (ENOTDIR), is longer than any name can be (ENAMETOOLONG), is a symlink loop (ELOOP), lies on a dead
    mount (ESTALE, EIO, ENOTCONN …): whatever the errno, `stat` did not find a file — `none` = the examination
    itself is refused (EACCES / EPERM): we are not told -/
def named : FsEnt → Option Bool
  | .absent => some false
  | .denied => none
  | .dir => some true
  | .file _ => some true
  | .unstatable _ cls => if cls = .permission then none else some false

/-- the link target with NUL garbage removed and a *stale* ` (deleted)` removed; silent when
    the suffixed path cannot be examined -/
def linkClean (fs : Bytes → FsEnt) (t : Bytes) : Option Bytes :=
  let p := t.takeWhile (· != 0)
  match stripDeleted p with
  | none => some p
  | some q =>
    match named (fs p) with
    | some false => some q       -- nothing is called "… (deleted)": the suffix is the kernel's remark
    | none => none
    | some true => some p        -- a file really named "… (deleted)"

def link (w : World) (l : LinkSt) : Option (Res Bytes) :=
  if !w.dirExists then some (.error .noSuchProcess)
  else match l with
    | .target t => (linkClean w.fs t).map .ok
    | .err .eacces => some (.error .accessDenied)
    | .err _ =>                   -- the kernel withholds the link (ENOENT / ESRCH)
      if zombie w then some (.error .zombieProcess)
      else if w.statExists && w.statReadable then some (.ok [])     -- a live process
      else none                   -- `stat` gone / unreadable: live or not, we cannot tell — silent

def cwd (w : World) : Option (Res Bytes) := link w w.cwd

/-! ### exe() front end: fallback and memory -/

/-- what the guess from `cmdline()` gives: a path, nothing usable, or `cmdline()` itself fails -/
inductive Guess
  | path (p : Bytes)
  | nothing
  | fails (e : Exc)
  deriving DecidableEq, Repr

/-- `cmdline()[0]` if it is an absolute path to an executable regular file -/
def guessOf (w : World) : Option Guess :=
  match cmdline w with
  | some (.ok (a0 :: _)) =>
    let okPath := a0.head? = some 47 ∧ 0 ∉ a0 ∧ w.fs a0 = .file true
    some (if okPath then .path a0 else .nothing)
  | some (.ok []) => some .nothing
  | some (.error e) => some (.fails e)
  | none => none

/-- one uncached `exe()`: the answer, and whether the object remembers it.
    * readable non-empty link: that path, remembered;
    * link withheld (`''`): the guess if there is one, else `''` — also when `cmdline()` is
      denied (the guess is merely unavailable) — remembered either way; if `cmdline()` says the
      process is a zombie / gone, that error, nothing remembered;
    * link denied: the guess if there is one, else AccessDenied (or the error of `cmdline()`);
      nothing remembered;
    * any other error of the link (zombie, gone): that error. -/
def exeOnce (w : World) : Option (Res Bytes × Bool) :=
  match link w w.exe with
  | some (.ok p) =>
    if p ≠ [] then some (.ok p, true)
    else match guessOf w with
      | some (.path g) => some (.ok g, true)
      | some .nothing => some (.ok [], true)
      | some (.fails .accessDenied) => some (.ok [], true)
      | some (.fails e) => some (.error e, false)
      | none => none
  | some (.error .accessDenied) =>
    match guessOf w with
    | some (.path g) => some (.ok g, false)
    | some .nothing => some (.error .accessDenied, false)
    | some (.fails e) => some (.error e, false)
    | none => none
  | some (.error e) => some (.error e, false)
  | none => none

/-- what one object remembers after `exe()` was called in the worlds `ws` (oldest first):
    `none` = unknown (the property was silent somewhere), `some c` = remembered answer `c` -/
def exeMemory : List World → Option (Option Bytes)
  | [] => some none
  | w :: ws =>
    match exeOnce w with
    | none => none
    | some (.ok v, true) => some (some v)
    | some _ => exeMemory ws

/-- answer of `exe()` in world `w` after earlier calls in the worlds `ws` -/
def exeAfter (ws : List World) (w : World) : Option (Res Bytes) :=
  match exeMemory ws with
  | none => none
  | some (some c) => some (.ok c)
  | some none => (exeOnce w).map (·.1)

/-! ### name() -/

/-- the part after the last `/` -/
def base (p : Bytes) : Bytes := (fields 47 p).getLastD []

/-- the kernel keeps 15 bytes of the name -/
def commMax : Nat := 15

/-- the rule itself: a name that may be truncated (15 bytes) is replaced by the basename of
    argv[0] when that basename starts with it -/
def nameRule (comm : Bytes) (argv0 : Option Bytes) : Bytes :=
  match argv0 with
  | some a0 => if commMax ≤ comm.length ∧ comm.isPrefixOf (base a0) then base a0 else comm
  | none => comm

def name (w : World) : Option (Res Bytes) :=
  if !w.dirExists || !w.statExists then some (.error .noSuchProcess)   -- no `stat`: the process is gone
  else if !w.statReadable then some (.error .accessDenied)
  else if w.comm.length < commMax then some (.ok w.comm)
  else match cmdline w with
    | some (.ok argv) => some (.ok (nameRule w.comm argv.head?))
    | some (.error .accessDenied) => some (.ok w.comm)     -- cmdline unreadable: the kernel's name
    | some (.error .zombieProcess) => some (.ok w.comm)    -- a zombie keeps the kernel's name
    | some (.error e) => some (.error e)                   -- the process is gone
    | none => none

/-! ### username() / terminal(): a zombie still has an owner and a controlling terminal -/

/-- the name the user database gives the REAL uid, the uid in decimal (`Base.renderDec`, the inverse of
    decimal parsing) if it has none —
    whether or not the process is a zombie -/
def username (w : World) : Option (Res Bytes) :=
  if !w.dirExists then some (.error .noSuchProcess)
  else some (.ok (match w.users w.uid with | some n => n | none => renderDec w.uid))

/-- the terminal device whose number is `tty_nr`, `None` if there is none — zombie or not -/
def terminal (w : World) : Option (Res (Option Bytes)) :=
  if !w.dirExists || !w.statExists then some (.error .noSuchProcess)
  else if !w.statReadable then some (.error .accessDenied)
  else some (.ok (w.ttys w.tty))

/-! ### one call, given the worlds of the earlier `exe()` calls on the same object -/

def call (exeWorlds : List World) (w : World) : Call → Option Out
  | .cmdline => (cmdline w).map .args
  | .environ => (environ w).map .dict
  | .exe => (exeAfter exeWorlds w).map .str
  | .cwd => (cwd w).map .str
  | .name => (name w).map .str
  | .username => (username w).map .str
  | .terminal => (terminal w).map .opt

end Psutil.C12.Spec
