/-
  Spec/C03Hist.lean — "once the process is gone every later query on that object raises NoSuchProcess", for a
  history of calls on one object: what a call that STARTS after the process vanished must answer.
  Written from the property statement and psutil's documentation (is_running() "Return whether this process is
  running": False); nothing here looks at how psutil is written.
-/
import PsutilModel.Spec.C03
namespace Psutil.C03.Spec

/-- the answer a gone process owes to the query `nm`: is_running() → False, every other covered query →
    NoSuchProcess(pid) -/
def GoneAnswer (pid : Nat) (nm : String) (out : Except PyExc Val) : Prop :=
  if nm = "is_running" then out = .ok (.bool false) else IsNSP pid out

instance (pid : Nat) (nm : String) (out : Except PyExc Val) : Decidable (GoneAnswer pid nm out) := by
  unfold GoneAnswer; split
  · exact (match out with
      | .ok v => if h : v = .bool false then isTrue (by rw [h]) else isFalse (by intro h'; cases h'; exact h rfl)
      | .error _ => isFalse (by intro h; cases h))
  · infer_instance

end Psutil.C03.Spec
