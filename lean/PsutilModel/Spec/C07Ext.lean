/-
  Spec/C07Ext.lean — second extension round of C07. Written from the kernel's `/proc/stat` format and
  from the documentation of `float()`, not from psutil's algorithm:

    * a kernel prints one `cpuN` line per ONLINE CPU, `N` being the CPU's own number: after CPU 1 went
      offline the lines are `cpu0`, `cpu2`, `cpu3` (fs/proc/stat.c: `for_each_online_cpu(i)`);
      `ProcStatL` is such a state, `perCpuByNumber` what "for each CPU separately" means when CPUs
      are identified by their number;
    * the three classes of tokens: digit strings (a superset of the kernel grammar `isKernelTok`,
      read by `float()` as their decimal value), FOREIGN tokens (containing a byte that occurs in no
      string `float()` accepts: `float()` raises ValueError for sure), and the rest (`1e3`, `+5`,
      `nan`, `--1` …: outside the claim).
-/
import PsutilModel.Spec.C07
namespace Psutil.C07.Spec
open Psutil.C07

/-! ## CPUs that carry their own numbers -/

/-- a kernel state whose online CPUs are listed with their own numbers, in the order printed -/
structure ProcStatL where
  total : Ticks
  cpus : List (Nat × Ticks)
  other : List Bytes

def renderCpuLinesL (ncols : Nat) : List (Nat × Ticks) → List Bytes
  | [] => []
  | p :: ts => renderCpuLine ncols p.1 p.2 :: renderCpuLinesL ncols ts

def statLinesL (ncols : Nat) (w : ProcStatL) : List Bytes :=
  renderTotalLine ncols w.total :: (renderCpuLinesL ncols w.cpus ++ w.other)

def renderProcStatL (ncols : Nat) (w : ProcStatL) : Bytes := unlines (statLinesL ncols w)

/-- the unnumbered state of Spec/C07 is the special case "CPUs 0..n-1, all online" -/
def numberFrom : Nat → List Ticks → List (Nat × Ticks)
  | _, [] => []
  | i, t :: ts => (i, t) :: numberFrom (i + 1) ts

/-- `percpu=True` when CPUs are identified by their kernel NUMBER: one percentage for every CPU
    that is online in both samples, in the order of the newer sample, each computed from that
    CPU's own two records -/
def perCpuByNumber (nf : Nat) (os ns : List (Nat × Times)) : List Rat :=
  ns.filterMap fun p => (os.lookup p.1).map fun o => percent nf o p.2

/-! ## token classes -/

/-- a non-empty string of ASCII decimal digits (leading zeros allowed): `float()` reads it as its
    decimal value. The kernel grammar `isKernelTok` is the subset without leading zeros. -/
def isDigitTok (t : Bytes) : Bool := !t.isEmpty && t.all isDigit

/-- the bytes that occur in SOME string `float()` accepts (no blanks inside a token of `split()`):
    digits, `+ - . _`, `e E` and the letters of `inf`, `infinity`, `nan` in either case -/
def inFloatAlphabet (b : Nat) : Bool :=
  isDigit b || [43, 45, 46, 95, 69, 101, 73, 105, 78, 110, 70, 102, 84, 116, 89, 121, 65, 97].contains b

/-- a token with a byte outside that alphabet: `float(token)` raises ValueError, whatever else the
    token contains -/
def isForeignTok (t : Bytes) : Bool := t.any fun b => !inFloatAlphabet b

/-- the decimal value of a digit string -/
def digitVal (t : Bytes) : Nat := (parseDec? t).getD 0

/-- the tokens of a line that are converted: the `nf` columns after the label -/
def counterToks (nf : Nat) (values : List Bytes) : List Bytes := (values.drop 1).take nf

/-- what reading one `cpu…` line gives, from its tokens (any bytes), written from the behaviour of
    `float()` on the two claimed token classes and of `scputimes(*fields)`:
    ValueError when one of the converted tokens is not a number, else TypeError when there are
    fewer than `nf` of them, else their values in seconds. Tokens beyond column `nf` do not matter. -/
def lineOutcome (tck nf : Nat) (values : List Bytes) : PRes (List Rat) :=
  let toks := counterToks nf values
  if toks.all isDigitTok then
    if toks.length = nf then .ok (toks.map fun t => ((digitVal t : Nat) : Rat) / (tck : Rat))
    else .error .typeError
  else .error .valueError

/-- `per_cpu_times()` from the `cpu…` lines after the first line, read in order: the first line that
    cannot be read decides the exception, nothing is returned for the lines before it -/
def linesOutcome (tck nf : Nat) : List Bytes → PRes (List (List Rat))
  | [] => .ok []
  | l :: ls =>
    match lineOutcome tck nf (splitWs l) with
    | .error e => .error e
    | .ok s =>
      match linesOutcome tck nf ls with
      | .error e => .error e
      | .ok ss => .ok (s :: ss)

/-- a `cpu…` line every converted token of which is a digit string and that has all `nf` of them -/
def lineWellFormed (nf : Nat) (l : Bytes) : Bool :=
  (counterToks nf (splitWs l)).all isDigitTok && decide ((counterToks nf (splitWs l)).length = nf)

end Psutil.C07.Spec
