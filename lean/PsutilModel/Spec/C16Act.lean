/- Spec/C16Act.lean — what the property promises about calls of any shape (with arguments, blocking, asking several
   sources), written from the statement only: inside a block every question about a source is answered with the
   content the source had when it was FIRST asked in that (outermost) block; outside, with the content at the
   instant of the question; leaving the outermost level forgets everything. No cache, no attribute, no notion of
   activation: a `cop` step of a body means nothing here. -/
import PsutilModel.Model.C16Act
namespace Psutil.C16.Act.ASpec

structure SSt where
  w : World
  depth : Nat
  frozen : Dict

def SSt.init (w : World) : SSt := ⟨w, 0, emptyD⟩

def ask (τ : SSt) (s : Src) : Nat × SSt :=
  if τ.depth = 0 then (τ.w s, τ)
  else match τ.frozen s with
    | some v => (v, τ)
    | none => (τ.w s, { τ with frozen := upd τ.frozen s (τ.w s) })

def runBodyS : Body → List World → SSt → List Nat → List Nat × SSt
  | [], _, τ, acc => (acc.reverse, τ)
  | .get s _ :: b, ws, τ, acc => runBodyS b ws (ask τ s).2 ((ask τ s).1 :: acc)
  | .tick :: b, w' :: ws, τ, acc => runBodyS b ws { τ with w := w' } acc
  | .tick :: b, [], τ, acc => runBodyS b [] τ acc
  | .cop _ _ :: b, ws, τ, acc => runBodyS b ws τ acc

def stepS (τ : SSt) : Op → SSt × List Nat
  | .enter => if τ.depth = 0 then ({ τ with depth := 1, frozen := emptyD }, []) else ({ τ with depth := τ.depth + 1 }, [])
  | .exit => if τ.depth ≤ 1 then ({ τ with depth := 0, frozen := emptyD }, []) else ({ τ with depth := τ.depth - 1 }, [])
  | .call b ws => let r := runBodyS b ws τ []; (r.2, r.1)
  | .change w => ({ τ with w := w }, [])

def runS : SSt → List Op → SSt × List (List Nat)
  | τ, [] => (τ, [])
  | τ, o :: os => let r := stepS τ o; let r' := runS r.1 os; (r'.1, r.2 :: r'.2)

def outsS (τ : SSt) (h : List Op) : List (List Nat) := (runS τ h).2

end Psutil.C16.Act.ASpec
