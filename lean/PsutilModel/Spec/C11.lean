/-
  Spec/C11.lean — what `net_connections()` promises, written from the property statement and
  from the kernel's documented formats (net/ipv4/tcp_ipv4.c `get_tcp4_sock`, net/ipv6/tcp_ipv6.c
  `get_tcp6_sock`, net/ipv4/udp.c `udp4_format_sock`, net/unix/af_unix.c `unix_seq_show`,
  fs/proc `socket:[ino]` links) — not from psutil's algorithm.

  * the world: a socket table and the descriptor tables of the visible processes;
  * kernel-side renderers of `/proc/net/{tcp,tcp6,udp,udp6,unix}` and of the fd links
    (`%08X` of each 32-bit address word **in host order**, `%04X` port, `%02X` state,
    `%lu` inode);
  * the rows a caller is promised for a `(kind, pid)` query.

  Only the result types (`Row`, `Addr`, `ProcFs`) are shared with the model.
-/
import PsutilModel.Model.C11
namespace Psutil.C11.Spec
open Psutil.C11

inductive Fam | inet4 | inet6 | unix
  deriving DecidableEq, Repr

/-- Linux ABI values of AF_INET / AF_INET6 / AF_UNIX (`<bits/socket.h>`) -/
def Fam.num : Fam → Nat
  | .inet4 => 2
  | .inet6 => 10
  | .unix => 1

/-- one socket of the kernel's table -/
structure Sock where
  fam : Fam
  typ : Nat               -- 1 SOCK_STREAM, 2 SOCK_DGRAM, 5 SOCK_SEQPACKET
  lip : List Nat          -- inet: the 4 / 16 address bytes in network order
  lport : Nat
  rip : List Nat
  rport : Nat
  state : Nat             -- sk_state; TCP: 1..11 (include/net/tcp_states.h)
  path : Option Bytes     -- UNIX: the bound name as the kernel shows it ('@' for NUL); none = unbound
  /-- `sock_i_ino(sk)` as printed. NOT a key: the kernel prints 0 for every socket without a `struct socket` —
      TIME_WAIT / SYN_RECV / orphaned TCP sockets in net/tcp{,6} and UNIX connections still queued on a listener (not
      yet `accept()`ed) in net/unix — so lines of one table and of DIFFERENT tables may show the same number
      (`World.WF` has no clause about it). Every such line is a socket of its own; `holders` goes by the number. -/
  inode : Nat
  -- columns psutil must not look at
  txq : Nat
  rxq : Nat
  uid : Nat
  refcnt : Nat
  flags : Nat
  deriving DecidableEq, Repr

/-- what a descriptor refers to -/
inductive Target
  | sock (inode : Nat)
  | other (text : Bytes)     -- a file, a pipe, `anon_inode:[eventpoll]`, …
  | gone                     -- closed between listdir() and readlink()
  deriving DecidableEq, Repr

structure World where
  socks : List Sock
  /-- every listed PID, in the order the directory listing yields them; its descriptors in
      listing order, or `none` when `/proc/<pid>/fd` cannot be listed (another user's process) -/
  procs : List (Nat × Option (List (Nat × Target)))
  /-- is IPv6 available (do `net/tcp6`, `net/udp6` exist)? -/
  v6 : Bool

structure Query where
  kind : String
  pid : Option Nat           -- `none` = system-wide `psutil.net_connections`

/-! ## Kernel-side renderers -/

def hexChr (d : Nat) : Nat := if d < 10 then 48 + d else 55 + d

/-- `%0<w>X` of a number below `16^w` -/
def hexW : Nat → Nat → Bytes
  | 0, _ => []
  | w + 1, n => hexW w (n / 16) ++ [hexChr (n % 16)]

/-- the four bytes `b0 b1 b2 b3` (memory order) read as a host-order 32-bit integer -/
def word (le : Bool) (b0 b1 b2 b3 : Nat) : Nat :=
  if le then b0 + 256 * b1 + 65536 * b2 + 16777216 * b3
  else b3 + 256 * b2 + 65536 * b1 + 16777216 * b0

/-- `%08X` of each 32-bit word of the address (`s6_addr32[0..3]` / `inet_rcv_saddr`) -/
def renderWords (le : Bool) : List Nat → Bytes
  | b0 :: b1 :: b2 :: b3 :: rest => hexW 8 (word le b0 b1 b2 b3) ++ renderWords le rest
  | _ => []

/-- `%08X:%04X` / `%08X%08X%08X%08X:%04X` -/
def renderEndpoint (le : Bool) (ip : List Nat) (port : Nat) : Bytes :=
  renderWords le ip ++ 58 :: hexW 4 port

/-- a line made of fields, each preceded by the given number of blanks -/
def fieldsLine (fs : List (Nat × Bytes)) : Bytes :=
  fs.flatMap fun f => List.replicate f.1 32 ++ f.2

/-- blanks that `%<w>…` puts in front of a rendered number -/
def padTo (w : Nat) (t : Bytes) : Nat := w - t.length

/-- an ASCII literal as bytes -/
def lit (s : String) : Bytes := s.toList.map Char.toNat

/-- fields of one line of net/tcp, net/tcp6 (`tcp = true`) or net/udp, net/udp6 -/
def inetFields (le : Bool) (tcp : Bool) (sl : Nat) (s : Sock) : List (Nat × Bytes) :=
  [ (padTo (if tcp then 4 else 5) (renderDec sl), renderDec sl ++ [58]),
    (1, renderEndpoint le s.lip s.lport),
    (1, renderEndpoint le s.rip s.rport),
    (1, hexW 2 s.state),
    (1, hexW 8 s.txq ++ 58 :: hexW 8 s.rxq),
    (1, lit "00:00000000"),
    (1, lit "00000000"),
    (1 + padTo 5 (renderDec s.uid), renderDec s.uid),
    (8, lit "0"),
    (1, renderDec s.inode) ]
  ++ (if tcp then [(1, lit "1"), (1, lit "0000000000000000"), (1, lit "100"), (1, lit "0"),
                   (1, lit "0"), (1, lit "10"), (1, lit "0")]
      else [(1, lit "2"), (1, lit "0000000000000000"), (1, lit "0")])

/-- `seq_setwidth(seq, w); …; seq_pad(seq, '\n')`: blanks up to column `w` -/
def padRight (w : Nat) (t : Bytes) : Bytes := t ++ List.replicate (w - t.length) 32

/-- IPv4 lines are padded to 149 (tcp) / 127 (udp) columns; IPv6 lines are not padded -/
def lineWidth (f : Fam) (tcp : Bool) : Nat :=
  match f with
  | .inet4 => if tcp then 149 else 127
  | _ => 0

def inetLine (le : Bool) (tcp : Bool) (sl : Nat) (s : Sock) : Bytes :=
  padRight (lineWidth s.fam tcp) (fieldsLine (inetFields le tcp sl s))

def inetLines (le : Bool) (tcp : Bool) : Nat → List Sock → List Bytes
  | _, [] => []
  | sl, s :: ss => inetLine le tcp sl s :: inetLines le tcp (sl + 1) ss

/-- `"%pK: %08X %08X %08X %04X %02X %5lu"` then, for a bound socket, a blank and the name -/
def unixFields (s : Sock) : List (Nat × Bytes) :=
  [ (0, lit "0000000000000000:"),
    (1, hexW 8 s.refcnt),
    (1, hexW 8 0),
    (1, hexW 8 s.flags),
    (1, hexW 4 s.typ),
    (1, hexW 2 s.state),
    (1 + padTo 5 (renderDec s.inode), renderDec s.inode) ]

def unixLine (s : Sock) : Bytes :=
  fieldsLine (unixFields s) ++
    (match s.path with
     | some p => 32 :: p
     | none => [])

/-- a file: header line, then the lines, each terminated by `\n` -/
def fileOf (header : Bytes) (lines : List Bytes) : Bytes :=
  header ++ 10 :: lines.flatMap (fun l => l ++ [10])

def tcpHeader : Bytes :=
  lit "  sl  local_address rem_address   st tx_queue rx_queue tr tm->when retrnsmt   uid  timeout inode"
def tcp6Header : Bytes :=
  lit "  sl  local_address                         remote_address                        st tx_queue rx_queue tr tm->when retrnsmt   uid  timeout inode"
def udpHeader : Bytes :=
  lit "   sl  local_address rem_address   st tx_queue rx_queue tr tm->when retrnsmt   uid  timeout inode ref pointer drops"
def udp6Header : Bytes :=
  lit "  sl  local_address                         remote_address                        st tx_queue rx_queue tr tm->when retrnsmt   uid  timeout inode ref pointer drops"
def unixHeader : Bytes := lit "Num       RefCount Protocol Flags    Type St Inode Path"

def inClass (f : Fam) (typ : Nat) (s : Sock) : Bool := s.fam == f && s.typ == typ

def inetFile (le : Bool) (w : World) (f : Fam) (typ : Nat) (header : Bytes) : Bytes :=
  fileOf header (inetLines le (typ == 1) 0 (w.socks.filter (inClass f typ)))

def unixFile (w : World) : Bytes :=
  fileOf unixHeader ((w.socks.filter (fun s => s.fam == .unix)).map unixLine)

/-- `socket:[<ino>]` -/
def renderTarget : Target → Option Bytes
  | .sock i => some (lit "socket:[" ++ renderDec i ++ [93])
  | .other t => some t
  | .gone => none

/-- the procfs content psutil reads, for host endianness `le` -/
def renderWorld (le : Bool) (w : World) : ProcFs where
  net name :=
    if name = "tcp" then some (inetFile le w .inet4 1 (padRight 149 tcpHeader))
    else if name = "udp" then some (inetFile le w .inet4 2 (padRight 127 udpHeader))
    else if name = "tcp6" then (if w.v6 then some (inetFile le w .inet6 1 tcp6Header) else none)
    else if name = "udp6" then (if w.v6 then some (inetFile le w .inet6 2 udp6Header) else none)
    else if name = "unix" then some (unixFile w)
    else none
  procs := w.procs.map fun p =>
    (p.1, p.2.map fun fds => fds.map fun e => (e.1, renderTarget e.2))

/-! ## What is promised -/

/-- the 11 documented values of `kind` -/
def kinds : List String :=
  ["inet", "inet4", "inet6", "tcp", "tcp4", "tcp6", "udp", "udp4", "udp6", "unix", "all"]

/-- the documented table, read per socket class: the kinds that ask for it (TCP = inet stream,
    UDP = inet datagram, UNIX = every type of AF_UNIX socket; "inet" = IPv4 and IPv6, "all" = the
    sum of all the possible families and protocols) -/
def kindSelects (kind : String) (f : Fam) (typ : Nat) : Bool :=
  match f with
  | .unix => ["unix", "all"].contains kind
  | .inet4 => (typ == 1 && ["tcp4", "tcp", "inet4", "inet", "all"].contains kind)
              || (typ == 2 && ["udp4", "udp", "inet4", "inet", "all"].contains kind)
  | .inet6 => (typ == 1 && ["tcp6", "tcp", "inet6", "inet", "all"].contains kind)
              || (typ == 2 && ["udp6", "udp", "inet6", "inet", "all"].contains kind)

/-- names of the TCP states (include/net/tcp_states.h ↔ psutil's documented CONN_* constants) -/
def stateName : Nat → Option String
  | 1 => some "ESTABLISHED"
  | 2 => some "SYN_SENT"
  | 3 => some "SYN_RECV"
  | 4 => some "FIN_WAIT1"
  | 5 => some "FIN_WAIT2"
  | 6 => some "TIME_WAIT"
  | 7 => some "CLOSE"
  | 8 => some "CLOSE_WAIT"
  | 9 => some "LAST_ACK"
  | 10 => some "LISTEN"
  | 11 => some "CLOSING"
  | _ => none

/-- an address/port pair as promised: empty when the port is 0 -/
def endpoint (ip : List Nat) (port : Nat) : Addr :=
  if port = 0 then .empty else .ip ip port

/-- the promised tuple for socket `s`, owner fields left blank (`fd = 0`, `pid = none`) -/
def baseRow (s : Sock) : Row :=
  match s.fam with
  | .unix => ⟨0, Fam.unix.num, s.typ, .path (s.path.getD []), .path [], "NONE", none⟩
  | f => ⟨0, f.num, s.typ, endpoint s.lip s.lport, endpoint s.rip s.rport,
          (if s.typ = 1 then (stateName s.state).getD "" else "NONE"), none⟩

/-- the visible holders of the socket with inode `i`: every `(pid, fd)` whose descriptor
    refers to it -/
def holders (w : World) (i : Nat) : List (Nat × Nat) :=
  w.procs.flatMap fun p =>
    match p.2 with
    | none => []
    | some fds => fds.filterMap fun e => if e.2 = .sock i then some (p.1, e.1) else none

/-- acceptable `(pid, fd)` values of a row for a socket with inode `i` -/
def owners (w : World) (q : Query) (i : Nat) : List (Option Nat × Int) :=
  match q.pid with
  | none =>
    if (holders w i).isEmpty then [(none, -1)]        -- no visible holder: pid None, fd -1
    else (holders w i).map fun h => (some h.1, (h.2 : Int))
  | some p =>                                          -- per-process form: only its own; pconn has no pid
    ((holders w i).filter fun h => h.1 == p).map fun h => (none, (h.2 : Int))

/-- what is promised about one selected socket -/
structure Expect where
  base : Row
  owners : List (Option Nat × Int)
  /-- `true` (UNIX): one row per owner; `false` (TCP/UDP): one row, carrying one of the owners -/
  all : Bool
  deriving DecidableEq, Repr

def Expect.row (e : Expect) (o : Option Nat × Int) : Row := { e.base with pid := o.1, fd := o.2 }

def expectOf (w : World) (q : Query) (s : Sock) : Option Expect :=
  let o := owners w q s.inode
  if o.isEmpty then none else some ⟨baseRow s, o, s.fam == .unix⟩

def expects (w : World) (q : Query) : List Expect :=
  (w.socks.filter fun s => kindSelects q.kind s.fam s.typ).filterMap (expectOf w q)

def Expect.count (e : Expect) : Nat := if e.all then e.owners.length else 1

/-- the returned list `rows` is what the property promises for `es` -/
structure Accepts (es : List Expect) (rows : List Row) : Prop where
  /-- every row is the row of a selected socket with one of its owners -/
  justified : ∀ r ∈ rows, ∃ e ∈ es, ∃ o ∈ e.owners, r = e.row o
  /-- every selected socket is there: once per holder (UNIX) / with one of its holders -/
  covered : ∀ e ∈ es, if e.all then ∀ o ∈ e.owners, e.row o ∈ rows else ∃ o ∈ e.owners, e.row o ∈ rows
  /-- nothing twice, and not more rows than sockets (× holders for UNIX) -/
  nodup : rows.Nodup
  bound : rows.length ≤ (es.map Expect.count).sum

/-- no two different selected sockets can yield the same row (whichever of their owners is shown),
    and a UNIX socket's holders are listed once each. Sockets may well share an inode number — the
    kernel prints inode 0 for every socket without a `struct socket` (TIME_WAIT, SYN_RECV, orphans). -/
def Distinct (es : List Expect) : Prop :=
  es.Pairwise (fun a b => ∀ oa ∈ a.owners, ∀ ob ∈ b.owners, a.row oa ≠ b.row ob)
  ∧ ∀ e ∈ es, e.all = true → e.owners.Nodup

/-- executable form of `Accepts` (used by the driver) -/
def accepts (es : List Expect) (rows : List Row) : Bool :=
  rows.all (fun r => es.any fun e => e.owners.any fun o => r == e.row o)
  && es.all (fun e => if e.all then e.owners.all (fun o => rows.contains (e.row o))
                      else e.owners.any (fun o => rows.contains (e.row o)))
  && decide rows.Nodup
  && decide (rows.length ≤ (es.map Expect.count).sum)

inductive Promise
  | valueError                   -- unknown kind
  | rows (es : List Expect)

def promise (w : World) (q : Query) : Promise :=
  if q.kind ∈ kinds then .rows (expects w q) else .valueError

/-! ## Well-formed worlds (what a kernel can show) -/

def isByte (b : Nat) : Prop := b < 256

def Sock.WF (s : Sock) : Prop :=
  match s.fam with
  | .unix =>
    s.typ ≤ 9 ∧ (∀ p, s.path = some p → 10 ∉ p)
  | .inet4 =>
    s.lip.length = 4 ∧ s.rip.length = 4 ∧ (∀ b ∈ s.lip, b < 256) ∧ (∀ b ∈ s.rip, b < 256)
    ∧ s.lport < 65536 ∧ s.rport < 65536 ∧ (s.typ = 1 ∨ s.typ = 2) ∧ (s.typ = 1 → 1 ≤ s.state ∧ s.state ≤ 11)
  | .inet6 =>
    s.lip.length = 16 ∧ s.rip.length = 16 ∧ (∀ b ∈ s.lip, b < 256) ∧ (∀ b ∈ s.rip, b < 256)
    ∧ s.lport < 65536 ∧ s.rport < 65536 ∧ (s.typ = 1 ∨ s.typ = 2) ∧ (s.typ = 1 → 1 ≤ s.state ∧ s.state ≤ 11)

def Target.WF : Target → Prop
  | .other t => startsWith socketPrefix t = false
  | _ => True

structure World.WF (w : World) : Prop where
  socks : ∀ s ∈ w.socks, s.WF
  targets : ∀ p ∈ w.procs, ∀ fds, p.2 = some fds → ∀ e ∈ fds, e.2.WF
  v6 : w.v6 = false → ∀ s ∈ w.socks, s.fam ≠ .inet6

/-- executable form of `Sock.WF` (the driver answers `unspecified` outside it) -/
def Sock.wf (s : Sock) : Bool :=
  match s.fam with
  | .unix => decide (s.typ ≤ 9) && (match s.path with
                                    | some p => !p.contains 10
                                    | none => true)
  | _ =>
    (s.lip.length == (if s.fam == .inet4 then 4 else 16)) && (s.rip.length == (if s.fam == .inet4 then 4 else 16))
    && s.lip.all (fun b => decide (b < 256)) && s.rip.all (fun b => decide (b < 256))
    && decide (s.lport < 65536) && decide (s.rport < 65536) && (s.typ == 1 || s.typ == 2)
    && (s.typ != 1 || (decide (1 ≤ s.state) && decide (s.state ≤ 11)))

def Target.wf : Target → Bool
  | .other t => !startsWith socketPrefix t
  | _ => true

/-- executable form of `World.WF` -/
def World.wf (w : World) : Bool :=
  w.socks.all Sock.wf
  && w.procs.all (fun p => match p.2 with
      | none => true
      | some fds => fds.all fun e => e.2.wf)
  && (w.v6 || w.socks.all fun s => s.fam != .inet6)

/-! ## Descriptors and processes that cannot be inspected

  Between `listdir` and `readlink` a descriptor may be closed, its process may exit or change
  owner; other users' processes cannot be listed at all (proc(5): `/proc/<pid>/fd` is readable by
  the owner only; `readlink` there needs ptrace access to the *task*, so a denial concerns the whole
  process). The promise: such a descriptor / process contributes no holder — its sockets are
  still reported, with the holders that can be seen or with `pid None, fd -1` — and the system-wide
  call does not fail. -/

inductive TargetE
  | sock (inode : Nat)
  | other (text : Bytes)
  | fail (e : Errno)        -- `readlink` fails with this errno
  deriving DecidableEq, Repr

structure WorldE where
  socks : List Sock
  /-- per listed PID: its descriptors in listing order, or the errno `listdir` fails with -/
  procs : List (Nat × Except Errno (List (Nat × TargetE)))
  v6 : Bool

/-- the descriptor is not there any more (closed, process gone) or is not a link -/
def errVanished : Errno → Bool
  | .enoent | .esrch | .einval | .enametoolong => true
  | _ => false

/-- access denied: the process is not ours (any more) -/
def errDenied : Errno → Bool
  | .eacces | .eperm => true
  | _ => false

/-- `listdir`: the process is gone or not ours -/
def errUnlistable : Errno → Bool
  | .enoent | .esrch | .eacces | .eperm => true
  | _ => false

def TargetE.view : TargetE → Target
  | .sock i => .sock i
  | .other t => .other t
  | .fail _ => .gone

/-- is one of the descriptors of the process denied to us? -/
def deniedIn (fds : List (Nat × TargetE)) : Bool :=
  fds.any fun x => match x.2 with
    | .fail e => errDenied e
    | _ => false

/-- what can be seen of a process: nothing if it cannot be listed or is denied to us,
    otherwise its descriptors (the failing ones count as vanished) -/
def viewProc : Except Errno (List (Nat × TargetE)) → Option (List (Nat × Target))
  | .error _ => none
  | .ok fds => if deniedIn fds then none else some (fds.map fun x => (x.1, x.2.view))

/-- the world as far as it can be inspected: this is what the promise (`expects`) is about -/
def WorldE.view (w : WorldE) : World :=
  ⟨w.socks, w.procs.map (fun p => (p.1, viewProc p.2)), w.v6⟩

/-- every failure is one of the "cannot be inspected" outcomes above (no EIO, EMFILE, ENOMEM …) -/
def WorldE.Inspectable (w : WorldE) : Prop :=
  ∀ p ∈ w.procs, match p.2 with
    | .error e => errUnlistable e = true
    | .ok fds => ∀ x ∈ fds, ∀ e, x.2 = .fail e → (errVanished e || errDenied e) = true

/-- executable form of `Inspectable` for one descriptor table (used by the driver) -/
def fdsInspectable (fds : List (Nat × TargetE)) : Bool :=
  fds.all fun x => match x.2 with
    | .fail e => errVanished e || errDenied e
    | _ => true

/-- executable form of `WorldE.Inspectable` (used by the driver) -/
def WorldE.inspectable (w : WorldE) : Bool :=
  w.procs.all fun p => match p.2 with
    | .error e => errUnlistable e
    | .ok fds => fdsInspectable fds

/-- the per-process form speaks about a process whose descriptors can be listed and none of
    which is denied or fails otherwise than by vanishing -/
def ownClean (w : WorldE) (p : Nat) : Bool :=
  match w.procs.lookup p with
  | some (.ok fds) => fds.all fun x => match x.2 with
      | .fail e => errVanished e
      | _ => true
  | _ => false

def renderTargetE : TargetE → LinkRes
  | .sock i => .ok (lit "socket:[" ++ renderDec i ++ [93])
  | .other t => .ok t
  | .fail e => .err e

/-- the procfs content psutil reads, with the failing system calls -/
def renderWorldE (le : Bool) (w : WorldE) : ProcFsE where
  net := (renderWorld le w.view).net
  procs := w.procs.map fun p =>
    (p.1, match p.2 with
          | .error e => .error e
          | .ok fds => .ok (fds.map fun x => (x.1, renderTargetE x.2)))

/-! ## A Python that cannot format IPv6 addresses

  `socket.inet_ntop(AF_INET6, …)` raises ValueError and `supports_ipv6()` is false. An address has
  to be formatted only when its port is not 0 (port 0 ⇒ empty address). Promise: the sockets whose
  row needs an IPv6 text are left out, every other socket is reported as usual. -/

def needsV6Text (s : Sock) : Bool := s.fam == .inet6 && (s.lport != 0 || s.rport != 0)

def World.dropV6 (w : World) : World := { w with socks := w.socks.filter fun s => !needsV6Text s }

end Psutil.C11.Spec
