/- Spec/C20Block.lean — C20 inside a `oneshot()` block, from the property statement:
   "every Process method turns an OS 'no such process' failure into NoSuchProcess (ZombieProcess when the
   PID IS STILL LISTED as a zombie)". "Is still listed" is a fact about the pid when the call fails.
   What the same object was asked earlier, what the pid was then, and whether the calls share a
   `oneshot()` block do not appear in the statement: they change nothing. -/
import PsutilModel.Spec.C20
namespace Psutil.C20.Spec

/-- an earlier call of the block as the specification sees it: that it happened, and what the pid was -/
structure Past where
  state : PidState
  deriving DecidableEq, Repr

/-- outcomes allowed for a failing call preceded by `past` in the same block: exactly the ones allowed for
    that call alone on the pid as it is now -/
def allowedInBlock (p : Platform) (meth : String) (r : Recover) (e : Err) (_past : List Past) (_exited : Bool)
    (env : Env) (o : Outcome) : Bool :=
  allowed p meth r e env o

end Psutil.C20.Spec
