/-
  Spec/C09Hist.lean — what C09 promises over a HISTORY of calls in one process, with the default arguments
  (`nowrap=True`) included. Written from the property statement and the documentation of `nowrap`, with no look
  at `_WrapNumbers`:

  * statement: the per-device form returns "for every interface or block device the kernel lists, exactly the
    kernel's counters"; the system-wide form is "the field-wise sum" over them, "nothing is counted twice";
  * documentation of `nowrap`: "detects and adjust[s] the numbers which overflow and wrap (restart from 0) … so
    that the returned numbers will always be increasing or remain the same, but never decrease";
    `cache_clear()` "can be used to invalidate the cache".

  So an adjustment is licensed only by a counter that WENT BACKWARDS between two calls that both listed the
  device; a device that is not listed by a call is gone for the calls after it (the kernel gives a name that
  comes back to a NEW device, counting from zero: tun0 after a VPN reconnect, a re-plugged sdb), and
  `cache_clear()` forgets everything. Hence, for a call with `nowrap=True`:

      field j of device d must be EXACTLY the kernel's value whenever, along the maximal run of consecutive
      earlier observations that list d (back to the last `cache_clear()` of the function), field j of d never
      decreased                                                                      (`quietAt`)

  Which earlier calls "observe" is fixed conservatively, without knowing how the calls share their memory: the
  claim is made only when the condition holds BOTH over the earlier `nowrap=True` calls of the same form
  (per-device / system-wide: on Linux the system-wide form of `disk_io_counters` lists whole disks only) AND
  over the earlier `nowrap=True` calls of either form of the function. Where the condition fails the property
  makes no claim here (`none`; the value is then C10's subject). The keys, their order, the field names and
  the `{}` / `None` conventions are promised unconditionally. With `nowrap=False` everything is promised
  (`Spec.expectNet` / `Spec.expectDisk`), whatever the history.
-/
import PsutilModel.Spec.C09
namespace Psutil.C09.Spec

/-- what one call lists: the devices with their documented fields, in the order of the file -/
abbrev Obs := List (Bytes × List (String × Nat))

/-- the value of the j-th documented field of a row -/
def valAt (row : List (String × Nat)) (j : Nat) : Nat := (row.getD j ("", 0)).2

/-- `obs` = the earlier observations, most recent first; `cur` = the value of field j of `name` in the
    observation after them: along the maximal run of consecutive observations that list `name`, field j
    never decreased -/
def quietFrom (name : Bytes) (j : Nat) (cur : Nat) : List Obs → Bool
  | [] => true
  | o :: rest =>
    match o.lookup name with
    | none => true                                   -- not listed then: whatever came before is another device
    | some r => decide (valAt r j ≤ cur) && quietFrom name j (valAt r j) rest

/-- the head of the list is the current observation -/
def quietAt (name : Bytes) (j : Nat) : List Obs → Bool
  | [] => true
  | o :: rest =>
    match o.lookup name with
    | none => true
    | some r => quietFrom name j (valAt r j) rest

/-- the observations of the earlier `nowrap=True` calls of ONE function since its last `cache_clear()`,
    most recent first -/
structure Seen where
  /-- of the calls of the same form (`true` = per device) -/
  same : Bool → List Obs
  /-- of the calls of either form -/
  all : List Obs

def Seen.init : Seen := ⟨fun _ => [], []⟩

def Seen.push (s : Seen) (per : Bool) (o : Obs) : Seen :=
  ⟨fun p => if p = per then o :: s.same p else s.same p, o :: s.all⟩

/-- exact value due for field j of `name` in the observation `o` made by a call of form `per` -/
def Seen.due (s : Seen) (per : Bool) (o : Obs) (name : Bytes) (j : Nat) : Bool :=
  quietAt name j (o :: s.same per) && quietAt name j (o :: s.all)

/-- a promise with holes: `some v` = exactly `v` is due, `none` = no claim -/
inductive ExpectH
  | none
  | emptyDict
  | perdev (d : List (Bytes × List (String × Option Nat)))
  | total (t : List (String × Option Nat))

/-- the one-call promise with every value for which `due` / `dueTot` fails taken out -/
def mask (e : Expect) (due : Bytes → Nat → Bool) (dueTot : Nat → Bool) : ExpectH :=
  match e with
  | .none => .none
  | .emptyDict => .emptyDict
  | .perdev d =>
    .perdev (d.map fun kv => (kv.1, kv.2.mapIdx fun j fv => (fv.1, if due kv.1 j then some fv.2 else Option.none)))
  | .total t => .total (t.mapIdx fun j fv => (fv.1, if dueTot j then some fv.2 else Option.none))

/-- everything promised -/
def Expect.full (e : Expect) : ExpectH := mask e (fun _ _ => true) (fun _ => true)

def netObs (ifs : List Iface) : Obs := ifs.map fun i => (i.name, documented8 i)

/-- the per-device form lists every device, the system-wide form whole disks only -/
def diskObs (perdisk : Bool) (devs : List Dev) : Obs :=
  (if perdisk then devs else wholeDisks devs).map fun d => (d.name, documented9 d.stat)

/-- the promise of a `nowrap=True` call: `e` = the one-call promise for what the kernel lists now, `o` = the
    same listing as an observation; field j of the total is due when it is due for every listed device -/
def expectWrap (s : Seen) (per : Bool) (o : Obs) (e : Expect) : ExpectH :=
  mask e (s.due per o) (fun j => o.all fun kv => s.due per o kv.1 j)

/-- one step of a history, kernel side: what the kernel lists at the moment of the call -/
inductive Step
  | net (pernic nowrap : Bool) (h1 h2 : Bytes) (ifs : List Iface)
  | disk (perdisk nowrap : Bool) (devs : List Dev)
  | clearNet
  | clearDisk

structure HState where
  net : Seen
  disk : Seen

def HState.init : HState := ⟨Seen.init, Seen.init⟩

def hstep (h : HState) : Step → HState × ExpectH
  | .net per nowrap _ _ ifs =>
    if nowrap then ({ h with net := h.net.push per (netObs ifs) }, expectWrap h.net per (netObs ifs) (expectNet per ifs))
    else (h, (expectNet per ifs).full)
  | .disk per nowrap devs =>
    if nowrap then
      ({ h with disk := h.disk.push per (diskObs per devs) }, expectWrap h.disk per (diskObs per devs) (expectDisk per devs))
    else (h, (expectDisk per devs).full)
  | .clearNet => ({ h with net := Seen.init }, .none)          -- `cache_clear()` returns None
  | .clearDisk => ({ h with disk := Seen.init }, .none)

/-- the promise for every step of a history that starts in a fresh process -/
def hrun (h : HState) : List Step → List ExpectH
  | [] => []
  | s :: r => (hstep h s).2 :: hrun (hstep h s).1 r

end Psutil.C09.Spec
