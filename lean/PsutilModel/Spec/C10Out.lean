/-
  Spec/C10Out.lean — the property's first clause at the level of what a caller and the kernel see:
  public operations (`FOp`: which function, `nowrap`, per-device or system-wide form, the kernel's
  listing) and nothing of the implementation (no cache slot, no platform-layer filter, no lowering
  to `_WrapNumbers` operations). Only the *types* `Fn`/`Call`/`FOp`/`Listing` of Model/C10Front are
  used. Written from the statement: "for every interface or disk that stays present, each counter
  returned by successive calls is non-decreasing".
-/
import PsutilModel.Model.C10Front
import PsutilModel.Spec.C10
namespace Psutil.C10.Spec
open Psutil.C10

/-- Device `k` *stays present* for function `fn` across the public operation `op`: a `nowrap=True`
    call of `fn` (either form) finds `k` in the kernel's listing; `fn.cache_clear()` and the internal
    `wrap_numbers.cache_clear()` do not happen. Calls of the other function, its `cache_clear()`
    and `nowrap=False` calls are irrelevant. -/
def StaysListed (fn : Fn) (k : Key) : FOp → Prop
  | .call c => c.fn = fn → c.nowrap = true → ∃ e ∈ c.listing, e.1 = k
  | .clear f => f ≠ fn
  | .clearAll => False

/-- what `prevPresent` reads of one public operation, for function `fn` -/
def pastEntry (fn : Fn) : FOp → Option (Option (Bool × Bool × List Key))
  | .call c => if c.fn = fn then some (some (c.nowrap, c.perdev, c.listing.map (·.1))) else none
  | .clear f => if f = fn then some none else none
  | .clearAll => some none

/-- the earlier public operations that concern `fn`, newest first (input of `prevPresent`) -/
def pastOf (fn : Fn) (fh : List FOp) : List (Option (Bool × Bool × List Key)) :=
  fh.reverse.filterMap (pastEntry fn)

end Psutil.C10.Spec
