/-
  Spec/C17Py.lean — what the Python-side wrappers of C17 promise, written from the kernel's formats
  (block/genhd.c `show_partition`: "%4d  %7d %10llu %s\n" after a two-line header; the block device
  uevent "MAJOR=…\nMINOR=…\nDEVNAME=…\nDEVTYPE=…"; /sys/class/block/<name>/dev "M:m\n"),
  ethtool's duplex byte (linux/ethtool.h: DUPLEX_HALF 0, DUPLEX_FULL 1, DUPLEX_UNKNOWN 0xff), psutil's
  documented NicDuplex values (NIC_DUPLEX_FULL 2, NIC_DUPLEX_HALF 1, NIC_DUPLEX_UNKNOWN 0) and the
  documentation of net_if_stats()/net_if_addrs() — not from the algorithm.
-/
import PsutilModel.Model.C17Py
import PsutilModel.Spec.C17
namespace Psutil.C17.Spec
open Psutil.C17

/-! ### the root device: one list of block devices seen through three kernel interfaces -/

structure BlockDev where
  major : Nat
  minor : Nat
  blocks : Nat
  name : Bytes
  deriving DecidableEq, Repr

/-- kernel device names: non-empty, no white space, no '=' -/
structure BlockDev.WF (d : BlockDev) : Prop where
  ne : d.name ≠ []
  nows : NoWs d.name
  noeq : 61 ∉ d.name

/-- `%<w>d`: right-aligned in a field of `w` columns -/
def padL (w : Nat) (s : Bytes) : Bytes := List.replicate (w - s.length) 32 ++ s

/-- one line of /proc/partitions: `"%4d  %7d %10llu %s"` -/
def partLineOf (d : BlockDev) : Bytes :=
  padL 4 (renderDec d.major) ++ [32, 32] ++ padL 7 (renderDec d.minor) ++ [32] ++ padL 10 (renderDec d.blocks)
    ++ [32] ++ d.name

def partHeader : List Bytes := [[109, 97, 106, 111, 114, 32, 109, 105, 110, 111, 114, 32, 32, 35, 98, 108, 111, 99, 107, 115, 32, 32, 110, 97, 109, 101], []]

/-- the lines of /proc/partitions for a list of devices -/
def partLinesOf (ds : List BlockDev) : List Bytes := partHeader ++ ds.map partLineOf

def ueventLinesOf (d : BlockDev) : List Bytes :=
  [[77, 65, 74, 79, 82, 61] ++ renderDec d.major, [77, 73, 78, 79, 82, 61] ++ renderDec d.minor,
   [68, 69, 86, 78, 65, 77, 69, 61] ++ d.name, [68, 69, 86, 84, 89, 80, 69, 61, 100, 105, 115, 107]]

/-- content of /sys/class/block/<name>/dev -/
def classDevOf (d : BlockDev) : Bytes := renderDec d.major ++ [58] ++ renderDec d.minor ++ [10]

def devPath (d : BlockDev) : Bytes := [47, 100, 101, 118, 47] ++ d.name

/-- the device with number (M, m), as the kernel knows it -/
def rootOf (ds : List BlockDev) (M m : Nat) : Option BlockDev := ds.find? (fun d => d.major = M ∧ d.minor = m)

/-- a tree in which the three interfaces show the same devices `ds` (device numbers are unique,
    /sys/class/block is listed in ANY order `cls`) -/
structure Consistent (ds cls : List BlockDev) (s : RootSys) : Prop where
  wf : ∀ d ∈ ds, d.WF
  uniq : ∀ d ∈ ds, ∀ e ∈ ds, d.major = e.major → d.minor = e.minor → d = e
  sameSet : ∀ d, d ∈ cls ↔ d ∈ ds
  parts : ∃ t, s.partitions = some t ∧ linesOf t = partLinesOf ds
  uev : ∀ a b, (∃ t d, s.uevent a b = some t ∧ rootOf ds a b = some d ∧ linesOf t = ueventLinesOf d)
              ∨ (s.uevent a b = none ∧ rootOf ds a b = none)
  cls : s.classDevs = cls.map (fun d => (d.name, some (classDevOf d)))

/-! ### net_if_stats() -/

/-- ethtool's duplex byte → psutil's NicDuplex value -/
def duplexOf (d : Nat) : Option Nat :=
  if d = 1 then some 2 else if d = 0 then some 1 else if d = 255 then some 0 else none

/-- the row of one NIC whose three queries succeed; an ethtool query refused with EOPNOTSUPP (95)
    or EINVAL (22) means "unknown duplex, speed 0" -/
def nicRowOf (mtu fl : Nat) (eth : Except Nat (Nat × Nat × Nat)) : Option NicRow :=
  let names := flagNames (fl % 65536)
  match eth with
  | .ok (d, hi, lo) => (duplexOf d).map fun dv => ⟨fl % 65536 / 64 % 2 == 1, dv, nicSpeed hi lo, mtu, names⟩
  | .error _ => some ⟨fl % 65536 / 64 % 2 == 1, 0, 0, mtu, names⟩

/-- first errno among the three queries (mtu, flags, ethtool — the order psutil asks in), ethtool's
    EOPNOTSUPP/EINVAL not counting as failures -/
def nicFailure (a : NicAns) : Option Nat :=
  match a.mtu with
  | .error c => some c
  | .ok _ => match a.flags with
    | .error c => some c
    | .ok _ => match a.eth with
      | .error c => if c = 95 ∨ c = 22 then none else some c
      | .ok _ => none

/-- the scripted answers a kernel can give: errno values are non-zero, the duplex byte is one of
    the three defined values, the speed halves are 16-bit -/
structure NicAnsWF (a : NicAns) : Prop where
  eth : ∀ d hi lo, a.eth = .ok (d, hi, lo) → (d = 0 ∨ d = 1 ∨ d = 255) ∧ hi < 65536 ∧ lo < 65536

/-- net_if_stats(): NICs that vanished (ENODEV = 19) are left out; any other failure is raised;
    the others are listed in the order of /proc/net/dev -/
def netIfStats : List (Bytes × NicAns) → List (Bytes × NicRow) → StatsOut
  | [], acc => .rows acc.reverse
  | (n, a) :: rest, acc =>
    match nicFailure a with
    | some c => if c = 19 then netIfStats rest acc else .osError c
    | none =>
      match a.mtu, a.flags with
      | .ok mtu, .ok fl =>
        (match nicRowOf mtu fl a.eth with
         | some r => netIfStats rest ((n, r) :: acc)
         | none => .keyError (match a.eth with | .ok (d, _, _) => d | .error _ => 0))
      | _, _ => netIfStats rest acc

/-! ### net_if_addrs(): "a dictionary whose keys are the NIC names and value is a list of namedtuples
    for each address assigned to the NIC"; a MAC address shorter than 6 bytes is completed with
    null bytes (issue #786) -/

/-- a MAC text completed to 6 groups -/
def padTo6 (a : Bytes) : Bytes := a ++ (List.replicate (5 - a.count 58) [58, 48, 48]).flatten

def shownRow (r : AddrRow) : AddrRow :=
  if r.fam = 17 then (match r.addr with | .str a => { r with addr := .str (padTo6 a) } | _ => r) else r

/-- the families present, ascending -/
def famsOf (raw : List AddrRow) : List Int := ((raw.map (·.fam)).mergeSort (fun a b => decide (a ≤ b))).eraseDups

/-- the dictionary (as an association list, key order irrelevant): under each NIC name its rows,
    family by family in ascending order, rows of one family in the kernel's order -/
def netIfAddrs (raw : List AddrRow) : List (Bytes × List AddrRow) :=
  (raw.map (·.name)).eraseDups.map fun n =>
    (n, (famsOf raw).flatMap fun f => ((raw.filter (fun r => r.name = n ∧ r.fam = f)).map shownRow))

end Psutil.C17.Spec
