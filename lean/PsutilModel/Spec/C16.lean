/-
  Spec/C16.lean — what the property promises, written from the property statement and the
  documentation of `oneshot()` / `as_dict()`, not from `memoize_when_activated`.

  The specification keeps, for the current OUTERMOST block only, what the first successful
  read of each block-cached source delivered (`frozenSrc`) and what each of the four
  front-end results documented as cached (`cpu_times`, `memory_info`, `ppid`, `uids`) was when
  first obtained (`frozenFun`). There are no attributes, no dicts, no activation lists, no
  nesting test: a block is a depth counter; leaving the outermost level forgets everything,
  however it is left. Everything else is read from the world at the instant of the call.

  `frozen_stable` / `frozen_from_world` below state that a frozen content is never
  overwritten inside the block and is the world's content at the step that froze it: i.e.
  "the value at the moment the source was FIRST read in that block".
-/
import PsutilModel.Model.C16
namespace Psutil.C16.Spec
open Psutil.C16

/-- the sources the property names as read at most once per block (Linux) -/
def blockCached : Src → Bool
  | .stat | .status | .smaps => true
  | _ => false

structure SSt where
  depth : Nat
  frozenSrc : Src → Option Content
  frozenFun : FFun → Option Val
  reads : Src → Nat

def SSt.init : SSt := ⟨0, fun _ => none, fun _ => none, fun _ => 0⟩

def inBlock (ss : SSt) : Bool := decide (0 < ss.depth)

/-- reading the world now (counted) -/
def fresh (ss : SSt) (w : World) (s : Src) : SSt × Except Exc Content :=
  match w.read s with
  | .ok c => ({ ss with reads := bump ss.reads s }, .ok c)
  | .error e => (ss, .error e)

def readSrc (ss : SSt) (w : World) (s : Src) : SSt × Except Exc Content :=
  if inBlock ss && blockCached s then
    match ss.frozenSrc s with
    | some c => (ss, .ok c)
    | none =>
      match fresh ss w s with
      | (ss', .ok c) =>
        ({ ss' with frozenSrc := fun x => if x = s then some c else ss'.frozenSrc x }, .ok c)
      | (ss', .error e) => (ss', .error e)          -- a failed read freezes nothing
  else fresh ss w s

def readAllS (w : World) : SSt → List Src → SSt × Except Exc Val
  | ss, [] => (ss, .ok [])
  | ss, s :: rest =>
    match readSrc ss w s with
    | (ss1, .ok c) =>
      match readAllS w ss1 rest with
      | (ss2, .ok cs) => (ss2, .ok (c :: cs))
      | (ss2, .error e) => (ss2, .error e)
    | (ss1, .error e) => (ss1, .error e)

/-- the method's own computation: its sources in order; an empty file of a zombie is
    reported as ZombieProcess by the methods that check for it -/
def bodyS (m : Meth) (ss : SSt) (w : World) : SSt × Except Exc Val :=
  match readAllS w ss (m.eff w) with
  | (ss1, .ok cs) =>
    if m.zprobe && cs.head? == some Content.empty && w.st == PState.zombie
    then (ss1, .error .zombieProcess) else (ss1, .ok cs)
  | (ss1, .error e) => (ss1, .error e)

/-- a method that re-validates the process before anything else reports a process that is gone
    NOW (a fresh, truthful NoSuchProcess), otherwise computes -/
def bodyG (m : Meth) (ss : SSt) (w : World) : SSt × Except Exc Val :=
  if m.goneCheck && w.st == PState.gone then (ss, .error .noSuchProcess) else bodyS m ss w

def callS (m : Meth) (ss : SSt) (w : World) : SSt × Except Exc Val :=
  match m.front with
  | none => bodyG m ss w
  | some f =>
    if inBlock ss then
      match ss.frozenFun f with
      | some v => (ss, .ok v)
      | none =>
        match bodyG m ss w with
        | (ss', .ok v) =>
          ({ ss' with frozenFun := fun x => if x = f then some v else ss'.frozenFun x }, .ok v)
        | (ss', .error e) => (ss', .error e)
    else bodyG m ss w

def enterS (ss : SSt) : SSt := { ss with depth := ss.depth + 1 }

/-- leaving a level, normally or by an exception: the outermost one forgets everything -/
def exitS (ss : SSt) : SSt :=
  match ss.depth with
  | 0 => ss
  | 1 => { ss with depth := 0, frozenSrc := fun _ => none, frozenFun := fun _ => none }
  | n + 1 => { ss with depth := n }

/- ------------------------------------------------------------------ as_dict -/

def evalNameS (meths : List Meth) (env : List (String × EnvOut)) (ss : SSt) (w : World) (n : String) :
    SSt × Except Exc DVal :=
  if n == "pid" then (ss, .ok .opaque)
  else match meths.find? (fun m => m.name == n) with
    | some m =>
      match callS m ss w with
      | (ss', .ok v) => (ss', .ok (.val v))
      | (ss', .error e) => (ss', .error e)
    | none => (ss, envOut env n)

/-- AccessDenied / ZombieProcess → ad_value; NoSuchProcess propagates; NotImplementedError is
    skipped unless the name was asked for explicitly -/
def loopS (meths : List Meth) (env : List (String × EnvOut)) (explicit : Bool) (w : World) :
    SSt → List String → List (String × DVal) → SSt × DOut
  | ss, [], acc => (ss, .dict acc.reverse)
  | ss, n :: rest, acc =>
    match evalNameS meths env ss w n with
    | (ss1, .ok v) => loopS meths env explicit w ss1 rest ((n, v) :: acc)
    | (ss1, .error .accessDenied) => loopS meths env explicit w ss1 rest ((n, .adValue) :: acc)
    | (ss1, .error .zombieProcess) => loopS meths env explicit w ss1 rest ((n, .adValue) :: acc)
    | (ss1, .error .notImplemented) =>
      if explicit then (ss1, .raised .notImplemented) else loopS meths env explicit w ss1 rest acc
    | (ss1, .error .noSuchProcess) => (ss1, .raised .noSuchProcess)

def asDictS (meths : List Meth) (valid : List String) (a : AsDictArg) (ss : SSt) (w : World) :
    SSt × DOut :=
  match a.kind with
  | .nonCollection => (ss, .typeError)                       -- before anything is queried
  | k =>
    if k = .names && a.attrs.any (fun n => !valid.contains n) then (ss, .valueError)
    else
      let explicit := k = .names && !a.attrs.isEmpty
      let ls := if explicit then a.attrs else a.allOrder      -- None or empty: every valid name
      let (ss2, out) := loopS meths a.env explicit w (enterS ss) ls []
      (exitS ss2, out)

/- ------------------------------------------------------------------ what the DOCUMENTATION says (no code involved) -/

/-- docs/index.rst, `Process.oneshot()`, column "Linux" of the table "methods which can take advantage of the speedup":
    the rows between two horizontal empty rows "can be efficiently grouped together internally", i.e. share one source.
    First group ≙ /proc/<pid>/stat, second ≙ status, third ≙ smaps (the three records the property names). -/
def docGroups : List (Src × List String) :=
  [(.stat, ["cpu_num", "cpu_percent", "cpu_times", "create_time", "name", "ppid", "status", "terminal"]),
   (.status, ["gids", "num_ctx_switches", "num_threads", "uids", "username"]),
   (.smaps, ["memory_full_info", "memory_maps"])]

/-- the public attributes of `Process` that are NOT "public (read only) attributes" in the sense of as_dict()'s
    documentation: they act on the process (send_signal … kill), block (wait), need or set arguments (rlimit), return
    Process objects / a liveness verdict (parent, parents, children, is_running), are utilities (as_dict, oneshot) or a
    deprecated alias (connections). as_dict() must never call one of them. -/
def notGetters : List String :=
  ["send_signal", "suspend", "resume", "terminate", "kill", "wait", "is_running", "as_dict", "parent", "parents",
   "children", "rlimit", "connections", "oneshot"]

/- ------------------------------------------------------------------ histories -/

def stepS (meths : List Meth) (valid : List String) (ss : SSt) (w : World) : Op → SSt × World × Out
  | .enter => (enterS ss, w, .unit)
  | .exit _ => (exitS ss, w, .unit)
  | .call i =>
    match meths[i]? with
    | none => (ss, w, .badIndex)
    | some m =>
      let (ss', r) := callS m ss w
      (ss', w, .ret r)
  | .asDict a =>
    let (ss', d) := asDictS meths valid a ss w
    (ss', w, .dict d)
  | op => (ss, worldStep w op, .unit)

end Psutil.C16.Spec
