/-
  Spec/C09Listing.lean — `/sys/block` in ANY listing order (second extension round of C09).

  `Spec.renderSysfs` lists the disks in the order of the state, inside a disk directory the partition
  directories before the attribute directories, and `stat` after the other attribute files. The order
  in which `os.listdir` / `os.walk` (`os.scandir`) present directory entries is unspecified: it is
  whatever the file system returns. `SysListing tree disks` says that `tree` presents the kernel state
  `disks` with the entries of every directory — `/sys/block` itself, every disk directory (files;
  partition and attribute sub-directories interleaved at will), every partition directory — in SOME
  order. (The attribute directories themselves are arbitrary trees: a re-ordering inside them is
  just another value of `attrs`.)  Import-free apart from Spec/C09.
-/
import PsutilModel.Spec.C09
namespace Psutil.C09.Spec

/-- `pdirs` present the partitions `parts`, one directory each, each in some order of its entries -/
inductive PartsListing : List SysDir → List SysPart → Prop
  | nil : PartsListing [] []
  | cons (p : SysPart) (fs : List (Bytes × Bytes)) (subs : List SysDir) (pdirs : List SysDir) (ps : List SysPart) :
      fs.Perm (p.others ++ [(statName, renderStat p.s p.ext)]) → subs.Perm p.attrs →
      PartsListing pdirs ps → PartsListing (SysDir.node (sysName p.name) fs subs :: pdirs) (p :: ps)

/-- `dirs` present the disks `disks`, one directory each: the files in some order, partition and
    attribute sub-directories in some (interleaved) order -/
inductive DisksListing : List SysDir → List SysDisk → Prop
  | nil : DisksListing [] []
  | cons (d : SysDisk) (fs : List (Bytes × Bytes)) (subs pdirs : List SysDir) (dirs : List SysDir) (ds : List SysDisk) :
      fs.Perm (d.others ++ [(statName, renderStat d.s d.ext)]) → PartsListing pdirs d.parts →
      subs.Perm (pdirs ++ d.attrs) →
      DisksListing dirs ds → DisksListing (SysDir.node (sysName d.name) fs subs :: dirs) (d :: ds)

/-- `tree` (what `os.listdir('/sys/block')` and the `os.walk`s below it return) presents the kernel
    state `disks` in some listing order at every level -/
def SysListing (tree : List SysDir) (disks : List SysDisk) : Prop :=
  ∃ dirs, DisksListing dirs disks ∧ tree.Perm dirs

/-- two answers that are the same `dict` / named tuple: per-device answers may list the devices in
    another order (a `dict` compares equal regardless of insertion order) -/
def Expect.same : Expect → Expect → Prop
  | .perdev a, .perdev b => a.Perm b
  | .none, .none => True
  | .emptyDict, .emptyDict => True
  | .total a, .total b => a = b
  | _, _ => False

end Psutil.C09.Spec
