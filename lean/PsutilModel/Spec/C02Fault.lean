/-
  Spec/C02Fault.lean — what C02 promises at a moment when reads of `/proc/pid/stat` may fail transiently
  (Model/C02Fault.lean: `FSt.faulty`, an INPUT like the permission answers).  Written from the property's statement:
  "is_running() is True for as long as that very process is still in the process table and False ever after … These
  answers depend only on the process's own lifetime".  A resource shortage of the CALLER is not part of the process's
  lifetime: it may keep psutil from answering (the call leaves with the OS error — "cannot tell right now"), it may
  not change an answer, now or later.  Nothing here looks at `_ident`, `_gone`, `_pid_reused` or at how psutil decides.
-/
import PsutilModel.Spec.C01
import PsutilModel.Model.C02Fault
namespace Psutil.C02.Spec
open Psutil.C01 Psutil.C01.Spec Psutil.C02

/-- the outcome of `is_running()` on object `o`: the truth about the object's own incarnation — or the OS error,
    and that only while reads of the object's own PID fail -/
def RightOrWithheld (F : List Nat) (k : Kernel) (o : PObj) (out : OutF) : Prop :=
  out = .ok (.bool (listedB k o)) ∨ (out = .osError ∧ o.pid ∈ F)

end Psutil.C02.Spec
