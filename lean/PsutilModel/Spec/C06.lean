/-
  Spec/C06.lean — the kernel side of C06, written from proc(5) / fs/proc/array.c, not from
  psutil's parser: what a process *is* (`StatRec`, `StatusRec`), how the kernel prints it
  (`renderStat` = do_task_stat, `renderStatus` = proc_pid_status) and what a psutil user is
  promised for it (`Spec.*`). Import-free (Base only).
-/
import PsutilModel.Base.Bytes
import PsutilModel.Base.Dec
namespace Psutil.C06.Spec

/-- One task as `/proc/<pid>/stat` (or `/proc/<pid>/task/<tid>/stat`) shows it; field names and
    order follow proc(5). `comm` is ANY byte string (the kernel stores up to 15 bytes, no NUL;
    the theorems need no length bound here). Counters are unbounded naturals. -/
structure StatRec where
  pid : Nat
  comm : Bytes
  state : Nat            -- one byte, a letter
  ppid : Nat
  pgrp : Nat
  session : Nat
  ttyNr : Nat
  tpgid : Int            -- -1 when there is no controlling terminal
  flags : Nat
  minflt : Nat
  cminflt : Nat
  majflt : Nat
  cmajflt : Nat
  utime : Nat            -- clock ticks
  stime : Nat
  cutime : Nat
  cstime : Nat
  priority : Int
  nice : Int
  numThreads : Nat
  itrealvalue : Nat
  starttime : Nat        -- clock ticks after boot
  vsize : Nat
  rss : Nat
  rsslim : Nat
  startcode : Nat
  endcode : Nat
  startstack : Nat
  kstkesp : Nat
  kstkeip : Nat
  signal : Nat
  blocked : Nat
  sigignore : Nat
  sigcatch : Nat
  wchan : Nat
  nswap : Nat
  cnswap : Nat
  /-- printed with `%d`: −1 for every thread other than the group leader (a CLONE_THREAD task notifies
      nobody on exit), as seen in the live task/<tid>/stat records -/
  exitSignal : Int
  processor : Nat
  rtPriority : Nat
  policy : Nat
  /-- `delayacct_blkio_ticks` (since Linux 2.6.18) followed by whatever newer kernels append
      (guest_time, cguest_time, start_data … exit_code); `none` = an old kernel whose record
      ends at `policy`. -/
  tail : Option (Nat × List Nat)

def isLetter (c : Nat) : Bool := (65 ≤ c && c ≤ 90) || (97 ≤ c && c ≤ 122)

/-- the state is printed as one letter -/
def StatRec.WF (r : StatRec) : Prop := isLetter r.state = true

/-- the space-separated tokens after `pid (comm) ` -/
def statTokens (r : StatRec) : List Bytes :=
  [[r.state], renderDec r.ppid, renderDec r.pgrp, renderDec r.session, renderDec r.ttyNr,
   renderInt r.tpgid, renderDec r.flags, renderDec r.minflt, renderDec r.cminflt,
   renderDec r.majflt, renderDec r.cmajflt, renderDec r.utime, renderDec r.stime,
   renderDec r.cutime, renderDec r.cstime, renderInt r.priority, renderInt r.nice,
   renderDec r.numThreads, renderDec r.itrealvalue, renderDec r.starttime, renderDec r.vsize,
   renderDec r.rss, renderDec r.rsslim, renderDec r.startcode, renderDec r.endcode,
   renderDec r.startstack, renderDec r.kstkesp, renderDec r.kstkeip, renderDec r.signal,
   renderDec r.blocked, renderDec r.sigignore, renderDec r.sigcatch, renderDec r.wchan,
   renderDec r.nswap, renderDec r.cnswap, renderInt r.exitSignal, renderDec r.processor,
   renderDec r.rtPriority, renderDec r.policy]
  ++ (match r.tail with
      | none => []
      | some (blkio, more) => renderDec blkio :: more.map renderDec)

/-- `pid (comm) S ppid … \n` — the comm is printed raw, between the parentheses -/
def renderStat (r : StatRec) : Bytes :=
  renderDec r.pid ++ [32, 40] ++ r.comm ++ [41, 32] ++ joinWith [32] (statTokens r) ++ [10]

/-! #### what the user is promised for such a record -/

def name (r : StatRec) : Bytes := r.comm
def ppid (r : StatRec) : Int := r.ppid
def cpuNum (r : StatRec) : Int := r.processor
def blkioTicks (r : StatRec) : Nat :=
  match r.tail with
  | some (b, _) => b
  | none => 0

structure CpuTimesV where
  user : Rat
  system : Rat
  childrenUser : Rat
  childrenSystem : Rat
  iowait : Rat
  deriving DecidableEq, Repr

/-- clock ticks divided by the tick rate -/
def cpuTimes (tck : Nat) (r : StatRec) : CpuTimesV :=
  ⟨(r.utime : Rat) / tck, (r.stime : Rat) / tck, (r.cutime : Rat) / tck, (r.cstime : Rat) / tck,
   (blkioTicks r : Rat) / tck⟩

/-- start time offset by boot time -/
def createTime (tck : Nat) (btime : Rat) (r : StatRec) : Rat := btime + (r.starttime : Rat) / tck

/-- tty number mapped to its device path; none when no such device -/
def terminal (tmap : List (Int × Bytes)) (r : StatRec) : Option Bytes := tmap.lookup (r.ttyNr : Int)

/-- The documented state letters (proc(5), fs/proc/array.c task_state_array) and the
    documented psutil constant for each. -/
def documentedStatus : List (Nat × String) :=
  [(82, "running"), (83, "sleeping"), (68, "disk-sleep"), (84, "stopped"), (116, "tracing-stop"),
   (90, "zombie"), (88, "dead"), (120, "dead"), (75, "wake-kill"), (87, "waking"), (73, "idle"),
   (80, "parked")]

/-- state letter → STATUS_* constant; letters outside the documented table give "?" -/
def status (r : StatRec) : String :=
  match documentedStatus.lookup r.state with
  | some s => s
  | none => "?"

structure ThreadV where
  id : Nat
  userTime : Rat
  systemTime : Rat
  deriving DecidableEq, Repr

def threadView (tck : Nat) (r : StatRec) : ThreadV :=
  ⟨r.pid, (r.utime : Rat) / tck, (r.stime : Rat) / tck⟩

/-! ### `/proc/<pid>/status` -/

/-- `Name:` escaping: the kernel escapes ONLY `\n` and `\\` (string_escape_str with
    ESCAPE_SPACE|ESCAPE_SPECIAL restricted to "\n\\"); tabs and every other byte are raw. -/
def escName : Bytes → Bytes
  | [] => []
  | 10 :: cs => 92 :: 110 :: escName cs
  | 92 :: cs => 92 :: 92 :: escName cs
  | c :: cs => c :: escName cs

/-- `key:\tvalue\n` -/
def statusLine (kv : Bytes × Bytes) : Bytes := kv.1 ++ [58, 9] ++ kv.2 ++ [10]

def renderLines (ls : List (Bytes × Bytes)) : Bytes := (ls.map statusLine).flatten

def tabbed (ns : List Nat) : Bytes := joinWith [9] (ns.map renderDec)

/-- A status file. The lines psutil does not read are kept abstract (`pre`, `mid1`, `mid2`,
    `mid3`, `post`: key/value pairs as the running kernel prints them — Umask, State, Tgid, …,
    FDSize, Groups, Vm*, …, Sig*, Cap*, Cpus_allowed, …), so the record covers every kernel
    version's line set. -/
structure StatusRec where
  comm : Bytes
  pre : List (Bytes × Bytes)          -- between Name and Uid
  uid : Nat × Nat × Nat × Nat         -- real, effective, saved, fs
  gid : Nat × Nat × Nat × Nat
  mid1 : List (Bytes × Bytes)         -- between Gid and Threads
  threads : Nat
  mid2 : List (Bytes × Bytes)         -- between Threads and voluntary_ctxt_switches
  vol : Nat
  nonvol : Nat

def keyName : Bytes := [78, 97, 109, 101]                                  -- "Name"
def keyUid : Bytes := [85, 105, 100]                                       -- "Uid"
def keyGid : Bytes := [71, 105, 100]                                       -- "Gid"
def keyThreads : Bytes := [84, 104, 114, 101, 97, 100, 115]                -- "Threads"
/-- "ctxt_switches" -/
def ctxWord : Bytes := [99, 116, 120, 116, 95, 115, 119, 105, 116, 99, 104, 101, 115]
def keyVol : Bytes := [118, 111, 108, 117, 110, 116, 97, 114, 121, 95] ++ ctxWord    -- "voluntary_ctxt_switches"
def keyNonvol : Bytes := [110, 111, 110] ++ keyVol                                   -- "nonvoluntary_ctxt_switches"

def idLine (k : Bytes) (v : Nat × Nat × Nat × Nat) : Bytes × Bytes :=
  (k, tabbed [v.1, v.2.1, v.2.2.1, v.2.2.2])

def statusLines (r : StatusRec) : List (Bytes × Bytes) :=
  [(keyName, escName r.comm)] ++ r.pre ++ [idLine keyUid r.uid, idLine keyGid r.gid] ++ r.mid1
  ++ [(keyThreads, renderDec r.threads)] ++ r.mid2
  ++ [(keyVol, renderDec r.vol), (keyNonvol, renderDec r.nonvol)]

def renderStatus (r : StatusRec) : Bytes := renderLines (statusLines r)

/-- a line psutil does not look for: its key is none of the keys psutil reads, contains no
    `:` or newline; its value contains no newline (the kernel prints one fact per line) -/
def OtherLine (kv : Bytes × Bytes) : Prop :=
  kv.1 ≠ keyUid ∧ kv.1 ≠ keyGid ∧ kv.1 ≠ keyThreads ∧ 58 ∉ kv.1 ∧ 10 ∉ kv.1 ∧ 10 ∉ kv.2

/-- the byte string `ctxt_switches:\t` followed by a digit occurs nowhere in the line
    (true of every line the kernel prints apart from the two ctxt lines themselves) -/
def NoCtxHit (l : Bytes) : Prop :=
  ∀ d, isDigit d = true → ¬ (ctxWord ++ [58, 9, d]) <:+: l

def StatusRec.WF (r : StatusRec) : Prop :=
  (∀ kv ∈ r.pre ++ r.mid1 ++ r.mid2, OtherLine kv)

/-- extra side condition for the unanchored `ctxt_switches` pattern -/
def StatusRec.WFCtx (r : StatusRec) : Prop :=
  r.comm.length ≤ 15 ∧ (∀ kv ∈ r.pre ++ r.mid1 ++ r.mid2, NoCtxHit (kv.1 ++ [58, 9] ++ kv.2))

def uids (r : StatusRec) : Nat × Nat × Nat := (r.uid.1, r.uid.2.1, r.uid.2.2.1)
def gids (r : StatusRec) : Nat × Nat × Nat := (r.gid.1, r.gid.2.1, r.gid.2.2.1)
def numThreads (r : StatusRec) : Nat := r.threads
def numCtxSwitches (r : StatusRec) : Nat × Nat := (r.vol, r.nonvol)

end Psutil.C06.Spec
