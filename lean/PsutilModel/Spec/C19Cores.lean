/-
  Spec/C19Cores.lean — what `cpu_count(logical=False)` promises, written from the kernel's
  documentation of the CPU topology files (Documentation/admin-guide/cputopology.rst):

    /sys/devices/system/cpu/cpuX/topology/core_cpus_list
        "human-readable list of CPUs within the same core" (deprecated name: thread_siblings_list)

  Two logical CPUs are in the same physical core iff they show the same list, so the number of
  physical cores is the number of DISTINCT lists. The kernel prints such a list with the bitmap
  format `%*pbl` (lib/vsprintf.c bitmap_list_string): ascending ranges `a-b` / single numbers
  joined by commas, then a newline.
  When the kernel has no topology directory the packages of /proc/cpuinfo are used: the sum, over
  the distinct `physical id`s, of that package's `cpu cores` (`Spec.coresOf`).
  No loops over Python state, no sets, no exceptions.
-/
import PsutilModel.Spec.C19
namespace Psutil.C19.Spec
open Psutil.C19

/-- number of distinct elements of a list: an element is counted at its LAST occurrence -/
def distinctCount {α : Type} [DecidableEq α] : List α → Nat
  | [] => 0
  | x :: xs => if x ∈ xs then distinctCount xs else distinctCount xs + 1

/-- the topology files consulted: `core_cpus_list` of every CPU directory when the kernel has that
    name at all, else the deprecated `thread_siblings_list` -/
def topologyFiles (t : CountTree) : List FileState :=
  if t.coreCpus.isEmpty then t.siblings else t.coreCpus

/-- physical cores. Outer `none`: the property is silent (a listed topology file cannot be read).
    `blocks` = the processor blocks of /proc/cpuinfo (only looked at when there is no topology file) -/
def countCores (t : CountTree) (blocks : List CpuBlock) : Option (Option Int) :=
  if (topologyFiles t).all (fun f => f.readOpt.isSome) then
    let d := distinctCount ((topologyFiles t).map fileText)
    if d ≠ 0 then some (countOut d) else some (countOut (coresOf blocks))
  else none

/-! ### kernel side -/

/-- maximal runs of consecutive numbers, as (first, last) -/
def runs : List Nat → List (Nat × Nat)
  | [] => []
  | a :: rest =>
    match runs rest with
    | (b, e) :: rs => if b = a + 1 then (a, e) :: rs else (a, a) :: (b, e) :: rs
    | [] => [(a, a)]

def renderRun (r : Nat × Nat) : Bytes :=
  if r.1 = r.2 then renderDec r.1 else renderDec r.1 ++ [45] ++ renderDec r.2

/-- `%*pbl` of the bitmap whose set bits are `s` (ascending): `0-3,8,10-11` -/
def cpuList (s : List Nat) : Bytes := joinWith [44] ((runs s).map renderRun)

/-- the CPUs of core `c` when logical CPU `j` belongs to core `coreOf[j]` -/
def coreSiblings (coreOf : List Nat) (c : Nat) : List Nat :=
  (List.range coreOf.length).filter fun j => coreOf[j]? == some c

/-- the `core_cpus_list` (or `thread_siblings_list`) files of CPUs 0 … n-1 for an arbitrary
    assignment of logical CPUs to cores, in the textual format `fmt` of a CPU set -/
def kernelTopology (fmt : List Nat → Bytes) (coreOf : List Nat) : List FileState :=
  coreOf.map fun c => .content (fmt (coreSiblings coreOf c) ++ [10])

end Psutil.C19.Spec
