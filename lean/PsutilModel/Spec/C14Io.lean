/-
  Spec/C14Io.lean — what `io_counters()` promises on EVERY content of `/proc/<pid>/io`
  (the quantifier of C14 says "every /proc/<pid>/io content"), written from the format, not from
  the algorithm:

  * the file is a sequence of lines separated by `\n`;
  * a *counter line* is, blanks around it removed, `NAME ": " NUMBER` with exactly ONE separator
    `": "`, NUMBER being an integer literal as Python reads it (`pyIntZ`, the shared CPython
    primitive: blanks, optional sign, digits with single `_` between digits);
  * every other line — blank, no separator, several separators, a value that is not a number —
    is an extra line and must be tolerated, i.e. ignored;
  * the six documented counters are reported; when a name occurs on several counter lines the
    LAST one counts (the kernel never prints that; characterisation of the code);
  * no counter line at all → RuntimeError ("file was empty"), one of the six missing → ValueError.

  Names are compared byte for byte: `syscr ` (trailing blank before the colon), `Syscr`, `syscr:`
  are OTHER names, i.e. extra lines next to the kernel's own.
-/
import PsutilModel.Spec.C14
import PsutilModel.Model.C14Io
namespace Psutil.C14.Spec
open Psutil.C14

/-- the text before and after the FIRST occurrence of `": "` -/
def cutSep : Bytes → Option (Bytes × Bytes)
  | [] => none
  | c :: cs =>
    if sepText.isPrefixOf (c :: cs) then some ([], cs.drop 1)
    else (cutSep cs).map fun p => (c :: p.1, p.2)

/-- the `(NAME, NUMBER)` of a counter line; `none` for every other line -/
def counterOf (line : Bytes) : Option (Bytes × Int) :=
  match cutSep (stripWs line) with
  | none => none
  | some (name, rest) =>
    if (cutSep rest).isSome then none else (pyIntZ rest).map fun v => (name, v)

/-- the counter lines of a file, in file order -/
def contentKvs (content : Bytes) : List (Bytes × Int) := (splitOn 10 content).filterMap counterOf

/-- the value on the LAST counter line called `k` -/
def lastValue (k : Bytes) : List (Bytes × Int) → Option Int
  | [] => none
  | (n, v) :: rest =>
    match lastValue k rest with
    | some w => some w
    | none => if k == n then some v else none

def pickLast (m : List (Bytes × Int)) : List Bytes → Option (List Int)
  | [] => some []
  | k :: ks =>
    match lastValue k m, pickLast m ks with
    | some v, some vs => some (v :: vs)
    | _, _ => none

/-- the promised answer for an arbitrary file content -/
def expectedIoContent (content : Bytes) : Outcome (List Int) :=
  if (contentKvs content).isEmpty then .exc .runtimeError
  else match pickLast (contentKvs content) documentedKeys with
    | some vs => .ok vs
    | none => .exc .valueError

/-- a file made of the given lines, each terminated by `\n` -/
def fileOf : List Bytes → Bytes
  | [] => []
  | l :: ls => l ++ 10 :: fileOf ls

end Psutil.C14.Spec
