/-
  Spec/C06Hist.lean — what C06 promises over a HISTORY of calls on ONE `Process` object while the kernel
  keeps publishing new records for the process. Written from the property statement ("report exactly what
  the kernel publishes") and from the documentation of `Process.oneshot()` ("the internal routine is
  executed once … the other info are cached. The cache is cleared when exiting the context manager
  block."), not from the caching code:

  * a getter called OUTSIDE every `oneshot()` block reports the record the kernel publishes at the
    moment of the call — whatever happened on the object before (blocks entered, left normally,
    left by an exception, nested, …);
  * a getter called INSIDE a block reports some record that the kernel published while the (outermost)
    block was open: the one current when the block was entered or a later one.

  Import-free apart from Spec/C06.lean (records, views) and the event vocabulary.
-/
import PsutilModel.Spec.C06
import PsutilModel.Model.C06Api
namespace Psutil.C06.Spec
open Psutil.C06

/-- what the kernel publishes for one process at one moment -/
structure ProcRec where
  stat : StatRec
  status : StatusRec

def ProcRec.WF (r : ProcRec) : Prop := r.stat.WF ∧ r.status.WF ∧ r.status.WFCtx

/-- the promised value of a getter (a sum over the result types) -/
inductive OutV
  | bytes (b : Bytes)
  | int (i : Int)
  | str (s : String)
  | cpu (c : CpuTimesV)
  | obytes (o : Option Bytes)
  | ids (t : Nat × Nat × Nat)
  | nat (n : Nat)
  | pair (p : Nat × Nat)
  deriving DecidableEq, Repr

/-- the machine around the process: tick rate, tty number → device path -/
structure HEnv where
  tck : Nat
  tmap : List (Int × Bytes)

/-- the promised value of each getter for a record -/
def viewV (e : HEnv) : Getter → ProcRec → OutV
  | .name, r => .bytes (name r.stat)
  | .ppid, r => .int (ppid r.stat)
  | .status, r => .str (status r.stat)
  | .cpuTimes, r => .cpu (cpuTimes e.tck r.stat)
  | .cpuNum, r => .int (cpuNum r.stat)
  | .terminal, r => .obytes (terminal e.tmap r.stat)
  | .uids, r => .ids (uids r.status)
  | .gids, r => .ids (gids r.status)
  | .numThreads, r => .nat (numThreads r.status)
  | .numCtxSwitches, r => .pair (numCtxSwitches r.status)

/-- where a history stands: the record published now, and — inside a block — the nesting depth below the
    outermost block together with every record published since that block was entered (newest first) -/
structure SpecSt (W : Type) where
  cur : W
  blk : Option (Nat × List W)

def specStep {W : Type} (st : SpecSt W) : Ev W → SpecSt W
  | .publish w => ⟨w, st.blk.map fun b => (b.1, w :: b.2)⟩
  | .get _ => st
  | .enter =>
    match st.blk with
    | none => ⟨st.cur, some (0, [st.cur])⟩
    | some (d, ws) => ⟨st.cur, some (d + 1, ws)⟩
  | .leave _ =>
    -- HOWEVER the block is left: normally or by an exception
    match st.blk with
    | none => st
    | some (0, _) => ⟨st.cur, none⟩
    | some (d + 1, ws) => ⟨st.cur, some (d, ws)⟩

/-- the records a getter called now may report: outside a block ONLY the current one -/
def candidates {W : Type} (st : SpecSt W) : List W :=
  match st.blk with
  | none => [st.cur]
  | some (_, ws) => ws

/-- `obs` (one observation per `get` event, in order) is what the property allows for the history;
    `view g w o` = "`o` is the exact report of getter `g` for `w`" -/
def Conforms {W O : Type} (view : Getter → W → O → Prop) : SpecSt W → List (Ev W) → List O → Prop
  | _, [], obs => obs = []
  | st, .get g :: evs, obs =>
    match obs with
    | [] => False
    | o :: rest => (∃ w ∈ candidates st, view g w o) ∧ Conforms view st evs rest
  | st, .publish w :: evs, obs => Conforms view (specStep st (.publish w)) evs obs
  | st, .enter :: evs, obs => Conforms view (specStep st .enter) evs obs
  | st, .leave x :: evs, obs => Conforms view (specStep st (.leave x)) evs obs

/-- the acceptable reports per `get` event (executable form of `Conforms`, used by the driver) -/
def allowed {W V : Type} (view : Getter → W → V) : SpecSt W → List (Ev W) → List (List V)
  | _, [] => []
  | st, .get g :: evs => (candidates st).map (view g) :: allowed view st evs
  | st, .publish w :: evs => allowed view (specStep st (.publish w)) evs
  | st, .enter :: evs => allowed view (specStep st .enter) evs
  | st, .leave x :: evs => allowed view (specStep st (.leave x)) evs

/-- every record published during the history -/
def published {W : Type} : List (Ev W) → List W
  | [] => []
  | .publish w :: evs => w :: published evs
  | _ :: evs => published evs

end Psutil.C06.Spec
