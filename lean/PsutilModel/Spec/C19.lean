/-
  Spec/C19.lean — what C19 promises, written from the property statement and the kernel's
  documented sysfs/procfs formats (hwmon ABI: millidegrees; thermal ABI: trip_point_N_type/_temp
  in millidegrees; power_supply ABI: µWh/µAh/µW/µA, capacity in percent, minutes to empty;
  cpufreq: kHz; /proc/stat, /proc/cpuinfo line formats). No loops over Python state, no
  exceptions: every function is a declarative view of the tree; `none` on the outside means
  "the property says nothing about this tree" (e.g. garbage in a battery file).
  Uses the tree vocabulary of Model/C19.lean (FileState, Sensor, Chip, … and the Python number
  syntax), not its algorithms.
-/
import PsutilModel.Model.C19
namespace Psutil.C19.Spec
open Psutil.C19

/-! ### kernel side: how the numbers get into the files -/

/-- `%d\n` -/
def kernelInt (i : Int) : Bytes := renderInt i ++ [10]

/-- stripped text of a file ('' when it cannot be read) -/
def fileText (f : FileState) : Bytes := stripWs ((f.readOpt).getD [])

/-- the number a readable, numeric file holds -/
def fileNum (f : FileState) : Option Rat := (f.readOpt).bind pyFloat?

/-- integer a readable file holds: `none` = not readable, `some none` = readable, not an integer -/
def fileInt (f : FileState) : Option (Option Int) := (f.readOpt).map pyInt?

/-- millidegrees → degrees, kHz → MHz -/
def perMille (q : Rat) : Rat := q / 1000

/-! ### temperatures -/

/-- a threshold: outer `none` = the property does not determine it -/
abbrev Thresh := Option (Option Rat)

structure Row where
  unit : Bytes
  label : Bytes
  current : Rat
  high : Thresh
  crit : Thresh
  deriving DecidableEq, Repr

/-- a hwmon sensor is reported iff its reading and the chip name can be read and the reading is
    a number; thresholds are reported when they are numbers -/
def hwmonRow (c : Chip) (s : Sensor) : Option Row :=
  match fileNum s.input, c.name.readOpt with
  | some v, some nm =>
    some { unit := stripWs nm, label := fileText s.label, current := perMille v
           high := some ((fileNum s.max).map perMille), crit := some ((fileNum s.crit).map perMille) }
  | _, _ => none

/-- the sensors the kernel lists (any `tempN_*` file exists), in either nesting -/
def hwmonSensors (chips : List Chip) : List (Chip × Sensor) :=
  chips.flatMap fun c => (c.temps.filter (·.listed)).map fun s => (c, s)

/-- trip points of one type (`high` / `critical`) -/
def tripsOfType (kind : Bytes) (trips : List Trip) : List Trip :=
  trips.filter fun t => t.listed && (fileText t.typ == kind)

/-- threshold of a zone = the temperature of THE trip point of that type (whatever the order in
    which the trip points are visited); with two such trip points the property is silent -/
def zoneThresh (kind : Bytes) (trips : List Trip) : Thresh :=
  match tripsOfType kind trips with
  | [] => some none
  | [t] => some ((fileNum t.temp).map perMille)
  | _ => none

def zoneRow (z : Zone) : Option Row :=
  match fileNum z.temp, z.typ.readOpt with
  | some v, some nm =>
    some { unit := stripWs nm, label := [], current := perMille v
           high := zoneThresh bHigh z.trips, crit := zoneThresh bCritical z.trips }
  | _, _ => none

/-- hwmon rows; thermal zones only when hwmon lists no temperature file at all.
    Says nothing about `/sys/devices/platform/coretemp.*` (`TempTree.coretempFiles`): the theorems
    that use this view assume that glob empty; what the code does with it is a characterisation
    (`C19_coretemp_as_found`), not a promise -/
def temperatures (t : TempTree) : List Row :=
  if (hwmonSensors t.chips).isEmpty then t.zones.filterMap zoneRow
  else (hwmonSensors t.chips).filterMap fun cs => hwmonRow cs.1 cs.2

def toFahrenheit (q : Rat) : Rat := q * 9 / 5 + 32

/-- front end: optional Fahrenheit on all three numbers; a MISSING threshold is filled from the other -/
def frontRow (fahrenheit : Bool) (r : Row) : Row :=
  let cv : Rat → Rat := if fahrenheit then toFahrenheit else id
  match r.high, r.crit with
  | some h, some c =>
    let h' := h.map cv
    let c' := c.map cv
    { r with current := cv r.current
             high := some (match h' with | some x => some x | none => c')
             crit := some (match c' with | some x => some x | none => h') }
  | _, _ => { r with current := cv r.current, high := none, crit := none }

def temperaturesFront (fahrenheit : Bool) (t : TempTree) : List Row :=
  (temperatures t).map (frontRow fahrenheit)

/-! ### fans -/

/-- one fan: `some none` = skipped (reading missing / unreadable), `some (some r)` = reported as `r`,
    `none` = the property is silent about THIS fan: a readable non-integer reading, or a readable
    reading under an unreadable chip name (the property only promises that a missing READING is
    skipped) -/
def fanRow (c : Chip) (f : Fan) : Option (Option FanOut) :=
  match fileInt f.input with
  | none => some none
  | some none => none
  | some (some rpm) =>
    match c.name.readOpt with
    | none => none
    | some nm => some (some { unit := stripWs nm, label := fileText f.label, current := rpm })

def allSome : List (Option α) → Option (List α)
  | [] => some []
  | none :: _ => none
  | some a :: rest => (allSome rest).map (a :: ·)

/-- the fans the kernel lists at the level that is consulted: the `hwmonN` directories themselves;
    the `hwmonN/device` level only when no direct fan file exists at all -/
def fanListed (chips : List Chip) : List (Chip × Fan) :=
  let of (nested : Bool) : List (Chip × Fan) :=
    (chips.filter (fun c => c.nested == nested)).flatMap fun c => (c.fans.filter (·.listed)).map fun f => (c, f)
  if (of false).isEmpty then of true else of false

/-- the whole call, when the property determines EVERY listed fan (else silent) -/
def fans (chips : List Chip) : Option (List FanOut) :=
  (allSome ((fanListed chips).map fun cf => fanRow cf.1 cf.2)).map (·.filterMap id)

/-- per fan: the rows of the fans the property determines (the others left out) -/
def fanRowsDetermined (chips : List Chip) : List FanOut :=
  (fanListed chips).filterMap fun cf => (fanRow cf.1 cf.2).join

/-! ### battery -/

def bBAT : Bytes := [66, 65, 84]
def bBattery : Bytes := [98, 97, 116, 116, 101, 114, 121]

def isBatteryName (n : Bytes) : Bool := bBAT.isPrefixOf n || isInfix bBattery (lower n)

/-- first readable of two alternative files as an integer -/
def altInt (a b : FileState) : Option (Option Int) :=
  match fileInt a with
  | some v => some v
  | none => fileInt b

/-- "first" battery: the one whose name is the lexicographic minimum -/
def firstBattery (ss : List Supply) : Option Supply :=
  let bats := ss.filter fun s => isBatteryName s.name
  bats.find? fun b => bats.all fun b' => lexLe b.name b'.name

/-- the supply called `n`, if any -/
def supplyNamed (ss : List Supply) (n : Bytes) : Option Supply := ss.find? (fun s => s.name == n)

/-- the `online` file of the supply called `n` (absent when there is no such supply) -/
def onlineOf (ss : List Supply) (n : Bytes) : FileState := ((supplyNamed ss n).map (·.online)).getD .absent

def acOnline (ss : List Supply) : Option (Option Int) :=
  let onl (n : Bytes) : FileState := match ss.find? (fun s => s.name == n) with | some s => s.online | none => .absent
  altInt (onl bAC0) (onl bAC)

/-- mains adapter `online` file when there is one (`1` = plugged), else the battery's status text.
    (A readable adapter file that holds no integer: `battery` below is SILENT on such a tree; the
    branch here only records what the code does then — `b'yes' == 1` is False —, see `C19_plugged`.) -/
def pluggedOf (ss : List Supply) (b : Supply) : Option Bool :=
  match acOnline ss with
  | some (some v) => some (v == 1)
  | some none => some false                     -- characterisation only, not reachable from `battery`
  | none =>
    let st := lower (fileText b.status)
    if st = bDischarging then some false
    else if st = bCharging ∨ st = bFull then some true
    else none

def secsleftOf (plugged : Option Bool) (now power tte : Option Int) : Int :=
  if plugged = some true then -2                                    -- POWER_TIME_UNLIMITED
  else match now, power with
    | some n, some p => if p = 0 then -1 else truncRat ((n : Rat) / (p : Rat) * 3600)
    | _, _ =>
      match tte with
      | some m => if m * 60 < 0 then -1 else m * 60
      | none => -1                                                  -- POWER_TIME_UNKNOWN

/-- the `capacity` file: percent; absent/unreadable or `-1` = no answer; garbage = silent -/
def capacityPercent (f : FileState) : Option (Option Rat) :=
  match fileInt f with
  | none => some none
  | some none => none
  | some (some c) => if c = -1 then some none else some (some (c : Rat))

/-- percent = now/full·100 (0 when full = 0); the `capacity` file when either is not there -/
def percentOf (now full : Option Int) (capacity : FileState) : Option (Option Rat) :=
  match now, full with
  | some n, some f => some (some (if f = 0 then 0 else 100 * (n : Rat) / (f : Rat)))
  | _, _ => capacityPercent capacity

/-- outer `none`: silent (a consulted file holds no integer). A kernel without the power_supply
    class (no `/sys/class/power_supply` at all) exposes no battery: `None`, as the statement says. -/
def battery (p : PowerTree) : Option (Option BatOut) :=
  if !p.dirExists then some none
  else match firstBattery p.supplies with
    | none => some none
    | some b =>
      let now := altInt b.energyNow b.chargeNow
      let power := altInt b.powerNow b.currentNow
      let full := altInt b.energyFull b.chargeFull
      let tte := fileInt b.timeToEmpty
      if now = some none ∨ power = some none ∨ full = some none ∨ tte = some none then none
      else
        match percentOf now.join full.join b.capacity with
        | none => none
        | some none => some none
        | some (some pc) =>
          if acOnline p.supplies = some none then none      -- adapter file readable, not an integer: silent
          else
          let pl := pluggedOf p.supplies b
          some (some { percent := pc, secsleft := secsleftOf pl now.join power.join tte.join, plugged := pl })

/-! ### cpu_freq -/

def mean (l : List Rat) : Rat := l.sum / (l.length : Rat)

/-- `percpu=False`: None for no CPU, the entry for one, the column means otherwise -/
def freqFront (percpu : Bool) (l : List Freq) : FreqOut :=
  if percpu then .list l
  else if l.length = 0 then .none
  else .one ⟨mean (l.map (·.current)), mean (l.map (·.min)), mean (l.map (·.max))⟩

/-- current frequency of one policy in MHz: the /proc/cpuinfo value when given (kernel prints
    three decimals), else `scaling_cur_freq`, else `cpuinfo_cur_freq` (kHz);
    `none` = no source at all, `some none` = the property is silent (garbage) -/
def curOf (p : Policy) (info : Option Rat) : Option (Option Rat) :=
  match info with
  | some mhz => if (mhz * 1000).den = 1 then some (some mhz) else some none
  | none =>
    match fileInt p.scalingCur with
    | some v => some (v.map fun k => perMille (k : Rat))
    | none => (fileInt p.cpuinfoCur).map fun v => v.map fun k => perMille (k : Rat)

/-- one policy: kHz files → MHz; an offline CPU without any source gives zeros -/
def policyRow (p : Policy) (info : Option Rat) (offline : Bool) : Option Freq :=
  match curOf p info with
  | none => if offline then some ⟨0, 0, 0⟩ else none
  | some none => none
  | some (some c) =>
    match fileInt p.scalingMin, fileInt p.scalingMax with
    | some (some mn), some (some mx) => some ⟨c, perMille (mn : Rat), perMille (mx : Rat)⟩
    | _, _ => none

def offline (online : List (Nat × FileState)) (i : Nat) : Bool :=
  match online.lookup i with
  | some (.content b) => b == bZeroNl
  | _ => false

/-- one policy at position `i` of the numerically sorted list. Which `cpuN/online` file tells that
    the CPU(s) of a policy WITHOUT any frequency file are offline is not fixed by the property: the
    specification takes the CPU the directory is numbered after (`p.n`) and is SILENT when the
    position `i` differs from it (psutil probes `cpu{i}/online`; on a gap-free numbering both agree) -/
def policyRowAt (online : List (Nat × FileState)) (i : Nat) (p : Policy) (info : Option Rat) : Option Freq :=
  if (curOf p info).isNone && i != p.n then none else policyRow p info (offline online p.n)

/-! ### /proc/stat and /proc/cpuinfo as the kernel prints them -/

def unlines (ls : List Bytes) : Bytes := ls.flatMap (· ++ [10])

def sp : Bytes := [32]

def statLine (key : Bytes) (nums : List Nat) : Bytes := joinWith sp (key :: nums.map renderDec)

structure StatRec where
  /-- aggregate `cpu` row and the per-CPU rows -/
  cpuTotal : List Nat
  cpus : List (List Nat)
  /-- `intr <total> <per-irq…>`, `softirq <total> <per-kind…>` -/
  intr : Nat
  intrRest : List Nat
  ctxt : Nat
  btime : Nat
  processes : Nat
  softirq : Nat
  softirqRest : List Nat
  deriving Repr

def cpuName (i : Nat) : Bytes := kCpu ++ renderDec i

def cpuLines (cpus : List (List Nat)) : List Bytes :=
  (List.range cpus.length).zip cpus |>.map fun ic => statLine (cpuName ic.1) ic.2

/-- fs/proc/stat.c: show_stat() -/
def statLines (r : StatRec) : List Bytes :=
  [kCpu ++ [32, 32] ++ joinWith sp (r.cpuTotal.map renderDec)]     -- "cpu  u n s …" (two blanks)
  ++ cpuLines r.cpus
  ++ [statLine kIntr (r.intr :: r.intrRest),
      statLine kCtxt [r.ctxt],
      statLine kBtime [r.btime],
      statLine (([112, 114, 111, 99, 101, 115, 115, 101, 115] : Bytes)) [r.processes],
      statLine kSoftirq (r.softirq :: r.softirqRest)]

def renderStat (r : StatRec) : Bytes := unlines (statLines r)

structure CpuBlock where
  processor : Nat
  /-- `cpu MHz : %u.%03u` -/
  mhzInt : Nat
  mhzMilli : Nat
  physicalId : Nat
  cores : Nat
  deriving Repr

def tabColon : Bytes := [9, 58, 32]

def pad3 (n : Nat) : Bytes := [48 + n / 100 % 10, 48 + n / 10 % 10, 48 + n % 10]

/-- arch/x86/kernel/cpu/proc.c: show_cpuinfo() (the fields psutil looks at, and two it must ignore) -/
def blockLines (b : CpuBlock) : List Bytes :=
  [([112, 114, 111, 99, 101, 115, 115, 111, 114] : Bytes) ++ tabColon ++ renderDec b.processor,
   ([109, 111, 100, 101, 108, 32, 110, 97, 109, 101] : Bytes) ++ tabColon ++ ([70, 97, 107, 101, 32, 67, 80, 85, 32, 64, 32, 50, 46, 52, 48, 71, 72, 122] : Bytes),
   ([99, 112, 117, 32, 77, 72, 122] : Bytes) ++ [9] ++ tabColon ++ renderDec b.mhzInt ++ [46] ++ pad3 b.mhzMilli,
   ([112, 104, 121, 115, 105, 99, 97, 108, 32, 105, 100] : Bytes) ++ tabColon ++ renderDec b.physicalId,
   ([99, 112, 117, 32, 99, 111, 114, 101, 115] : Bytes) ++ tabColon ++ renderDec b.cores,
   []]

def renderCpuinfo (bs : List CpuBlock) : Bytes := unlines (bs.flatMap blockLines)

def blockMhz (b : CpuBlock) : Rat := (b.mhzInt : Rat) + (b.mhzMilli : Rat) / 1000

/-- cores = Σ over packages (distinct physical ids) of `cpu cores` (last block of a package wins) -/
def coresOf (bs : List CpuBlock) : Int :=
  let ids := (bs.map (·.physicalId)).eraseDups
  (ids.map fun i => match (bs.filter (·.physicalId == i)).getLast? with
                    | some b => (b.cores : Int) | none => 0).foldl (· + ·) 0

/-- `None` when the count is not at least 1 -/
def countOut (n : Int) : Option Int := if n < 1 then none else some n

/-- logical CPUs: sysconf, else the `processor` blocks of cpuinfo, else the `cpuN` rows of /proc/stat -/
def countLogical (sysconf : Option Int) (blocks : List CpuBlock) (r : StatRec) : Option Int :=
  match sysconf with
  | some n => countOut n
  | none => if blocks.length ≠ 0 then countOut blocks.length else countOut r.cpus.length

/-- `_pslinux.cpu_freq()` list; policies in numeric order; silent when a needed file is missing -/
def freqList (variant : Bool) (blocks : List CpuBlock) (t : FreqTree) : Option (List Freq) :=
  let infos := blocks.map blockMhz
  if !variant then some (infos.map fun q => ⟨q, 0, 0⟩)
  else
    let paths := sortByN (if t.policies.isEmpty then t.perCpu else t.policies)
    allSome (((List.range paths.length).zip paths).map fun ip =>
      policyRowAt t.online ip.1 ip.2 (if paths.length = infos.length then infos[ip.1]? else none))

end Psutil.C19.Spec
