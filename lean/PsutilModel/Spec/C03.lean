/-
  Spec/C03.lean — what C03 promises, written from the property statement:

    "the call either returns a well-formed value or raises NoSuchProcess (gone), ZombieProcess
     or AccessDenied, carrying the object's pid. It never leaks a bare OSError nor a parsing
     error, and once the process is gone every later query raises NoSuchProcess."

  and the property's quantifier: the fault plans. Nothing here looks at how psutil is written;
  only the outcome type and the shape of a fault plan (`Ctx.ws`, `Ctx.deny`) are shared.
-/
import PsutilModel.Model.C03
namespace Psutil.C03.Spec

/-- a value (ANY value: the clause "well-formed" is `OKV` below), or one of the three psutil errors carrying the object's pid -/
def OK (pid : Nat) : Except PyExc α → Prop
  | .ok _ => True
  | .error (.nsp p) => p = pid
  | .error (.zombie p) => p = pid
  | .error (.ad p) => p = pid
  | .error _ => False

instance (pid : Nat) (o : Except PyExc α) : Decidable (OK pid o) := by
  unfold OK; split <;> infer_instance

/-! ### "returns a WELL-FORMED value" — the documented result of each query (docs/index.rst, Linux)

    `Val` is the shape of a returned object; `Val.exc e` = an exception INSTANCE handed back as the return value,
    `Val.other` = an object of any other type. Neither is the documented result of any query, whatever the name. -/

/-- the documented result shape of the query `nm` (anything else, and any unknown name: not well-formed) -/
def WellFormedB (nm : String) (v : Val) : Bool :=
  match v with
  | .exc _ => false          -- never: a call reports an error by RAISING it
  | .other => false
  | .int => ["pid", "ppid", "nice", "num_fds", "cpu_num", "num_threads"].contains nm
  | .float => ["create_time", "cpu_percent", "memory_percent"].contains nm
  | .str => ["name", "exe", "status", "username", "cwd", "terminal"].contains nm
  | .estr => ["name", "exe", "cwd"].contains nm        -- "May also be an empty string"
  | .none => ["terminal", "parent"].contains nm         -- "… or None"
  | .bool _ => nm == "is_running"
  | .dict => nm == "environ"
  | .tuple n =>
      (nm == "uids" && n == 3) || (nm == "gids" && n == 3) || (nm == "io_counters" && n == 6) ||
      (nm == "ionice" && n == 2) || (nm == "num_ctx_switches" && n == 2) || (nm == "cpu_times" && n == 5) ||
      (nm == "memory_info" && n == 7) || (nm == "memory_full_info" && n == 10) || (nm == "rlimit" && n == 2)
  | .list _ => ["cmdline", "cpu_affinity", "threads", "memory_maps", "memory_maps_flat", "open_files", "net_connections",
                "connections"].contains nm
  | .proc _ => nm == "parent"
  | .procs _ => ["children", "children_recursive", "parents"].contains nm
  -- as_dict / process_iter: every stored value is the getter's value or ad_value; none may be an exception object
  | .asdict _ _ bad => ["as_dict", "as_dict_all"].contains nm && bad.isEmpty
  | .iter l => nm == "process_iter" && l.all (fun x => x.2.2.2.isEmpty)

def WellFormed (nm : String) (v : Val) : Prop := WellFormedB nm v = true

instance (nm : String) (v : Val) : Decidable (WellFormed nm v) := by unfold WellFormed; infer_instance

/-- the property for the call `nm` with the VALUE clause: a well-formed value of `nm`, or one of the three psutil
    errors carrying the object's pid -/
def OKV (pid : Nat) (nm : String) : Except PyExc Val → Prop
  | .ok v => WellFormed nm v
  | .error (.nsp p) => p = pid
  | .error (.zombie p) => p = pid
  | .error (.ad p) => p = pid
  | .error _ => False

instance (pid : Nat) (nm : String) (o : Except PyExc Val) : Decidable (OKV pid nm o) := by
  unfold OKV; split <;> infer_instance

theorem OKV_OK {pid : Nat} {nm : String} {o : Except PyExc Val} (h : OKV pid nm o) : OK pid o := by
  unfold OKV at h; unfold OK; split <;> simp_all

/-- weaker than `OK`: a well-formed value, or one of the three psutil errors carrying SOME pid (what
    the walk methods guarantee when they query other processes on the way — see `C03_safe_parents_partial`) -/
def OKany : Except PyExc α → Prop
  | .ok _ => True
  | .error (.nsp _) => True
  | .error (.zombie _) => True
  | .error (.ad _) => True
  | .error _ => False

instance (o : Except PyExc α) : Decidable (OKany o) := by
  unfold OKany; split <;> infer_instance

theorem OK_any {pid : Nat} {o : Except PyExc α} (h : OK pid o) : OKany o := by
  unfold OK at h; unfold OKany; split <;> simp_all

/-- **the class matches the cause** ("raises NoSuchProcess (gone), ZombieProcess (still listed, as a zombie) or
    AccessDenied (permission refused)"): within the accesses `k0 ≤ k < k1` the call performed, NoSuchProcess only if
    the process was gone at one of them, ZombieProcess only if it was a zombie at one of them, AccessDenied only if
    one of them was refused. `ws` / `deny` are the plan of the process the object stands for. -/
def Cause (ws : Nat → WS) (deny : Nat → Option Errno) (k0 k1 : Nat) : Except PyExc α → Prop
  | .error (.nsp _) => ∃ k, k0 ≤ k ∧ k < k1 ∧ ws k = .gone
  | .error (.zombie _) => ∃ k, k0 ≤ k ∧ k < k1 ∧ ws k = .zombie
  | .error (.ad _) => ∃ k, k0 ≤ k ∧ k < k1 ∧ (deny k).isSome = true
  | _ => True

/-- the same, computably (what `decide` and the driver evaluate) -/
def causeB (ws : Nat → WS) (deny : Nat → Option Errno) (k0 k1 : Nat) : Except PyExc α → Bool
  | .error (.nsp _) => (List.range (k1 - k0)).any (fun i => ws (k0 + i) == .gone)
  | .error (.zombie _) => (List.range (k1 - k0)).any (fun i => ws (k0 + i) == .zombie)
  | .error (.ad _) => (List.range (k1 - k0)).any (fun i => (deny (k0 + i)).isSome)
  | _ => true

theorem causeB_iff (ws : Nat → WS) (deny : Nat → Option Errno) (k0 k1 : Nat) (o : Except PyExc α) :
    causeB ws deny k0 k1 o = true ↔ Cause ws deny k0 k1 o := by
  have key : ∀ (P : Nat → Bool), (List.range (k1 - k0)).any (fun i => P (k0 + i)) = true ↔
      ∃ k, k0 ≤ k ∧ k < k1 ∧ P k = true := by
    intro P
    simp only [List.any_eq_true, List.mem_range]
    constructor
    · rintro ⟨i, hi, hp⟩; exact ⟨k0 + i, by omega, by omega, hp⟩
    · rintro ⟨k, h0, h1, hp⟩; exact ⟨k - k0, by omega, by rw [show k0 + (k - k0) = k by omega]; exact hp⟩
  unfold causeB Cause
  split
  · rw [key (fun k => ws k == .gone)]; simp
  · rw [key (fun k => ws k == .zombie)]; simp
  · rw [key (fun k => (deny k).isSome)]
  · simp

instance (ws : Nat → WS) (deny : Nat → Option Errno) (k0 k1 : Nat) (o : Except PyExc α) :
    Decidable (Cause ws deny k0 k1 o) := decidable_of_iff _ (causeB_iff ws deny k0 k1 o)

/-- "once the process is gone every later query raises NoSuchProcess" -/
def IsNSP (pid : Nat) : Except PyExc α → Prop
  | .error (.nsp p) => p = pid
  | _ => False

instance (pid : Nat) (o : Except PyExc α) : Decidable (IsNSP pid o) := by
  unfold IsNSP; split <;> infer_instance

/-- queries that answer from what the object cached at construction or, by documented design,
    do not raise for a gone process: excluded from `goneForever` and listed here -/
def goneExempt : List String :=
  ["pid",          -- no OS access
   "create_time",  -- cached at construction (documented: "The return value is cached after first call")
   "is_running"]   -- answers False

/-! ### the property's quantifier -/

/-- a process never comes back: alive → zombie → gone only moves forward -/
def Monotone (ws : Nat → WS) : Prop := ∀ i j, i ≤ j → (ws i).rank ≤ (ws j).rank

/-- at most one access is refused, with EACCES or EPERM -/
def DenyOnce (deny : Nat → Option Errno) : Prop :=
  (∀ i e, deny i = some e → e = .EACCES ∨ e = .EPERM) ∧
  (∀ i j e e', deny i = some e → deny j = some e' → i = j)

/-- admissible fault plans (a superset of the four plan shapes of the property) -/
structure Adm (c : Ctx) : Prop where
  mono : Monotone c.ws
  deny : DenyOnce c.deny
  /-- the /proc listing always shows some process other than the target (the caller, PID 1) -/
  others : ∃ i ∈ c.w.procs, i.pid ≠ c.w.target

def noDeny : Nat → Option Errno := fun _ => none
def vanishAt (k : Nat) : Nat → WS := fun i => if i < k then .alive else .gone
def zombieFrom (k : Nat) : Nat → WS := fun i => if i < k then .alive else .zombie
def alwaysAlive : Nat → WS := fun _ => .alive
def denyAt (i : Nat) (e : Errno) : Nat → Option Errno := fun k => if k = i then some e else none

/-- the whole life cycle inside one call: alive before access `j`, a zombie from `j`, gone from `l` on (`j ≤ l`;
    `j = l`: vanishes without being seen as a zombie) -/
def transition (j l : Nat) : Nat → WS := fun i => if i < j then .alive else if i < l then .zombie else .gone

/-- **refusal × life cycle**: ONE access refused (anywhere: before, between or after the transitions) while the process
    goes alive → zombie → gone at later accesses of the same call — the plans that reach the nested fallbacks of the
    front end (a refusal makes the method try another source, which then meets a zombie / a process that is gone) -/
inductive TransitionPlan : (Nat → WS) → (Nat → Option Errno) → Prop
  | mk (i j l : Nat) (e : Errno) (h : e = .EACCES ∨ e = .EPERM) (hjl : j ≤ l) : TransitionPlan (transition j l) (denyAt i e)
  | denyZombie (i k : Nat) (e : Errno) (h : e = .EACCES ∨ e = .EPERM) : TransitionPlan (zombieFrom k) (denyAt i e)

/-- the four plan shapes named by the property -/
inductive PropertyPlan : (Nat → WS) → (Nat → Option Errno) → Prop
  | vanish (k : Nat) : PropertyPlan (vanishAt k) noDeny
  | zombie (k : Nat) : PropertyPlan (zombieFrom k) noDeny
  | deny (i : Nat) (e : Errno) (h : e = .EACCES ∨ e = .EPERM) : PropertyPlan alwaysAlive (denyAt i e)
  | denyVanish (i j : Nat) (e : Errno) (h : e = .EACCES ∨ e = .EPERM) (hij : i < j) :
      PropertyPlan (vanishAt j) (denyAt i e)

/-- the process is gone before the call starts and nothing is refused -/
def GoneFromStart (c : Ctx) : Prop := (∀ k, c.ws k = .gone) ∧ (∀ k, c.deny k = none)

end Psutil.C03.Spec
