/-
  Spec/C10Plat.lean — the layouts of a `/proc/diskstats` line as the KERNEL documents them
  (Documentation/admin-guide/iostats.rst, Documentation/ABI/testing/procfs-diskstats), written from
  that text and not from psutil's parser. Import-free.

    major minor name  rd_ios rd_merges rd_sectors rd_ticks  wr_ios wr_merges wr_sectors wr_ticks
                      in_flight io_ticks time_in_queue  [4.18+: 4 discard fields] [5.5+: 2 flush fields]
    index:  0 1 2     3 4 5 6   7 8 9 10   11 12 13   14..17   18 19

  Linux 2.6.0–2.6.24, line of a PARTITION:   major minor name  rd_ios rd_sectors wr_ios wr_sectors
    index:                                     0 1 2             3 4 5 6
  Sectors are 512 bytes whatever the device's block size.
-/
namespace Psutil.C10.Spec

/-- fields per line the kernel has ever written to /proc/diskstats (7, 14, 18, 20), or will write by
    appending more fields as it did in 4.18 and 5.5 -/
def isKernelLineLength (flen : Nat) : Bool := flen = 7 || flen = 14 || decide (18 ≤ flen)

/-- index of the device name -/
def kernelNameIdx : Nat := 2

/-- the nine figures psutil reports (read_count, write_count, read_bytes, write_bytes, read_time,
    write_time, read_merged_count, write_merged_count, busy_time) of a line with numeric fields `vals` -/
def kernelCounters (vals : List Nat) : List Nat :=
  let f (i : Nat) : Nat := vals.getD i 0
  if vals.length = 7 then [f 3, f 5, f 4 * 512, f 6 * 512, 0, 0, 0, 0, 0]
  else [f 3, f 7, f 5 * 512, f 9 * 512, f 6, f 10, f 4, f 8, f 12]

end Psutil.C10.Spec
