import PsutilModel.Model.C13Gen
import PsutilModel.Spec.C13
namespace Psutil.C13
open Spec

theorem regex_facts :
    Gen.C13.privateRe = "\\nPrivate.*:\\s+(\\d+)" ∧ Gen.C13.pssRe = "\\nPss\\:\\s+(\\d+)"
      ∧ Gen.C13.swapRe = "\\nSwap\\:\\s+(\\d+)" := by decide

end Psutil.C13
