/-
  Props/C13.lean — property theorems for C13 (process memory figures are consistent with the
  kernel's per-mapping accounting). Only statements the property makes; helper lemmas live in
  Proofs/C13*.lean.

  `cfg` is built from Generated/C13.lean, which the translator rewrites from /repo's source on
  every run. `cfg_good` / `cfg_keeps_names` / `regex_facts` / `field_facts` are the proof
  obligations that break when the statm order, the row keys or their order, a `* 1024`, the
  '[anon]' / ' (deleted)' literals, the roll-up prefixes, a regex, a namedtuple layout or the
  path handling change.
-/
import PsutilModel.Proofs.C13Misc
import PsutilModel.Proofs.C13Full
import PsutilModel.Proofs.C13Regex
import PsutilModel.Proofs.C13Rollup
import PsutilModel.Proofs.C13Inherit
import PsutilModel.Proofs.C13Pct
import PsutilModel.Proofs.C13Fine
import PsutilModel.Proofs.C13Hist
import PsutilModel.Proofs.C13GroupSpec
import PsutilModel.Proofs.C13Bind
import PsutilModel.Model.C13Gen
namespace Psutil.C13
open Psutil Psutil.C13.Spec Psutil.C13.Re

/-! ## translator-fed obligations -/

theorem cfg_good : cfg.Good := by
  constructor <;> decide

/-- psutil reports the mapped file's name as the kernel printed it (no `strip()`): needed for
    names that end in a blank. -/
theorem cfg_keeps_names : cfg.stripsPath = false := by decide

theorem regex_facts :
    Gen.C13.privateRe = "\\nPrivate.*:\\s+(\\d+)" ∧ Gen.C13.pssRe = "\\nPss\\:\\s+(\\d+)"
      ∧ Gen.C13.swapRe = "\\nSwap\\:\\s+(\\d+)" := by decide

/-- SOURCE PINS (not consumed by the model, which hard-codes `splitWsN 5`, `r.path`, `r.nums`):
    layout of the result tuples and of the front-end grouping loop; `fallbackExcs` IS consumed
    (`cfg.fallbackEnoent` / `cfg.fallbackEsrch`, obligations in `cfg_good`) and pinned here whole -/
theorem field_facts :
    Gen.C13.pmmapExtFields = extNames ∧ Gen.C13.pmmapGroupedFields = groupedNames
      ∧ Gen.C13.groupPathIdx = 2 ∧ Gen.C13.groupNumsFrom = 3 ∧ Gen.C13.mapsMaxsplit = 5
      ∧ Gen.C13.fallbackExcs = ["FileNotFoundError", "ProcessLookupError"] := by decide

/-- decorators of the methods the property is anchored in: `_parse_smaps_rollup` is the only
    undecorated one (its ESRCH / ENOENT must reach `memory_full_info`'s `except` clause), the
    block-cached reads are `_read_smaps_file` and the front-end `memory_info` -/
theorem decorator_facts :
    Gen.C13.methodDecorators =
      [("memory_info", ["wrap_exceptions"]), ("_parse_smaps_rollup", []), ("_parse_smaps", ["wrap_exceptions"]),
       ("memory_full_info", ["wrap_exceptions"]), ("memory_maps", ["wrap_exceptions"]),
       ("_read_smaps_file", ["wrap_exceptions", "memoize_when_activated"]),
       ("Process.memory_info", ["memoize_when_activated"]), ("Process.memory_full_info", []),
       ("Process.memory_maps", []), ("Process.memory_percent", [])] := by decide

/-- EVERY statement of `memory_maps`' named-mapping branch: decode, then the ` (deleted)` test — and
    nothing else (no `strip()`, no `else:`, no second statement under the `if`). `cfg.stripsPath`
    (any text-changing call anywhere in the branch) is the part the model follows. -/
theorem path_handling_facts :
    Gen.C13.mapsPathStmts = ["path = decode(path)",
      "if path.endswith(' (deleted)') and (not path_exists_strict(path)):\n    path = path[:-10]"] := rfl

/-- EVERY top-level statement of `_pslinux.Process.memory_full_info`, in order: the smaps side
    first, statm (`self.memory_info()`) after it (`cfg.basicFirst = false` is what the model follows). -/
theorem full_info_body_facts :
    Gen.C13.fullInfoStmts =
      ["if HAS_PROC_SMAPS_ROLLUP:\n    try:\n        uss, pss, swap = self._parse_smaps_rollup()\n    except (ProcessLookupError, FileNotFoundError):\n        uss, pss, swap = self._parse_smaps()\nelse:\n    uss, pss, swap = self._parse_smaps()",
       "basic_mem = self.memory_info()", "return pfullmem(*basic_mem + (uss, pss, swap))"] := rfl

/-- the class-body guards as written, and where the page size comes from -/
theorem class_guard_facts :
    Gen.C13.fullInfoGuard = "HAS_PROC_SMAPS_ROLLUP or HAS_PROC_SMAPS"
      ∧ Gen.C13.fullInfoElse = ["memory_full_info = memory_info"] ∧ Gen.C13.mapsGuard = "HAS_PROC_SMAPS"
      ∧ Gen.C13.statmScale = "PAGESIZE" ∧ Gen.C13.pagesizeDef = "cext_posix.getpagesize()" := by decide

/-- `_common.path_exists_strict` — the meaning of the model's `Probe`: `os.stat` succeeds →
    `present`; PermissionError is re-raised (→ `denied`, AccessDenied through `@wrap_exceptions`);
    any other OSError → `missing` -/
theorem path_exists_facts :
    Gen.C13.pathExistsStrict =
      ["try:\n    os.stat(path)\nexcept PermissionError:\n    raise\nexcept OSError:\n    return False\nelse:\n    return True"] := rfl

/-- digest of the normalised text of EVERY function the model transcribes: a statement none of the
    fine-grained facts looks at cannot change unnoticed (the fine-grained facts say WHAT changed) -/
theorem anchored_bodies_pinned :
    Gen.C13.anchoredBodies =
      [("_pslinux.Process.memory_info", "e5c222ca31c2145e"), ("_pslinux.Process._parse_smaps_rollup", "a6e31949e0f56a17"),
       ("_pslinux.Process._parse_smaps", "8387011ec059274b"), ("_pslinux.Process._read_smaps_file", "fff8583be84a346f"),
       ("_pslinux.Process.memory_full_info", "92715b65b1e5ba1b"), ("_pslinux.Process.memory_maps", "66e1502a4f93cc1d"),
       ("_pslinux.virtual_memory", "e03a1b9bbfeef800"), ("Process.memory_maps", "83ab31c3b392d5e7"),
       ("Process.memory_percent", "c5b0655536e3e206"), ("psutil.virtual_memory", "397c200a35e0acbf"),
       ("_common.path_exists_strict", "689267e2a2b123d1")] := by decide

/-! ## memory_info -/

/-- **C13_statm.** For every statm record and page size, `memory_info()` is the kernel's page
    counts × page size, in the order (rss, vms, shared, text, lib, data, dirty). `pagesize` is the
    SYSTEM's page size: the obligations `cfg_good.statmFixedScale` (the multiplier is the module
    global `PAGESIZE`, not a literal) and `cfg_good.pagesizeFromSystem` (`PAGESIZE =
    cext_posix.getpagesize()`) tie it; the harness takes its reference from `os.sysconf` and runs
    every case with `_pslinux.PAGESIZE` set to 4 K, 16 K or 64 K. -/
theorem C13_statm (pagesize : Nat) (r : Statm) :
    memoryInfo cfg pagesize (renderStatm r) = .ok (specMemInfo pagesize r)
      ∧ cfg.pmemFields = pmemNames :=
  ⟨statm_roundtrip cfg cfg_good pagesize r, cfg_good.pmemFields⟩

/-- what-if: `int(x) * 4096` written into `memory_info` -/
def fixedScaleCfg : Cfg := { cfg with statmFixedScale := some 4096 }

/-- … then `C13_statm` is false on every machine with another page size (16 K: arm64, 64 K: ppc64):
    one resident page is reported as 4096 bytes instead of 16384. -/
theorem C13_statm_fixed_scale_counterexample :
    (memoryInfo fixedScaleCfg 16384 [49, 32, 49, 32, 48, 32, 48, 32, 48, 32, 48, 32, 48, 10]).toOption   -- "1 1 0 0 0 0 0\n"
        = some [4096, 4096, 0, 0, 0, 0, 0]
      ∧ specMemInfo 16384 ⟨1, 1, 0, 0, 0, 0, 0⟩ = [16384, 16384, 0, 0, 0, 0, 0] := by
  constructor <;> decide

/-! ## memory_maps -/

theorem wfSmaps_spec {strips : Bool} {m : Mapping} {ms : List Mapping}
    (h : wfSmaps strips (m :: ms) = true) :
    m.kv.map (·.key) ≠ [] ∧ (m.kv.map (·.key)).Nodup
      ∧ ∀ x ∈ m :: ms, WfM strips (m.kv.map (·.key)) x := by
  unfold wfSmaps keysOf at h
  simp only [Bool.and_eq_true, Bool.not_eq_true', decide_eq_true_eq, List.all_eq_true] at h
  obtain ⟨⟨hne, hnd⟩, hall⟩ := h
  refine ⟨?_, hnd, fun x hx => wfMapping_spec (hall x hx)⟩
  intro e
  rw [e] at hne
  simp at hne

theorem maps_roundtrip (c : Cfg) (hg : c.Good) (probe : Bytes → Probe) (zombie : Bool)
    (ms : List Mapping) (hne : ms ≠ []) (hwf : wfSmaps c.stripsPath ms = true)
    (hfs : ∀ m ∈ ms, fsConsistent probe m = true) :
    memoryMaps c probe zombie (renderSmaps ms) = .ok (ms.map specRow) := by
  cases ms with
  | nil => exact absurd rfl hne
  | cons m ms' =>
    obtain ⟨hK, hnd, hw⟩ := wfSmaps_spec hwf
    rw [memoryMaps_eq_blocks c probe zombie _ hK m ms' hw]
    exact blocks_restLines c hg probe _ hnd m ms' [] hw hfs (fun k _ => rfl)

/-- **C13_maps_roundtrip.** For EVERY non-empty list of well-formed mappings — any number of
    them, repeated paths, names with blanks / colons / `Pss: 7` / a literal ` (deleted)`, names
    ending in blanks, unlinked files, anonymous mappings, optional lines present or absent, values
    of any size — `memory_maps(grouped=False)` lists exactly one row per mapping, in order, with
    the mapping's own address range, permissions, path (`[anon]` if none) and figures × 1024.
    (`wfSmaps false`: the full domain, names ending in blanks included.) -/
theorem C13_maps_roundtrip (probe : Bytes → Probe) (zombie : Bool) (ms : List Mapping)
    (hne : ms ≠ []) (hwf : wfSmaps false ms = true)
    (hfs : ∀ m ∈ ms, fsConsistent probe m = true) :
    memoryMaps cfg probe zombie (renderSmaps ms) = .ok (ms.map specRow) := by
  have h := maps_roundtrip cfg cfg_good probe zombie ms hne
  rw [cfg_keeps_names] at h
  exact h hwf hfs

/-- The same for a `memory_maps` that strips the decoded name (psutil ≤ 7.0.0), on the smaller
    domain of names that do not end in a blank. -/
theorem C13_maps_roundtrip_stripping_partial (c : Cfg) (hg : c.Good) (probe : Bytes → Probe)
    (zombie : Bool) (ms : List Mapping) (hne : ms ≠ []) (hwf : wfSmaps true ms = true)
    (hs : c.stripsPath = true) (hfs : ∀ m ∈ ms, fsConsistent probe m = true) :
    memoryMaps c probe zombie (renderSmaps ms) = .ok (ms.map specRow) :=
  maps_roundtrip c hg probe zombie ms hne (by rw [hs]; exact hwf) hfs

/-- **C13_empty_smaps.** An empty (or blank) smaps file: `[]` for a live process,
    ZombieProcess for a zombie. -/
theorem C13_empty_smaps (probe : Bytes → Probe) (zombie : Bool) (content : Bytes)
    (h : stripWs content = []) :
    memoryMaps cfg probe zombie content = if zombie then .error .zombieProcess else .ok [] := by
  simp [memoryMaps, readSmaps, h]

theorem C13_empty_smaps_rendered (probe : Bytes → Probe) (zombie : Bool) :
    memoryMaps cfg probe zombie (renderSmaps []) = if zombie then .error .zombieProcess else .ok [] :=
  C13_empty_smaps probe zombie _ rfl


/-! ## the file-system probe: what `fsConsistent` leaves out

  `fsConsistent` (hypothesis of the round trips) says: the name printed for an unlinked file does
  not exist, a file whose real name ends in ` (deleted)` does. The two reachable states outside
  it are characterised here. -/

/-- **C13_probe_outcomes.** For EVERY printed name that ends in ` (deleted)`: psutil asks
    `path_exists_strict` about the whole printed name — PermissionError → AccessDenied; the name
    exists → reported as printed; it does not → the last 10 characters are cut. (Names not ending
    in the marker are reported as printed without any probe.) -/
theorem C13_probe_outcomes (probe : Bytes → Probe) (p : Bytes) :
    fixPath cfg probe p =
      if endsWith deletedMarker p then
        (match probe p with
          | .denied => .error .accessDenied
          | .present => .ok p
          | .missing => .ok (p.take (p.length - 10)))
      else .ok p := by
  unfold fixPath
  simp only [cfg_keeps_names, Bool.false_eq_true, if_false, cfg_good.deletedSuffix, cfg_good.deletedCut]
  split <;> rfl

/-- an unlinked `/a` with one key line -/
def mDel : Mapping :=
  { lo := 4096, hi := 8192, r := true, w := false, x := false, shared := false, off := 0, maj := 8,
    min := 1, ino := 7, path := some [47, 97], deleted := true, kv := [⟨[82, 115, 115], 4, true⟩], flags := none }

def excOf {α : Type} (r : Res α) : Option Exc := match r with | .error e => some e | .ok _ => none
def pathsOf (r : Res (List Row)) : List Bytes := match r with | .ok rows => rows.map (·.path) | .error _ => []

/-- **C13_maps_denied_witness.** EACCES on the probe (a directory on the way is not searchable for
    the caller): `memory_maps()` of a process with an unlinked `/a` raises AccessDenied — the
    whole call, not just the row. Outside `fsConsistent`; the property is silent on it. -/
theorem C13_maps_denied_witness :
    excOf (memoryMaps cfg (fun _ => .denied) false (renderSmaps [mDel])) = some .accessDenied := by
  decide +kernel

/-- the round trip WITHOUT the file-system hypothesis (only "the probe is never denied") -/
def C13_maps_roundtrip_any_fs_Full : Prop :=
  ∀ (probe : Bytes → Probe) (zombie : Bool) (ms : List Mapping), ms ≠ [] → wfSmaps false ms = true →
    (∀ p, probe p ≠ .denied) →
    memoryMaps cfg probe zombie (renderSmaps ms) = .ok (ms.map specRow)

/-- **C13_maps_ambiguous_sibling_counterexample.** It is false: `/a` was unlinked while a file
    literally named `/a (deleted)` exists — the kernel prints `/a (deleted)`, the probe finds the
    sibling, psutil reports `/a (deleted)` where the mapping's file was `/a`. The kernel's text
    is ambiguous here (the same line is printed for a mapping OF the sibling); no reader of
    `/proc/pid/smaps` can do better — a stated limit, not a defect. -/
theorem C13_maps_ambiguous_sibling_counterexample : ¬ C13_maps_roundtrip_any_fs_Full := by
  intro h
  have := congrArg pathsOf (h (fun _ => .present) false [mDel] (by simp) (by decide) (by intro p; simp))
  revert this
  decide +kernel

example : fsConsistent (fun _ => .present) mDel = false ∧ fsConsistent (fun _ => .missing) mDel = true := by decide

/-! ## memory_maps(grouped=True) -/

/-- **C13_grouped_conservation.** The grouped view is the finite map
    path ↦ field-wise sums over that path's rows: a path that occurs is listed with, in every
    field, the sum over the rows of that path; a path that does not occur is not listed. -/
theorem C13_grouped_conservation (w : Nat) (rows : List Row) (hw : ∀ r ∈ rows, r.nums.length = w)
    (p : Bytes) :
    (grouped rows).lookup p
      = if p ∈ rows.map (·.path) then some ((List.range w).map fun i => specGroupedField rows p i)
        else none :=
  grouped_lookup w rows hw p

/-- … and there is exactly one row per distinct path. -/
theorem C13_grouped_one_row_per_path (rows : List Row) : ((grouped rows).map (·.1)).Nodup :=
  grouped_nodup rows


/-- **C13_grouped_is_specGrouped.** The grouped view IS `specGrouped` (the value the driver prints
    as SPEC, built from `distinctPaths` and `specGroupedField`, not from the fold) as a finite map:
    both list every distinct path once and agree on every path. Order is not promised (the harness
    compares sorted). -/
theorem C13_grouped_is_specGrouped (w : Nat) (rows : List Row) (hw : ∀ r ∈ rows, r.nums.length = w) :
    (∀ p, (grouped rows).lookup p = (specGrouped w rows).lookup p)
      ∧ ((grouped rows).map (·.1)).Nodup ∧ ((specGrouped w rows).map (·.1)).Nodup :=
  ⟨fun p => (grouped_lookup w rows hw p).trans (specGrouped_lookup w rows p).symm, grouped_nodup rows, specGrouped_keys_nodup w rows⟩

/-- … composed with clause 4: on every well-formed smaps file `memory_maps(grouped=True)` is the
    finite map path ↦ field-wise sums of the PROMISED rows (`specRow`) of that path. -/
theorem C13_grouped_end_to_end (probe : Bytes → Probe) (zombie : Bool) (ms : List Mapping)
    (hne : ms ≠ []) (hwf : wfSmaps false ms = true) (hfs : ∀ m ∈ ms, fsConsistent probe m = true) (p : Bytes) :
    (match memoryMaps cfg probe zombie (renderSmaps ms) with
      | .ok rows => (grouped rows).lookup p
      | .error _ => none)
      = (specGrouped rowKeys.length (ms.map specRow)).lookup p := by
  rw [C13_maps_roundtrip probe zombie ms hne hwf hfs]
  exact ((C13_grouped_is_specGrouped rowKeys.length (ms.map specRow) (by
    intro r hr
    obtain ⟨m, _, rfl⟩ := List.mem_map.mp hr
    simp [specRow])).1 p)

/-! ## memory_percent -/

/-- **C13_percent.** `memory_percent(t)` = 100 · field / total physical memory, the field taken
    from `memory_info()` (basic names) or `memory_full_info()` (uss, pss, swap); the total is
    `_TOTAL_PHYMEM` when set (non-zero), else `virtual_memory().total`. -/
theorem C13_percent (memtype : String) (vals : List Nat) (u p s : Nat) (hlen : vals.length = 7)
    (cached : Option Int) (vm : Int) (v : Nat)
    (hv : (pfullmemNames.zip (vals ++ [u, p, s])).lookup memtype = some v)
    (total : Int) (htot : total = (match cached with | some t => if t = 0 then vm else t | none => vm))
    (hpos : total > 0) :
    memoryPercent cfg memtype (.ok vals) (.ok (vals ++ [u, p, s])) cached vm
      = .ok (specPercent v total) :=
  percent_value cfg cfg_good memtype vals u p s hlen cached vm v hv total htot hpos

/-- **C13_bad_memtype_ValueError.** A name that is not a field of `pfullmem` is rejected with
    ValueError, whatever the process looks like (nothing is read). -/
theorem C13_bad_memtype_ValueError (memtype : String) (info full : Res (List Nat))
    (cached : Option Int) (vm : Int) (h : memtype ∉ pfullmemNames) :
    memoryPercent cfg memtype info full cached vm = .error .valueError :=
  bad_memtype cfg cfg_good memtype info full cached vm h

/-- CHARACTERISATION beyond the statement (which speaks of field NAMES, i.e. `str`), and no more
    than the obligation `cfg_good.pctByMembership` restated on the model's `.other` argument: an
    argument that is not a `str` (None, 3, b'rss', ('rss',), … — objects whose `==` with a `str`
    is False; a `str` subclass or an object with a custom `__eq__` is NOT covered) is rejected with
    ValueError, because `memtype not in valid_types` is list membership decided by `==` (a
    `hasattr`-based validation would raise TypeError, and would let `count`, `index`, `_fields`,
    `__len__`, … through: seeded C13-4). The content is in the harness (11 such arguments on the
    real code), not in this proof. -/
theorem C13_nonstr_memtype_ValueError (info full : Res (List Nat)) (cached : Option Int) (vm : Int) :
    memoryPercentArg cfg .other info full cached vm = .error .valueError := by
  simp [memoryPercentArg, cfg_good.pctByMembership]

/-- … and on `str` arguments `memoryPercentArg` is `memory_percent` (so `C13_percent` and
    `C13_bad_memtype_ValueError`, which quantify over ALL strings, are the whole story there). -/
theorem C13_memtype_str (s : String) (info full : Res (List Nat)) (cached : Option Int) (vm : Int) :
    memoryPercentArg cfg (.str s) info full cached vm = memoryPercent cfg s info full cached vm := rfl

/-! ## memory_full_info -/

/-- **C13_rollup_fallback.** ENOENT or ESRCH on the roll-up file: the per-mapping listing is
    used, exactly as when the kernel has no roll-up file at all. -/
theorem C13_rollup_fallback (pagesize : Nat) (smaps statm : Bytes) (r : FileRes) :
    memoryFullInfo cfg true pagesize .enoent smaps statm = memoryFullInfo cfg false pagesize r smaps statm
    ∧ memoryFullInfo cfg true pagesize .esrch smaps statm = memoryFullInfo cfg false pagesize r smaps statm := by
  constructor <;> simp [memoryFullInfo, cfg_good.rollupWrapped, cfg_good.fallbackEnoent, cfg_good.fallbackEsrch]

/-- what-if: a `_parse_smaps_rollup` decorated with `@wrap_exceptions` (the other helpers are) -/
def wrappedCfg : Cfg := { cfg with rollupWrapped := true }

/-- … then ESRCH on the roll-up never reaches the fall-back: NoSuchProcess for a live process
    with a perfectly readable smaps — the full statement `C13_rollup_fallback` is false for that
    code (the obligation `cfg_good.rollupWrapped` is what keeps it out). -/
theorem C13_rollup_wrapped_counterexample :
    (∀ (pagesize : Nat) (smaps statm : Bytes),
        memoryFullInfo wrappedCfg true pagesize .esrch smaps statm = .error .noSuchProcess)
      ∧ (memoryFullInfo wrappedCfg false 4096 .esrch [] [49, 32, 49, 32, 48, 32, 48, 32, 48, 32, 48, 32, 48, 10]).toOption
          = some [4096, 4096, 0, 0, 0, 0, 0, 0, 0, 0] := by
  refine ⟨fun _ _ _ => rfl, by decide⟩

/-- **C13_full_info_sums.** WHEN THE PER-MAPPING LISTING IS THE SOURCE (no roll-up support; with
    `C13_rollup_fallback` also ENOENT / ESRCH on the roll-up): uss = 1024·Σ(Private_Clean +
    Private_Dirty + Private_Hugetlb), pss = 1024·Σ Pss, swap = 1024·Σ Swap, over all mappings;
    the basic fields are those of `memory_info()`. -/
theorem C13_full_info_sums (pagesize : Nat) (st : Statm) (ms : List Mapping) (rollup : FileRes)
    (hne : ms ≠ []) (hwf : wfSmaps false ms = true) :
    memoryFullInfo cfg false pagesize rollup (renderSmaps ms) (renderStatm st)
      = .ok (specFullInfo pagesize st ms) :=
  full_info_smaps cfg cfg_good pagesize st ms rollup hne hwf

/-- **C13_rollup_agrees.** An IDEALISED roll-up file — the field-wise sums of the kB keys, which
    is what a kernel without sub-kB PSS precision would print — gives the same three figures as
    the per-mapping listing. For the roll-up a real kernel prints see
    `C13_full_info_two_sources` / `C13_full_info_same_source_counterexample`. -/
theorem C13_rollup_agrees (ms : List Mapping) (hne : ms ≠ []) (hwf : wfSmaps false ms = true) :
    parseSmapsRollup cfg (renderRollup (rollupKeysOf ms) ms) = parseSmaps cfg (renderSmaps ms)
      ∧ parseSmaps cfg (renderSmaps ms) = .ok (specFull ms) := by
  refine ⟨rollup_agrees cfg cfg_good ms hne hwf, ?_⟩
  cases ms with
  | nil => exact absurd rfl hne
  | cons m ms' =>
    obtain ⟨hK, hnd, hw⟩ := wfSmaps_spec hwf
    exact parseSmaps_rendered cfg cfg_good _ hK hnd m ms' hw

/-! ## the roll-up file as a record of its own ("every smaps_rollup content") -/

/-- **C13_rollup_record.** For EVERY roll-up content — the pseudo header and ANY list of key lines
    (labels without blanks / colons, each printed once; also keys the per-mapping listing does
    not have: `Pss_Anon`, `Pss_File`, `Pss_Shmem`, `SwapPss`, …; any values) —
    `_parse_smaps_rollup` returns uss = 1024·Σ(the `Private_*` lines), pss = 1024·(the `Pss`
    line), swap = 1024·(the `Swap` line); a line that is absent counts 0. -/
theorem C13_rollup_record (lo hi : Nat) (kvs : List KV) (hw : wfRollupRec kvs = true) :
    parseSmapsRollup cfg (renderRollupRec lo hi kvs) = .ok (specFullRollup kvs) :=
  rollup_record cfg cfg_good lo hi kvs hw

/-- **C13_full_info_from_rollup.** … and `memory_full_info()` is the basic fields followed by
    these three, whatever the per-mapping listing holds (it is not read). -/
theorem C13_full_info_from_rollup (pagesize : Nat) (st : Statm) (lo hi : Nat) (kvs : List KV)
    (hw : wfRollupRec kvs = true) (smaps : Bytes) :
    memoryFullInfo cfg true pagesize (.data (renderRollupRec lo hi kvs)) smaps (renderStatm st)
      = .ok (specMemInfo pagesize st
          ++ [(specFullRollup kvs).uss, (specFullRollup kvs).pss, (specFullRollup kvs).swap]) := by
  unfold memoryFullInfo
  simp only [if_true, cfg_good.basicFirst, Bool.false_eq_true, if_false]
  rw [C13_rollup_record lo hi kvs hw, (C13_statm pagesize st).1]

/-- **C13_truncate_once_vs_each.** Pure arithmetic on a list of naturals (`fine`: per-mapping PSS
    in units of 2⁻¹² byte): truncating every summand to kB and adding (`pssListed`) never exceeds
    truncating the sum once (`pssRolled`), and falls short of it by at most n − 1. It becomes a
    statement about psutil's OUTPUTS on the two files of one process in
    `C13_full_info_sources_within_n_kB`. -/
theorem C13_truncate_once_vs_each (fine : List Nat) :
    pssListed fine ≤ pssRolled fine ∧ pssRolled fine ≤ pssListed fine + (fine.length - 1) :=
  ⟨pss_listed_le_rolled fine, pss_rolled_lt fine⟩

example : pssListed [pssUnit + 1, 2 * pssUnit - 1, pssUnit / 2] = 2 ∧ pssRolled [pssUnit + 1, 2 * pssUnit - 1, pssUnit / 2] = 3 := by
  decide


/-! ## ONE process, BOTH sources — the kernel's fine-grained PSS

  `FineMapping`: a mapping + its proportional share in the kernel's unit (2⁻¹² byte).
  `renderSmapsFine` prints every mapping's `Pss:` truncated to kB; `renderRollupFine` prints the
  field-wise sums of the page-granular keys and ONE `Pss:` line = the fine sum truncated once
  (`fs/proc/task_mmu.c`: one `mem_size_stats` per mapping vs one for the whole roll-up). -/

/-- **C13_full_info_two_sources.** For EVERY non-empty list of well-formed mappings with fine-grained
    PSS whose listing prints `Pss:`: `memory_full_info()` read from the per-mapping listing and read
    from the roll-up of the SAME process return the same basic fields, the same uss, the same swap;
    pss is 1024·Σᵢ⌊fineᵢ/2²²⌋ from the listing and 1024·⌊(Σᵢ fineᵢ)/2²²⌋ from the roll-up. -/
theorem C13_full_info_two_sources (pagesize : Nat) (st : Statm) (fms : List FineMapping) (r : FileRes)
    (hne : fms ≠ []) (hwf : wfSmaps false (shownAll fms) = true) (hp : bPss ∈ keysOf (shownAll fms)) :
    memoryFullInfo cfg false pagesize r (renderSmapsFine fms) (renderStatm st)
        = .ok (specMemInfo pagesize st ++ [(specFull (shownAll fms)).uss, 1024 * pssListed (fines fms),
            (specFull (shownAll fms)).swap])
      ∧ memoryFullInfo cfg true pagesize (.data (renderRollupFine fms)) (renderSmapsFine fms) (renderStatm st)
        = .ok (specMemInfo pagesize st ++ [(specFull (shownAll fms)).uss, 1024 * pssRolled (fines fms),
            (specFull (shownAll fms)).swap]) := by
  obtain ⟨hwr, hroll, hlist⟩ := fine_two_sources cfg cfg_good fms hne hwf hp
  have hne' : shownAll fms ≠ [] := fun e => hne (List.map_eq_nil_iff.mp e)
  constructor
  · have h := C13_full_info_sums pagesize st (shownAll fms) r hne' hwf
    unfold renderSmapsFine
    rw [h]
    unfold specFullInfo
    simp only [hlist]
  · have h := C13_full_info_from_rollup pagesize st
      (((shownAll fms).head?.map (·.lo)).getD 0) (((shownAll fms).getLast?.map (·.hi)).getD 0)
      (rollupKVsFine fms) hwr (renderSmapsFine fms)
    unfold renderRollupFine
    rw [h, hroll]

/-- **C13_full_info_sources_within_n_kB.** … so the two answers differ in pss only, the roll-up's
    is never the smaller one, and the difference is below 1 kB per mapping: < n·1024 bytes
    (at most (n − 1)·1024). This is the kernel's arithmetic, reported faithfully by psutil from
    either file — a CHARACTERISATION with a stated limit, not a defect of psutil. -/
theorem C13_full_info_sources_within_n_kB (pagesize : Nat) (st : Statm) (fms : List FineMapping)
    (r : FileRes) (hne : fms ≠ []) (hwf : wfSmaps false (shownAll fms) = true)
    (hp : bPss ∈ keysOf (shownAll fms)) :
    ∃ basic uss swap pssL pssR,
      memoryFullInfo cfg false pagesize r (renderSmapsFine fms) (renderStatm st) = .ok (basic ++ [uss, pssL, swap])
        ∧ memoryFullInfo cfg true pagesize (.data (renderRollupFine fms)) (renderSmapsFine fms) (renderStatm st)
            = .ok (basic ++ [uss, pssR, swap])
        ∧ pssL ≤ pssR ∧ pssR ≤ pssL + 1024 * (fms.length - 1) := by
  obtain ⟨h1, h2⟩ := C13_full_info_two_sources pagesize st fms r hne hwf hp
  refine ⟨_, _, _, _, _, h1, h2, ?_, ?_⟩
  · exact Nat.mul_le_mul_left _ (C13_truncate_once_vs_each (fines fms)).1
  · have := (C13_truncate_once_vs_each (fines fms)).2
    have hl : (fines fms).length = fms.length := by simp [fines]
    rw [hl] at this
    rw [← Nat.mul_add]
    exact Nat.mul_le_mul_left _ this

/-- the clause "the same whether the roll-up file or the per-mapping listing is the source", read
    literally over the files a real kernel prints for one process -/
def C13_full_info_same_source_Full : Prop :=
  ∀ (pagesize : Nat) (st : Statm) (fms : List FineMapping), fms ≠ [] → wfSmaps false (shownAll fms) = true →
    memoryFullInfo cfg true pagesize (.data (renderRollupFine fms)) (renderSmapsFine fms) (renderStatm st)
      = memoryFullInfo cfg false pagesize .enoent (renderSmapsFine fms) (renderStatm st)

/-- two anonymous mappings sharing one page with one other process each: half a kB of PSS each -/
def mHalf (lo : Nat) : FineMapping :=
  { m := { lo := lo, hi := lo + 4096, r := true, w := false, x := false, shared := false, off := 0, maj := 0,
           min := 0, ino := 0, path := none, deleted := false, kv := [⟨bPss, 0, true⟩], flags := none }
    fine := pssUnit / 2 }

example : wfSmaps false (shownAll [mHalf 4096, mHalf 8192]) = true ∧ bPss ∈ keysOf (shownAll [mHalf 4096, mHalf 8192])
    ∧ pssListed (fines [mHalf 4096, mHalf 8192]) = 0 ∧ pssRolled (fines [mHalf 4096, mHalf 8192]) = 1 := by
  refine ⟨by decide, by decide, by decide, by decide⟩

/-- **C13_full_info_same_source_counterexample.** Read literally the clause is FALSE on real kernel
    content: two mappings with half a kB of PSS each are listed as `Pss: 0 kB` twice and rolled up
    as `Pss: 1 kB` — `memory_full_info().pss` is 0 from the listing and 1024 from the roll-up.
    (`C13_full_info_sources_within_n_kB` is the statement that holds; `C13_rollup_agrees` the
    reading under which the clause is true.) -/
theorem C13_full_info_same_source_counterexample : ¬ C13_full_info_same_source_Full := by
  intro h
  have hw : wfSmaps false (shownAll [mHalf 4096, mHalf 8192]) = true := by decide
  have h0 := h 4096 ⟨0, 0, 0, 0, 0, 0, 0⟩ [mHalf 4096, mHalf 8192] (by simp) hw
  obtain ⟨h1, h2⟩ := C13_full_info_two_sources 4096 ⟨0, 0, 0, 0, 0, 0, 0⟩ [mHalf 4096, mHalf 8192] .enoent (by simp) hw (by decide)
  rw [h1, h2] at h0
  have h3 := Except.ok.inj h0
  have h4 := List.append_cancel_left h3
  have hL : pssListed (fines [mHalf 4096, mHalf 8192]) = 0 := by decide
  have hR : pssRolled (fines [mHalf 4096, mHalf 8192]) = 1 := by decide
  rw [hL, hR] at h4
  simp at h4

/-! ## a process without mappings (the quantifier says 0..n) -/

/-- **C13_full_info_empty.** No mappings (kernel threads, zombies: an empty smaps file): uss = pss =
    swap = 0 after the basic fields — from the listing, and (`C13_rollup_fallback`) when the roll-up
    answers ENOENT / ESRCH, which is what it does for such processes. -/
theorem C13_full_info_empty (pagesize : Nat) (st : Statm) (r : FileRes) :
    memoryFullInfo cfg false pagesize r (renderSmaps []) (renderStatm st) = .ok (specFullInfo pagesize st [])
      ∧ memoryFullInfo cfg true pagesize .enoent (renderSmaps []) (renderStatm st) = .ok (specFullInfo pagesize st [])
      ∧ memoryFullInfo cfg true pagesize .esrch (renderSmaps []) (renderStatm st) = .ok (specFullInfo pagesize st []) := by
  have hp : (parseSmaps cfg (renderSmaps [])).toOption = some ⟨0, 0, 0⟩ := by decide
  have h0 : memoryFullInfo cfg false pagesize r (renderSmaps []) (renderStatm st) = .ok (specFullInfo pagesize st []) := by
    unfold memoryFullInfo
    simp only [Bool.false_eq_true, if_false, cfg_good.basicFirst]
    rw [(C13_statm pagesize st).1]
    cases hq : parseSmaps cfg (renderSmaps []) with
    | error e => rw [hq] at hp; cases hp
    | ok f =>
      rw [hq] at hp
      have : f = ⟨0, 0, 0⟩ := Option.some.inj hp
      subst this
      rfl
  refine ⟨h0, ?_, ?_⟩
  · rw [(C13_rollup_fallback pagesize _ _ r).1]; exact h0
  · rw [(C13_rollup_fallback pagesize _ _ r).2]; exact h0

/-! ## the class body: which methods exist for which kernel -/

/-- **C13_class_level.** The class body of `_pslinux.Process` is evaluated once, with the flags
    `HAS_PROC_SMAPS_ROLLUP` / `HAS_PROC_SMAPS` of import time. Whenever `/proc/pid/smaps` exists —
    roll-up or not ("roll-up file present or absent") — `memory_full_info` is the real thing (with
    the import-time roll-up flag) and `memory_maps` is defined; with neither file
    `memory_full_info` is `memory_info` (documented: "on platforms where extended info is not
    available this is an alias"). Needs `cfg_good.fullGuard / fullElseIsInfo / mapsGuard`. -/
theorem C13_class_level (importRollup : Bool) (pagesize : Nat) (rollup : FileRes) (smaps statm : Bytes) :
    memoryFullInfoCls cfg importRollup true pagesize rollup smaps statm
        = memoryFullInfo cfg importRollup pagesize rollup smaps statm
      ∧ memoryMapsDefined cfg importRollup true = true
      ∧ memoryFullInfoCls cfg false false pagesize rollup smaps statm = memoryInfo cfg pagesize statm
      ∧ memoryMapsDefined cfg importRollup false = false := by
  simp [memoryFullInfoCls, memoryMapsDefined, cfg_good.fullGuard, cfg_good.fullElseIsInfo, cfg_good.mapsGuard, Guard.holds]

/-- what-if: `if HAS_PROC_SMAPS_ROLLUP and HAS_PROC_SMAPS:` -/
def andGuardCfg : Cfg := { cfg with fullGuard := .rollupAndSmaps }

/-- … then on every kernel before 4.14 (smaps, no roll-up) `memory_full_info` silently IS
    `memory_info`: no uss / pss / swap — clause 2 is false for that code whatever the mappings. -/
theorem C13_class_level_and_guard_counterexample (pagesize : Nat) (rollup : FileRes) (smaps statm : Bytes) :
    memoryFullInfoCls andGuardCfg false true pagesize rollup smaps statm = memoryInfo andGuardCfg pagesize statm := by
  simp [memoryFullInfoCls, andGuardCfg, cfg_good.fullElseIsInfo, Guard.holds]

/-! ## the three regexes of `_parse_smaps`: `findall` over the whole text vs the line-anchored reading -/

/-- **C13_findall_is_line_anchored.** For ANY text and any pattern `\n q` of the modelled fragment:
    if on every line after the first the match of `q` does not depend on what follows the line
    (`LineAgree`: it fails, or ends inside the line with the number the line-anchored extractor
    `f` reports), then `sum(map(int, findall))` is the sum of `f` over those lines. -/
theorem C13_findall_is_line_anchored (q : List Atom) (f : Bytes → Option Nat) (data : Bytes)
    (hag : ∀ l ∈ (splitOn 10 data).drop 1, LineAgree q f l) :
    sumInts (findall (.lit 10 :: q) data) = some (sumMatches f ((splitOn 10 data).drop 1)) :=
  findall_eq_lines q f data hag

/-- **C13_regex_line_anchored.** On EVERY rendered smaps file (any number of well-formed mappings,
    any names — also names like `/tmp/Pss: 7` or `Private_Clean: 5` —, optional lines, any values)
    `_parse_smaps` as written — three `re.findall` over the whole text, whose `\s+` could run over
    a newline — returns exactly the line-anchored reading of its patterns. -/
theorem C13_regex_line_anchored (ms : List Mapping) (hne : ms ≠ []) (hwf : wfSmaps false ms = true) :
    parseSmaps cfg (renderSmaps ms) = .ok (parseSmapsLines cfg (renderSmaps ms)) := by
  cases ms with
  | nil => exact absurd rfl hne
  | cons m ms' =>
    obtain ⟨hK, _, hw⟩ := wfSmaps_spec hwf
    exact parseSmaps_eq_lines cfg cfg_good _ hK m ms' hw

/-- `1-2 r 0 0:0 0 \nSwap:\n00400000-00401000 r 0 0:0 0 \nPss: 1 kB`: a bare `Swap:` line followed
    by a header whose address starts with decimal digits -/
def bareSwap : Bytes :=
  [49, 45, 50, 32, 114, 32, 48, 32, 48, 58, 48, 32, 48, 32, 10, 83, 119, 97, 112, 58, 10, 48, 48, 52, 48, 48, 48, 48, 48, 45, 48, 48,
   52, 48, 49, 48, 48, 48, 32, 114, 32, 48, 32, 48, 58, 48, 32, 48, 32, 10, 80, 115, 115, 58, 32, 49, 32, 107, 66, 10]

/-- **C13_regex_crosses_newline.** Off the kernel's format the two readings differ: after a bare
    `Swap:` line the `\s+` of the regex runs over the newline and captures the leading digits of
    the next header's address (swap = 400000 kB), the line-anchored reading says 0. No kernel
    prints a key line without a number; replayed on the real code by the raw family
    `bare_key_before_header`. -/
theorem C13_regex_crosses_newline :
    (parseSmaps cfg bareSwap).toOption = some ⟨0, 1024, 400000 * 1024⟩ ∧ parseSmapsLines cfg bareSwap = ⟨0, 1024, 0⟩ := by
  constructor <;> decide

/-! ## non-vacuity, and the two places where the code's behaviour matters -/

/-- a mapping of a file whose name ends in a blank (`/tmp/x `) -/
def mBlank : Mapping :=
  { lo := 4096, hi := 8192, r := true, w := false, x := false, shared := false, off := 0, maj := 8,
    min := 1, ino := 7, path := some [47, 116, 109, 112, 47, 120, 32], deleted := false,
    kv := [⟨[83, 119, 97, 112], 7, true⟩], flags := none }

example : wfSmaps false [mBlank] = true ∧ ∀ probe, fsConsistent probe mBlank = true := by
  refine ⟨by decide, fun probe => rfl⟩

/-- a `memory_maps` that strips the decoded name (psutil ≤ 7.0.0) -/
def stripCfg : Cfg := { cfg with stripsPath := true }

/-- **The full statement is false for the stripping code**: the file `/tmp/x ` (a well-formed
    input of `C13_maps_roundtrip`) is reported as `/tmp/x`. -/
theorem C13_trailing_blank_counterexample (probe : Bytes → Probe) (zombie : Bool) :
    memoryMaps stripCfg probe zombie (renderSmaps [mBlank]) ≠ .ok ([mBlank].map specRow) := by
  have hw : ∀ x ∈ [mBlank], WfM false [[83, 119, 97, 112]] x := by
    intro x hx
    simp only [List.mem_singleton] at hx
    subst hx
    exact wfMapping_spec (by decide)
  rw [memoryMaps_eq_blocks stripCfg probe zombie _ (by decide) mBlank [] hw]
  have hkv : ∀ e ∈ mBlank.kv, wfKey e.key = true := by decide
  have h1 := blocks_kvs stripCfg probe mBlank.kv [] (headerLine mBlank) [] hkv
  simp only [restLines, tailLinesLast, flagLinesLast, mBlank, List.append_nil] at h1 ⊢
  rw [h1]
  have hs := split_header_path mBlank [47, 116, 109, 112, 47, 120, 32] rfl 47 [116, 109, 112, 47, 120, 32] rfl (by decide)
  simp only [blocks, mkRow, mBlank] at hs ⊢
  rw [hs]
  intro h
  have hp : fixPath stripCfg probe (shownName [47, 116, 109, 112, 47, 120, 32] false) = .ok [47, 116, 109, 112, 47, 120] := rfl
  simp only [hp] at h
  have := congrArg (fun r => match r with | Except.ok (r :: _) => r.path | _ => []) h
  simp [specRow] at this

/-- first figure (rss) of every row, `[]` on error -/
def firstNums (r : Res (List Row)) : List (Option Nat) :=
  match r with
  | .ok rows => rows.map (·.nums.head?)
  | .error _ => []

/-- **Latent:** `get_blocks` creates its dict once. If two mappings of one file printed different
    key sets (no kernel does), the second row would inherit the first one's `Rss`. -/
theorem C13_nonuniform_keys_inherit :
    firstNums (memoryMaps { cfg with dictPerBlock := false } (fun _ => .missing) false [49, 45, 50, 32, 114, 32, 48, 32, 48, 58, 48, 32, 48, 10, 82, 115, 115, 58, 32, 53, 32, 107, 66, 10, 51, 45, 52, 32, 114, 32, 48, 32, 48, 58, 48, 32, 48, 10, 80, 115, 115, 58, 32, 49, 32, 107, 66, 10])
        = [some 5120, some 5120]
      ∧ firstNums (memoryMaps { cfg with dictPerBlock := true } (fun _ => .missing) false [49, 45, 50, 32, 114, 32, 48, 32, 48, 58, 48, 32, 48, 10, 82, 115, 115, 58, 32, 53, 32, 107, 66, 10, 51, 45, 52, 32, 114, 32, 48, 32, 48, 58, 48, 32, 48, 10, 80, 115, 115, 58, 32, 49, 32, 107, 66, 10])
        = [some 5120, some 0] := by
  constructor <;> decide

/-! ## memory_maps when the mappings do NOT all print the same key list

  `get_blocks` creates its dict once (`cfg.dictPerBlock = false`, a translator fact) and never
  clears it. The kernel prints the same key list for every mapping of one read (validated on the
  live `/proc/self/smaps` on every run), so this is latent; the theorems below say exactly what
  the code as it is does on every other file, and exactly which files it gets right. -/

/-- the dict of `get_blocks` is created once -/
theorem cfg_dict_once : cfg.dictPerBlock = false := by decide

theorem maps_inherit (c : Cfg) (hg : c.Good) (probe : Bytes → Probe) (zombie : Bool)
    (ms : List Mapping) (hne : ms ≠ []) (hwf : wfSmapsOwn c.stripsPath ms = true)
    (hfs : ∀ m ∈ ms, fsConsistent probe m = true) :
    memoryMaps c probe zombie (renderSmaps ms) = .ok (inheritRows c.dictPerBlock [] ms) := by
  cases ms with
  | nil => exact absurd rfl hne
  | cons m ms' =>
    have hw := wfSmapsOwn_spec hwf
    rw [memoryMaps_eq_blocks_own c probe zombie m ms' hw]
    exact blocks_inherit c hg probe m ms' [] [] hw hfs rep_nil

/-- **C13_maps_nonuniform_exact.** For EVERY non-empty list of mappings, each well-formed for its
    own key list (no common key list): the code as it is reports, for row `i` and key `k`, 1024 ×
    the value of `k` in the LATEST mapping `j ≤ i` that printed `k` (0 if none did) — address
    range, permissions and path are always the mapping's own. -/
theorem C13_maps_nonuniform_exact (probe : Bytes → Probe) (zombie : Bool) (ms : List Mapping)
    (hne : ms ≠ []) (hwf : wfSmapsOwn false ms = true)
    (hfs : ∀ m ∈ ms, fsConsistent probe m = true) :
    memoryMaps cfg probe zombie (renderSmaps ms) = .ok (inheritRows false [] ms) := by
  have h := maps_inherit cfg cfg_good probe zombie ms hne
  rw [cfg_keeps_names, cfg_dict_once] at h
  exact h hwf hfs

/-- **C13_maps_right_iff_no_stale_key.** … and that answer is the promised one (`map specRow`)
    if and only if no mapping omits a row key whose latest earlier value is non-zero. -/
theorem C13_maps_right_iff_no_stale_key (probe : Bytes → Probe) (zombie : Bool) (ms : List Mapping)
    (hne : ms ≠ []) (hwf : wfSmapsOwn false ms = true)
    (hfs : ∀ m ∈ ms, fsConsistent probe m = true) :
    memoryMaps cfg probe zombie (renderSmaps ms) = .ok (ms.map specRow) ↔ noStale [] ms = true := by
  rw [C13_maps_nonuniform_exact probe zombie ms hne hwf hfs, ← inheritRows_eq_iff]
  constructor
  · intro h; injection h
  · intro h; rw [h]

/-- **C13_maps_roundtrip_general.** The round trip without the uniform-keys hypothesis: any
    key lists, as long as no row key goes stale. -/
theorem C13_maps_roundtrip_general (probe : Bytes → Probe) (zombie : Bool) (ms : List Mapping)
    (hne : ms ≠ []) (hwf : wfSmapsOwn false ms = true) (hns : noStale [] ms = true)
    (hfs : ∀ m ∈ ms, fsConsistent probe m = true) :
    memoryMaps cfg probe zombie (renderSmaps ms) = .ok (ms.map specRow) :=
  (C13_maps_right_iff_no_stale_key probe zombie ms hne hwf hfs).mpr hns

/-- **C13_uniform_keys_never_stale.** The kernel-reachable files (every mapping prints the same
    key list) are all on the right side of that line. -/
theorem C13_uniform_keys_never_stale (ms : List Mapping) (h : uniformKeys ms = true) :
    noStale [] ms = true := by
  unfold uniformKeys at h
  simp only [List.all_eq_true, beq_iff_eq] at h
  exact noStale_of_uniform (keysOf ms) [] ms (fun _ hx => nomatch hx) h

/-- **C13_maps_per_block_dict_full.** A `get_blocks` that starts every mapping with an empty dict
    satisfies the round trip for ALL key lists (the full statement, no staleness condition). -/
theorem C13_maps_per_block_dict_full (probe : Bytes → Probe) (zombie : Bool) (ms : List Mapping)
    (hne : ms ≠ []) (hwf : wfSmapsOwn false ms = true)
    (hfs : ∀ m ∈ ms, fsConsistent probe m = true) :
    memoryMaps { cfg with dictPerBlock := true } probe zombie (renderSmaps ms) = .ok (ms.map specRow) := by
  have hg : Cfg.Good { cfg with dictPerBlock := true } := by constructor <;> decide
  have h := maps_inherit { cfg with dictPerBlock := true } hg probe zombie ms hne
    (by simpa [cfg_keeps_names] using hwf) hfs
  rw [h]
  exact congrArg _ (inheritRows_perBlock ms)

/-- the full statement (round trip for every key lists) — false of the code as it is -/
def C13_maps_roundtrip_any_keys_Full : Prop :=
  ∀ (probe : Bytes → Probe) (zombie : Bool) (ms : List Mapping), ms ≠ [] → wfSmapsOwn false ms = true →
    (∀ m ∈ ms, fsConsistent probe m = true) →
    memoryMaps cfg probe zombie (renderSmaps ms) = .ok (ms.map specRow)

/-- two anonymous mappings, the first prints `Rss: 5 kB`, the second only `Pss: 1 kB` -/
def mRss : Mapping :=
  { lo := 4096, hi := 8192, r := true, w := false, x := false, shared := false, off := 0, maj := 0,
    min := 0, ino := 0, path := none, deleted := false, kv := [⟨[82, 115, 115], 5, true⟩], flags := none }
def mPss : Mapping := { mRss with lo := 8192, hi := 12288, kv := [⟨[80, 115, 115], 1, true⟩] }

example : wfSmapsOwn false [mRss, mPss] = true ∧ noStale [] [mRss, mPss] = false
    ∧ uniformKeys [mRss, mPss] = false := by decide

theorem C13_maps_roundtrip_any_keys_counterexample : ¬ C13_maps_roundtrip_any_keys_Full := by
  intro h
  have := (C13_maps_right_iff_no_stale_key (fun _ => .missing) false [mRss, mPss] (by decide) (by decide)
    (by decide)).mp (h _ _ _ (by decide) (by decide) (by decide))
  revert this
  decide

/-! ## memory_percent end to end: where the total comes from -/

theorem pcfg_good : pcfg.Good := by
  constructor <;> decide

/-- **C13_meminfo_total.** `virtual_memory().total` is the kernel's `MemTotal` line × 1024, for
    every well-formed `/proc/meminfo` (any set of other lines). -/
theorem C13_meminfo_total (ls : List KV) (hw : wfMeminfo ls = true) :
    vmTotal pcfg (renderMeminfo ls) = .ok (memTotal ls) :=
  vmTotal_rendered pcfg pcfg_good ls hw

/-- **C13_percent_end_to_end.** From the texts of `statm`, `smaps` and `meminfo`, with nothing
    cached yet: `memory_percent(t)` = 100 · field / (MemTotal × 1024) for EVERY field of
    `pfullmem` (uss / pss / swap read the per-mapping listing), ValueError when the total is 0;
    afterwards `_TOTAL_PHYMEM` holds that total. -/
theorem C13_percent_end_to_end (pagesize : Nat) (st : Statm) (ms : List Mapping) (rollup : FileRes)
    (hne : ms ≠ []) (hwf : wfSmaps false ms = true) (ls : List KV) (hm : wfMeminfo ls = true)
    (memtype : String) (v : Nat)
    (hv : (pfullmemNames.zip (specFullInfo pagesize st ms)).lookup memtype = some v)
    (s : PState) (hs : s.cache = none ∨ s.cache = some 0) :
    memoryPercentS cfg pcfg memtype (memoryInfo cfg pagesize (renderStatm st))
        (memoryFullInfo cfg false pagesize rollup (renderSmaps ms) (renderStatm st)) (renderMeminfo ls) s
      = (if 0 < memTotal ls then .ok (specPercent v (memTotal ls)) else .error .valueError,
         ⟨some (memTotal ls)⟩) := by
  rw [(C13_statm pagesize st).1, C13_full_info_sums pagesize st ms rollup hne hwf]
  have hval := pctValue_ok cfg cfg_good memtype (specMemInfo pagesize st) (specFull ms).uss (specFull ms).pss
    (specFull ms).swap rfl v hv
  have hval' : pctValue cfg memtype (.ok (specMemInfo pagesize st)) (.ok (specFullInfo pagesize st ms)) = .ok v := hval
  rw [pct_fresh cfg pcfg pcfg_good memtype _ _ _ s hs (memTotal ls) (C13_meminfo_total ls hm) v hval']
  by_cases h0 : 0 < memTotal ls
  · rw [pctOf_pos v _ h0, if_pos h0]
  · have : memTotal ls = 0 := by omega
    rw [this, pctOf_zero]
    simp

/-- **C13_percent_cached_total.** What the code does with a non-zero `_TOTAL_PHYMEM`: the answer
    is relative to THAT number whatever `/proc/meminfo` says now (it is not read), and the cache
    is left as it is — `memory_percent` never refreshes it. -/
theorem C13_percent_cached_total (memtype : String) (info full : Res (List Nat)) (meminfo : Bytes)
    (t : Nat) (ht : t ≠ 0) :
    memoryPercentS cfg pcfg memtype info full meminfo ⟨some t⟩
      = (answer (pctValue cfg memtype info full) t, ⟨some t⟩) :=
  pct_cache_wins cfg pcfg pcfg_good memtype info full meminfo t ht

/-- **C13_percent_history.** MODEL-LEVEL (reference `runFixed` built from `pctValue` / `pctOf`). Any interleaving of `virtual_memory()` and `memory_percent(…)` calls
    and rewrites of `/proc/meminfo` during which the kernel's total stays `T`: every answer is
    relative to `T` (cache empty or already `T` at the start). -/
theorem C13_percent_history (info full : Res (List Nat)) (T : Nat) (ops : List POp) (mi : Bytes)
    (s : PState) (hmi : vmTotal pcfg mi = .ok T)
    (hops : ∀ b, POp.setMeminfo b ∈ ops → vmTotal pcfg b = .ok T)
    (hs : s.cache = none ∨ s.cache = some T) :
    runP cfg pcfg info full ops mi s = runFixed cfg info full T ops :=
  runP_fixed cfg pcfg pcfg_good info full T ops mi s hmi hops hs

/-- **C13_bad_memtype_state.** An unknown name: ValueError, nothing read, cache untouched. -/
theorem C13_bad_memtype_state (memtype : String) (info full : Res (List Nat)) (meminfo : Bytes)
    (s : PState) (h : memtype ∉ pfullmemNames) :
    memoryPercentS cfg pcfg memtype info full meminfo s = (.error .valueError, s) :=
  pct_value_error cfg pcfg memtype info full meminfo s _ (pctValue_bad cfg cfg_good memtype info full h)

/-- **C13_percent_last_read.** MODEL-LEVEL lemma (`runLastRead` is built from the model's `pctValue`
    / `truthy` / `pctOf` and takes the model's `vmTotal`: it restates the model with the two cache
    flags resolved; the spec-facing statement is `C13_percent_history_records`). For
    EVERY history of `/proc/meminfo` rewrites, `virtual_memory()` and `memory_percent(t)` calls:
    `memory_percent(t)` = 100 · field / (the total physical memory psutil last read — by the
    latest successful `virtual_memory()`, or by the first `memory_percent()` when none was made;
    a total of 0 is re-read). -/
theorem C13_percent_last_read (info full : Res (List Nat)) (ops : List POp) (mi : Bytes) (s : PState) :
    runP cfg pcfg info full ops mi s = runLastRead cfg (vmTotal pcfg) info full ops mi s.cache :=
  runP_lastRead cfg pcfg pcfg_good info full ops mi s

/-- **C13_percent_constant_total.** The property's own setting — `MemTotal` is the same at every
    read (the other lines of `/proc/meminfo` may change at will): every `memory_percent(t)` of the
    history is 100 · field / (1024 · MemTotal) and every `virtual_memory().total` is 1024 · MemTotal
    (`runFixed`); here the "last read" and the "current total" readings coincide. -/
theorem C13_percent_constant_total (info full : Res (List Nat)) (ls0 : List KV)
    (h0 : wfMeminfo ls0 = true) (ops : List POp)
    (hops : ∀ b, POp.setMeminfo b ∈ ops →
      ∃ ls, b = renderMeminfo ls ∧ wfMeminfo ls = true ∧ memTotal ls = memTotal ls0) :
    runP cfg pcfg info full ops (renderMeminfo ls0) ⟨none⟩ = runFixed cfg info full (memTotal ls0) ops
      ∧ runCurrent cfg pcfg info full ops (renderMeminfo ls0)
          = runP cfg pcfg info full ops (renderMeminfo ls0) ⟨none⟩ := by
  have hb : ∀ b, POp.setMeminfo b ∈ ops → vmTotal pcfg b = .ok (memTotal ls0) := by
    intro b hbm
    obtain ⟨ls, rfl, hw, ht⟩ := hops b hbm
    rw [C13_meminfo_total ls hw, ht]
  have h1 := C13_percent_history info full (memTotal ls0) ops (renderMeminfo ls0) ⟨none⟩
    (C13_meminfo_total ls0 h0) hb (Or.inl rfl)
  refine ⟨h1, ?_⟩
  rw [h1]
  exact runCurrent_fixed cfg pcfg info full (memTotal ls0) ops (renderMeminfo ls0)
    (C13_meminfo_total ls0 h0) hb


/-! ## histories, against the spec written over RECORDS -/

/-- **C13_percent_history_records.** For EVERY history of `/proc/meminfo` contents (as records, each
    well-formed), `virtual_memory()` and `memory_percent(t)` calls on a process given by its statm
    record and its mappings (per-mapping listing as the source), starting from an empty cache: the
    model run over the RENDERED texts answers exactly `specHist` — the reference written in
    Spec/C13.lean from `specPercent`, `memTotal` and the promised field values
    (`specFullInfo`), with no model function in it: 100·field / (the `MemTotal` psutil last read),
    ValueError for an unknown field name or a total of 0. -/
theorem C13_percent_history_records (pagesize : Nat) (st : Statm) (ms : List Mapping) (rollup : FileRes)
    (hne : ms ≠ []) (hwf : wfSmaps false ms = true) (ls0 : List KV) (h0 : wfMeminfo ls0 = true)
    (ops : List SOp) (hops : ∀ ls, SOp.setMeminfo ls ∈ ops → wfMeminfo ls = true) :
    runP cfg pcfg (memoryInfo cfg pagesize (renderStatm st))
        (memoryFullInfo cfg false pagesize rollup (renderSmaps ms) (renderStatm st))
        (ops.map SOp.toP) (renderMeminfo ls0) ⟨none⟩
      = (specHist (fun mt => (pfullmemNames.zip (specFullInfo pagesize st ms)).lookup mt) ops ls0 none).map SOut.toP := by
  rw [(C13_statm pagesize st).1, C13_full_info_sums pagesize st ms rollup hne hwf]
  exact runP_specHist cfg cfg_good pcfg pcfg_good (specMemInfo pagesize st) (specFull ms).uss (specFull ms).pss
    (specFull ms).swap rfl ops hops ls0 h0 none

/-- non-vacuity + the cache made visible on the spec side: total 4 kB, `memory_percent('rss')`,
    total 8 kB, `memory_percent('rss')`, `virtual_memory()`, `memory_percent('rss')` → 100 %, 100 %
    (total last read), 8192, 50 % -/
example : specHist (fun mt => if mt = "rss" then some 4096 else none)
      [.pct "rss", .setMeminfo [⟨bMemTotal, 8, true⟩, ⟨bMemFree, 1, true⟩], .pct "rss", .vm, .pct "rss", .pct "bogus"]
      [⟨bMemTotal, 4, true⟩, ⟨bMemFree, 1, true⟩] none
    = [.pct 100, .none, .pct 100, .total 8192, .pct 50, .valueError] := by
  decide +kernel

/-- CHARACTERISATION of the cache, beyond the property's quantifier (the property quantifies over
    statm / smaps contents, not over a `MemTotal` that changes between calls) and NOT a defect:
    the reading "every answer is relative to the total the kernel reports AT THE TIME OF THE
    CALL" is not what the code does once `MemTotal` changes — the cache is by design ("use cached
    value if available"); `C13_percent_last_read` is the statement that holds. -/
def C13_percent_current_total_Full : Prop :=
  ∀ (info full : Res (List Nat)) (ops : List POp) (mi : Bytes),
    runP cfg pcfg info full ops mi ⟨none⟩ = runCurrent cfg pcfg info full ops mi

def mi1 : Bytes := renderMeminfo [⟨bMemTotal, 4, true⟩, ⟨bMemFree, 1, true⟩]
def mi2 : Bytes := renderMeminfo [⟨bMemTotal, 8, true⟩, ⟨bMemFree, 1, true⟩]

/-- Documented behaviour of the cache (not a defect, see above): `memory_percent()`, then the machine's memory doubles (4 kB → 8 kB), then
    `memory_percent()` again: the code answers 100 % twice, the current total gives 100 % then 50 %. -/
theorem C13_percent_stale_total_counterexample : ¬ C13_percent_current_total_Full := by
  intro h
  have := congrArg pctVals (h (.ok [4096, 0, 0, 0, 0, 0, 0]) (.error .valueError)
    [.pct "rss", .setMeminfo mi2, .pct "rss"] mi1)
  revert this
  decide +kernel

/-- … and an explicit `virtual_memory()` call in between refreshes the cache. -/
example : pctVals (runP cfg pcfg (.ok [4096, 0, 0, 0, 0, 0, 0]) (.error .valueError)
      [.pct "rss", .setMeminfo mi2, .vm, .pct "rss"] mi1 ⟨none⟩) = [some 100, none, none, some 50] := by
  decide +kernel

/-! ## which process an object describes: PROCFS_PATH re-pointed between construction and call -/

/-- obligation: `_pslinux.Process.__init__` captures the procfs root (`self._procfs_path =
    get_procfs_path()`), nothing assigns it again, and the three read sites of the memory methods
    (statm, smaps, smaps_rollup) open their file under THAT root — not under `get_procfs_path()`,
    which is PROCFS_PATH at the time of the call -/
theorem bcfg_good : bcfg.Good := by
  constructor <;> decide

theorem read_root_facts :
    Gen.C13.readRoots = [("memory_info:statm", "self._procfs_path"), ("_read_smaps_file:smaps", "self._procfs_path"),
                         ("_parse_smaps_rollup:smaps_rollup", "self._procfs_path")]
      ∧ Gen.C13.procfsBinders = [("__init__", "get_procfs_path()")] := by decide

/-- **C13_figures_describe_the_bound_process.** For EVERY world of procfs trees (any number; the
    pid present or absent in each; any file contents), every history of `psutil.PROCFS_PATH = …`
    assignments, `Process(pid)` constructions, `oneshot()` blocks and method calls (memory_info,
    memory_full_info, memory_maps grouped or not, memory_percent of any name): every answer of an
    object is the answer computed from the files of the ONE tree psutil pointed at when the object
    was created — statm, smaps and smaps_rollup of the same process — wherever PROCFS_PATH points
    when the call is made (`specRunB` never looks at the current root in a call). -/
theorem C13_figures_describe_the_bound_process (e : Env) (w : World) (steps : List BStep) (cur : Nat) :
    runB cfg bcfg e w steps ⟨cur, []⟩ = specRunB (fun t m => answerView cfg e t.view m) w steps cur [] :=
  runB_eq_spec cfg bcfg bcfg_good e w steps ⟨cur, []⟩ (by intro o ho; cases ho)

/-- … and those are the figures the property promises for that process: for every world of
    kernel-side RECORDS (statm record, non-empty list of well-formed mappings, zombie or not, any
    roll-up answer) rendered into procfs trees, in every such history `memory_info()` is the
    bound process's page counts × page size, `memory_maps(grouped=False)` its mappings row by row,
    and `memory_full_info()` from the per-mapping listing its sums (`figures`; the remaining
    methods are the single-process clauses `C13_grouped_end_to_end`, `C13_percent`,
    `C13_full_info_from_rollup` applied to the SAME bound tree, by the theorem above). -/
theorem C13_history_figures (e : Env) (pw : List (Option PTree))
    (hwf : ∀ p, some p ∈ pw → p.ms ≠ [] ∧ wfSmaps false p.ms = true ∧ ∀ m ∈ p.ms, fsConsistent e.probe m = true)
    (steps : List BStep) (cur : Nat) :
    runB cfg bcfg e (renderWorld pw) steps ⟨cur, []⟩
      = specRunB (figures e (fun p m => answerView cfg e p.render.view m)) pw steps cur [] := by
  rw [C13_figures_describe_the_bound_process]
  unfold renderWorld
  rw [specRunB_map]
  apply specRunB_congr
  intro i p hp m
  obtain ⟨hne, hw, hfs⟩ := hwf p (treeAtG_mem pw i p hp)
  cases m with
  | info =>
    show Ans.nums (memoryInfo cfg e.pagesize (renderStatm p.st)) = _
    rw [(C13_statm e.pagesize p.st).1]; rfl
  | maps =>
    show Ans.rows (memoryMaps cfg e.probe p.zombie (renderSmaps p.ms)) = _
    rw [C13_maps_roundtrip e.probe p.zombie p.ms hne hw hfs]; rfl
  | full =>
    cases hr : e.hasRollup with
    | true => simp only [figures, hr, if_true]
    | false =>
      show Ans.nums (memoryFullInfo cfg e.hasRollup e.pagesize p.render.rollup (renderSmaps p.ms) (renderStatm p.st)) = _
      rw [hr, C13_full_info_sums e.pagesize p.st p.ms p.render.rollup hne hw]
      simp only [figures, hr]; rfl
  | grouped => rfl
  | pct mt tot => rfl

/-- what-if: `_read_smaps_file` opening `f"{get_procfs_path()}/{self.pid}/smaps"` (statm and the
    roll-up still under the captured root) -/
def smapsFromCurrentCfg : BCfg := { bcfg with smapsSrc := .current }

def rowsOf : Ans → Option (List Row)
  | .rows (.ok r) => some r
  | _ => none

def smapsA : Bytes := [49, 45, 50, 32, 114, 32, 48, 32, 48, 58, 48, 32, 48, 32, 10, 82, 115, 115, 58, 32, 52, 32, 107, 66, 10]   -- "1-2 r 0 0:0 0 \nRss: 4 kB\n"
def smapsB : Bytes := [51, 45, 52, 32, 114, 32, 48, 32, 48, 58, 48, 32, 48, 32, 10, 82, 115, 115, 58, 32, 57, 32, 107, 66, 10]   -- "3-4 r 0 0:0 0 \nRss: 9 kB\n"
def worldAB : World := [some ⟨[], smapsA, .enoent, false⟩, some ⟨[], smapsB, .enoent, false⟩]
def envAB : Env := ⟨4096, true, fun _ => .missing⟩

/-- … then the theorem above is false: an object created under tree 0 and asked after PROCFS_PATH
    was re-pointed to tree 1 lists the mappings of the OTHER tree's process (same pid number in
    another PID namespace), while `memory_info()` keeps describing its own (= seeded C13-5). -/
theorem C13_smaps_from_current_root_counterexample :
    (runB cfg smapsFromCurrentCfg envAB worldAB [.new, .point 1, .call 0 .maps] ⟨0, []⟩).map rowsOf
        = [none, none, some [⟨[51, 45, 52], [114], cfg.anonName, [9216, 0, 0, 0, 0, 0, 0, 0, 0, 0]⟩]]
      ∧ (specRunB (fun t m => answerView cfg envAB t.view m) worldAB [.new, .point 1, .call 0 .maps] 0 []).map rowsOf
        = [none, none, some [⟨[49, 45, 50], [114], cfg.anonName, [4096, 0, 0, 0, 0, 0, 0, 0, 0, 0]⟩]] := by
  constructor <;> decide

/-- non-vacuity: the code as it is, same world and history — the object keeps listing tree 0 -/
example : (runB cfg bcfg envAB worldAB [.new, .point 1, .call 0 .maps] ⟨0, []⟩).map rowsOf
    = [none, none, some [⟨[49, 45, 50], [114], cfg.anonName, [4096, 0, 0, 0, 0, 0, 0, 0, 0, 0]⟩]] := by decide

end Psutil.C13
