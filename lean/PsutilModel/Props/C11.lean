/-
  Props/C11.lean — property theorems for C11 (`net_connections()`): only statements the
  property makes; helper lemmas live in Proofs/C11*.lean.

  `cfg` is built from Generated/C11.lean, which the translator rewrites from /repo's source on
  every run. Proof obligations on the generated facts:
  * `cfg_good` — constants, `TCP_STATUSES`, tuple-unpack indices, the UNIX path expression, the inode-merge
    statements, the exception classes / errno names of the `except` clauses of get_proc_inodes / get_all_inodes, the
    two `_Ipv6UnsupportedError` try blocks, and the second argument of each of the four `inet_ntop` calls of
    decode_address (BOTH endianness branches: reversed / swapped on little-endian only);
  * `cfg_tmap_good`, `C11_kind_*` — both kind tables;
  * `cfg_lookup_good` — process_inet / process_unix subscript the shared dict `inodes` only under `inode in inodes`, and
    the dict is created as a `dict` / `defaultdict(list)` (seeded round 5: ONE dict goes through all the tables of a query);
  * `cfg_shapes_good` — the statement lists of every transcribed function (decode_address, get_proc_inodes,
    get_all_inodes, process_inet, process_unix, retrieve, the `readlink` wrapper, `_check_conn_kind` and its call sites).
  The host's endianness is *not* part of `Cfg.Good`: every theorem below holds for both, and the differential run
  executes both (the big-endian branches with `_pslinux.LITTLE_ENDIAN` patched to False).
-/
import PsutilModel.Proofs.C11Rows
import PsutilModel.Proofs.C11Scan
import PsutilModel.Proofs.C11Count
import PsutilModel.Proofs.C11NoV6
import PsutilModel.Proofs.C11Consist
import PsutilModel.Proofs.C11Shared
import PsutilModel.Model.C11Gen
set_option linter.unusedSimpArgs false
namespace Psutil.C11
open Spec

theorem cfg_good : cfg.Good := by constructor <;> decide

/-- **cfg_shapes_good.** The statement lists of the transcribed functions, as re-extracted from the source on this
    run, are the ones `Model/C11.lean` was transcribed from (`Model/C11Gen.lean`, `shapesExpected`). The model does
    not read them: this is the theorem-level tie for everything the finer facts of `cfg_good` do not parametrise
    (`addr.split(':')`, `int(port, 16)`, `if not port`, `startswith('socket:[')`, `inode[8:][:-1]`, `int(fd)`,
    `inodes[inode][0]`, both `filter_pid` tests, `type_ == SOCK_STREAM`, `' ' not in line`, `set()`, `if pid:`, the early
    `return []`, `_check_conn_kind` and its two call sites, the `readlink` wrapper, the default `kind='inet'`). -/
theorem cfg_shapes_good : shapesNow = shapesExpected := by decide

/-- the extracted configuration on a host of either endianness -/
def cfgLE (le : Bool) : Cfg := { cfg with littleEndian := le }

theorem cfgLE_good (le : Bool) : (cfgLE le).Good := by
  have g := cfg_good
  exact ⟨g.afInet, g.afInet6, g.afUnix, g.sockStream, g.connNone, g.statuses, g.inodesExtend,
    g.unixPathRest, g.inetN, g.iLaddr, g.iRaddr, g.iStatus, g.iInode, g.unixN, g.uType, g.uInode, g.ntop6,
    g.linkSkip, g.linkSkipNamed, g.allSkip, g.allSkipNamed, g.v6RaiseUnsupported, g.v6SkipLine,
    g.v4RevLE, g.v4RevBE, g.v6SwapLE, g.v6SwapBE, g.ntopKnown⟩

/-! ## Addresses -/

/-- **C11_addr_roundtrip_v4.** For EVERY IPv4 address (4 bytes), every non-zero port and both host
    endiannesses: what `decode_address` hands to `inet_ntop` from the kernel's `%08X:%04X` text
    (the address word printed as a host-order integer) is the address the socket is bound to. -/
theorem C11_addr_roundtrip_v4 (le : Bool) (b0 b1 b2 b3 port : Nat)
    (h0 : b0 < 256) (h1 : b1 < 256) (h2 : b2 < 256) (h3 : b3 < 256) (hp0 : 0 < port) (hp : port < 65536) :
    decodeAddress (cfgLE le) (renderEndpoint le [b0, b1, b2, b3] port) cfg.afInet
      = .ok (.ip [b0, b1, b2, b3] port) := by
  have hb : ∀ b ∈ [b0, b1, b2, b3], b < 256 := by
    intro b hm; simp at hm; rcases hm with h | h | h | h <;> subst h <;> assumption
  have := decode_v4 (cfgLE le) (cfgLE_good le) [b0, b1, b2, b3] rfl hb port hp
  have hne : port ≠ 0 := by omega
  simpa [endpoint, hne, cfg_good.afInet, cfgLE] using this

/-- **C11_addr_roundtrip_v6.** The same for EVERY IPv6 address (16 bytes: mapped, link-local,
    all-zero, anything): four `%08X` words, each in host order. -/
theorem C11_addr_roundtrip_v6 (le : Bool) (ip : List Nat) (port : Nat) (hl : ip.length = 16)
    (hb : ∀ b ∈ ip, b < 256) (hp0 : 0 < port) (hp : port < 65536) :
    decodeAddress (cfgLE le) (renderEndpoint le ip port) cfg.afInet6 = .ok (.ip ip port) := by
  have := decode_v6 (cfgLE le) (cfgLE_good le) ip hl hb port hp
  have hne : port ≠ 0 := by omega
  simpa [endpoint, hne, cfg_good.afInet6, cfgLE] using this

/-- **C11_port_zero_empty.** Port 0 gives the empty tuple, whatever the address column holds and
    whatever the family. -/
theorem C11_port_zero_empty (le : Bool) (ip : List Nat) (family : Nat) :
    decodeAddress (cfgLE le) (renderEndpoint le ip 0) family = .ok .empty := by
  unfold decodeAddress
  rw [splitOn_endpoint]
  simp [parseHex_hexW4 0 (by decide)]

/-! ### pinned vectors: the byte-order convention of the kernel-side renderer

  `decode_address`'s docstring documents two lines of a little-endian kernel: `"0500000A:0016"` is 10.0.0.5 port 22 and
  `"0000000000000000FFFF00000100007F:9E49"` is ::ffff:127.0.0.1 port 40521. The renderer of Spec/C11.lean produces exactly
  these texts for these sockets (and the byte-wise text on a big-endian host); the harness additionally compares the
  renderer with the running kernel's line for a socket it has just bound (`live_socket_check`). -/

def v6Mapped : List Nat := [0, 0, 0, 0, 0, 0, 0, 0, 0, 0, 255, 255, 127, 0, 0, 1]

example : renderEndpoint true [10, 0, 0, 5] 22 = lit "0500000A:0016" := by decide
example : renderEndpoint true v6Mapped 40521 = lit "0000000000000000FFFF00000100007F:9E49" := by decide
example : renderEndpoint false [10, 0, 0, 5] 22 = lit "0A000005:0016" := by decide
example : renderEndpoint false v6Mapped 40521 = lit "00000000000000000000FFFF7F000001:9E49" := by decide
example : renderEndpoint true [127, 0, 0, 1] 0 = lit "0100007F:0000" := by decide

/-- **C11_docstring_vectors.** The two documented examples, as literal text: on a little-endian host
    `decode_address("0500000A:0016", AF_INET)` hands `10.0.0.5`, port 22 to `inet_ntop`, and
    `decode_address("0000000000000000FFFF00000100007F:9E49", AF_INET6)` hands `::ffff:127.0.0.1`, port 40521. -/
theorem C11_docstring_vectors :
    decodeAddress (cfgLE true) (lit "0500000A:0016") cfg.afInet = .ok (.ip [10, 0, 0, 5] 22)
    ∧ decodeAddress (cfgLE true) (lit "0000000000000000FFFF00000100007F:9E49") cfg.afInet6 = .ok (.ip v6Mapped 40521) := by
  have e1 : lit "0500000A:0016" = renderEndpoint true [10, 0, 0, 5] 22 := by decide
  have e2 : lit "0000000000000000FFFF00000100007F:9E49" = renderEndpoint true v6Mapped 40521 := by decide
  rw [e1, e2]
  exact ⟨C11_addr_roundtrip_v4 true 10 0 0 5 22 (by decide) (by decide) (by decide) (by decide) (by decide) (by decide),
    C11_addr_roundtrip_v6 true v6Mapped 40521 (by decide) (by decide) (by decide) (by decide)⟩

/-- the same two sockets as a big-endian kernel prints them (address words in network order) -/
theorem C11_docstring_vectors_big_endian :
    decodeAddress (cfgLE false) (lit "0A000005:0016") cfg.afInet = .ok (.ip [10, 0, 0, 5] 22)
    ∧ decodeAddress (cfgLE false) (lit "00000000000000000000FFFF7F000001:9E49") cfg.afInet6 = .ok (.ip v6Mapped 40521) := by
  have e1 : lit "0A000005:0016" = renderEndpoint false [10, 0, 0, 5] 22 := by decide
  have e2 : lit "00000000000000000000FFFF7F000001:9E49" = renderEndpoint false v6Mapped 40521 := by decide
  rw [e1, e2]
  exact ⟨C11_addr_roundtrip_v4 false 10 0 0 5 22 (by decide) (by decide) (by decide) (by decide) (by decide) (by decide),
    C11_addr_roundtrip_v6 false v6Mapped 40521 (by decide) (by decide) (by decide) (by decide)⟩

/-! ## Status -/

/-- **C11_status_map.** Each of the 11 TCP states, printed `%02X` by the kernel, is mapped by the
    extracted `TCP_STATUSES` to that state's name. -/
theorem C11_status_map (st : Nat) (h1 : 1 ≤ st) (h2 : st ≤ 11) :
    ∃ name, stateName st = some name ∧ cfg.tcpStatuses.lookup (hexW 2 st) = some name := by
  obtain ⟨n, hn⟩ := stateName_some st h1 h2
  exact ⟨n, hn, by rw [cfg_good.status st h1 h2, hn]⟩

/-- the names are pairwise different (no two states are confused) -/
theorem C11_status_injective (a b : Nat) (ha : 1 ≤ a ∧ a ≤ 11) (hb : 1 ≤ b ∧ b ≤ 11)
    (h : stateName a = stateName b) : a = b := by
  obtain ⟨a1, a2⟩ := ha
  obtain ⟨b1, b2⟩ := hb
  have hA : a = 1 ∨ a = 2 ∨ a = 3 ∨ a = 4 ∨ a = 5 ∨ a = 6 ∨ a = 7 ∨ a = 8 ∨ a = 9 ∨ a = 10 ∨ a = 11 := by omega
  have hB : b = 1 ∨ b = 2 ∨ b = 3 ∨ b = 4 ∨ b = 5 ∨ b = 6 ∨ b = 7 ∨ b = 8 ∨ b = 9 ∨ b = 10 ∨ b = 11 := by omega
  rcases hA with e | e | e | e | e | e | e | e | e | e | e <;> subst e <;>
    rcases hB with f | f | f | f | f | f | f | f | f | f | f <;> subst f <;>
    first | rfl | (exact absurd h (by decide))

/-! ## Kinds -/

/-- does `tmap[kind]` read a file holding sockets of this family and type? (`None` = any type) -/
def tmapSelects (c : Cfg) (kind : String) (family typ : Nat) : Bool :=
  match c.tmap.lookup kind with
  | some es => es.any fun e => e.2.1 == family && (e.2.2 == none || e.2.2 == some typ)
  | none => false

/-- does the front-end table `conn_tmap[kind]` list this family and type? -/
def connSelects (kind : String) (family typ : Nat) : Bool :=
  match Gen.C11.connTmap.lookup kind with
  | some (fams, types) => fams.contains family && types.contains typ
  | none => false

def allFams : List Fam := [.inet4, .inet6, .unix]
/-- every socket type Linux defines (STREAM, DGRAM, RAW, RDM, SEQPACKET, DCCP, PACKET) -/
def allTypes : List Nat := [1, 2, 3, 4, 5, 6, 10]

/-- **C11_kind_keys.** The kinds the front end accepts, the kinds the Linux back end knows and the
    11 documented kinds are the same set. -/
theorem C11_kind_keys (k : String) :
    (k ∈ cfg.connKinds ↔ k ∈ kinds) ∧ ((cfg.tmap.lookup k).isSome ↔ k ∈ kinds) := by
  have h1 : cfg.connKinds.all (fun k => kinds.contains k) = true := by decide
  have h2 : kinds.all (fun k => cfg.connKinds.contains k) = true := by decide
  have h3 : (cfg.tmap.map (·.1)).all (fun k => kinds.contains k) = true := by decide
  have h4 : kinds.all (fun k => (cfg.tmap.lookup k).isSome) = true := by decide
  refine ⟨⟨fun h => ?_, fun h => ?_⟩, ⟨fun h => ?_, fun h => ?_⟩⟩
  · simpa using List.all_eq_true.mp h1 k h
  · simpa using List.all_eq_true.mp h2 k h
  · have : k ∈ cfg.tmap.map (·.1) := by
      cases hl : cfg.tmap.lookup k with
      | none => rw [hl] at h; cases h
      | some v =>
        clear h h1 h2 h3 h4
        generalize cfg.tmap = m at hl
        induction m with
        | nil => cases hl
        | cons a as ih =>
          simp only [List.lookup] at hl
          split at hl
          · rename_i heq; simp at heq; simp [heq]
          · simp [ih hl]
    simpa using List.all_eq_true.mp h3 k this
  · exact List.all_eq_true.mp h4 k h

/-- **C11_kind_table.** For each of the 11 kinds, every family and every socket type: the Linux
    table `tmap` (as extracted) selects a socket class exactly when the documented meaning of the
    kind does — TCP = inet stream, UDP = inet datagram, UNIX = AF_UNIX of any type. -/
theorem C11_kind_table (k : String) (hk : k ∈ kinds) (f : Fam) (typ : Nat) (ht : typ ∈ allTypes) :
    tmapSelects cfg k f.num typ = kindSelects k f typ := by
  have h : kinds.all (fun k => allFams.all fun f => allTypes.all fun t =>
      tmapSelects cfg k f.num t == kindSelects k f t) = true := by decide
  have hf : f ∈ allFams := by cases f <;> simp [allFams]
  have := List.all_eq_true.mp (List.all_eq_true.mp (List.all_eq_true.mp h k hk) f hf) typ ht
  simpa using this

/-- **C11_kind_table_front.** The front-end table `conn_tmap` agrees with it on TCP/UDP; for
    AF_UNIX it lists the family (its type list `[STREAM, DGRAM]` is narrower than what Linux
    returns: SEQPACKET sockets are UNIX sockets too and are returned). -/
theorem C11_kind_table_front (k : String) (hk : k ∈ kinds) (f : Fam) (typ : Nat) (ht : typ ∈ allTypes) :
    (f ≠ .unix → connSelects k f.num typ = kindSelects k f typ) ∧
    (f = .unix → (connSelects k f.num 1 = kindSelects k f typ ∧ connSelects k f.num 2 = kindSelects k f typ)) := by
  have h : kinds.all (fun k => allFams.all fun f => allTypes.all fun t =>
      (if f = .unix then connSelects k f.num 1 == kindSelects k f t && connSelects k f.num 2 == kindSelects k f t
       else connSelects k f.num t == kindSelects k f t)) = true := by decide
  have hf : f ∈ allFams := by cases f <;> simp [allFams]
  have := List.all_eq_true.mp (List.all_eq_true.mp (List.all_eq_true.mp h k hk) f hf) typ ht
  constructor
  · intro hne; simpa [hne] using this
  · intro he; simpa [he] using this

/-- **C11_kind_files.** Every entry of every `tmap[kind]` names the file that holds its class
    (`tcp` ↔ AF_INET/STREAM, `tcp6` ↔ AF_INET6/STREAM, `udp` ↔ AF_INET/DGRAM, `udp6` ↔ AF_INET6/DGRAM,
    `unix` ↔ AF_UNIX/any). -/
theorem C11_kind_files (k : String) (es : List TEntry) (h : cfg.tmap.lookup k = some es) :
    ∀ e ∈ es, e ∈ canonicalEntries := by
  have hall : cfg.tmap.all (fun kv => kv.2.all fun e => canonicalEntries.contains e) = true := by decide
  intro e he
  have hm : (k, es) ∈ cfg.tmap := by
    clear hall
    generalize cfg.tmap = m at h
    induction m with
    | nil => cases h
    | cons a as ih =>
      simp only [List.lookup] at h
      split at h
      · rename_i heq
        have hk : k = a.1 := by simpa using heq
        have hv : a.2 = es := by simpa using h
        rw [hk, ← hv]; simp
      · simp [ih h]
  simpa using List.all_eq_true.mp (List.all_eq_true.mp hall _ hm) e he

/-- **C11_unknown_kind_ValueError.** Any string that is not one of the 11 kinds makes both the
    system-wide and the per-process form raise ValueError, before anything is read. -/
theorem C11_unknown_kind_ValueError (le : Bool) (fs : ProcFs) (kind : String) (pid : Option Nat)
    (h : kind ∉ kinds) : netConnections (cfgLE le) fs kind pid = .error .valueError := by
  have : kind ∉ (cfgLE le).connKinds := fun hm => h ((C11_kind_keys kind).1.mp hm)
  simp [netConnections, this]

/-- **C11_unknown_kind_ValueError_E.** The same for the errno-explicit functions the driver runs: whatever the file
    system does (failing listings, EIO …), an unknown kind is a ValueError — nothing has been read yet. -/
theorem C11_unknown_kind_ValueError_E (le : Bool) (fs : ProcFsE) (kind : String) (pid : Option Nat)
    (h : kind ∉ kinds) : netConnectionsE (cfgLE le) fs kind pid = .error .valueError := by
  have : kind ∉ (cfgLE le).connKinds := fun hm => h ((C11_kind_keys kind).1.mp hm)
  simp [netConnectionsE, this]

/-- …and each of the 11 kinds passes the check and reaches its `tmap` entry -/
theorem C11_known_kind_accepted (le : Bool) (fs : ProcFs) (kind : String) (pid : Option Nat)
    (h : kind ∈ kinds) : netConnections (cfgLE le) fs kind pid = retrieve (cfgLE le) fs kind pid := by
  have : kind ∈ (cfgLE le).connKinds := (C11_kind_keys kind).1.mpr h
  simp [netConnections, this]

/-! ## Lines and files -/

/-- **C11_inet_line.** Every line the kernel can print in net/tcp, tcp6, udp, udp6 — any address,
    port, state, queue sizes, uid, inode, slot number, either endianness — is parsed into exactly
    the promised tuple: family, type, both endpoints (empty for port 0), the state's name for TCP
    and NONE for UDP, and the owner found under the line's inode. -/
theorem C11_inet_line (le : Bool) (s : Sock) (hi : IsInet s) (hwf : s.WF) (sl : Nat) (inodes : Inodes)
    (fp : Option Nat) :
    processInetLine (cfgLE le) s.fam.num s.typ inodes fp (inetLine le (s.typ == 1) sl s) =
      match pidFd inodes (renderDec s.inode) with
      | .error e => .error e
      | .ok (pid, fd) => if filteredOut fp pid then .ok none else .ok (some (rowFor s pid fd)) :=
  processInetLine_render (cfgLE le) (cfgLE_good le) s hi hwf sl inodes fp

/-- full statement about UNIX lines: one tuple per owner, each with the bound name exactly as the
    kernel shows it — whatever bytes (blanks included) the name is made of -/
def UnixLineFull (c : Cfg) : Prop :=
  ∀ (s : Sock), s.fam = .unix → s.WF → ∀ (inodes : Inodes) (fp : Option Nat),
    processUnixLine c inodes fp (unixLine s) =
      .ok (((ownerPairs inodes (renderDec s.inode)).filter (fun p => !filteredOut fp p.1)).map
        (fun p => rowFor s p.1 p.2))

/-- **C11_unix_line.** Holds for the extracted configuration (path = rest of the line). -/
theorem C11_unix_line (le : Bool) : UnixLineFull (cfgLE le) :=
  fun s hu hwf inodes fp => processUnixLine_render (cfgLE le) (cfgLE_good le) s hu hwf inodes fp

/-- the configuration of the code before `fix: … name contains a blank` -/
def cfgOldPath : Cfg := { cfg with unixPathRest := false }

/-- lead L11: a stream socket bound to `/tmp/my sock` -/
def sockL11 : Sock :=
  { fam := .unix, typ := 1, lip := [], lport := 0, rip := [], rport := 0, state := 1,
    path := some (lit "/tmp/my sock"), inode := 20001, txq := 0, rxq := 0, uid := 0, refcnt := 2,
    flags := 65536 }

theorem l11_line : unixLine sockL11
    = lit "0000000000000000: 00000002 00000000 00010000 0001 01 20001 /tmp/my sock" := by
  simp [unixLine, unixFields, sockL11, renderDec, renderRadix, renderRadixAux, decimal, fieldsLine, hexW,
    padTo, hexChr]
  decide

/-- **C11_unix_path_space_counterexample.** With `tokens[-1] if len(tokens) == 8 else ''` the full
    statement is false: the socket bound to `/tmp/my sock` comes back with `laddr = ''`. -/
theorem C11_unix_path_space_counterexample : ¬ UnixLineFull cfgOldPath := by
  intro h
  have hwf : sockL11.WF := by
    simp only [Sock.WF, sockL11]
    refine ⟨by decide, ?_⟩
    intro p hp
    cases hp
    decide
  have := h sockL11 rfl hwf [] none
  rw [l11_line] at this
  have h2 := congrArg Except.toOption this
  revert h2
  simp only [rowFor, baseRow, sockL11]
  decide

/-! ## Owners -/

/-- full statement about the owner map: for every socket inode it holds exactly the visible
    `(pid, fd)` holders of that socket — all processes, all descriptors, in listing order -/
def OwnerFull (c : Cfg) : Prop :=
  ∀ (le : Bool) (w : World), w.WF → ∀ i : Nat,
    sem (getAllInodes c (renderWorld le w).procs) (renderDec i) = holders w i

/-- **C11_owner.** Holds for the extracted configuration (per-process lists are merged). Together
    with the line theorems: a held socket carries a holder's PID and descriptor number, a UNIX
    socket one row per holder, a socket without visible holder `pid None, fd -1`. -/
theorem C11_owner (le : Bool) : OwnerFull (cfgLE le) := by
  intro le' w hw i
  rw [(getAllInodes_spec (cfgLE le) (cfgLE_good le).inodesExtend _).1, allHits_render le' w hw i]

/-- …and the map never holds an empty list, so `inodes[inode][0]` cannot fail -/
theorem C11_owner_nonempty (le : Bool) (procs : List (Nat × Option (List FdEntry))) (k : Bytes)
    (l : List (Nat × Nat)) (h : (getAllInodes (cfgLE le) procs).lookup k = some l) : l ≠ [] :=
  (getAllInodes_spec (cfgLE le) (cfgLE_good le).inodesExtend procs).2 k l h

/-- the same for the per-process form: exactly the process' own descriptors on that socket -/
theorem C11_owner_per_process (pid i : Nat) (fds : List (Nat × Target)) (hw : ∀ e ∈ fds, e.2.WF) :
    sem (getProcInodes pid (renderFds fds)) (renderDec i)
      = fds.filterMap fun e => if e.2 = .sock i then some (pid, e.1) else none := by
  rw [(getProcInodes_spec pid (renderFds fds)).1, hits_render pid i fds hw]

/-- the configuration of the code before `fix: … socket shared by several processes` -/
def cfgOldMerge : Cfg := { cfg with inodesExtend := false }

/-- lead L12: socket 7 open as fd 3 in PID 10 and as fd 5 in PID 20 -/
def worldL12 : World :=
  { socks := [], procs := [(10, some [(3, .sock 7)]), (20, some [(5, .sock 7)])], v6 := true }

/-- **C11_shared_socket_counterexample.** With `inodes.update(...)` the full statement is false:
    the holder in PID 10 is forgotten. -/
theorem C11_shared_socket_counterexample : ¬ OwnerFull cfgOldMerge := by
  intro h
  have hw : worldL12.WF := by
    refine ⟨(by intro s hs; cases hs), ?_, (by intro _ s hs; cases hs)⟩
    intro p hp fds hfd e he
    simp only [worldL12, List.mem_cons, List.not_mem_nil, or_false] at hp
    rcases hp with rfl | rfl <;> simp at hfd <;> subst hfd <;> simp at he <;> subst he <;> trivial
  have := h true worldL12 hw 7
  have e7 : renderDec 7 = [55] := by simp [renderDec, renderRadix, renderRadixAux, decimal]
  simp only [renderWorld, worldL12, List.map, Option.map, renderTarget, e7] at this
  revert this
  decide

/-! ## Rows -/

/-- the table facts `retrieve` relies on, re-proved from the generated tables: every `tmap[kind]`
    consists of canonical `(file, family, type)` entries, without repetition, and contains the entry
    of a class exactly when the documented kind asks for that class; every kind is accepted by the
    front end -/
theorem cfg_tmap_good : cfg.TmapGood := by
  constructor <;> decide

theorem cfgLE_tmap_good (le : Bool) : (cfgLE le).TmapGood := cfg_tmap_good

/-- **C11_rows_exact.** System-wide form. For EVERY well-formed world (any socket table: all
    addresses, ports, states, UNIX names; any descriptor tables incl. unlistable processes, vanished
    links, sockets shared by many processes, sockets held by nobody; IPv6 present or not), either
    endianness and each of the 11 kinds, `psutil.net_connections(kind)` over the rendered procfs
    returns rows that the specification accepts: every row is the promised tuple of a requested
    socket with one of its visible holders (or `None, -1` when it has none); every requested socket
    is there — once per holder for UNIX sockets, with one of its holders for TCP/UDP; no row twice,
    and not more rows than sockets (× holders for UNIX). -/
theorem C11_rows_exact (le : Bool) (w : World) (hw : w.WF) (kind : String) (hk : kind ∈ kinds) :
    ∃ rows, netConnections (cfgLE le) (renderWorld le w) kind none = .ok rows
      ∧ Accepts (expects w ⟨kind, none⟩) rows :=
  netConnections_system (cfgLE le) (cfgLE_good le) (cfgLE_tmap_good le) w hw kind hk

/-- **C11_rows_exact_process.** Per-process form `Process(pid).net_connections(kind)` for a listed
    process (PIDs are listed once) whose descriptors can be listed. -/
theorem C11_rows_exact_process (le : Bool) (w : World) (hw : w.WF) (hn : (w.procs.map (·.1)).Nodup)
    (kind : String) (hk : kind ∈ kinds) (p : Nat) (fds : List (Nat × Target))
    (hl : w.procs.lookup (p + 1) = some (some fds)) :
    ∃ rows, netConnections (cfgLE le) (renderWorld le w) kind (some (p + 1)) = .ok rows
      ∧ Accepts (expects w ⟨kind, some (p + 1)⟩) rows :=
  netConnections_process (cfgLE le) (cfgLE_good le) (cfgLE_tmap_good le) w hw hn kind hk p fds hl

/-- **C11_per_process_only_own.** Every row of the per-process form is a socket of the requested
    kind that this very process holds, under the descriptor number the row carries. -/
theorem C11_per_process_only_own (le : Bool) (w : World) (hw : w.WF) (hn : (w.procs.map (·.1)).Nodup)
    (kind : String) (hk : kind ∈ kinds) (p : Nat) (fds : List (Nat × Target))
    (hl : w.procs.lookup (p + 1) = some (some fds)) :
    ∃ rows, netConnections (cfgLE le) (renderWorld le w) kind (some (p + 1)) = .ok rows ∧
      ∀ r ∈ rows, ∃ s ∈ w.socks, kindSelects kind s.fam s.typ = true ∧
        ∃ fd : Nat, (p + 1, fd) ∈ holders w s.inode ∧ r = rowOf s (none, (fd : Int)) := by
  obtain ⟨rows, h1, h2⟩ := C11_rows_exact_process le w hw hn kind hk p fds hl
  refine ⟨rows, h1, fun r hr => ?_⟩
  obtain ⟨e, he, o, ho, rfl⟩ := h2.justified r hr
  obtain ⟨s, hs, hsel, hes⟩ := (mem_expects w _ e).mp he
  rw [expectOf_eq] at hes
  by_cases h0 : owners w ⟨kind, some (p + 1)⟩ s.inode = []
  · simp [h0] at hes
  · simp only [h0, if_false, Option.some.injEq] at hes
    subst hes
    simp only [owners, List.mem_map, List.mem_filter] at ho
    obtain ⟨h, ⟨hh, hp⟩, rfl⟩ := ho
    have hp' : h.1 = p + 1 := by simpa using hp
    exact ⟨s, hs, hsel, h.2, by rw [← hp']; exact hh, rfl⟩

/-- **C11_unix_row_per_holder.** System-wide: a requested UNIX socket yields one row for EACH of its
    visible holders `(pid, fd)` — however many processes share it. -/
theorem C11_unix_row_per_holder (le : Bool) (w : World) (hw : w.WF) (kind : String) (hk : kind ∈ kinds)
    (s : Sock) (hs : s ∈ w.socks) (hu : s.fam = .unix) (hsel : kindSelects kind s.fam s.typ = true)
    (pid fd : Nat) (hh : (pid, fd) ∈ holders w s.inode) :
    ∃ rows, netConnections (cfgLE le) (renderWorld le w) kind none = .ok rows
      ∧ rowOf s (some pid, (fd : Int)) ∈ rows := by
  obtain ⟨rows, h1, h2⟩ := C11_rows_exact le w hw kind hk
  refine ⟨rows, h1, ?_⟩
  have hne : holders w s.inode ≠ [] := fun h => by rw [h] at hh; cases hh
  have hO : owners w ⟨kind, none⟩ s.inode = (holders w s.inode).map fun h => (some h.1, (h.2 : Int)) := by
    simp only [owners]
    cases h : holders w s.inode with
    | nil => exact absurd h hne
    | cons a as => simp
  have hne' : owners w ⟨kind, none⟩ s.inode ≠ [] := by
    rw [hO]; intro h; exact hne (List.map_eq_nil_iff.mp h)
  have he : (⟨baseRow s, owners w ⟨kind, none⟩ s.inode, s.fam == .unix⟩ : Expect) ∈ expects w ⟨kind, none⟩ := by
    rw [mem_expects]; exact ⟨s, hs, hsel, by rw [expectOf_eq]; simp [hne']⟩
  have := h2.covered _ he
  have hb : (s.fam == Fam.unix) = true := by simpa using hu
  simp only [hb, if_true] at this
  exact this (some pid, (fd : Int)) (by rw [hO]; exact List.mem_map.mpr ⟨(pid, fd), hh, rfl⟩)

/-- **C11_no_holder_none.** System-wide: a requested socket with no visible holder (its owner's
    descriptors cannot be listed, or nobody holds it) is returned with `pid None, fd -1`. -/
theorem C11_no_holder_none (le : Bool) (w : World) (hw : w.WF) (kind : String) (hk : kind ∈ kinds)
    (s : Sock) (hs : s ∈ w.socks) (hsel : kindSelects kind s.fam s.typ = true)
    (hh : holders w s.inode = []) :
    ∃ rows, netConnections (cfgLE le) (renderWorld le w) kind none = .ok rows
      ∧ rowOf s (none, -1) ∈ rows := by
  obtain ⟨rows, h1, h2⟩ := C11_rows_exact le w hw kind hk
  refine ⟨rows, h1, ?_⟩
  have hO : owners w ⟨kind, none⟩ s.inode = [(none, -1)] := by simp [owners, hh]
  have he : (⟨baseRow s, [(none, -1)], s.fam == .unix⟩ : Expect) ∈ expects w ⟨kind, none⟩ := by
    rw [mem_expects]; exact ⟨s, hs, hsel, by rw [expectOf_eq, hO]; simp⟩
  have := h2.covered _ he
  by_cases hu : s.fam = .unix
  · have hb : (s.fam == Fam.unix) = true := by simpa using hu
    simp only [hb, if_true] at this
    exact this (none, -1) (by simp)
  · have hb : (s.fam == Fam.unix) = false := by simpa using hu
    simp only [hb, Bool.false_eq_true, if_false] at this
    obtain ⟨o, ho, hr⟩ := this
    simp at ho; subst ho; exact hr

/-! ## Descriptor races and errors (`os.listdir` / `os.readlink` failing) -/

/-- **C11_scan_never_fails.** System-wide form over EVERY world in which the two system calls may
    fail in the "cannot be inspected" ways — `readlink` of any descriptor with ENOENT, ESRCH (closed /
    process gone), EINVAL (not a link), ENAMETOOLONG, EACCES, EPERM (process not ours any more);
    `listdir` of any process with ENOENT, ESRCH, EACCES, EPERM: `psutil.net_connections(kind)` does
    not fail, and returns the rows promised for the part of the world that can be inspected
    (`WorldE.view`: a failing descriptor is no holder; an unlistable or denied process holds nothing). -/
theorem C11_scan_never_fails (le : Bool) (w : WorldE) (hw : w.view.WF) (hi : w.Inspectable)
    (kind : String) (hk : kind ∈ kinds) :
    ∃ rows, netConnectionsE (cfgLE le) (renderWorldE le w) kind none = .ok rows
      ∧ Accepts (expects w.view ⟨kind, none⟩) rows :=
  scan_system (cfgLE le) (cfgLE_good le) (cfgLE_tmap_good le) w hw hi kind hk

/-- **C11_scan_no_holder.** What `view` keeps: a `(pid, fd)` is a holder only if the process could
    be listed, none of its descriptors was denied, and this very descriptor was read and is the
    socket — so a descriptor or process that cannot be inspected contributes no holder. -/
theorem C11_scan_no_holder (w : WorldE) (i pid fd : Nat) (h : (pid, fd) ∈ holders w.view i) :
    ∃ fds, (pid, Except.ok fds) ∈ w.procs ∧ deniedIn fds = false ∧ (fd, TargetE.sock i) ∈ fds := by
  simp only [holders, WorldE.view, List.mem_flatMap, List.mem_map] at h
  obtain ⟨p, ⟨p0, hp0, rfl⟩, hx⟩ := h
  obtain ⟨pid0, l⟩ := p0
  cases l with
  | error e => simp [viewProc] at hx
  | ok fds =>
    cases hd : deniedIn fds with
    | true => simp [viewProc, hd] at hx
    | false =>
      simp only [viewProc, hd, Bool.false_eq_true, if_false, List.mem_filterMap, List.mem_map] at hx
      obtain ⟨x, ⟨y, hy, rfl⟩, hx2⟩ := hx
      obtain ⟨fd0, t⟩ := y
      by_cases hs : t.view = .sock i
      · simp only [hs, if_true, Option.some.injEq, Prod.mk.injEq] at hx2
        obtain ⟨rfl, rfl⟩ := hx2
        refine ⟨fds, hp0, hd, ?_⟩
        cases t with
        | sock j => simp only [TargetE.view, Target.sock.injEq] at hs; subst hs; exact hy
        | other b => cases hs
        | fail e => cases hs
      · simp [hs] at hx2

/-- **C11_scan_process.** Per-process form: the process' own descriptors can be listed and fail, if
    at all, by vanishing (other processes are not looked at, whatever their state): the promised
    rows of that process. -/
theorem C11_scan_process (le : Bool) (w : WorldE) (hw : w.view.WF) (hn : (w.procs.map (·.1)).Nodup)
    (kind : String) (hk : kind ∈ kinds) (p : Nat) (fds : List (Nat × TargetE))
    (hl : w.procs.lookup (p + 1) = some (.ok fds)) (hf : FdsInspectable fds) (hd : deniedIn fds = false) :
    ∃ rows, netConnectionsE (cfgLE le) (renderWorldE le w) kind (some (p + 1)) = .ok rows
      ∧ Accepts (expects w.view ⟨kind, some (p + 1)⟩) rows :=
  scan_process (cfgLE le) (cfgLE_good le) (cfgLE_tmap_good le) w hw hn kind hk p fds hl hf hd

/-- **C11_scan_process_error.** Per-process form when `get_proc_inodes` raises (over ANY file
    system): PermissionError (listing or a descriptor denied) surfaces as AccessDenied,
    ProcessLookupError as NoSuchProcess, anything else unchanged. -/
theorem C11_scan_process_error (le : Bool) (fs : ProcFsE) (kind : String) (hk : kind ∈ kinds) (p : Nat)
    (l : ListRes) (hl : fs.procs.lookup (p + 1) = some l) (x : Exc)
    (hx : getProcInodesE (cfgLE le) (p + 1) l = .error x) :
    netConnectionsE (cfgLE le) fs kind (some (p + 1)) =
      match x with
      | .permissionError => .error .accessDenied
      | .processLookup => .error .noSuchProcess
      | x => .error x := by
  have hin : ¬ kind ∉ (cfgLE le).connKinds := fun h => h ((C11_kind_keys kind).1.mpr hk)
  simp only [netConnectionsE, hin, if_false, retrieveE, hl, hx]
  cases x <;> rfl

/-- a denied listing (EACCES / EPERM) gives AccessDenied, ESRCH gives NoSuchProcess -/
theorem C11_scan_process_denied (le : Bool) (fs : ProcFsE) (kind : String) (hk : kind ∈ kinds) (p : Nat)
    (e : Errno) (hl : fs.procs.lookup (p + 1) = some (.error e)) :
    (errDenied e = true → netConnectionsE (cfgLE le) fs kind (some (p + 1)) = .error .accessDenied)
    ∧ (e = .esrch → netConnectionsE (cfgLE le) fs kind (some (p + 1)) = .error .noSuchProcess) := by
  constructor
  · intro hd
    have hx : getProcInodesE (cfgLE le) (p + 1) (.error e) = .error .permissionError := by
      cases e <;> simp [errDenied] at hd <;> rfl
    rw [C11_scan_process_error le fs kind hk p _ hl _ hx]
  · intro he; subst he
    rw [C11_scan_process_error le fs kind hk p _ hl .processLookup rfl]

/-- the statement without the restriction to "cannot be inspected" errnos -/
def ScanNeverFailsFull (c : Cfg) : Prop :=
  ∀ (le : Bool) (w : WorldE), w.view.WF → ∀ kind ∈ kinds,
    ∃ rows, netConnectionsE c (renderWorldE le w) kind none = .ok rows

/-- one process whose descriptor 3 cannot be read: EIO -/
def worldEIO : WorldE := { socks := [], procs := [(10, .ok [(3, .fail (.other 5))])], v6 := true }

/-- **C11_scan_fatal_errno_propagates.** Any other errno (EIO, ENOMEM, EMFILE, ELOOP …) of a
    `readlink` is re-raised by `get_proc_inodes`, is not caught by `get_all_inodes`, and fails the
    system-wide call with that OSError. -/
theorem C11_scan_fatal_errno_propagates (le : Bool) (kind : String) (hk : kind ∈ kinds) :
    netConnectionsE (cfgLE le) (renderWorldE le worldEIO) kind none = .error (.osError 5) := by
  have hin : ¬ kind ∉ (cfgLE le).connKinds := fun h => h ((C11_kind_keys kind).1.mpr hk)
  have h : getAllInodesE (cfgLE le) (renderWorldE le worldEIO).procs = .error (.osError 5) := rfl
  simp only [netConnectionsE, hin, if_false, retrieveE, h]

theorem C11_scan_never_fails_Full_false (le : Bool) : ¬ ScanNeverFailsFull (cfgLE le) := by
  intro h
  have hw : worldEIO.view.WF := by
    refine ⟨(by intro s hs; cases hs), ?_, (by intro _ s hs; cases hs)⟩
    intro p hp fds hfd e he
    simp only [worldEIO, WorldE.view, List.map_cons, List.map_nil, List.mem_cons, List.not_mem_nil, or_false] at hp
    subst hp
    simp [viewProc, deniedIn, errDenied] at hfd
    subst hfd
    simp [TargetE.view] at he
    subst he
    trivial
  obtain ⟨rows, hr⟩ := h le worldEIO hw "all" (by decide)
  rw [C11_scan_fatal_errno_propagates le "all" (by decide)] at hr
  cases hr

/-! ## Multiplicity -/

/-- **C11_rows_count.** The NUMBER of rows: when no two requested sockets can yield the same row
    (`Distinct`: the sockets differ in class, an address, a port or the state, or in their holders),
    the system-wide form returns exactly one row per requested socket — one per holder for UNIX
    sockets. Nothing is assumed about inode numbers: any number of sockets may share inode 0
    (`World.WF` does not constrain inodes), each of them is a row of its own. -/
theorem C11_rows_count (le : Bool) (w : World) (hw : w.WF) (kind : String) (hk : kind ∈ kinds)
    (hd : Distinct (expects w ⟨kind, none⟩)) :
    ∃ rows, netConnections (cfgLE le) (renderWorld le w) kind none = .ok rows
      ∧ rows.length = ((expects w ⟨kind, none⟩).map Expect.count).sum := by
  obtain ⟨rows, h1, h2⟩ := C11_rows_exact le w hw kind hk
  exact ⟨rows, h1, Accepts.length_eq h2 hd⟩

/-- the same for the per-process form -/
theorem C11_rows_count_process (le : Bool) (w : World) (hw : w.WF) (hn : (w.procs.map (·.1)).Nodup)
    (kind : String) (hk : kind ∈ kinds) (p : Nat) (fds : List (Nat × Target))
    (hl : w.procs.lookup (p + 1) = some (some fds)) (hd : Distinct (expects w ⟨kind, some (p + 1)⟩)) :
    ∃ rows, netConnections (cfgLE le) (renderWorld le w) kind (some (p + 1)) = .ok rows
      ∧ rows.length = ((expects w ⟨kind, some (p + 1)⟩).map Expect.count).sum := by
  obtain ⟨rows, h1, h2⟩ := C11_rows_exact_process le w hw hn kind hk p fds hl
  exact ⟨rows, h1, Accepts.length_eq h2 hd⟩

/-- …and with failing descriptors / processes -/
theorem C11_rows_count_scan (le : Bool) (w : WorldE) (hw : w.view.WF) (hi : w.Inspectable)
    (kind : String) (hk : kind ∈ kinds) (hd : Distinct (expects w.view ⟨kind, none⟩)) :
    ∃ rows, netConnectionsE (cfgLE le) (renderWorldE le w) kind none = .ok rows
      ∧ rows.length = ((expects w.view ⟨kind, none⟩).map Expect.count).sum := by
  obtain ⟨rows, h1, h2⟩ := C11_scan_never_fails le w hw hi kind hk
  exact ⟨rows, h1, Accepts.length_eq h2 hd⟩

/-- a TIME_WAIT connection to local port 8080 from remote port `rport`: the kernel shows inode 0 -/
def sockTW (rport : Nat) : Sock :=
  { fam := .inet4, typ := 1, lip := [127, 0, 0, 1], lport := 8080, rip := [127, 0, 0, 1], rport := rport,
    state := 6, path := none, inode := 0, txq := 0, rxq := 0, uid := 0, refcnt := 2, flags := 0 }

/-- a held listening socket and three TIME_WAIT sockets, all three printed with inode 0 -/
def worldTW : World :=
  { socks := [{ fam := .inet4, typ := 1, lip := [127, 0, 0, 1], lport := 8080, rip := [0, 0, 0, 0], rport := 0,
                state := 10, path := none, inode := 3001, txq := 0, rxq := 0, uid := 0, refcnt := 2, flags := 0 },
              sockTW 40000, sockTW 40001, sockTW 40002],
    procs := [(100, some [(3, .sock 3001)])], v6 := true }

theorem worldTW_wf : worldTW.WF := by
  refine ⟨?_, ?_, (by intro h; cases h)⟩
  · intro s hs
    simp only [worldTW, List.mem_cons, List.not_mem_nil, or_false] at hs
    rcases hs with rfl | rfl | rfl | rfl <;> simp [Sock.WF, sockTW]
  · intro p hp fds hfd e he
    simp only [worldTW, List.mem_cons, List.not_mem_nil, or_false] at hp
    subst hp
    simp at hfd; subst hfd
    simp at he; subst he
    trivial

/-- **C11_rows_count_inode0.** The witness of seeded change C11-1 as a theorem: four rows, one for
    the listener and one for EACH of the three sockets that share inode 0. -/
theorem C11_rows_count_inode0 (le : Bool) :
    ∃ rows, netConnections (cfgLE le) (renderWorld le worldTW) "tcp4" none = .ok rows ∧ rows.length = 4 := by
  have hd : Distinct (expects worldTW ⟨"tcp4", none⟩) := by
    constructor <;> decide
  obtain ⟨rows, h1, h2⟩ := C11_rows_count le worldTW worldTW_wf "tcp4" (by decide) hd
  refine ⟨rows, h1, ?_⟩
  rw [h2]
  decide

/-- the count statement WITHOUT `Distinct`: one row per requested socket (× holders for UNIX), always -/
def RowsCountFull (c : Cfg) : Prop :=
  ∀ (le : Bool) (w : World), w.WF → ∀ kind ∈ kinds,
    ∃ rows, netConnections c (renderWorld le w) kind none = .ok rows
      ∧ rows.length = ((expects w ⟨kind, none⟩).map Expect.count).sum

/-- an unbound UNIX stream socket nobody visible holds (the normal sight for an unprivileged caller) -/
def sockTwin (inode : Nat) : Sock :=
  { fam := .unix, typ := 1, lip := [], lport := 0, rip := [], rport := 0, state := 1, path := none,
    inode := inode, txq := 0, rxq := 0, uid := 0, refcnt := 2, flags := 0 }

/-- two of them: different sockets (inodes 501, 502), indistinguishable rows -/
def worldTwins : World := { socks := [sockTwin 501, sockTwin 502], procs := [], v6 := true }

theorem worldTwins_wf : worldTwins.WF := by
  refine ⟨?_, (by intro p hp; cases hp), (by intro h; cases h)⟩
  intro s hs
  simp only [worldTwins, List.mem_cons, List.not_mem_nil, or_false] at hs
  rcases hs with rfl | rfl <;> simp [Sock.WF, sockTwin]

/-- **C11_rows_count_twins.** What the code does with indistinguishable sockets: `retrieve` collects the rows in a
    `set`, the rows are plain value tuples, so the two ownerless unbound UNIX sockets give ONE row where two sockets
    were requested. `Accepts` (value-level: covered + no duplicates + at most one row per socket) allows that. -/
theorem C11_rows_count_twins (le : Bool) :
    ∃ rows, netConnections (cfgLE le) (renderWorld le worldTwins) "unix" none = .ok rows ∧ rows.length = 1
      ∧ ((expects worldTwins ⟨"unix", none⟩).map Expect.count).sum = 2 := by
  obtain ⟨rows, h1, h2⟩ := C11_rows_exact le worldTwins worldTwins_wf "unix" (by decide)
  refine ⟨rows, h1, ?_, by decide⟩
  have hE : expects worldTwins ⟨"unix", none⟩ = [⟨baseRow (sockTwin 501), [(none, -1)], true⟩, ⟨baseRow (sockTwin 501), [(none, -1)], true⟩] := by
    decide
  have hall : ∀ r ∈ rows, r = rowOf (sockTwin 501) (none, -1) := by
    intro r hr
    obtain ⟨e, he, o, ho, rfl⟩ := h2.justified r hr
    rw [hE] at he
    simp only [List.mem_cons, List.not_mem_nil, or_false, or_self] at he
    subst he
    simp only [List.mem_cons, List.not_mem_nil, or_false] at ho
    subst ho
    rfl
  have hin : rowOf (sockTwin 501) (none, -1) ∈ rows := by
    have := h2.covered ⟨baseRow (sockTwin 501), [(none, -1)], true⟩ (by rw [hE]; simp)
    simp only [if_true] at this
    exact this (none, -1) (by simp)
  match rows, h2.nodup, hall, hin with
  | [], _, _, hin => cases hin
  | [_], _, _, _ => rfl
  | a :: b :: _, hnd, hall, _ =>
    have ha := hall a (by simp)
    have hb := hall b (by simp)
    rw [List.nodup_cons] at hnd
    exact absurd (by rw [ha, hb]; simp) hnd.1

/-- **C11_rows_count_Full_false.** …so the unrestricted count statement is false ("every socket once" holds for
    distinguishable sockets — `C11_rows_count` — not for twins). Replayed on the real code (corpus world 6). -/
theorem C11_rows_count_Full_false (le : Bool) : ¬ RowsCountFull (cfgLE le) := by
  intro h
  obtain ⟨rows, h1, h2⟩ := h le worldTwins worldTwins_wf "unix" (by decide)
  obtain ⟨rows', h1', h2', h3'⟩ := C11_rows_count_twins le
  rw [h1] at h1'
  have := Except.ok.inj h1'
  subst this
  omega

/-- `Distinct` is exactly what fails there -/
example : ¬ Distinct (expects worldTwins ⟨"unix", none⟩) := by
  intro h
  have hE : expects worldTwins ⟨"unix", none⟩ = [⟨baseRow (sockTwin 501), [(none, -1)], true⟩, ⟨baseRow (sockTwin 501), [(none, -1)], true⟩] := by
    decide
  rw [hE] at h
  exact (List.pairwise_cons.mp h.1).1 _ (by simp) (none, -1) (by simp) (none, -1) (by simp) rfl

/-! ## The executable acceptance test of the driver is the relation of the specification -/

/-- **C11_accepts_iff.** `Spec.accepts` (what the driver evaluates on the model's rows) decides `Spec.Accepts`. -/
theorem C11_accepts_iff (es : List Expect) (rows : List Row) : accepts es rows = true ↔ Accepts es rows := by
  simp only [accepts, Bool.and_eq_true, List.all_eq_true, List.any_eq_true, decide_eq_true_eq, beq_iff_eq]
  constructor
  · rintro ⟨⟨⟨h1, h2⟩, h3⟩, h4⟩
    refine ⟨fun r hr => ?_, fun e he => ?_, h3, h4⟩
    · obtain ⟨e, he, o, ho, hro⟩ := h1 r hr
      exact ⟨e, he, o, ho, hro⟩
    · have := h2 e he
      cases hall : e.all with
      | true =>
        simp only [hall, if_true, List.all_eq_true, List.contains_iff_mem] at this ⊢
        exact this
      | false =>
        simp only [hall, Bool.false_eq_true, if_false, List.any_eq_true, List.contains_iff_mem] at this ⊢
        exact this
  · intro h
    refine ⟨⟨⟨fun r hr => ?_, fun e he => ?_⟩, h.nodup⟩, h.bound⟩
    · obtain ⟨e, he, o, ho, hro⟩ := h.justified r hr
      exact ⟨e, he, o, ho, hro⟩
    · have := h.covered e he
      cases hall : e.all with
      | true =>
        simp only [hall, if_true, List.all_eq_true, List.contains_iff_mem] at this ⊢
        exact this
      | false =>
        simp only [hall, Bool.false_eq_true, if_false, List.any_eq_true, List.contains_iff_mem] at this ⊢
        exact this

/-- **C11_wf_iff.** The driver's gate `World.wf` decides `World.WF`: outside it the driver answers `unspecified`. -/
theorem C11_sock_wf_iff (s : Sock) : s.wf = true ↔ s.WF := by
  unfold Sock.wf Sock.WF
  cases hf : s.fam with
  | unix =>
    cases hp : s.path with
    | none => simp
    | some p => simp
  | inet4 =>
    simp [List.all_eq_true]
    exact ⟨fun ⟨⟨⟨⟨⟨⟨⟨a, b⟩, c⟩, d⟩, e⟩, f⟩, g⟩, h⟩ => ⟨a, b, c, d, e, f, g, fun ht => h.resolve_left (fun hn => hn ht)⟩,
      fun ⟨a, b, c, d, e, f, g, h⟩ => ⟨⟨⟨⟨⟨⟨⟨a, b⟩, c⟩, d⟩, e⟩, f⟩, g⟩,
        if ht : s.typ = 1 then Or.inr (h ht) else Or.inl ht⟩⟩
  | inet6 =>
    simp [List.all_eq_true]
    exact ⟨fun ⟨⟨⟨⟨⟨⟨⟨a, b⟩, c⟩, d⟩, e⟩, f⟩, g⟩, h⟩ => ⟨a, b, c, d, e, f, g, fun ht => h.resolve_left (fun hn => hn ht)⟩,
      fun ⟨a, b, c, d, e, f, g, h⟩ => ⟨⟨⟨⟨⟨⟨⟨a, b⟩, c⟩, d⟩, e⟩, f⟩, g⟩,
        if ht : s.typ = 1 then Or.inr (h ht) else Or.inl ht⟩⟩

theorem C11_wf_iff (w : World) : w.wf = true ↔ w.WF := by
  simp only [World.wf, Bool.and_eq_true, List.all_eq_true, Bool.or_eq_true]
  constructor
  · rintro ⟨⟨h1, h2⟩, h3⟩
    refine ⟨fun s hs => (C11_sock_wf_iff s).mp (h1 s hs), fun p hp fds hfd e he => ?_, fun hv s hs => ?_⟩
    · have := h2 p hp
      rw [hfd] at this
      have := List.all_eq_true.mp this e he
      cases ht : e.2 with
      | other t => rw [ht] at this; simpa [Target.wf, Target.WF] using this
      | sock i => trivial
      | gone => trivial
    · rcases h3 with h3 | h3
      · rw [hv] at h3; cases h3
      · simpa using h3 s hs
  · intro h
    refine ⟨⟨fun s hs => (C11_sock_wf_iff s).mpr (h.socks s hs), fun p hp => ?_⟩, ?_⟩
    · cases hfd : p.2 with
      | none => rfl
      | some fds =>
        refine List.all_eq_true.mpr fun e he => ?_
        have := h.targets p hp fds hfd e he
        cases ht : e.2 with
        | other t => rw [ht] at this; simpa [Target.wf, Target.WF] using this
        | sock i => rfl
        | gone => rfl
    · cases hv : w.v6 with
      | true => exact Or.inl rfl
      | false => exact Or.inr fun s hs => by simpa using h.v6 hv s hs

/-! ## Carriage returns in UNIX names -/

/-- **C11_unix_name_with_cr.** `open_text()` reads with `newline="\n"`: a `\r` is an ordinary
    character. Any name without `\n` — with any number of `\r`, anywhere — comes back exactly. -/
theorem C11_unix_name_with_cr (le : Bool) (name : Bytes) (h10 : 10 ∉ name) (inode : Nat) :
    processUnixLine (cfgLE le) [] none (unixLine { sockL11 with path := some name, inode := inode })
      = .ok [⟨-1, 1, 1, .path name, .path [], "NONE", none⟩] := by
  have hwf : ({ sockL11 with path := some name, inode := inode } : Sock).WF := by
    simp only [Sock.WF, sockL11]
    refine ⟨by decide, ?_⟩
    intro p hp
    cases hp
    exact h10
  rw [C11_unix_line le _ rfl hwf [] none]
  simp [ownerPairs, filteredOut, rowFor, baseRow, sockL11, Fam.num]

example : (13 : Nat) ∈ lit "/tmp/a\rb" ∧ (10 : Nat) ∉ lit "/tmp/a\rb" := by decide

/-! ## A Python that cannot format IPv6 addresses (`_Ipv6UnsupportedError`) -/

/-- the extracted configuration on a host where `socket.inet_ntop(AF_INET6, …)` raises ValueError and
    `supports_ipv6()` is false -/
def cfgNoV6 (le : Bool) : Cfg := (cfgLE le).noV6

/-- **C11_noipv6_rows.** On such a host, for EVERY well-formed world and each kind, the system-wide
    form does not fail and returns exactly the rows promised for the world without the IPv6 sockets
    whose row needs an address text (`dropV6`; a port-0 address is `()` and needs none): IPv4 and
    UNIX sockets — holders, names, states and all — are reported as on any other host. -/
theorem C11_noipv6_rows (le : Bool) (w : World) (hw : w.WF) (kind : String) (hk : kind ∈ kinds) :
    ∃ rows, netConnections (cfgNoV6 le) (renderWorld le w) kind none = .ok rows
      ∧ Accepts (expects w.dropV6 ⟨kind, none⟩) rows :=
  netConnections_system_noV6 (cfgLE le) (cfgLE_good le) (cfgLE_tmap_good le) w hw kind hk

/-- **C11_noipv6_left_out.** …so no returned row carries an IPv6 address: an AF_INET6 row has both
    addresses empty. -/
theorem C11_noipv6_left_out (le : Bool) (w : World) (hw : w.WF) (kind : String) (hk : kind ∈ kinds) :
    ∃ rows, netConnections (cfgNoV6 le) (renderWorld le w) kind none = .ok rows
      ∧ ∀ r ∈ rows, r.family = 10 → r.laddr = .empty ∧ r.raddr = .empty := by
  obtain ⟨rows, h1, h2⟩ := C11_noipv6_rows le w hw kind hk
  refine ⟨rows, h1, fun r hr hf => ?_⟩
  obtain ⟨e, he, o, _, rfl⟩ := h2.justified r hr
  obtain ⟨s, hs, _, hes⟩ := (mem_expects w.dropV6 _ e).mp he
  rw [expectOf_eq] at hes
  split at hes
  · cases hes
  · simp only [Option.some.injEq] at hes
    subst hes
    have hnv : needsV6Text s = false := by
      have := (List.mem_filter.mp hs).2
      simpa using this
    cases hfam : s.fam with
    | unix => simp [Expect.row, baseRow, hfam, Fam.num] at hf
    | inet4 => simp [Expect.row, baseRow, hfam, Fam.num] at hf
    | inet6 =>
      simp only [needsV6Text, hfam, beq_self_eq_true, Bool.true_and, Bool.or_eq_false_iff, bne_eq_false_iff_eq] at hnv
      simp [Expect.row, baseRow, hfam, endpoint, hnv.1, hnv.2]

/-- **C11_noipv6_v4_unix_unaffected.** Reading any `tmap` entry other than an AF_INET6 one gives the
    same outcome as on a host with IPv6 — over ANY file content, well-formed or not. -/
theorem C11_noipv6_v4_unix_unaffected (le : Bool) (fs : ProcFs) (inodes : Inodes) (pid : Option Nat)
    (e : TEntry) (h6 : e.2.1 ≠ 10) :
    entryRows (cfgNoV6 le) fs inodes pid e = entryRows (cfgLE le) fs inodes pid e :=
  entryRows_noV6_other (cfgLE le) fs inodes pid e (by rw [(cfgLE_good le).afInet6]; exact h6)

/-- **C11_noipv6_line_skipped.** A tcp6/udp6 line with a non-zero port is skipped (never an error) -/
theorem C11_noipv6_line_skipped (le : Bool) (s : Sock) (h6 : s.fam = .inet6) (hwf : s.WF)
    (hp : s.lport ≠ 0 ∨ s.rport ≠ 0) (sl : Nat) (fp : Option Nat) :
    processInetLine (cfgNoV6 le) 10 s.typ [] fp (inetLine le (s.typ == 1) sl s) = .ok none := by
  have := processInetLine_noV6 (cfgLE le) (cfgLE_good le) s h6 hwf sl [] fp
  have hn : needsV6Text s = true := by
    rcases hp with h | h <;> simp [needsV6Text, h6, h]
  have hle : (cfgLE le).littleEndian = le := rfl
  rw [hle] at this
  simpa [pidFd, hn, cfgNoV6] using this

/-- **C11_ntop6_supported_reraises.** If `supports_ipv6()` nevertheless answers True, the ValueError
    of `inet_ntop` is re-raised by `decode_address` (and fails the call): proved, not promised. -/
theorem C11_ntop6_supported_reraises (le : Bool) (ip : List Nat) (port : Nat) (hl : ip.length = 16)
    (hb : ∀ b ∈ ip, b < 256) (hp0 : 0 < port) (hp : port < 65536) :
    decodeAddress { cfgLE le with ntop6Fails := true, supportsV6 := true } (renderEndpoint le ip port) 10
      = .error .valueError := by
  have := decode_v6_ntopFails (cfgLE le) (cfgLE_good le) true ip hl hb port hp
  have hne : port ≠ 0 := by omega
  simp only [hne, if_false, if_true] at this
  exact this

/-! ## Round 2: the `except` clauses as translator facts -/

/-- full statement about the owner map when descriptors / processes fail in the "cannot be inspected"
    ways: the scan does not fail and the map holds exactly the holders of the inspectable part -/
def ScanOwnerFull (c : Cfg) : Prop :=
  ∀ (le : Bool) (w : WorldE), w.view.WF → w.Inspectable →
    ∃ m, getAllInodesE c (renderWorldE le w).procs = .ok m ∧ ∀ i, sem m (renderDec i) = holders w.view i

/-- **C11_scan_owner.** Holds for the extracted `except` clauses (readlink: FileNotFoundError,
    ProcessLookupError, EINVAL, ENAMETOOLONG stepped over; get_all_inodes: FileNotFoundError,
    ProcessLookupError, PermissionError → next process). -/
theorem C11_scan_owner (le : Bool) : ScanOwnerFull (cfgLE le) := by
  intro le' w hw hi
  obtain ⟨e1, e2⟩ := erase_renderWorldE (cfgLE le) (cfgLE_good le) le' w hi
  refine ⟨_, getAllInodesE_erase (cfgLE le) _ e2, fun i => ?_⟩
  rw [e1, (getAllInodes_spec (cfgLE le) (cfgLE_good le).inodesExtend _).1, allHits_render le' w.view hw i]

/-- the readlink clause narrowed to `except FileNotFoundError` (ESRCH no longer stepped over) -/
def cfgNoEsrch : Cfg := { cfg with linkSkipClasses := ["FileNotFoundError"] }

/-- PID 10 holds socket 7 as fd 3; its fd 4 is closed by a dying thread: readlink → ESRCH -/
def worldESRCH : WorldE := { socks := [], procs := [(10, .ok [(3, .sock 7), (4, .fail .esrch)])], v6 := true }

theorem worldESRCH_ok : worldESRCH.view.WF ∧ worldESRCH.Inspectable := by
  constructor
  · refine ⟨(by intro s hs; cases hs), ?_, (by intro _ s hs; cases hs)⟩
    intro p hp fds hfd e he
    simp only [worldESRCH, WorldE.view, List.map_cons, List.map_nil, List.mem_cons, List.not_mem_nil, or_false] at hp
    subst hp
    simp [viewProc, deniedIn, errDenied] at hfd
    subst hfd
    simp [TargetE.view] at he
    rcases he with rfl | rfl <;> trivial
  · intro p hp
    simp only [worldESRCH, List.mem_cons, List.not_mem_nil, or_false] at hp
    subst hp
    intro x hx e he
    simp only [List.mem_cons, List.not_mem_nil, or_false] at hx
    rcases hx with rfl | rfl
    · cases he
    · simp only [TargetE.fail.injEq] at he; subst he; rfl

/-- **C11_scan_esrch_counterexample.** With the narrowed clause the full statement is false: the
    ProcessLookupError leaves `get_proc_inodes`, `get_all_inodes` drops the whole process, and the
    holder `(10, 3)` of socket 7 is lost. (A narrowed or widened clause changes a translator fact and
    breaks `cfg_good`.) -/
theorem C11_scan_esrch_counterexample : ¬ ScanOwnerFull cfgNoEsrch := by
  intro h
  obtain ⟨m, hm, hs⟩ := h true worldESRCH worldESRCH_ok.1 worldESRCH_ok.2
  have e7 : renderDec 7 = [55] := by simp [renderDec, renderRadix, renderRadixAux, decimal]
  have hE : getAllInodesE cfgNoEsrch (renderWorldE true worldESRCH).procs = .ok [] := by
    simp only [renderWorldE, worldESRCH, List.map, renderTargetE, e7]
    rfl
  rw [hE] at hm
  have := hs 7
  rw [← Except.ok.inj hm] at this
  revert this
  decide

/-- the clause of `get_all_inodes` without PermissionError -/
def cfgNoPerm : Cfg := { cfg with allSkipClasses := ["FileNotFoundError", "ProcessLookupError"] }

/-- another user's process: `listdir` → EPERM -/
def worldEPERM : WorldE := { socks := [], procs := [(10, .error .eperm)], v6 := true }

/-- **C11_scan_eperm_counterexample.** …and without PermissionError in the clause of `get_all_inodes`
    the system-wide scan fails on any foreign process. -/
theorem C11_scan_eperm_counterexample : ¬ ScanOwnerFull cfgNoPerm := by
  intro h
  have hw : worldEPERM.view.WF := by
    refine ⟨(by intro s hs; cases hs), ?_, (by intro _ s hs; cases hs)⟩
    intro p hp fds hfd
    simp only [worldEPERM, WorldE.view, List.map_cons, List.map_nil, List.mem_cons, List.not_mem_nil, or_false] at hp
    subst hp
    simp [viewProc] at hfd
  have hi : worldEPERM.Inspectable := by
    intro p hp
    simp only [worldEPERM, List.mem_cons, List.not_mem_nil, or_false] at hp
    subst hp
    rfl
  obtain ⟨m, hm, _⟩ := h true worldEPERM hw hi
  have hE : getAllInodesE cfgNoPerm (renderWorldE true worldEPERM).procs = .error .permissionError := rfl
  rw [hE] at hm
  cases hm

/-! ## Round 2: per-process form on a Python that cannot format IPv6 addresses -/

/-- **C11_noipv6_rows_process.** `Process(pid).net_connections(kind)` on such a host, for EVERY
    well-formed world, listed process with listable descriptors and kind: does not fail and returns the
    rows promised for that process in the world without the IPv6 sockets that need an address text. -/
theorem C11_noipv6_rows_process (le : Bool) (w : World) (hw : w.WF) (hn : (w.procs.map (·.1)).Nodup)
    (kind : String) (hk : kind ∈ kinds) (p : Nat) (fds : List (Nat × Target))
    (hl : w.procs.lookup (p + 1) = some (some fds)) :
    ∃ rows, netConnections (cfgNoV6 le) (renderWorld le w) kind (some (p + 1)) = .ok rows
      ∧ Accepts (expects w.dropV6 ⟨kind, some (p + 1)⟩) rows := by
  obtain ⟨rows, h1, h2, _⟩ :=
    netConnections_process_noV6 (cfgLE le) (cfgLE_good le) (cfgLE_tmap_good le) w hw hn kind hk p fds hl
  exact ⟨rows, h1, h2⟩

/-- …and what is left out is exactly that: an AF_INET6 row of the per-process form has both addresses empty -/
theorem C11_noipv6_left_out_process (le : Bool) (w : World) (hw : w.WF) (hn : (w.procs.map (·.1)).Nodup)
    (kind : String) (hk : kind ∈ kinds) (p : Nat) (fds : List (Nat × Target))
    (hl : w.procs.lookup (p + 1) = some (some fds)) :
    ∃ rows, netConnections (cfgNoV6 le) (renderWorld le w) kind (some (p + 1)) = .ok rows
      ∧ ∀ r ∈ rows, r.family = 10 → r.laddr = .empty ∧ r.raddr = .empty := by
  obtain ⟨rows, h1, h2⟩ := C11_noipv6_rows_process le w hw hn kind hk p fds hl
  refine ⟨rows, h1, fun r hr hf => ?_⟩
  obtain ⟨e, he, o, _, rfl⟩ := h2.justified r hr
  obtain ⟨s, hs, _, hes⟩ := (mem_expects w.dropV6 _ e).mp he
  rw [expectOf_eq] at hes
  split at hes
  · cases hes
  · simp only [Option.some.injEq] at hes
    subst hes
    have hnv : needsV6Text s = false := by
      have := (List.mem_filter.mp hs).2
      simpa using this
    cases hfam : s.fam with
    | unix => simp [Expect.row, baseRow, hfam, Fam.num] at hf
    | inet4 => simp [Expect.row, baseRow, hfam, Fam.num] at hf
    | inet6 =>
      simp only [needsV6Text, hfam, beq_self_eq_true, Bool.true_and, Bool.or_eq_false_iff, bne_eq_false_iff_eq] at hnv
      simp [Expect.row, baseRow, hfam, endpoint, hnv.1, hnv.2]

/-- **C11_noipv6_scan.** (round 3) The two extensions combined — an IPv6-less Python AND descriptors / processes that
    cannot be inspected: the system-wide call does not fail and returns the rows promised for `w.view.dropV6`. (The
    driver treats this combination as specified for the system-wide form; the per-process form of the combination is
    left `unspecified`: implementation vs model only.) -/
theorem C11_noipv6_scan (le : Bool) (w : WorldE) (hw : w.view.WF) (hi : w.Inspectable)
    (kind : String) (hk : kind ∈ kinds) :
    ∃ rows, netConnectionsE (cfgNoV6 le) (renderWorldE le w) kind none = .ok rows
      ∧ Accepts (expects w.view.dropV6 ⟨kind, none⟩) rows :=
  scan_system_noV6 (cfgLE le) (cfgLE_good le) (cfgLE_tmap_good le) w hw hi kind hk

/-! ## Round 2: WHICH holder a TCP/UDP row shows (characterisation; the statement allows any) -/

/-- **C11_rows_which.** The exact result of both forms, for EVERY well-formed world: a row is returned
    iff it is, for some requested socket, one of `promisedRows` — for a UNIX socket one row per owner,
    for a TCP/UDP socket the row of the FIRST owner in listing order (`owners … |>.head?`). -/
theorem C11_rows_which (le : Bool) (w : World) (hw : w.WF) (kind : String) (hk : kind ∈ kinds) :
    ∃ rows, netConnections (cfgLE le) (renderWorld le w) kind none = .ok rows ∧ RowsAre w ⟨kind, none⟩ rows := by
  obtain ⟨rows, h1, _, h3⟩ := netConnections_system_rows (cfgLE le) (cfgLE_good le) (cfgLE_tmap_good le) w hw kind hk
  exact ⟨rows, h1, h3⟩

theorem C11_rows_which_process (le : Bool) (w : World) (hw : w.WF) (hn : (w.procs.map (·.1)).Nodup)
    (kind : String) (hk : kind ∈ kinds) (p : Nat) (fds : List (Nat × Target))
    (hl : w.procs.lookup (p + 1) = some (some fds)) :
    ∃ rows, netConnections (cfgLE le) (renderWorld le w) kind (some (p + 1)) = .ok rows
      ∧ RowsAre w ⟨kind, some (p + 1)⟩ rows := by
  obtain ⟨rows, h1, _, h3⟩ :=
    netConnections_process_rows (cfgLE le) (cfgLE_good le) (cfgLE_tmap_good le) w hw hn kind hk p fds hl
  exact ⟨rows, h1, h3⟩

/-- **C11_inet_first_holder.** System-wide, a requested TCP/UDP socket with holders `h :: _` (listing
    order of `/proc`, then of `/proc/<pid>/fd`) is returned with the FIRST holder's PID and descriptor —
    and every returned row built from this socket's tuple carries that holder. The statement of the
    property only asks for SOME holder; this says which one the code shows. -/
theorem C11_inet_first_holder (le : Bool) (w : World) (hw : w.WF) (kind : String) (hk : kind ∈ kinds)
    (s : Sock) (hs : s ∈ w.socks) (hf : s.fam ≠ .unix) (hsel : kindSelects kind s.fam s.typ = true)
    (h : Nat × Nat) (t : List (Nat × Nat)) (hh : holders w s.inode = h :: t) :
    ∃ rows, netConnections (cfgLE le) (renderWorld le w) kind none = .ok rows
      ∧ rowOf s (some h.1, (h.2 : Int)) ∈ rows
      ∧ ∀ x ∈ promisedRows w ⟨kind, none⟩ s, x = rowOf s (some h.1, (h.2 : Int)) := by
  obtain ⟨rows, h1, h3⟩ := C11_rows_which le w hw kind hk
  have hp : promisedRows w ⟨kind, none⟩ s = [rowOf s (some h.1, (h.2 : Int))] := by
    rw [promisedRows_inet _ _ _ hf, owners_system_head w kind s.inode h t hh]; rfl
  refine ⟨rows, h1, (h3 _).mpr ⟨s, hs, hsel, by rw [hp]; simp⟩, fun x hx => by rw [hp] at hx; simpa using hx⟩

/-- the per-process form shows the process' own FIRST descriptor on the socket -/
theorem C11_inet_first_holder_process (le : Bool) (w : World) (hw : w.WF) (hn : (w.procs.map (·.1)).Nodup)
    (kind : String) (hk : kind ∈ kinds) (p : Nat) (fds : List (Nat × Target))
    (hl : w.procs.lookup (p + 1) = some (some fds))
    (s : Sock) (hs : s ∈ w.socks) (hf : s.fam ≠ .unix) (hsel : kindSelects kind s.fam s.typ = true)
    (h : Nat × Nat) (t : List (Nat × Nat))
    (hh : (holders w s.inode).filter (fun x => x.1 == p + 1) = h :: t) :
    ∃ rows, netConnections (cfgLE le) (renderWorld le w) kind (some (p + 1)) = .ok rows
      ∧ rowOf s (none, (h.2 : Int)) ∈ rows := by
  obtain ⟨rows, h1, h3⟩ := C11_rows_which_process le w hw hn kind hk p fds hl
  refine ⟨rows, h1, (h3 _).mpr ⟨s, hs, hsel, ?_⟩⟩
  rw [promisedRows_inet _ _ _ hf]
  simp [owners, hh]

/-- two processes (after `fork`) hold the listening TCP socket 7: PID 10 as fd 3, PID 20 as fd 5 -/
def sockFork : Sock :=
  { fam := .inet4, typ := 1, lip := [127, 0, 0, 1], lport := 80, rip := [0, 0, 0, 0], rport := 0,
    state := 10, path := none, inode := 7, txq := 0, rxq := 0, uid := 0, refcnt := 2, flags := 0 }

def worldFork : World :=
  { socks := [sockFork],
    procs := [(10, some [(3, .sock 7)]), (20, some [(5, .sock 7)])], v6 := true }

theorem worldFork_wf : worldFork.WF := by
  refine ⟨?_, ?_, (by intro h; cases h)⟩
  · intro s hs
    simp only [worldFork, List.mem_cons, List.not_mem_nil, or_false] at hs
    subst hs
    simp [Sock.WF, sockFork]
  · intro p hp fds hfd e he
    simp only [worldFork, List.mem_cons, List.not_mem_nil, or_false] at hp
    rcases hp with rfl | rfl <;> simp at hfd <;> subst hfd <;> simp at he <;> subst he <;> trivial

/-! ## Round 2: system-wide vs per-process -/

/-- **C11_system_rows_in_process.** For EVERY well-formed world, kind and listed process `p` whose
    descriptors are listable: every system-wide row that carries `pid = p` is — without the pid field, a
    `pconn` has none — a row of `Process(p).net_connections(kind)`. -/
theorem C11_system_rows_in_process (le : Bool) (w : World) (hw : w.WF) (hn : (w.procs.map (·.1)).Nodup)
    (kind : String) (hk : kind ∈ kinds) (p : Nat) (fds : List (Nat × Target))
    (hl : w.procs.lookup (p + 1) = some (some fds)) :
    ∃ rowsS rowsP, netConnections (cfgLE le) (renderWorld le w) kind none = .ok rowsS
      ∧ netConnections (cfgLE le) (renderWorld le w) kind (some (p + 1)) = .ok rowsP
      ∧ ∀ r ∈ rowsS, r.pid = some (p + 1) → setPid none r ∈ rowsP := by
  obtain ⟨rowsS, s1, s3⟩ := C11_rows_which le w hw kind hk
  obtain ⟨rowsP, p1, p3⟩ := C11_rows_which_process le w hw hn kind hk p fds hl
  refine ⟨rowsS, rowsP, s1, p1, fun r hr hp => ?_⟩
  obtain ⟨s, hs, hsel, hx⟩ := (s3 r).mp hr
  exact (p3 _).mpr ⟨s, hs, hsel, promised_sys_to_proc w kind (p + 1) s r hx hp⟩

/-- **C11_process_rows_in_system.** Conversely, every per-process row is — with `pid = p` put back — a
    system-wide row, provided no TCP/UDP socket of `p` is also held by a process listed before `p`
    (`FirstAmongHolders`; UNIX sockets need no such proviso: they have a row per holder). -/
theorem C11_process_rows_in_system (le : Bool) (w : World) (hw : w.WF) (hn : (w.procs.map (·.1)).Nodup)
    (kind : String) (hk : kind ∈ kinds) (p : Nat) (fds : List (Nat × Target))
    (hl : w.procs.lookup (p + 1) = some (some fds)) (hfirst : FirstAmongHolders w (p + 1)) :
    ∃ rowsS rowsP, netConnections (cfgLE le) (renderWorld le w) kind none = .ok rowsS
      ∧ netConnections (cfgLE le) (renderWorld le w) kind (some (p + 1)) = .ok rowsP
      ∧ ∀ r ∈ rowsP, r.pid = none ∧ setPid (some (p + 1)) r ∈ rowsS := by
  obtain ⟨rowsS, s1, s3⟩ := C11_rows_which le w hw kind hk
  obtain ⟨rowsP, p1, p3⟩ := C11_rows_which_process le w hw hn kind hk p fds hl
  refine ⟨rowsS, rowsP, s1, p1, fun r hr => ?_⟩
  obtain ⟨s, hs, hsel, hx⟩ := (p3 r).mp hr
  exact ⟨promised_proc_pid w kind (p + 1) s r hx,
    (s3 _).mpr ⟨s, hs, hsel, promised_proc_to_sys w kind (p + 1) s r hx (hfirst s hs)⟩⟩

/-- the UNIX rows of the per-process form are system-wide rows in EVERY world (no proviso) -/
theorem C11_process_unix_rows_in_system (le : Bool) (w : World) (hw : w.WF) (hn : (w.procs.map (·.1)).Nodup)
    (kind : String) (hk : kind ∈ kinds) (p : Nat) (fds : List (Nat × Target))
    (hl : w.procs.lookup (p + 1) = some (some fds)) :
    ∃ rowsS rowsP, netConnections (cfgLE le) (renderWorld le w) kind none = .ok rowsS
      ∧ netConnections (cfgLE le) (renderWorld le w) kind (some (p + 1)) = .ok rowsP
      ∧ ∀ s ∈ w.socks, s.fam = .unix → ∀ r ∈ promisedRows w ⟨kind, some (p + 1)⟩ s, r ∈ rowsP →
          setPid (some (p + 1)) r ∈ rowsS := by
  obtain ⟨rowsS, s1, s3⟩ := C11_rows_which le w hw kind hk
  obtain ⟨rowsP, p1, p3⟩ := C11_rows_which_process le w hw hn kind hk p fds hl
  refine ⟨rowsS, rowsP, s1, p1, fun s hs hu r hx hr => ?_⟩
  obtain ⟨s', hs', hsel, _⟩ := (p3 r).mp hr
  have hsel' : kindSelects kind s.fam s.typ = true := by
    -- the row determines family: `r` is a row of a UNIX socket, so the kind asks for UNIX sockets
    have hx' := hx
    rw [promisedRows_unix _ _ _ hu] at hx'
    obtain ⟨o, _, rfl⟩ := List.mem_map.mp hx'
    obtain ⟨s'', hs'', hsel'', hx''⟩ := (p3 _).mp hr
    by_cases hu'' : s''.fam = .unix
    · rw [hu, kindSelects_unix]; rw [hu'', kindSelects_unix] at hsel''; exact hsel''
    · exfalso
      rw [promisedRows_inet _ _ _ hu''] at hx''
      obtain ⟨o'', _, he⟩ := List.mem_map.mp hx''
      have hfam := congrArg Row.family he
      cases hf'' : s''.fam with
      | unix => exact hu'' hf''
      | inet4 => simp [rowOf, baseRow, hf'', hu, Fam.num] at hfam
      | inet6 => simp [rowOf, baseRow, hf'', hu, Fam.num] at hfam
  exact (s3 _).mpr ⟨s, hs, hsel', promised_proc_to_sys w kind (p + 1) s r hx (fun h => absurd hu h)⟩

/-- **C11_sys_proc_consistent.** Together: under `FirstAmongHolders`, the per-process rows are exactly
    the system-wide rows with `pid = p`, modulo the pid field — for all 11 kinds. -/
theorem C11_sys_proc_consistent (le : Bool) (w : World) (hw : w.WF) (hn : (w.procs.map (·.1)).Nodup)
    (kind : String) (hk : kind ∈ kinds) (p : Nat) (fds : List (Nat × Target))
    (hl : w.procs.lookup (p + 1) = some (some fds)) (hfirst : FirstAmongHolders w (p + 1)) :
    ∃ rowsS rowsP, netConnections (cfgLE le) (renderWorld le w) kind none = .ok rowsS
      ∧ netConnections (cfgLE le) (renderWorld le w) kind (some (p + 1)) = .ok rowsP
      ∧ ∀ x, x ∈ rowsP ↔ x ∈ (rowsS.filter fun r => r.pid == some (p + 1)).map (setPid none) := by
  obtain ⟨rowsS, rowsP, s1, p1, h⟩ := C11_process_rows_in_system le w hw hn kind hk p fds hl hfirst
  obtain ⟨rowsS', rowsP', s1', p1', h'⟩ := C11_system_rows_in_process le w hw hn kind hk p fds hl
  rw [s1] at s1'; rw [p1] at p1'
  have e1 : rowsS = rowsS' := Except.ok.inj s1'
  have e2 : rowsP = rowsP' := Except.ok.inj p1'
  subst e1; subst e2
  refine ⟨rowsS, rowsP, s1, p1, fun x => ⟨fun hx => ?_, fun hx => ?_⟩⟩
  · obtain ⟨hpid, hin⟩ := h x hx
    refine List.mem_map.mpr ⟨setPid (some (p + 1)) x, List.mem_filter.mpr ⟨hin, by simp [setPid]⟩, ?_⟩
    cases x; simp only [setPid] at hpid ⊢; simp [hpid]
  · obtain ⟨r, hr, rfl⟩ := List.mem_map.mp hx
    obtain ⟨hr1, hr2⟩ := List.mem_filter.mp hr
    exact h' r hr1 (by simpa using hr2)

/-- the statement without the proviso -/
def SysProcConsistentFull (c : Cfg) : Prop :=
  ∀ (le : Bool) (w : World), w.WF → (w.procs.map (·.1)).Nodup → ∀ kind ∈ kinds, ∀ (p : Nat) (fds : List (Nat × Target)),
    w.procs.lookup (p + 1) = some (some fds) →
    ∀ rowsS rowsP, netConnections c (renderWorld le w) kind none = .ok rowsS →
      netConnections c (renderWorld le w) kind (some (p + 1)) = .ok rowsP →
      ∀ x, x ∈ rowsP ↔ x ∈ (rowsS.filter fun r => r.pid == some (p + 1)).map (setPid none)

/-- **C11_sys_proc_shared_inet_counterexample.** Without the proviso the equality is false, as the
    first-holder rule implies: in `worldFork` `Process(20).net_connections('tcp4')` returns the shared
    listening socket (fd 5) while the system-wide list shows it once, under PID 10. Not a defect against
    the statement (one row with SOME holder is what it asks for TCP/UDP) — a documented consequence. -/
theorem C11_sys_proc_shared_inet_counterexample (le : Bool) : ¬ SysProcConsistentFull (cfgLE le) := by
  intro h
  have hn : (worldFork.procs.map (·.1)).Nodup := by decide
  obtain ⟨rowsS, s1, s3⟩ := C11_rows_which le worldFork worldFork_wf "tcp4" (by decide)
  obtain ⟨rowsP, p1, p3⟩ := C11_rows_which_process le worldFork worldFork_wf hn "tcp4" (by decide) 19
    [(5, .sock 7)] (by decide)
  have := h le worldFork worldFork_wf hn "tcp4" (by decide) 19 [(5, .sock 7)] (by decide) rowsS rowsP s1 p1
  -- the per-process form returns the socket …
  have hP : rowOf sockFork (none, 5) ∈ rowsP := by
    refine (p3 _).mpr ⟨sockFork, by decide, by decide, ?_⟩
    decide
  -- … which no system-wide row with pid 20 accounts for
  obtain ⟨r, hr, _⟩ := List.mem_map.mp ((this _).mp hP)
  obtain ⟨hr1, hr2⟩ := List.mem_filter.mp hr
  obtain ⟨s, hs, _, hx⟩ := (s3 r).mp hr1
  simp only [worldFork, List.mem_cons, List.not_mem_nil, or_false] at hs
  subst hs
  have hrows : promisedRows worldFork ⟨"tcp4", none⟩ sockFork = [rowOf sockFork (some 10, 3)] := by
    decide
  have hx' : r ∈ promisedRows worldFork ⟨"tcp4", none⟩ sockFork := hx
  rw [hrows] at hx'
  simp only [List.mem_cons, List.not_mem_nil, or_false] at hx'
  subst hx'
  revert hr2
  decide

/-! ## Seeded round 5: ONE inode dict goes through all the tables of a query

  `retrieve` hands the same mutable dict to every `process_inet` / `process_unix` call of `tmap[kind]`; the kernel prints
  the same inode number in different tables (0 for every socket without a `struct socket`: TIME_WAIT / SYN_RECV lines
  of net/tcp{,6} AND not yet accepted connections in net/unix). `World.WF` has no clause about inode numbers, so every
  theorem above already quantifies over such tables — but about functions that only READ the dict. The functions the
  driver runs (`netConnectionsES`) thread the dict through every line of every table, with the lookups as the translator
  finds them in the source. -/

/-- **cfg_lookup_good.** Translator obligation: `process_inet` and `process_unix` subscript `inodes` only under
    `inode in inodes` (facts `inetLookup`, `unixLookup`), and `inodes` is created as `{}` / `defaultdict(list)` (facts
    `allInodesInit`, `procInodesInit`). -/
theorem cfg_lookup_good : cfg.LookupGood := by constructor <;> decide

theorem cfgLE_lookup_good (le : Bool) : (cfgLE le).LookupGood :=
  ⟨cfg_lookup_good.inet, cfg_lookup_good.unix, cfg_lookup_good.initKnown⟩

/-- **C11_shared_map_frame.** For EVERY file system (any content of the five tables, any descriptor tables, any errno),
    kind and caller: threading the dict through the tables changes nothing — each table sees the dict exactly as
    `get_all_inodes` / `get_proc_inodes` built it, whatever the earlier tables looked up in it. Hence every theorem of
    this file about `netConnectionsE` is a theorem about the function the driver runs. -/
theorem C11_shared_map_frame (le : Bool) (fs : ProcFsE) (kind : String) (pid : Option Nat) :
    netConnectionsES (cfgLE le) fs kind pid = netConnectionsE (cfgLE le) fs kind pid :=
  netConnectionsES_eq (cfgLE le) (cfgLE_lookup_good le) fs kind pid

/-- the full statement over the shared dict, for a configuration `c` of the lookups -/
def SharedMapFull (c : Cfg) : Prop :=
  ∀ (le : Bool) (w : WorldE), w.view.WF → w.Inspectable → ∀ kind ∈ kinds,
    ∃ rows, netConnectionsES { c with littleEndian := le } (renderWorldE le w) kind none = .ok rows
      ∧ Accepts (expects w.view ⟨kind, none⟩) rows

/-- **C11_shared_map.** System-wide form over the shared dict: for EVERY well-formed world — sockets of the same table
    or of DIFFERENT tables may carry the same inode number, held or not —, either endianness, each of the 11 kinds:
    the promised rows. -/
theorem C11_shared_map : SharedMapFull cfg := by
  intro le w hw hi kind hk
  have h := C11_scan_never_fails le w hw hi kind hk
  rw [← C11_shared_map_frame] at h
  exact h

/-- the per-process form over the shared dict (there the dict IS a `defaultdict`: `get_proc_inodes`' own) -/
theorem C11_shared_map_process (le : Bool) (w : WorldE) (hw : w.view.WF) (hn : (w.procs.map (·.1)).Nodup)
    (kind : String) (hk : kind ∈ kinds) (p : Nat) (fds : List (Nat × TargetE))
    (hl : w.procs.lookup (p + 1) = some (.ok fds)) (hf : FdsInspectable fds) (hd : deniedIn fds = false) :
    ∃ rows, netConnectionsES (cfgLE le) (renderWorldE le w) kind (some (p + 1)) = .ok rows
      ∧ Accepts (expects w.view ⟨kind, some (p + 1)⟩) rows := by
  rw [C11_shared_map_frame]
  exact C11_scan_process le w hw hn kind hk p fds hl hf hd

/-- **C11_shared_inode_no_holder.** The clause "a socket with no visible holder has pid None and fd -1" over the shared
    dict: a requested socket nobody visibly holds is returned with `pid None, fd -1` — whatever OTHER sockets, of its own
    table or of a table read before it, are printed with the same inode number (there is no hypothesis about them). -/
theorem C11_shared_inode_no_holder (le : Bool) (w : WorldE) (hw : w.view.WF) (hi : w.Inspectable)
    (kind : String) (hk : kind ∈ kinds) (s : Sock) (hs : s ∈ w.socks)
    (hsel : kindSelects kind s.fam s.typ = true) (hh : holders w.view s.inode = []) :
    ∃ rows, netConnectionsES (cfgLE le) (renderWorldE le w) kind none = .ok rows
      ∧ rowOf s (none, -1) ∈ rows := by
  obtain ⟨rows, h1, h2⟩ := C11_shared_map le w hw hi kind hk
  refine ⟨rows, h1, ?_⟩
  have hs' : s ∈ w.view.socks := hs
  have hO : owners w.view ⟨kind, none⟩ s.inode = [(none, -1)] := by simp [owners, hh]
  have he : (⟨baseRow s, [(none, -1)], s.fam == .unix⟩ : Expect) ∈ expects w.view ⟨kind, none⟩ := by
    rw [mem_expects]; exact ⟨s, hs', hsel, by rw [expectOf_eq, hO]; simp⟩
  have := h2.covered _ he
  by_cases hu : s.fam = .unix
  · have hb : (s.fam == Fam.unix) = true := by simpa using hu
    simp only [hb, if_true] at this
    exact this (none, -1) (by simp)
  · have hb : (s.fam == Fam.unix) = false := by simpa using hu
    simp only [hb, Bool.false_eq_true, if_false] at this
    obtain ⟨o, ho, hr⟩ := this
    simp at ho; subst ho; exact hr

/-- the exact rows of the system-wide form over the shared dict (`C11_rows_which` for the function the driver runs) -/
theorem C11_shared_map_rows (le : Bool) (w : WorldE) (hw : w.view.WF) (hi : w.Inspectable)
    (kind : String) (hk : kind ∈ kinds) :
    ∃ rows, netConnectionsES (cfgLE le) (renderWorldE le w) kind none = .ok rows
      ∧ RowsAre w.view ⟨kind, none⟩ rows := by
  obtain ⟨rows, h1, _, h3⟩ :=
    netConnections_system_rows (cfgLE le) (cfgLE_good le) (cfgLE_tmap_good le) w.view hw kind hk
  obtain ⟨e1, e2⟩ := erase_renderWorldE (cfgLE le) (cfgLE_good le) le w hi
  refine ⟨rows, ?_, h3⟩
  rw [C11_shared_map_frame, netConnectionsE_system (cfgLE le) _ kind e2, e1]
  exact h1

theorem kindSelects_all (f : Fam) (typ : Nat) :
    kindSelects "all" f typ = (kindSelects "inet" f typ || kindSelects "unix" f typ) := by
  cases f <;> simp [kindSelects] <;> decide

/-- **C11_all_is_union.** "`all` = the sum of all the possible families and protocols": over the shared dict, for every
    inspectable well-formed world (any inode numbers shared between tables), the rows of kind `all` are exactly the rows
    of kind `inet` together with the rows of kind `unix` — the tables read first take nothing away from the later ones. -/
theorem C11_all_is_union (le : Bool) (w : WorldE) (hw : w.view.WF) (hi : w.Inspectable) :
    ∃ ra ri ru, netConnectionsES (cfgLE le) (renderWorldE le w) "all" none = .ok ra
      ∧ netConnectionsES (cfgLE le) (renderWorldE le w) "inet" none = .ok ri
      ∧ netConnectionsES (cfgLE le) (renderWorldE le w) "unix" none = .ok ru
      ∧ ∀ x, x ∈ ra ↔ x ∈ ri ∨ x ∈ ru := by
  obtain ⟨ra, ha, hra⟩ := C11_shared_map_rows le w hw hi "all" (by decide)
  obtain ⟨ri, hi', hri⟩ := C11_shared_map_rows le w hw hi "inet" (by decide)
  obtain ⟨ru, hu, hru⟩ := C11_shared_map_rows le w hw hi "unix" (by decide)
  refine ⟨ra, ri, ru, ha, hi', hu, fun x => ?_⟩
  rw [hra x, hri x, hru x]
  constructor
  · rintro ⟨s, hs, hsel, hx⟩
    have hsel' : kindSelects "all" s.fam s.typ = true := hsel
    rw [kindSelects_all, Bool.or_eq_true] at hsel'
    rcases hsel' with h | h
    · exact Or.inl ⟨s, hs, h, hx⟩
    · exact Or.inr ⟨s, hs, h, hx⟩
  · rintro (⟨s, hs, hsel, hx⟩ | ⟨s, hs, hsel, hx⟩)
    · exact ⟨s, hs, by show kindSelects "all" s.fam s.typ = true; rw [kindSelects_all]; simp [show kindSelects "inet" s.fam s.typ = true from hsel], hx⟩
    · exact ⟨s, hs, by show kindSelects "all" s.fam s.typ = true; rw [kindSelects_all]; simp [show kindSelects "unix" s.fam s.typ = true from hsel], hx⟩

/-! ### the witness: a TIME_WAIT TCP socket and a not yet accepted UNIX connection, both printed with inode 0 -/

/-- a UNIX stream connection still queued in the backlog of the listener bound to `/run/srv.sock`: the kernel prints it
    with the listener's name and inode 0 (it has no `struct socket` before `accept()`), nobody holds it -/
def sockPending : Sock :=
  { fam := .unix, typ := 1, lip := [], lport := 0, rip := [], rport := 0, state := 3,
    path := some (lit "/run/srv.sock"), inode := 0, txq := 0, rxq := 0, uid := 0, refcnt := 2, flags := 0 }

/-- net/tcp shows a TIME_WAIT socket (inode 0), net/unix the pending connection (inode 0); no process -/
def worldPending : WorldE := { socks := [sockTW 40000, sockPending], procs := [], v6 := true }

theorem worldPending_ok : worldPending.view.WF ∧ worldPending.Inspectable :=
  ⟨(C11_wf_iff _).mp (by decide), fun p hp => by cases hp⟩

/-- the code as it is: both sockets are reported, each with `pid None, fd -1` (instances of
    `C11_shared_inode_no_holder`; replayed on the real code: corpus world 7) -/
theorem C11_pending_unix_reported (le : Bool) :
    ∃ rows, netConnectionsES (cfgLE le) (renderWorldE le worldPending) "all" none = .ok rows
      ∧ rowOf sockPending (none, -1) ∈ rows ∧ rowOf (sockTW 40000) (none, -1) ∈ rows := by
  obtain ⟨rows, h1, h2⟩ := C11_shared_inode_no_holder le worldPending worldPending_ok.1 worldPending_ok.2 "all"
    (by decide) sockPending (by decide) (by decide) (by decide)
  obtain ⟨rows', h1', h2'⟩ := C11_shared_inode_no_holder le worldPending worldPending_ok.1 worldPending_ok.2 "all"
    (by decide) (sockTW 40000) (by decide) (by decide) (by decide)
  rw [h1] at h1'
  have := Except.ok.inj h1'
  subst this
  exact ⟨rows, h1, h2, h2'⟩

/-- a configuration in which `get_all_inodes` builds a `defaultdict(list)` and `process_inet` subscripts it without the
    membership test (`holders = inodes[inode]; pid, fd = holders[0] if holders else (None, -1)`): the shape of seeded
    change C11-4 — each of the two edits is harmless alone -/
def cfgInsertingLookup : Cfg := { cfg with allInodesDefault := true, inetLookup := .subscript }

/-- the same effect through `inodes.setdefault(inode, [])` on the plain dict -/
def cfgSetdefaultLookup : Cfg := { cfg with inetLookup := .setdefault }

/-- a lookup that inserts, on `worldPending`: the TIME_WAIT line of net/tcp leaves `'0': []` in the dict, net/unix is
    read after it, `'0' in inodes` now holds, `pairs = []`: the pending connection yields NO row -/
theorem pending_rows_inserting (c : Cfg) (hc : c = cfgInsertingLookup ∨ c = cfgSetdefaultLookup) :
    (netConnectionsES { c with littleEndian := true } (renderWorldE true worldPending) "all" none).toOption
      = some [rowOf (sockTW 40000) (none, -1)] := by
  rcases hc with rfl | rfl <;> decide +kernel

theorem not_sharedMapFull_of (c : Cfg)
    (hr : (netConnectionsES { c with littleEndian := true } (renderWorldE true worldPending) "all" none).toOption
      = some [rowOf (sockTW 40000) (none, -1)]) : ¬ SharedMapFull c := by
  intro h
  obtain ⟨rows, h1, h2⟩ := h true worldPending worldPending_ok.1 worldPending_ok.2 "all" (by decide)
  rw [h1] at hr
  have hrows : rows = [rowOf (sockTW 40000) (none, -1)] := by simpa [Except.toOption] using hr
  subst hrows
  have he : (⟨baseRow sockPending, [(none, -1)], true⟩ : Expect) ∈ expects worldPending.view ⟨"all", none⟩ := by
    decide
  have hc := h2.covered _ he
  simp only [if_true] at hc
  have := hc (none, -1) (by simp)
  revert this
  decide

/-- **C11_shared_map_counterexample.** With a lookup in `process_inet` that creates the key it misses
    (`defaultdict` + bare subscript) the full statement is false: `net_connections('all')` on `worldPending` returns the
    TIME_WAIT row only — the UNIX connection, which `net_connections('unix')` reports, is gone. -/
theorem C11_shared_map_counterexample : ¬ SharedMapFull cfgInsertingLookup :=
  not_sharedMapFull_of _ (pending_rows_inserting _ (Or.inl rfl))

/-- …and the same for `inodes.setdefault(inode, [])` on the plain dict -/
theorem C11_shared_map_setdefault_counterexample : ¬ SharedMapFull cfgSetdefaultLookup :=
  not_sharedMapFull_of _ (pending_rows_inserting _ (Or.inr rfl))

/-- each of the two edits of the seeded change alone is harmless: a `defaultdict` with guarded lookups is covered by
    `C11_shared_map_frame` (which does not look at `allInodesDefault`); a bare subscript on the plain dict raises
    KeyError for every holder-less socket -/
theorem C11_bare_subscript_plain_dict_KeyError :
    (netConnectionsES { cfg with inetLookup := .subscript, littleEndian := true } (renderWorldE true worldPending) "all" none).toOption
      = none := by
  decide +kernel

/-! ## The hypotheses are satisfiable -/

/-- a world with a listening TCP socket shared by two processes, a UNIX socket bound to a name
    with a blank, an unlistable process and a vanished link -/
def sampleWorld : World :=
  { socks := [
      { fam := .inet4, typ := 1, lip := [127, 0, 0, 1], lport := 631, rip := [0, 0, 0, 0], rport := 0,
        state := 10, path := none, inode := 12345, txq := 0, rxq := 0, uid := 0, refcnt := 2, flags := 0 },
      sockL11 ],
    procs := [(10, some [(3, .sock 12345), (4, .sock 20001), (0, .other (lit "/dev/null"))]),
              (20, some [(5, .sock 12345), (6, .gone)]), (30, none)],
    v6 := true }

example : sampleWorld.WF := by
  refine ⟨?_, ?_, (by intro h; cases h)⟩
  · intro s hs
    simp only [sampleWorld, List.mem_cons, List.not_mem_nil, or_false] at hs
    rcases hs with rfl | rfl
    · simp [Sock.WF]
    · simp only [Sock.WF, sockL11]
      refine ⟨by decide, ?_⟩
      intro p hp; cases hp; decide
  · intro p hp fds hfd e he
    simp only [sampleWorld, List.mem_cons, List.not_mem_nil, or_false] at hp
    rcases hp with rfl | rfl | rfl
    · simp at hfd; subst hfd
      simp at he
      rcases he with rfl | rfl | rfl
      · trivial
      · trivial
      · simp only [Target.WF]; decide
    · simp at hfd; subst hfd
      simp at he
      rcases he with rfl | rfl <;> trivial
    · simp at hfd

example : (sampleWorld.procs.map (·.1)).Nodup := by decide
example : sampleWorld.procs.lookup (9 + 1) = some (some [(3, .sock 12345), (4, .sock 20001), (0, .other (lit "/dev/null"))]) := by
  decide
example : holders sampleWorld 12345 = [(10, 3), (20, 5)] := by decide
example : "unix" ∈ kinds ∧ "bogus" ∉ kinds := by decide
example : holders worldFork 7 = [(10, 3), (20, 5)] := by decide
/-- `FirstAmongHolders` holds for the first holder (PID 10) and fails for the second (PID 20) -/
example : FirstAmongHolders worldFork 10 := by
  intro s hs _ h hh hp
  simp only [worldFork, List.mem_cons, List.not_mem_nil, or_false] at hs
  subst hs
  exact ⟨(10, 3), by decide, rfl⟩
example : FirstAmongHolders sampleWorld 10 := by
  intro s hs hf h hh hp
  simp only [sampleWorld, List.mem_cons, List.not_mem_nil, or_false] at hs
  rcases hs with rfl | rfl
  · exact ⟨(10, 3), by decide, rfl⟩
  · exact absurd rfl hf

end Psutil.C11
