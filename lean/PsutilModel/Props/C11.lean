import PsutilModel.Model.C11Gen
import PsutilModel.Spec.C11
namespace Psutil.C11

theorem C11_placeholder : cfg.inodesExtend = true := by decide

end Psutil.C11
