import PsutilModel.Proofs.C15
import PsutilModel.Model.C15Gen
namespace Psutil.C15

theorem cfg_good : cfg.Good := by constructor <;> decide

end Psutil.C15
