/-
  Props/C15.lean — property theorems for C15 (wait / wait_procs). Only statements the property
  makes; helper lemmas live in Proofs/C15*.lean.

  `cfg` is built from Generated/C15.lean, which the translator rewrites from /repo's source on
  every run; `cfg_good` is the proof obligation that breaks when the constants 0.0001 / 2 / 0.04,
  the check-before-sleep order, the `>=` of the deadline check or the `>= 0` validation of
  `Process.wait` change (the `1.0 / len(alive)` slice of `wait_procs` is NOT part of `cfg_good`: the
  property theorems hold for any slice; it has its own obligation `cfg_wait_procs_slice`, a
  characterisation of the code). Further obligations: `cfg_popen_validates_first`,
  `cfg_wait_procs_shape`, `cfg_pid_test`, `cfg_waitpid_flags`, `cfg_check_gone_order`.

  Every theorem quantifies over ALL environments (child with any status word / non-child /
  never existed; any exit instant or none; any EINTR pattern), all timeouts, start instants and
  fuel; "the call returns" = the fuelled run ends in something else than `outOfFuel`.
-/
import Mathlib.Data.Rat.Floor
import PsutilModel.Proofs.C15Examples
import PsutilModel.Proofs.C15Term
import PsutilModel.Proofs.C15Ext
import PsutilModel.Proofs.C15R2
import PsutilModel.Proofs.C15Cost
import PsutilModel.Proofs.C15R3
import PsutilModel.Proofs.C15Probe
import PsutilModel.Proofs.C15Clock
import PsutilModel.Model.C15Gen
namespace Psutil.C15
open Spec

theorem cfg_good : cfg.Good := by constructor <;> decide

/-- what a caller observes of one `wait_pid(pid, timeout)` started at `now` -/
def obsWait (env : Env) (pid : Nat) (timeout : Option Rat) (fuel : Nat) (now : Rat) (nWait : Nat) : Obs :=
  ⟨(waitPid cfg env pid timeout fuel now nWait).1, (waitPid cfg env pid timeout fuel now nWait).2.now,
   (waitPid cfg env pid timeout fuel now nWait).2.sleeps⟩

/-- what a caller observes of one `Process.wait(timeout)` started at `now` on object `p` -/
def obsProc (env : Env) (timeout : Option Rat) (fuel : Nat) (now : Rat) (p : PObj) : Obs :=
  ⟨(procWait cfg env timeout fuel now p).out, (procWait cfg env timeout fuel now p).now,
   (procWait cfg env timeout fuel now p).sleeps⟩

/-- `Process.wait` on an object without a stored exit code, with an acceptable timeout, is `wait_pid` -/
theorem C15_process_wait_is_wait_pid (env : Env) (timeout : Option Rat) (fuel : Nat) (now : Rat) (p : PObj)
    (hc : p.exitcode = none) (hn : negative timeout = false) :
    obsProc env timeout fuel now p = obsWait env p.pid timeout fuel now p.nWait := by
  simp [obsProc, obsWait, procWait_fresh env timeout fuel now p hc hn]

/-! ## one call -/

/-- never early: an exit status / None is returned only once the process has really ended; an
    exit status only for a child, None only for a non-child -/
theorem C15_never_early (env : Env) (pid : Nat) (timeout : Option Rat) (fuel : Nat) (now : Rat) (nWait : Nat) :
    neverEarly ⟨env, pid, timeout, now⟩ (obsWait env pid timeout fuel now nWait) := by
  have h := waitPid_neverEarly cfg_good env pid timeout fuel now nWait
  unfold neverEarly obsWait
  simp only
  split
  · rename_i cc hc; exact h.1 cc hc
  · rename_i hc; exact h.2 hc
  · trivial

/-- the decoding chain inverts the kernel's encoding: `exit(c)` ↦ c for all 0 ≤ c ≤ 255, killed by
    signal s ↦ −s for all 1 ≤ s ≤ 126, core dump flag or not -/
theorem C15_status_decode (cause : Cause) (hv : cause.Valid) :
    decode cause.status = .code cause.value := decode_status hv

/-- … hence a child that ended by `cause` makes `wait` return `cause.value` -/
theorem C15_right_status (env : Env) (pid : Nat) (timeout : Option Rat) (fuel : Nat) (now : Rat) (nWait : Nat) :
    rightStatus ⟨env, pid, timeout, now⟩ (obsWait env pid timeout fuel now nWait) := by
  unfold rightStatus obsWait
  simp only
  split
  · rename_i st cc hk ho
    intro cause hm hs
    obtain ⟨st', hk', hd⟩ := waitPid_decode cfg_good env pid timeout fuel now nWait cc ho
    rw [hk] at hk'; cases hk'
    have := decode_status (mem_allCauses.1 hm)
    rw [hs, hd] at this
    cases this; rfl
  · trivial

/-- a PID that never existed: None at once, zero sleeps -/
theorem C15_never_existed_at_once (env : Env) (pid : Nat) (timeout : Option Rat) (fuel : Nat) (now : Rat)
    (nWait : Nat) (hp : 0 < pid) (he : env.eintr nWait = false) (hf : 1 ≤ fuel) :
    neverExistedAtOnce ⟨env, pid, timeout, now⟩ (obsWait env pid timeout fuel now nWait) true := by
  intro hk _
  exact waitPid_neverExisted env pid timeout fuel now nWait hk hp he hf

/-- index of the last `os.waitpid` call the run made -/
def lastCall (env : Env) (pid : Nat) (timeout : Option Rat) (fuel : Nat) (now : Rat) (nWait : Nat) : Nat :=
  (waitPid cfg env pid timeout fuel now nWait).2.nWait - 1

/-- FULL statement: TimeoutExpired(seconds = timeout, pid) is raised only if the deadline has
    passed with the process still alive — for every EINTR pattern. FALSE of the code, see
    `C15_timeout_sound_counterexample`. -/
def C15_timeout_sound_Full : Prop :=
  ∀ (env : Env) (pid : Nat) (timeout : Option Rat) (fuel : Nat) (now : Rat) (nWait : Nat),
    timeoutSound ⟨env, pid, timeout, now⟩ (obsWait env pid timeout fuel now nWait)

/-- proved part: whenever the LAST waitpid call of the run was not interrupted (in particular: on
    a kernel that never interrupts a WNOHANG waitpid) -/
theorem C15_timeout_sound_partial (env : Env) (pid : Nat) (timeout : Option Rat) (fuel : Nat) (now : Rat)
    (nWait : Nat) (hne : env.eintr (lastCall env pid timeout fuel now nWait) = false) :
    timeoutSound ⟨env, pid, timeout, now⟩ (obsWait env pid timeout fuel now nWait) := by
  unfold timeoutSound obsWait
  simp only
  split
  · rename_i sec p ho
    obtain ⟨h1, h2, h3, h4⟩ := waitPid_timeoutSound cfg_good env pid timeout fuel now nWait sec p ho
    exact ⟨h1, h2, h3, h4 hne⟩
  · trivial

/-- … and, interrupted or not: the exception carries `seconds = timeout` and the pid, and is
    raised at or after the deadline -/
theorem C15_timeout_fields (env : Env) (pid : Nat) (timeout : Option Rat) (fuel : Nat) (now : Rat)
    (nWait : Nat) (sec : Rat) (p : Nat)
    (h : (obsWait env pid timeout fuel now nWait).out = .timeout sec p) :
    timeout = some sec ∧ p = pid ∧ now + sec ≤ (obsWait env pid timeout fuel now nWait).ret := by
  obtain ⟨h1, h2, h3, _⟩ := waitPid_timeoutSound cfg_good env pid timeout fuel now nWait sec p h
  exact ⟨h1, h2, h3⟩

/-- counterexample (replayed on the real code by the harness, finding C15-eintr-deadline):
    `wait(timeout=0)` at instant 1 on a child dead since instant 0 raises TimeoutExpired when its
    only poll is interrupted -/
theorem C15_timeout_sound_counterexample : ¬ C15_timeout_sound_Full := by
  intro h
  have h1 := h witnessEnv 7 (some 0) 5 1 0
  obtain ⟨r1, r2⟩ := witness_run cfg_good
  unfold timeoutSound obsWait at h1
  simp only [r1, r2] at h1
  exact h1.2.2.2 (Or.inr (by simp [witnessEnv]))

/-- at most one 40 ms poll late -/
theorem C15_at_most_one_poll_late (env : Env) (pid : Nat) (timeout : Option Rat) (fuel : Nat) (now : Rat)
    (nWait : Nat) : onePollLate ⟨env, pid, timeout, now⟩ (obsWait env pid timeout fuel now nWait) := by
  unfold onePollLate obsWait
  simp only
  split
  · rename_i sec p ho
    intro h0
    obtain ⟨h1, _, _, _⟩ := waitPid_timeoutSound cfg_good env pid timeout fuel now nWait sec p ho
    exact waitPid_bound cfg_good env pid timeout fuel now nWait sec h1 h0
  · trivial

/-- … in fact with a timeout τ ≥ 0 the call comes back, whatever the result, before τ + 40 ms -/
theorem C15_returns_before_deadline_plus_poll (env : Env) (pid : Nat) (τ : Rat) (fuel : Nat) (now : Rat)
    (nWait : Nat) (h0 : 0 ≤ τ) : (obsWait env pid (some τ) fuel now nWait).ret < now + τ + Spec.cap :=
  waitPid_bound cfg_good env pid (some τ) fuel now nWait τ rfl h0

/-- the n-th sleep is min (0.0001 · 2ⁿ) 0.04: starts at 0.1 ms, doubles, never exceeds 40 ms -/
theorem C15_intervals (env : Env) (pid : Nat) (timeout : Option Rat) (fuel : Nat) (now : Rat) (nWait : Nat) :
    intervalsOk (obsWait env pid timeout fuel now nWait) := by
  unfold intervalsOk obsWait
  simp only
  intro p hp
  have := waitPid_intervals cfg_good env pid timeout fuel now nWait p.2 p.1
  exact this (List.mem_zipIdx_iff_getElem?.1 hp)

theorem C15_interval_values : iv 0 = 1 / 10000 ∧ iv 1 = 1 / 5000 ∧ iv 8 = 16 / 625 ∧ iv 9 = 1 / 25 ∧
    ∀ n, iv n ≤ 1 / 25 ∧ 1 / 10000 ≤ iv n := by
  refine ⟨by norm_num [iv, pow2, rmin, Spec.i0, Spec.cap], by norm_num [iv, pow2, rmin, Spec.i0, Spec.cap],
    by norm_num [iv, pow2, rmin, Spec.i0, Spec.cap], by norm_num [iv, pow2, rmin, Spec.i0, Spec.cap], fun n => ?_⟩
  have h1 := iv_le_cap n
  have h2 := i0_le_iv n
  simp only [Spec.cap, Spec.i0] at h1 h2
  exact ⟨h1, h2⟩

theorem C15_timeout_zero_never_sleeps (env : Env) (pid : Nat) (timeout : Option Rat) (fuel : Nat) (now : Rat)
    (nWait : Nat) : zeroNeverSleeps ⟨env, pid, timeout, now⟩ (obsWait env pid timeout fuel now nWait) := by
  intro ht
  exact (waitPid_zeroTimeout cfg_good env pid timeout fuel now nWait 0 ht (le_refl _)).1

/-- `Process.wait`: a negative timeout raises ValueError (before anything else happens) -/
theorem C15_negative_ValueError (env : Env) (timeout : Option Rat) (fuel : Nat) (now : Rat) (p : PObj) :
    negativeIsValueError ⟨env, p.pid, timeout, now⟩ (obsProc env timeout fuel now p) ∧
    (negative timeout = true → (procWait cfg env timeout fuel now p).obj = p) := by
  constructor
  · intro h
    simp [obsProc, procWait_negative cfg_good env timeout fuel now p h]
  · intro h
    simp [procWait_negative cfg_good env timeout fuel now p h]

/-- cached: once a call has given a result, every later call on the same object — whatever the
    environment, timeout (≥ 0 or None) and instant — gives the stored value at once, with no
    sleep and no waitpid call -/
theorem C15_cached (env env' : Env) (t1 t2 : Option Rat) (f1 f2 : Nat) (now1 now2 : Rat) (p : PObj)
    (h2 : negative t2 = false)
    (hres : ∃ v, (procWait cfg env t1 f1 now1 p).out.value? = some v) :
    let q := (procWait cfg env t1 f1 now1 p).obj
    cachedOk (procWait cfg env t1 f1 now1 p).out (obsProc env' t2 f2 now2 q) now2
      ((procWait cfg env' t2 f2 now2 q).obj.nWait - q.nWait) ∧
    (procWait cfg env' t2 f2 now2 q).obj = q := by
  obtain ⟨v, hv⟩ := hres
  -- the first call stored `v`
  have hq : (procWait cfg env t1 f1 now1 p).obj.exitcode = some v ∧
      Outcome.ofValue v = (procWait cfg env t1 f1 now1 p).out := by
    unfold procWait at hv ⊢
    split
    · rename_i hneg; simp [hneg] at hv; simp [Outcome.value?] at hv
    · rename_i hneg
      cases hx : p.exitcode with
      | some v' =>
        simp [hneg, hx] at hv ⊢
        cases v' <;> simp [Outcome.ofValue, Outcome.value?] at hv ⊢ <;> subst hv <;> simp
      | none =>
        simp [hneg, hx] at hv ⊢
        exact ⟨hv, ofValue_value? _ v hv⟩
  intro q
  have e := procWait_cached (c := cfg) env' t2 f2 now2 q v hq.1 h2
  refine ⟨?_, by rw [e]⟩
  unfold cachedOk obsProc
  rw [e, ← hq.2]
  cases v <;> simp [Outcome.ofValue]

/-- FULL statement: an EINTR pattern changes the sleep log only, never the result. FALSE of the
    code (same witness: without the interruption the call returns 0). -/
def C15_eintr_harmless_Full : Prop :=
  ∀ (env : Env) (e' : Nat → Bool) (pid : Nat) (timeout : Option Rat) (fuel : Nat) (now : Rat) (nWait : Nat),
    let o1 := (waitPid cfg env pid timeout fuel now nWait).1
    let o2 := (waitPid cfg { env with eintr := e' } pid timeout fuel now nWait).1
    o1 ≠ .outOfFuel → o1 ≠ .hang → o2 ≠ .outOfFuel → o2 ≠ .hang → o1 = o2

/-- proved part: two runs that differ only in the EINTR pattern and both give a result (exit
    status / None) give the same one — an interruption can delay a result or (the finding) turn it
    into TimeoutExpired at the deadline, never change it -/
theorem C15_eintr_harmless_partial (env : Env) (e' : Nat → Bool) (pid : Nat) (t t' : Option Rat)
    (fuel fuel' : Nat) (now now' : Rat) (nWait nWait' : Nat) (v v' : Option Int)
    (h1 : (waitPid cfg env pid t fuel now nWait).1.value? = some v)
    (h2 : (waitPid cfg { env with eintr := e' } pid t' fuel' now' nWait').1.value? = some v') :
    v = v' := by
  have s1 := waitPid_shape cfg_good env pid t fuel now nWait
  have s2 := waitPid_shape cfg_good { env with eintr := e' } pid t' fuel' now' nWait'
  have key : ∀ (o : Outcome) (w : Option Int), o.value? = some w →
      (o = .outOfFuel ∨ o = .hang ∨ (∃ sec p, o = .timeout sec p) ∨ (pid = 0 ∧ o = .valueError) ∨
        (∃ st, env.kind = .child st ∧ o = decode st) ∨ ((∀ st, env.kind ≠ .child st) ∧ o = .none)) →
      (∃ st, env.kind = .child st ∧ decode st = Outcome.ofValue w) ∨
      ((∀ st, env.kind ≠ .child st) ∧ w = none) := by
    intro o w hw hs
    rcases hs with h | h | ⟨_, _, h⟩ | ⟨_, h⟩ | ⟨st, hk, h⟩ | ⟨hk, h⟩
    · rw [h] at hw; simp [Outcome.value?] at hw
    · rw [h] at hw; simp [Outcome.value?] at hw
    · rw [h] at hw; simp [Outcome.value?] at hw
    · rw [h] at hw; simp [Outcome.value?] at hw
    · left; exact ⟨st, hk, by rw [← h]; exact (ofValue_value? o w hw).symm⟩
    · right; refine ⟨hk, ?_⟩; rw [h] at hw; simp [Outcome.value?] at hw; exact hw.symm
  rcases key _ v h1 s1 with ⟨st, hk, hd⟩ | ⟨hk, hv⟩ <;>
    rcases key _ v' h2 s2 with ⟨st', hk', hd'⟩ | ⟨hk', hv'⟩
  · rw [hk] at hk'; cases hk'
    rw [hd] at hd'
    cases v <;> cases v' <;> simp [Outcome.ofValue] at hd' ⊢
    exact hd'
  · exact absurd hk (hk' st)
  · exact absurd hk' (hk st')
  · rw [hv, hv']

/-- without a timeout (blocking waitpid — the only call a Linux kernel ever interrupts) the full
    statement holds: whatever the EINTR patterns, two runs that come back give the same outcome -/
theorem C15_eintr_harmless_blocking (env : Env) (e' : Nat → Bool) (pid : Nat) (fuel fuel' : Nat)
    (now now' : Rat) (nWait nWait' : Nat)
    (h1 : (waitPid cfg env pid none fuel now nWait).1 ≠ .outOfFuel)
    (h1' : (waitPid cfg env pid none fuel now nWait).1 ≠ .hang)
    (h2 : (waitPid cfg { env with eintr := e' } pid none fuel' now' nWait').1 ≠ .outOfFuel)
    (h2' : (waitPid cfg { env with eintr := e' } pid none fuel' now' nWait').1 ≠ .hang) :
    (waitPid cfg env pid none fuel now nWait).1 =
      (waitPid cfg { env with eintr := e' } pid none fuel' now' nWait').1 := by
  by_cases hp : pid = 0
  · rw [waitPid_zero env pid none fuel now nWait hp, waitPid_zero _ pid none fuel' now' nWait' hp]
  have s1 := waitPid_shape cfg_good env pid none fuel now nWait
  have s2 := waitPid_shape cfg_good { env with eintr := e' } pid none fuel' now' nWait'
  have t1 : ∀ sec p, (waitPid cfg env pid none fuel now nWait).1 ≠ .timeout sec p := by
    intro sec p h
    have := (waitPid_timeoutSound cfg_good env pid none fuel now nWait sec p h).1
    cases this
  have t2 : ∀ sec p, (waitPid cfg { env with eintr := e' } pid none fuel' now' nWait').1 ≠ .timeout sec p := by
    intro sec p h
    have := (waitPid_timeoutSound cfg_good _ pid none fuel' now' nWait' sec p h).1
    cases this
  rcases s1 with h | h | ⟨sec, p, h⟩ | ⟨hp', _⟩ | ⟨st, hk, h⟩ | ⟨hk, h⟩
  · exact absurd h h1
  · exact absurd h h1'
  · exact absurd h (t1 sec p)
  · exact absurd hp' hp
  · rcases s2 with g | g | ⟨sec, p, g⟩ | ⟨hp', _⟩ | ⟨st', hk', g⟩ | ⟨hk', g⟩
    · exact absurd g h2
    · exact absurd g h2'
    · exact absurd g (t2 sec p)
    · exact absurd hp' hp
    · simp only at hk'; rw [hk] at hk'; cases hk'; rw [h, g]
    · exact absurd hk (hk' st)
  · rcases s2 with g | g | ⟨sec, p, g⟩ | ⟨hp', _⟩ | ⟨st', hk', g⟩ | ⟨hk', g⟩
    · exact absurd g h2
    · exact absurd g h2'
    · exact absurd g (t2 sec p)
    · exact absurd hp' hp
    · exact absurd hk' (hk st')
    · rw [h, g]

theorem C15_eintr_harmless_counterexample : ¬ C15_eintr_harmless_Full := by
  intro h
  have h1 := h witnessEnv (fun _ => false) 7 (some 0) 5 1 0
  simp only [(witness_run cfg_good).1, witness_clean_run cfg] at h1
  exact absurd (h1 (by simp) (by simp) (by simp) (by simp)) (by simp)

/-- termination given a timeout: ⌈τ / 0.0001⌉ + 2 iterations always suffice (every iteration
    that goes on advances the clock by ≥ 0.1 ms, and goes on only before the deadline); a call
    with a timeout never blocks in waitpid either -/
theorem C15_terminates_with_timeout (env : Env) (pid : Nat) (τ : Rat) (fuel : Nat) (now : Rat) (nWait : Nat)
    (hf : ⌈τ * 10000⌉₊ + 2 ≤ fuel) :
    comesBack ⟨env, pid, some τ, now⟩ (obsWait env pid (some τ) fuel now nWait) := by
  intro _
  refine ⟨waitPid_noHang cfg_good env pid (some τ) fuel now nWait τ rfl, ?_⟩
  apply waitPid_terminates cfg_good env pid (some τ) fuel now nWait τ rfl (by omega)
  have := Nat.le_ceil (τ * 10000)
  have h2 : ((⌈τ * 10000⌉₊ + 2 : ℕ) : ℚ) ≤ fuel := by exact_mod_cast hf
  push_cast at h2
  simp only [Spec.i0]
  linarith

/-! ## `wait_procs` -/

/-- what a caller observes of `wait_procs` -/
def obsProcs (w' : WP) (alive' : List Nat) : WPObs :=
  ⟨w'.gone, alive', fun p => (w'.objs p).returncode, w'.cbLog, w'.now⟩

section
variable (envOf : Nat → Env) (procs : List Nat) (timeout : Option Rat) (hasCb : Bool)
  (order : Nat → List Nat → List Nat) (fuel : Nat) (w w' : WP) (alive' : List Nat)
  (hperm : ∀ k l, (order k l).Perm l)            -- Python may iterate a set in any order
  (hf : Fresh envOf w)                           -- nothing gone yet; stored exit codes are true ones
  (h : waitProcs cfg envOf procs timeout hasCb order fuel w = .ok (w', alive'))
include hperm hf h

/-- gone and alive are disjoint, duplicate-free, and together are exactly the processes handed in -/
theorem C15_wait_procs_partition :
    partitionOk ⟨envOf, procs, timeout, w.now, hasCb⟩ (obsProcs w' alive') := by
  obtain ⟨⟨hi, hnd, hmem⟩, _, _, _⟩ :=
    waitProcs_inv cfg_good envOf hasCb fuel order hperm procs timeout w w' alive' hf h
  unfold partitionOk obsProcs
  simp only
  refine ⟨?_, fun pid => ?_⟩
  · rw [List.nodup_append]
    refine ⟨hi.nodup, hnd, fun a ha b hb e => ?_⟩
    subst e
    exact ((hmem a).1 hb).2 ha
  · rw [List.mem_append]
    constructor
    · rintro (hg | ha)
      · exact mem_dedup.1 (hi.sub pid hg)
      · exact mem_dedup.1 ((hmem pid).1 ha).1
    · intro hp
      by_cases hg : pid ∈ w'.gone
      · exact Or.inl hg
      · exact Or.inr ((hmem pid).2 ⟨mem_dedup.2 hp, hg⟩)

/-- the callback is called exactly once for each gone process (in the order they were found
    gone) and for nothing else -/
theorem C15_callback_once :
    callbackOnce ⟨envOf, procs, timeout, w.now, hasCb⟩ (obsProcs w' alive') ∧
    w'.cbLog = (if hasCb then w'.gone else []) := by
  obtain ⟨⟨hi, _, _⟩, _, _, _⟩ :=
    waitProcs_inv cfg_good envOf hasCb fuel order hperm procs timeout w w' alive' hf h
  refine ⟨?_, hi.cb⟩
  unfold callbackOnce obsProcs
  simp only
  rw [hi.cb]
  cases hasCb
  · simp
  · simp only [if_true]
    exact ⟨hi.nodup, fun _ hp => hp, fun _ hp => hp⟩

/-- every gone process has `returncode` set — to the value of the cause its status word encodes
    (a child), to None (not a child) — and it is the value `wait()` stored -/
theorem C15_returncode_set :
    returncodeSet ⟨envOf, procs, timeout, w.now, hasCb⟩ (obsProcs w' alive') ∧
    ∀ pid ∈ w'.gone, (w'.objs pid).returncode = (w'.objs pid).exitcode ∧ (w'.objs pid).exitcode ≠ none := by
  obtain ⟨⟨hi, _, _⟩, _, _, _⟩ :=
    waitProcs_inv cfg_good envOf hasCb fuel order hperm procs timeout w w' alive' hf h
  constructor
  · unfold returncodeSet obsProcs
    simp only
    intro pid hp
    obtain ⟨v, h1, h2⟩ := hi.rc pid hp
    obtain ⟨⟨r1, r2⟩, _⟩ := hi.cache pid v h2
    rw [h1]
    cases hk : (envOf pid).kind with
    | child st =>
      simp only
      intro cause hm hs
      cases v with
      | none => exact absurd (isChild_iff.2 ⟨st, hk⟩) (r2 rfl)
      | some cc =>
        obtain ⟨st', hk', hd⟩ := r1 cc rfl
        rw [hk] at hk'; cases hk'
        have := decode_status (mem_allCauses.1 hm)
        rw [hs, hd] at this
        cases this; rfl
    | nonChild =>
      simp only
      cases v with
      | none => rfl
      | some cc => obtain ⟨st', hk', _⟩ := r1 cc rfl; rw [hk] at hk'; cases hk'
    | neverExisted =>
      simp only
      cases v with
      | none => rfl
      | some cc => obtain ⟨st', hk', _⟩ := r1 cc rfl; rw [hk] at hk'; cases hk'
  · intro pid hp
    obtain ⟨v, h1, h2⟩ := hi.rc pid hp
    rw [h1, h2]; simp

/-- every process reported gone had really ended by the time `wait_procs` returned -/
theorem C15_wait_procs_gone_ended :
    goneEnded ⟨envOf, procs, timeout, w.now, hasCb⟩ (obsProcs w' alive') := by
  obtain ⟨⟨hi, _, _⟩, _, _, _⟩ :=
    waitProcs_inv cfg_good envOf hasCb fuel order hperm procs timeout w w' alive' hf h
  intro pid hp
  obtain ⟨v, _, h2⟩ := hi.rc pid hp
  exact (hi.cache pid v h2).2

/-- returns before start + timeout + one 40 ms poll (and never before it started) -/
theorem C15_wait_procs_deadline :
    deadlineOk ⟨envOf, procs, timeout, w.now, hasCb⟩ (obsProcs w' alive') ∧ w.now ≤ w'.now := by
  obtain ⟨_, hm, hd, _⟩ :=
    waitProcs_inv cfg_good envOf hasCb fuel order hperm procs timeout w w' alive' hf h
  refine ⟨?_, hm⟩
  unfold deadlineOk obsProcs
  simp only
  cases timeout with
  | some τ => simp only; intro _; exact hd τ rfl
  | none => trivial

/-- without a timeout `wait_procs` returns only when nothing is left alive -/
theorem C15_wait_procs_no_timeout_all_gone :
    noTimeoutAllGone ⟨envOf, procs, timeout, w.now, hasCb⟩ (obsProcs w' alive') := by
  obtain ⟨_, _, _, hn⟩ :=
    waitProcs_inv cfg_good envOf hasCb fuel order hperm procs timeout w w' alive' hf h
  exact hn

end

/-- `wait_procs` with a timeout τ ≥ 0 comes back: with more than N + τ·N + 2 passes (N distinct
    processes) and τ/0.0001 + 1 iterations per inner wait the run can end neither in outOfFuel nor in a
    blocking waitpid; the only exception that can escape is ValueError (a status word that is not a
    termination status). Together with `C15_wait_procs_deadline`: it returns, before deadline + 40 ms. -/
theorem C15_wait_procs_terminates (envOf : Nat → Env) (procs : List Nat) (τ : Rat) (hasCb : Bool)
    (order : Nat → List Nat → List Nat) (fuel : Nat) (w : WP)
    (hperm : ∀ k l, (order k l).Perm l) (hf : Fresh envOf w) (hτ : 0 ≤ τ)
    (h1 : ((dedup procs).length : Rat) + τ * ((dedup procs).length : Rat) + 2 < (fuel : Rat))
    (h2 : τ * 10000 + 1 ≤ (fuel : Rat)) (o : Outcome)
    (h : waitProcs cfg envOf procs (some τ) hasCb order fuel w = .error o) : o = .valueError :=
  waitProcs_terminates cfg_good envOf hasCb fuel order hperm (by decide) procs τ w hτ hf h1 h2 o h

/-- a negative timeout makes `wait_procs` raise ValueError before touching anything -/
theorem C15_wait_procs_negative (envOf : Nat → Env) (procs : List Nat) (τ : Rat) (hasCb : Bool)
    (order : Nat → List Nat → List Nat) (fuel : Nat) (w : WP) (hτ : τ < 0) :
    waitProcs cfg envOf procs (some τ) hasCb order fuel w = .error .valueError := by
  simp [waitProcs, negative, hτ]

/-! ## extension — "ended before the deadline is never a timeout", arguments refused, waiting
      for oneself, what `alive` means, `psutil.Popen.wait`, EINTR at the deadline revisited -/

/-- a process that has ended by the deadline — in particular one whose exit falls strictly between
    the last poll made before the deadline and the deadline itself — is never reported as timed
    out: for EVERY exit instant, timeout, start instant and status word, as long as the wait's
    last waitpid call was not interrupted (finding C15-eintr-deadline) -/
theorem C15_timeout_sound_ended_before_deadline (env : Env) (pid : Nat) (τ : Rat) (fuel : Nat) (now : Rat)
    (nWait : Nat) (hend : endedBy env (now + τ))
    (hne : env.eintr (lastCall env pid (some τ) fuel now nWait) = false) (sec : Rat) (p : Nat) :
    (obsWait env pid (some τ) fuel now nWait).out ≠ .timeout sec p := by
  intro h
  have hs := C15_timeout_sound_partial env pid (some τ) fuel now nWait hne
  unfold timeoutSound at hs
  rw [h] at hs
  simp only at hs
  obtain ⟨h1, _, h3, h4⟩ := hs
  cases h1
  exact h4 (endedBy_mono hend h3)

/-- PID 0 is refused by `wait_pid`: ValueError at once, nothing slept -/
theorem C15_pid0_ValueError (env : Env) (timeout : Option Rat) (fuel : Nat) (now : Rat) (nWait : Nat) :
    pidZeroRefused ⟨env, 0, timeout, now⟩ (obsWait env 0 timeout fuel now nWait) := by
  intro _ _
  simp [obsWait, waitPid_zero env 0 timeout fuel now nWait rfl]

/-- … and so by `Process.wait` on a PID-0 object; nothing is stored, so every later call is refused
    again (a negative timeout is still reported first) -/
theorem C15_pid0_process_wait (env : Env) (timeout : Option Rat) (fuel : Nat) (now : Rat) (p : PObj)
    (hp : p.pid = 0) (hc : p.exitcode = none) :
    pidZeroRefused ⟨env, p.pid, timeout, now⟩ (obsProc env timeout fuel now p) ∧
    (negative timeout = false → (procWait cfg env timeout fuel now p).obj = p) := by
  constructor
  · intro _ hn
    simp [obsProc, procWait_fresh env timeout fuel now p hc hn,
      waitPid_zero env p.pid timeout fuel now p.nWait hp]
  · intro hn
    rw [procWait_fresh env timeout fuel now p hc hn]
    simp only [waitPid_zero env p.pid timeout fuel now p.nWait hp, Outcome.value?]
    cases p; simp_all

/-- the caller waiting for itself (not its own child, and it cannot outlive its own question): the
    only thing `wait` can do is time out — never a result, never another exception -/
theorem C15_wait_self (env : Env) (pid : Nat) (timeout : Option Rat) (fuel : Nat) (now : Rat) (nWait : Nat) :
    selfWait ⟨env, pid, timeout, now⟩ (obsWait env pid timeout fuel now nWait) := by
  intro hs hp
  simp only at hs hp
  rcases waitPid_self cfg_good env pid timeout fuel now nWait hs hp with h | ⟨τ, ht, h⟩
  · cases timeout with
    | none => exact h
    | some τ => intro _; exact Or.inr h
  · subst ht
    intro _; exact Or.inl h

/-- with a timeout τ and enough fuel it does: TimeoutExpired(τ, pid), at/after the deadline, less
    than one poll late -/
theorem C15_wait_self_times_out (env : Env) (pid : Nat) (τ : Rat) (fuel : Nat) (now : Rat) (nWait : Nat)
    (hs : isSelf env) (hp : 0 < pid) (h0 : 0 ≤ τ) (hf : ⌈τ * 10000⌉₊ + 2 ≤ fuel) :
    (obsWait env pid (some τ) fuel now nWait).out = .timeout τ pid ∧
    now + τ ≤ (obsWait env pid (some τ) fuel now nWait).ret ∧
    (obsWait env pid (some τ) fuel now nWait).ret < now + τ + Spec.cap := by
  have hcb := (C15_terminates_with_timeout env pid τ fuel now nWait hf rfl).2
  have hout : (obsWait env pid (some τ) fuel now nWait).out = .timeout τ pid := by
    rcases waitPid_self cfg_good env pid (some τ) fuel now nWait hs hp with h | ⟨τ', ht, h⟩
    · exact absurd h hcb
    · cases ht; exact h
  exact ⟨hout, (C15_timeout_fields env pid (some τ) fuel now nWait τ pid hout).2.2,
    C15_returns_before_deadline_plus_poll env pid τ fuel now nWait h0⟩

/-- without a timeout it polls for ever: whatever the fuel, the run is still polling -/
theorem C15_wait_self_never_returns (env : Env) (pid : Nat) (fuel : Nat) (now : Rat) (nWait : Nat)
    (hs : isSelf env) (hp : 0 < pid) : (obsWait env pid none fuel now nWait).out = .outOfFuel := by
  rcases waitPid_self cfg_good env pid none fuel now nWait hs hp with h | ⟨τ, ht, _⟩
  · exact h
  · cases ht

/-- `wait_procs` refuses its arguments exactly as promised, before anything else happens (no
    clock reading, no wait, no callback): negative timeout → ValueError (first), callback neither
    None nor callable → TypeError; otherwise the call is the loop modelled by `waitProcs` -/
theorem C15_wait_procs_arguments (envOf : Nat → Env) (procs : List Nat) (timeout : Option Rat) (cb : Cb)
    (order : Nat → List Nat → List Nat) (fuel : Nat) (w : WP) :
    waitProcsFront cfg envOf procs timeout cb order fuel w =
      match wpRefusal timeout (cb != .absent) (cb == .callable) with
      | some .valueError => .error (.out .valueError)
      | some .typeError => .error .typeError
      | none =>
        match waitProcs cfg envOf procs timeout (cb != .absent) order fuel w with
        | .error o => .error (.out o)
        | .ok r => .ok r := by
  unfold waitProcsFront wpRefusal
  cases hn : negative timeout <;> cases cb <;> simp [cfg_good.cbCheck] <;> rfl

/-- a callback that is not callable: TypeError -/
theorem C15_wait_procs_noncallable (envOf : Nat → Env) (procs : List Nat) (timeout : Option Rat)
    (order : Nat → List Nat → List Nat) (fuel : Nat) (w : WP) (hn : negative timeout = false) :
    waitProcsFront cfg envOf procs timeout .notCallable order fuel w = .error .typeError := by
  simp [waitProcsFront, hn, cfg_good.cbCheck]

/-- whenever the front end returns the two lists they are those of the loop — every
    `C15_wait_procs_*` theorem above applies to them -/
theorem C15_wait_procs_front_ok (envOf : Nat → Env) (procs : List Nat) (timeout : Option Rat) (cb : Cb)
    (order : Nat → List Nat → List Nat) (fuel : Nat) (w : WP) (r : WP × List Nat)
    (h : waitProcsFront cfg envOf procs timeout cb order fuel w = .ok r) :
    cb ≠ .notCallable ∧ waitProcs cfg envOf procs timeout (cb != .absent) order fuel w = .ok r := by
  unfold waitProcsFront at h
  cases hn : negative timeout
  · rw [hn] at h
    simp only [Bool.false_eq_true, if_false] at h
    by_cases hc : (cfg.cbCheck && cb == .notCallable) = true
    · simp [hc] at h
    · simp only [hc, Bool.false_eq_true, if_false] at h
      refine ⟨?_, ?_⟩
      · intro e; subst e; simp [cfg_good.cbCheck] at hc
      · cases hw : waitProcs cfg envOf procs timeout (cb != .absent) order fuel w with
        | error o => rw [hw] at h; cases h
        | ok r' => rw [hw] at h; simpa using h
  · simp [hn] at h

section
variable (envOf : Nat → Env) (procs : List Nat) (timeout : Option Rat) (hasCb : Bool)
  (order : Nat → List Nat → List Nat) (fuel : Nat) (w w' : WP) (alive' : List Nat)
  (hperm : ∀ k l, (order k l).Perm l) (hf : Fresh envOf w)
  (h : waitProcs cfg envOf procs timeout hasCb order fuel w = .ok (w', alive'))
include hperm hf h

/-- "which ones are still alive": every process in the returned `alive` list was polled once more
    in the last attempt — which sleeps nothing — and seen alive AT THE INSTANT `wait_procs` RETURNED
    (for the processes none of whose waitpid calls was interrupted) -/
theorem C15_wait_procs_alive_running (clean : Nat → Bool)
    (hclean : ∀ pid, clean pid = true → ∀ n, (envOf pid).eintr n = false) :
    aliveRunning ⟨envOf, procs, timeout, w.now, hasCb⟩ (obsProcs w' alive') clean := by
  intro pid hp hc
  exact waitProcs_alive cfg_good envOf hasCb fuel order hperm procs timeout w w' alive' hf h pid hp
    (hclean pid hc)

end

/-! ### `psutil.Popen.wait` -/

/-- what a caller observes of one `Popen.wait(timeout)` started at `now` on object `q` -/
def obsPopen (env : Env) (timeout : Option Rat) (fuel : Nat) (now : Rat) (q : PopenObj) : Obs :=
  ⟨(popenWait cfg env timeout fuel now q).out, (popenWait cfg env timeout fuel now q).now,
   (popenWait cfg env timeout fuel now q).sleeps⟩

/-- while `subprocess.Popen.returncode` is unset, `Popen.wait` observes exactly `Process.wait` on
    the same object and leaves the same `_exitcode` behind: every single-call theorem above
    (never early, right status, timeout sound, one poll late, intervals, timeout 0, negative
    timeout, termination) holds for it word for word -/
theorem C15_popen_wait_is_process_wait (env : Env) (timeout : Option Rat) (fuel : Nat) (now : Rat)
    (q : PopenObj) (h : q.subRc = none) :
    obsPopen env timeout fuel now q = obsProc env timeout fuel now q.proc ∧
    (popenWait cfg env timeout fuel now q).obj.proc = (procWait cfg env timeout fuel now q.proc).obj := by
  obtain ⟨h1, h2, h3, h4, _⟩ := popenWait_unset cfg_good env timeout fuel now q h
  exact ⟨by simp [obsPopen, obsProc, h1, h2, h3], h4⟩

/-- afterwards `returncode` is the exit status that was returned (unset after None or an
    exception), and the two layers agree: the same status sits in `Process._exitcode` -/
theorem C15_popen_wait_stores (env : Env) (timeout : Option Rat) (fuel : Nat) (now : Rat)
    (q : PopenObj) (h : q.subRc = none) :
    popenStoredOk (obsPopen env timeout fuel now q) (popenWait cfg env timeout fuel now q).obj.subRc ∧
    ∀ cc, (obsPopen env timeout fuel now q).out = .code cc →
      (popenWait cfg env timeout fuel now q).obj.proc.exitcode = some (some cc) := by
  obtain ⟨h1, _, _, h4, h5⟩ := popenWait_unset cfg_good env timeout fuel now q h
  constructor
  · unfold popenStoredOk obsPopen
    simp only [h1, h5]
    cases (procWait cfg env timeout fuel now q.proc).out <;> simp [rcAfter]
  · intro cc hc
    simp only [obsPopen, h1] at hc
    rw [h4]
    exact procWait_code_stored env timeout fuel now q.proc cc hc

/-- once `returncode` is set — by an earlier `wait()` or by subprocess's own poll()/communicate() —
    every `wait()` (any environment, instant, acceptable timeout) gives it back at once: no sleep,
    no waitpid, object untouched -/
theorem C15_popen_wait_cached (env : Env) (timeout : Option Rat) (fuel : Nat) (now : Rat) (q : PopenObj)
    (cc : Int) (h : q.subRc = some cc) (hv : negative timeout = false) :
    popenCachedOk cc (obsPopen env timeout fuel now q) now
      ((popenWait cfg env timeout fuel now q).obj.proc.nWait - q.proc.nWait) ∧
    (popenWait cfg env timeout fuel now q).obj = q := by
  have e := popenWait_set (c := cfg) env timeout fuel now q cc h cfg_good.popenRcFirst (by simp [hv])
  simp [popenCachedOk, obsPopen, e]

/-- FULL statement for a configuration `c`: a negative timeout is a ValueError whatever the state
    of the object, and nothing changes -/
def C15_popen_wait_negative_Full (c : Cfg) : Prop :=
  ∀ (env : Env) (timeout : Option Rat) (fuel : Nat) (now : Rat) (q : PopenObj), negative timeout = true →
    (popenWait c env timeout fuel now q).out = .valueError ∧ (popenWait c env timeout fuel now q).now = now ∧
    (popenWait c env timeout fuel now q).sleeps = [] ∧ (popenWait c env timeout fuel now q).obj = q

/-- proved of the code as it is: while `returncode` is unset -/
theorem C15_popen_wait_negative_partial (env : Env) (timeout : Option Rat) (fuel : Nat) (now : Rat)
    (q : PopenObj) (h : q.subRc = none) (hn : negative timeout = true) :
    negativeIsValueError ⟨env, q.proc.pid, timeout, now⟩ (obsPopen env timeout fuel now q) ∧
    (popenWait cfg env timeout fuel now q).obj = q := by
  obtain ⟨h1, h2, h3, h4, h5⟩ := popenWait_unset cfg_good env timeout fuel now q h
  have e := procWait_negative cfg_good env timeout fuel now q.proc hn
  constructor
  · intro _
    simp [obsPopen, h1, h2, h3, e]
  · have : (popenWait cfg env timeout fuel now q).obj = ⟨q.proc, none⟩ := by
      cases hq : (popenWait cfg env timeout fuel now q).obj with
      | mk pr rc =>
        rw [hq] at h4 h5
        simp only at h4 h5
        rw [h4, h5, e]; rfl
    rw [this]; cases q; simp_all

/-- the full statement holds for every good configuration whose Popen.wait validates first
    (fixes/C15-popen-negative.diff) … -/
theorem C15_popen_wait_negative_fixed (c : Cfg) (h : c.popenValidateFirst = true) :
    C15_popen_wait_negative_Full c := by
  intro env timeout fuel now q hn
  simp [popenWait, h, hn]

/-- … and is FALSE for every good configuration that looks at `returncode` first (the code as it
    is): returncode 0 stored, `wait(-1)` returns 0 (replayed on the real code by the harness) -/
theorem C15_popen_wait_negative_counterexample (c : Cfg) (hg : c.Good) (h : c.popenValidateFirst = false) :
    ¬ C15_popen_wait_negative_Full c := by
  intro hf
  have h1 := (hf exOther (some (-1)) 5 0 ⟨⟨7, none, 0, none⟩, some 0⟩ (by simp [negative])).1
  rw [popenWait_set exOther (some (-1)) 5 0 _ 0 rfl hg.popenRcFirst (by simp [h])] at h1
  cases h1

/-- proof obligation on the translator's facts: the source as it is now (fix 3859330) validates the
    timeout before looking at `returncode`; a return to the old order breaks this theorem -/
theorem cfg_popen_validates_first : cfg.popenValidateFirst = true := by decide

/-- **C15_popen_wait_negative.** The full statement for the code as it is now. -/
theorem C15_popen_wait_negative : C15_popen_wait_negative_Full cfg :=
  C15_popen_wait_negative_fixed cfg cfg_popen_validates_first

/-! ### EINTR at the deadline (finding C15-eintr-deadline) cannot be repaired inside `wait_pid` -/

/-- (Scope: procedures that see ONLY the answers of waitpid — not `pid_exists`, not /proc, where a
    dead unreaped child shows as a zombie; a repair that also reads those is not excluded by this
    theorem.) ANY procedure that learns about the process through waitpid answers only — whatever it
    does with them, however often it retries — gives the same answer for a dead child and for a child
    that never ends when every call is interrupted. So it either reports the dead child as timed
    out (`timeoutSound` fails), or gives the living one an exit status (`neverEarly` fails), or
    does not come back / raises something else. psutil's test-suite (test_os_waitpid_eintr)
    demands the first. Hence no code change is proposed for the finding. -/
theorem C15_eintr_no_repair (impl : (Nat → Rat → Ans) → Outcome × Rat) :
    ¬ (Acceptable deadAllEintr (impl deadAllEintr.answer) ∧
       Acceptable liveAllEintr (impl liveAllEintr.answer)) := by
  rw [answers_coincide]
  rintro ⟨⟨t1, _, c1, v1⟩, ⟨_, n2, _, _⟩⟩
  generalize impl liveAllEintr.answer = o at *
  obtain ⟨out, ret⟩ := o
  cases out with
  | code cc =>
    simp only [neverEarly, endedBy, liveAllEintr] at n2
    simp at n2
  | none =>
    simp only [neverEarly, isChild, liveAllEintr] at n2
    simp at n2
  | timeout sec p =>
    simp only [timeoutSound, endedBy, deadAllEintr] at t1
    obtain ⟨a1, _, a3, a4⟩ := t1
    cases a1
    apply a4
    right
    show (0 : Rat) ≤ ret
    linarith
  | valueError => exact v1 rfl
  | hang => exact (c1 rfl).1 rfl
  | outOfFuel => exact (c1 rfl).2 rfl

/-! ## the hypotheses are satisfiable, the conclusions are not empty -/

/-- a run that sleeps twice and then returns an exit code (never_early / right_status / intervals
    speak about something): child `exit(1)` at 0.3 ms, timeout 10 ms -/
example : obsWait exChild 7 (some (1 / 100)) 50 0 0 = ⟨.code 1, 3 / 10000, [1 / 10000, 1 / 5000]⟩ := by
  unfold obsWait; rw [ex_wait cfg_good]

/-- a run that ends in TimeoutExpired exactly at its deadline with the process alive (timeout_sound /
    one_poll_late speak about something), and whose last waitpid call was not interrupted -/
example : obsWait exOther 8 (some (3 / 10000)) 50 0 0 =
      ⟨.timeout (3 / 10000) 8, 3 / 10000, [1 / 10000, 1 / 5000]⟩ ∧
    exOther.eintr (lastCall exOther 8 (some (3 / 10000)) 50 0 0) = false := by
  unfold obsWait lastCall; rw [ex_timeout cfg_good]; exact ⟨rfl, rfl⟩

/-- the fuel bound of the termination theorem is met by small numbers: 10 ms needs 102 iterations -/
example : ⌈((1 : ℚ) / 100) * 10000⌉₊ + 2 ≤ 102 := by norm_num

/-- the fuel bounds of `C15_wait_procs_terminates` are small: 3 processes, 2 s → 20 001 iterations -/
example : ((dedup [1, 2, 3, 2]).length : ℚ) + 2 * ((dedup [1, 2, 3, 2]).length : ℚ) + 2 < ((20001 : ℕ) : ℚ) ∧
    (2 : ℚ) * 10000 + 1 ≤ ((20001 : ℕ) : ℚ) := by
  norm_num [dedup]

/-- objects that have never been waited for form a fresh state -/
example (envOf : Nat → Env) (now : Rat) :
    Fresh envOf ⟨now, fun pid => ⟨pid, none, 0, none⟩, [], [], [], [], []⟩ :=
  ⟨rfl, rfl, rfl, fun _ _ h => by cases h⟩

/-- the identity is an admissible iteration order -/
example : ∀ (k : Nat) (l : List Nat), ((fun _ l => l) k l : List Nat).Perm l := fun _ l => List.Perm.refl l

/-- `wait_procs` does return, with a non-trivial split: [p1, p2, p1] with p1 a child killed by
    SIGKILL (gone, returncode −9, callback once) and p2 a process that never ends (alive) -/
example : ∃ w', waitProcs cfg exEnv [1, 2, 1] (some 0) true (fun _ l => l) 5 exW = .ok (w', [2]) ∧
    w'.gone = [1] ∧ (w'.objs 1).returncode = some (some (-9)) ∧ (w'.objs 2).returncode = none ∧
    w'.cbLog = [1] ∧ w'.now = 1 := ex_procs cfg_good

example : Fresh exEnv exW := exW_fresh

/-- the exit falls STRICTLY between the last poll made before the deadline (0.1 ms) and the deadline
    (0.25 ms): the hypotheses of `C15_timeout_sound_ended_before_deadline` are met, and the run
    returns the exit status at 0.3 ms -/
example : obsWait exLate 7 (some (1 / 4000)) 50 0 0 = ⟨.code 1, 3 / 10000, [1 / 10000, 1 / 5000]⟩ ∧
    endedBy exLate (0 + 1 / 4000) ∧ ¬ endedBy exLate (1 / 10000) ∧
    exLate.eintr (lastCall exLate 7 (some (1 / 4000)) 50 0 0) = false := by
  refine ⟨by unfold obsWait; rw [ex_late cfg_good], ?_, ?_, rfl⟩
  · right; norm_num [exLate]
  · rintro (h | h)
    · cases h
    · norm_num [exLate] at h

/-- the process `exOther` (not a child, never ends) is what the caller is to itself -/
example : isSelf exOther := ⟨rfl, rfl⟩

/-- a Popen object nobody has waited for meets the hypothesis of the `C15_popen_wait_*` theorems, and
    one `wait(10 ms)` on the child of the first example stores the status in both layers -/
example : exPopen.subRc = none ∧
    (popenWait cfg exChild (some (1 / 100)) 50 0 exPopen).obj.subRc = some 1 ∧
    (popenWait cfg exChild (some (1 / 100)) 50 0 exPopen).obj.proc.exitcode = some (some 1) := by
  have h := popenWait_unset cfg_good exChild (some (1 / 100)) 50 0 exPopen rfl
  have e : (procWait cfg exChild (some (1 / 100)) 50 0 exPopen.proc).out = .code 1 := by
    rw [procWait_fresh exChild (some (1 / 100)) 50 0 exPopen.proc rfl (by simp [negative])]
    simp only [exPopen]
    rw [ex_wait cfg_good]
  refine ⟨rfl, ?_, ?_⟩
  · rw [h.2.2.2.2, e]; rfl
  · rw [h.2.2.2.1]; exact procWait_code_stored exChild _ 50 0 exPopen.proc 1 e


/-! ## second extension — Popen objects and equal objects inside `wait_procs`, unhashable items,
      "callback exactly once" for any number of passes, system calls that take time -/

/-- proof obligation on the translator's facts: every `for proc in …` of `wait_procs` iterates
    `alive` — the name the `while` tests and `alive = alive - gone` refreshes after each pass (a
    loop over a list built once would poll, and call back for, a gone process again on every later
    pass) — and `alive` starts as `set(procs)`, built after the timeout validation -/
theorem cfg_wait_procs_shape : cfg.loopsOverAlive = true ∧ cfg.aliveIsSet = true := by decide

section
variable (envOf : Nat → Env) (hasCb : Bool) (order : Nat → List Nat → List Nat) (fuel : Nat)
  (hperm : ∀ k l, (order k l).Perm l)

/-- `wait_procs` over a list mixing plain `Process` objects and `psutil.Popen` objects (whose
    `wait` answers from `subprocess`'s `returncode` first) behaves, once the classes are forgotten,
    exactly as `wait_procs` over Process objects in which a stored returncode sits in `_exitcode` -/
theorem C15_wait_procs_mixed_is_wait_procs (procs : List Nat) (timeout : Option Rat) (m : WPM) :
    waitProcs cfg envOf procs timeout hasCb order fuel m.embed =
      (waitProcsM cfg envOf procs timeout hasCb order fuel m).map (fun r => (r.1.embed, r.2)) :=
  waitProcsM_embed cfg_good cfg_popen_validates_first envOf hasCb fuel order procs timeout m

include hperm in
/-- … hence every clause of the property holds for Popen objects and mixed lists: partition,
    callback exactly once, returncode set to the right value, gone really ended, return before
    deadline + 40 ms, no timeout ⇒ all gone; and for a gone Popen whose `subprocess` returncode is an
    exit status, the `returncode` attribute set by `wait_procs` is that status -/
theorem C15_wait_procs_mixed (procs : List Nat) (timeout : Option Rat) (m m' : WPM) (alive' : List Nat)
    (hf : Fresh envOf m.embed)
    (h : waitProcsM cfg envOf procs timeout hasCb order fuel m = .ok (m', alive')) :
    partitionOk ⟨envOf, procs, timeout, m.w.now, hasCb⟩ (obsProcs m'.w alive') ∧
    callbackOnce ⟨envOf, procs, timeout, m.w.now, hasCb⟩ (obsProcs m'.w alive') ∧
    returncodeSet ⟨envOf, procs, timeout, m.w.now, hasCb⟩ (obsProcs m'.w alive') ∧
    goneEnded ⟨envOf, procs, timeout, m.w.now, hasCb⟩ (obsProcs m'.w alive') ∧
    deadlineOk ⟨envOf, procs, timeout, m.w.now, hasCb⟩ (obsProcs m'.w alive') ∧
    noTimeoutAllGone ⟨envOf, procs, timeout, m.w.now, hasCb⟩ (obsProcs m'.w alive') ∧
    (∀ pid ∈ m'.w.gone, ∀ cc, m'.sub pid = some (some cc) → (m'.w.objs pid).returncode = some (some cc)) := by
  have he : waitProcs cfg envOf procs timeout hasCb order fuel m.embed = .ok (m'.embed, alive') := by
    rw [C15_wait_procs_mixed_is_wait_procs, h]; rfl
  have ho : obsProcs m'.w alive' = obsProcs m'.embed alive' := by
    unfold obsProcs
    congr 1
    funext p
    exact (embedObj_returncode _ _).symm
  rw [ho]
  refine ⟨C15_wait_procs_partition envOf procs timeout hasCb order fuel m.embed m'.embed alive' hperm hf he,
    (C15_callback_once envOf procs timeout hasCb order fuel m.embed m'.embed alive' hperm hf he).1,
    (C15_returncode_set envOf procs timeout hasCb order fuel m.embed m'.embed alive' hperm hf he).1,
    C15_wait_procs_gone_ended envOf procs timeout hasCb order fuel m.embed m'.embed alive' hperm hf he,
    (C15_wait_procs_deadline envOf procs timeout hasCb order fuel m.embed m'.embed alive' hperm hf he).1,
    C15_wait_procs_no_timeout_all_gone envOf procs timeout hasCb order fuel m.embed m'.embed alive' hperm hf he,
    ?_⟩
  intro pid hp cc hs
  obtain ⟨h1, _⟩ := (C15_returncode_set envOf procs timeout hasCb order fuel m.embed m'.embed alive' hperm hf he).2 pid hp
  have e1 : (m'.embed.objs pid).returncode = (m'.w.objs pid).returncode := embedObj_returncode _ _
  have e2 : (m'.embed.objs pid).exitcode = some (some cc) := by
    simp [WPM.embed, hs, embedObj]
  rw [← e1, h1, e2]

/-- a list of plain Process objects is the special case: nothing to forget -/
theorem C15_wait_procs_mixed_plain (procs : List Nat) (timeout : Option Rat) (w : WP) :
    waitProcs cfg envOf procs timeout hasCb order fuel w =
      (waitProcsM cfg envOf procs timeout hasCb order fuel ⟨w, fun _ => none⟩).map (fun r => (r.1.embed, r.2)) := by
  have := C15_wait_procs_mixed_is_wait_procs envOf hasCb order fuel procs timeout ⟨w, fun _ => none⟩
  rw [← this]
  rfl

include hperm in
/-- **callback exactly once, for ANY number of passes.** Start the `while alive:` loop (with a
    timeout) in ANY reachable intermediate state — some processes already found gone in earlier
    passes (callback already made for them), others still alive — and let it run for ANY number
    `k` of further passes: every process that was already gone is still gone, is in the callback
    log exactly once (never called back again), the log is the gone list, and nothing is both gone
    and alive. -/
theorem C15_callback_once_any_passes (k : Nat) (input alive : List Nat) (w w' : WP) (alive' : List Nat)
    (tmo deadline : Rat) (hl : LInv envOf hasCb input w alive) (hd : w.now < deadline + Spec.cap)
    (h : whileT cfg envOf hasCb fuel order deadline k alive w tmo = .ok (w', alive')) :
    (∀ p ∈ w.gone, p ∈ w'.gone ∧ w'.cbLog.count p = if hasCb then 1 else 0) ∧
    w'.cbLog = (if hasCb then w'.gone else []) ∧ w'.gone.Nodup ∧ (∀ p ∈ alive', p ∉ w'.gone) := by
  obtain ⟨⟨hi, _, hmem⟩, _, _⟩ :=
    whileT_inv cfg_good envOf hasCb fuel input order hperm deadline k alive w tmo w' alive' hl hd h
  have hm := whileT_gone_mono cfg_good envOf hasCb fuel input order hperm deadline k alive w tmo w' alive' hl hd h
  refine ⟨fun p hp => ⟨hm p hp, ?_⟩, hi.cb, hi.nodup, fun p hp => ((hmem p).1 hp).2⟩
  rw [hi.cb]
  cases hasCb
  · simp
  · simp only [if_true]
    have c1 := (List.nodup_iff_count.1 hi.nodup) p
    have c2 := List.count_pos_iff.2 (hm p hp)
    omega

include hperm in
/-- the same without a timeout (`timeout=None` passes last 1/len(alive) s per process) -/
theorem C15_callback_once_any_passes_no_timeout (k : Nat) (input alive : List Nat) (w w' : WP)
    (alive' : List Nat) (hl : LInv envOf hasCb input w alive)
    (h : whileN cfg envOf hasCb fuel order k alive w = .ok (w', alive')) :
    (∀ p ∈ w.gone, p ∈ w'.gone ∧ w'.cbLog.count p = if hasCb then 1 else 0) ∧
    w'.cbLog = (if hasCb then w'.gone else []) ∧ w'.gone.Nodup ∧ alive' = [] := by
  obtain ⟨⟨hi, _, _⟩, _, he⟩ :=
    whileN_inv cfg_good envOf hasCb fuel input order hperm k alive w w' alive' hl h
  have hm := whileN_gone_mono cfg_good envOf hasCb fuel input order hperm k alive w w' alive' hl h
  refine ⟨fun p hp => ⟨hm p hp, ?_⟩, hi.cb, hi.nodup, he⟩
  rw [hi.cb]
  cases hasCb
  · simp
  · simp only [if_true]
    have c1 := (List.nodup_iff_count.1 hi.nodup) p
    have c2 := List.count_pos_iff.2 (hm p hp)
    omega

end

/-- the hypotheses of `C15_callback_once_any_passes` are met by a state with one process gone
    (callback made) and one alive: the state `wait_procs([p1, p2, p1], 0)` of the example ends in -/
example : ∃ w alive, LInv exEnv true (dedup [1, 2, 1]) w alive ∧ w.gone = [1] ∧ alive = [2] ∧ w.cbLog = [1] := by
  obtain ⟨w', h, hgone, _, _, hcb, _⟩ := ex_procs cfg_good
  obtain ⟨hl, _⟩ := waitProcs_inv cfg_good exEnv true 5 (fun _ l => l) (fun _ l => List.Perm.refl l)
    [1, 2, 1] (some 0) exW w' [2] exW_fresh h
  exact ⟨w', [2], hl, hgone, rfl, hcb⟩

/-- `set(procs)` as a list function (`setOf`): of several EQUAL objects (two `Process`/`Popen` objects
    of one process hash alike and compare equal) exactly one survives — the one that comes FIRST in
    the list. This theorem is about `setOf` ALONE: `waitProcs`/`waitProcsM` work on pids and never
    call it, so that the surviving object is the one `wait_procs` waits on, sets `returncode` on,
    calls back and returns is NOT proved here — it is checked on every run by the identity
    observations of the correspondence (driver `survivors` = `setOf items` against the positions of
    the objects the real `wait_procs` returned / called back / waited on), and rests on CPython's
    set semantics (TRUSTED). -/
theorem C15_set_keeps_first (l : List Item) :
    ((setOf l).map Item.pid).Nodup ∧
    (∀ p, (∃ x ∈ setOf l, x.pid = p) ↔ ∃ x ∈ l, x.pid = p) ∧
    (∀ x ∈ setOf l, x ∈ l ∧ survivor l x.pid = some x) :=
  ⟨setOf_nodup l, fun _ => mem_setOf_pid, fun x hx => ⟨setOf_sub hx, setOf_first l x hx⟩⟩

example : setOf [⟨7, 0⟩, ⟨8, 1⟩, ⟨7, 2⟩] = [⟨7, 0⟩, ⟨8, 1⟩] := by decide

/-- `wait_procs` refuses exactly that, before anything else happens; otherwise it is the loop -/
theorem C15_wait_procs_arguments_unhashable (envOf : Nat → Env) (procs : List Nat) (hashable : Bool)
    (timeout : Option Rat) (cb : Cb) (order : Nat → List Nat → List Nat) (fuel : Nat) (m : WPM) :
    waitProcsFrontM cfg envOf procs hashable timeout cb order fuel m =
      match wpRefusalM timeout hashable (cb != .absent) (cb == .callable) with
      | some .valueError => .error (.out .valueError)
      | some .typeError => .error .typeError
      | none =>
        match waitProcsM cfg envOf procs timeout (cb != .absent) order fuel m with
        | .error o => .error (.out o)
        | .ok r => .ok r := by
  unfold waitProcsFrontM wpRefusalM wpRefusal
  cases hn : negative timeout <;> cases hashable <;> cases cb <;> simp [cfg_good.cbCheck] <;> rfl

/-! ### system calls that take time -/

/-- the costed model with zero costs is the model all theorems above speak about -/
theorem C15_costed_zero (env : Env) (pid : Nat) (timeout : Option Rat) (fuel : Nat) (now : Rat) (nWait nSys : Nat) :
    ((waitPidC cfg zc env pid timeout fuel now nWait nSys).1,
     (waitPidC cfg zc env pid timeout fuel now nWait nSys).2.toSt) = waitPid cfg env pid timeout fuel now nWait :=
  waitPidC_zero cfg env pid timeout fuel now nWait nSys

/-- **every bound of the property with 40 ms replaced by 40 ms + 5·δ.** If every system call
    `wait_pid` makes (`_timer()`, `os.waitpid`, `_pid_exists`, `_sleep`) takes at most δ longer
    than it should (0 ≤ cost k ≤ δ for the k-th call), then for every environment, timeout τ ≥ 0,
    fuel and start instant: (1) whatever the call does, it has done it before start + τ + 40 ms + 5·δ
    (c = 5: one `_timer()` for `stop_at`, then at most `_sleep`'s overshoot, `waitpid`,
    `_pid_exists`, `_timer()` between a clock reading before the deadline and the next one);
    (2) never early, unchanged; (3) TimeoutExpired carries (τ, pid) and is never raised before
    start + τ, unchanged; (4) when it is raised (last waitpid call not interrupted) the process
    had not ended δ before the raise instant. -/
theorem C15_costed_bounds (cost : Nat → Rat) (δ : Rat) (hc : ∀ k, 0 ≤ cost k ∧ cost k ≤ δ)
    (env : Env) (pid : Nat) (timeout : Option Rat) (fuel : Nat) (now : Rat) (nWait nSys : Nat)
    (hτ : ∀ τ, timeout = some τ → 0 ≤ τ) :
    let r := waitPidC cfg cost env pid timeout fuel now nWait nSys
    (∀ τ, timeout = some τ → r.2.now < now + τ + Spec.cap + 5 * δ) ∧
    (∀ cc, r.1 = .code cc → isChild env ∧ endedBy env r.2.now) ∧
    (r.1 = .none → ¬ isChild env ∧ endedBy env r.2.now) ∧
    (∀ sec p, r.1 = .timeout sec p → timeout = some sec ∧ p = pid ∧ now + sec ≤ r.2.now ∧
        (env.eintr (r.2.nWait - 1) = false → ¬ endedBy env (r.2.now - δ))) := by
  intro r
  obtain ⟨h1, h2, h3, h4⟩ := waitPidC_good cfg_good cost δ hc env pid timeout fuel now nWait nSys hτ
  exact ⟨fun τ ht => h1 τ ht (hτ τ ht), h2, h3, h4⟩

/-- the constant cannot be 0: with δ = 1 ms a never-ending process and timeout 0 the raise instant
    is start + 4 ms (four system calls: `_timer` for stop_at, `waitpid`, `_pid_exists`, `_timer`) — the zero-cost bound start + 0 + 40 ms still holds here, the
    point is that the raise instant moves with δ -/
example : (waitPidC cfg (fun _ => 1 / 1000) exOther 8 (some 0) 5 0 0 0).2.now = 4 / 1000 := by
  have hg := cfg_good
  simp [waitPidC, waitLoopC, pollNonChildC, sleepStepC, pastDeadline, hg.check, hg.ge, exOther, CSt.sys,
    CSt.waited, Env.pidExists, Env.ended]
  norm_num

/-! ## third round (audit-driven): integer pids, waitpid flags, ValueError only when justified,
      LIVENESS, what a callback sees, never-existed under EINTR -/

/-- proof obligation on the translator facts: the first test of `wait_pid` raises ValueError for pid 0
    and for every negative pid (it was evaluated on sample pids), for no positive one. `pid == 0` /
    `not pid` / `pid < 0` instead of `pid <= 0` stop this building. -/
theorem cfg_pid_test :
    cfg.pidRejectsZero = true ∧ cfg.pidRejectsNeg = true ∧ cfg.pidRejectsPos = false := by decide

/-- proof obligation: `os.waitpid` is called with `os.WNOHANG` (= 1) when a timeout is given and with 0
    otherwise — no WUNTRACED / WCONTINUED (a stopped child would be reported with a status word the
    decoding chain answers with ValueError) -/
theorem cfg_waitpid_flags : cfg.flagsTimeout = 1 ∧ cfg.flagsBlocking = 0 := by decide

/-- proof obligation: in `check_gone` both `proc.returncode = returncode` and `gone.add(proc)` come
    before `callback(proc)` — the order `markGone` transcribes -/
theorem cfg_check_gone_order : cfg.rcBeforeCb = true ∧ cfg.goneBeforeCb = true := by decide

/-- what a caller observes of `wait_pid(pid, timeout)` for an integer pid -/
def obsWaitI (env : Env) (pid : Int) (timeout : Option Rat) (fuel : Nat) (now : Rat) (nWait : Nat) : Obs :=
  ⟨(waitPidI cfg env pid timeout fuel now nWait).1, (waitPidI cfg env pid timeout fuel now nWait).2.now,
   (waitPidI cfg env pid timeout fuel now nWait).2.sleeps⟩

/-- a pid ≤ 0 (0, −1 = "any child", −g = a process group) is refused: ValueError at once, no sleep, and
    no `os.waitpid` call is made (nobody's exit status is consumed) — for every environment -/
theorem C15_nonpositive_pid_ValueError (env : Env) (pid : Int) (timeout : Option Rat) (fuel : Nat) (now : Rat)
    (nWait : Nat) :
    nonPositivePidRefused pid now (obsWaitI env pid timeout fuel now nWait) ∧
    (pid ≤ 0 → (waitPidI cfg env pid timeout fuel now nWait).2.nWait = nWait) := by
  constructor
  · intro hp
    simp [obsWaitI, waitPidI_nonpos cfg_pid_test.1 cfg_pid_test.2.1 env pid timeout fuel now nWait hp]
  · intro hp
    simp [waitPidI_nonpos cfg_pid_test.1 cfg_pid_test.2.1 env pid timeout fuel now nWait hp]

/-- on natural-number pids the integer-pid model (the one the driver runs, with the pid test as the
    translator found it) is `wait_pid` of all the theorems above; the same for `Process.wait` -/
theorem C15_wait_pid_int_is_wait_pid (env : Env) (n : Nat) (timeout : Option Rat) (fuel : Nat) (now : Rat)
    (nWait : Nat) (p : PObj) :
    obsWaitI env (n : Int) timeout fuel now nWait = obsWait env n timeout fuel now nWait ∧
    procWaitI cfg env timeout fuel now p = procWait cfg env timeout fuel now p := by
  constructor
  · simp [obsWaitI, obsWait, waitPidI_nat cfg_pid_test.1 cfg_pid_test.2.2]
  · exact procWaitI_eq cfg_pid_test.1 cfg_pid_test.2.2 env timeout fuel now p

/-- ValueError is raised only for PID 0 or for a child that HAS ended with a status word that is no
    termination report (which the kernel hands out only under WUNTRACED / WCONTINUED — flags
    `cfg_waitpid_flags` shows are not used); never for a process that is still running -/
theorem C15_valueError_justified (env : Env) (pid : Nat) (timeout : Option Rat) (fuel : Nat) (now : Rat)
    (nWait : Nat) :
    valueErrorJustified ⟨env, pid, timeout, now⟩ (obsWait env pid timeout fuel now nWait) := by
  intro h
  rcases waitPid_valueError cfg_good env pid timeout fuel now nWait h with hp | ⟨st, hk, hd, he⟩
  · exact Or.inl hp
  · right; right
    simp only [hk]
    exact ⟨decode_valueError_notTermination hd, he⟩

/-- … and by `Process.wait` additionally for a negative timeout, whatever the object has stored -/
theorem C15_valueError_justified_process_wait (env : Env) (timeout : Option Rat) (fuel : Nat) (now : Rat)
    (p : PObj) :
    valueErrorJustified ⟨env, p.pid, timeout, now⟩ (obsProc env timeout fuel now p) := by
  intro h
  by_cases hn : negative timeout = true
  · exact Or.inr (Or.inl hn)
  · have hn' : negative timeout = false := by simpa using hn
    cases hc : p.exitcode with
    | some v =>
      simp only [obsProc, procWait_cached env timeout fuel now p v hc hn'] at h
      cases v <;> cases h
    | none =>
      have e := C15_process_wait_is_wait_pid env timeout fuel now p hc hn'
      rw [e] at h ⊢
      exact C15_valueError_justified env p.pid timeout fuel now p.nWait h

/-- LIVENESS without a timeout: if the interruptions stop (no waitpid call with index ≥ K is
    interrupted) and the process ends at some instant `e` (or never existed), then with
    fuel ≥ (K − nWait) + ⌈(e − now)/0.1 ms⌉ + 1 the call RETURNS: the decoded status of a child, None
    otherwise — which is the answer the property promises unless the child's status word is no
    termination report. Not outOfFuel, not a blocked waitpid, not an exception. -/
theorem C15_liveness_no_timeout (env : Env) (pid : Nat) (fuel : Nat) (now : Rat) (nWait : Nat) (hp : 0 < pid)
    (K : Nat) (hK : ∀ n, K ≤ n → env.eintr n = false) (e : Rat)
    (hx : env.kind = .neverExisted ∨ env.exitAt = some e)
    (hf : (K - nWait) + ⌈(e - now) * 10000⌉₊ + 1 ≤ fuel) :
    (obsWait env pid none fuel now nWait).out = expectedOut env ∧
    ((∀ st, env.kind = .child st → ¬ notTermination st) →
      answered env (obsWait env pid none fuel now nWait).out) := by
  have h1 : (obsWait env pid none fuel now nWait).out = expectedOut env := by
    simp only [obsWait]
    rw [waitPid_pos env pid none fuel now nWait hp]
    apply waitLoop_live cfg_good env pid _ K hK e hx ⌈(e - now) * 10000⌉₊ fuel
    · show Spec.i0 ≤ cfg.i0
      rw [cfg_good.i0_eq]
    · exact hf
    · show e - now ≤ ((⌈(e - now) * 10000⌉₊ : ℕ) : ℚ) * Spec.i0
      have := Nat.le_ceil ((e - now) * 10000)
      simp only [Spec.i0]
      linarith
  refine ⟨h1, fun hterm => ?_⟩
  rw [h1]
  rcases answered_expectedOut env with h | ⟨st, hk, hn⟩
  · exact h
  · exact absurd hn (hterm st hk)

/-- LIVENESS with a timeout: a process that has ended by the deadline is answered (decoded status /
    None) — not TimeoutExpired, not outOfFuel — when the wait's last waitpid call was not interrupted
    (finding C15-eintr-deadline) and fuel ≥ ⌈τ/0.1 ms⌉ + 2 -/
theorem C15_liveness_with_timeout (env : Env) (pid : Nat) (τ : Rat) (fuel : Nat) (now : Rat) (nWait : Nat)
    (hp : 0 < pid) (hend : endedBy env (now + τ))
    (hne : env.eintr (lastCall env pid (some τ) fuel now nWait) = false)
    (hf : ⌈τ * 10000⌉₊ + 2 ≤ fuel) :
    (obsWait env pid (some τ) fuel now nWait).out = expectedOut env ∧
    ((∀ st, env.kind = .child st → ¬ notTermination st) →
      answered env (obsWait env pid (some τ) fuel now nWait).out) := by
  have hcb := C15_terminates_with_timeout env pid τ fuel now nWait hf rfl
  have hnt := C15_timeout_sound_ended_before_deadline env pid τ fuel now nWait hend hne
  have h1 : (obsWait env pid (some τ) fuel now nWait).out = expectedOut env := by
    have hs := waitPid_shape cfg_good env pid (some τ) fuel now nWait
    simp only [obsWait] at hcb hnt ⊢
    rcases hs with h | h | ⟨sec, p, h⟩ | ⟨h0, _⟩ | ⟨st, hk, h⟩ | ⟨hk, h⟩
    · exact absurd h hcb.2
    · exact absurd h hcb.1
    · exact absurd h (hnt sec p)
    · omega
    · rw [h]; simp [expectedOut, hk]
    · rw [h]; unfold expectedOut
      cases hk' : env.kind with
      | child st => exact absurd hk' (hk st)
      | nonChild => rfl
      | neverExisted => rfl
  refine ⟨h1, fun hterm => ?_⟩
  rw [h1]
  rcases answered_expectedOut env with h | ⟨st, hk, hn⟩
  · exact h
  · exact absurd hn (hterm st hk)

/-- non-vacuity of the liveness hypotheses: a child that exits with code 3 at instant 5, first two
    waitpid calls interrupted, asked at instant 0 without a timeout, fuel 50 003 -/
example : ∃ env : Env, (∀ n, 2 ≤ n → env.eintr n = false) ∧ env.exitAt = some 5 ∧
    (2 - 0) + ⌈((5 : ℚ) - 0) * 10000⌉₊ + 1 ≤ 50003 ∧ expectedOut env = .code 3 := by
  refine ⟨⟨.child 768, some 5, fun n => decide (n < 2)⟩, ?_, rfl, ?_, ?_⟩
  · intro n hn; simp; omega
  · norm_num
  · simp [expectedOut, decode, wifexited, wtermsig, wexitstatus]

/-- what every callback invocation finds on the object it is handed: `returncode` ALREADY set — to the
    value of the cause (a child) / None (not a child) — and the process ALREADY in `gone`; one
    invocation per entry of the callback log. (A callback that prints `proc.returncode`, as in the
    documentation's example, never meets a missing attribute.) -/
theorem C15_callback_sees_returncode (envOf : Nat → Env) (procs : List Nat) (timeout : Option Rat)
    (hasCb : Bool) (order : Nat → List Nat → List Nat) (fuel : Nat) (w w' : WP) (alive' : List Nat)
    (hperm : ∀ k l, (order k l).Perm l) (hf : Fresh envOf w)
    (h : waitProcs cfg envOf procs timeout hasCb order fuel w = .ok (w', alive')) :
    callbackSees ⟨envOf, procs, timeout, w.now, hasCb⟩ w'.cbSeen w'.cbLog ∧
    ∀ e ∈ w'.cbSeen, e.inGone = true := by
  obtain ⟨⟨hi, _, _⟩, _, _, _⟩ :=
    waitProcs_inv cfg_good envOf hasCb fuel order hperm procs timeout w w' alive' hf h
  refine ⟨⟨hi.seenPids, fun e he => ?_⟩, fun e he => (hi.seen e he).1⟩
  obtain ⟨_, v, hv, r1, r2⟩ := hi.seen e he
  rw [hv]
  simp only
  cases hk : (envOf e.pid).kind with
  | child st =>
    simp only
    intro cause hm hs
    cases v with
    | none => exact absurd (isChild_iff.2 ⟨st, hk⟩) (r2 rfl)
    | some cc =>
      obtain ⟨st', hk', hd⟩ := r1 cc rfl
      rw [hk] at hk'; cases hk'
      have := decode_status (mem_allCauses.1 hm)
      rw [hs, hd] at this
      cases this; rfl
  | nonChild =>
    simp only
    cases v with
    | none => rfl
    | some cc => obtain ⟨st', hk', _⟩ := r1 cc rfl; rw [hk] at hk'; cases hk'
  | neverExisted =>
    simp only
    cases v with
    | none => rfl
    | some cc => obtain ⟨st', hk', _⟩ := r1 cc rfl; rw [hk] at hk'; cases hk'

/-- moving the callback in front of `proc.returncode = …` and/or `gone.add(proc)` leaves every FINAL
    observable of `markGone` unchanged (objects, gone, callback log, clock) — which is why only the
    callback-time view `cbSeen` (and the obligation `cfg_check_gone_order`) can tell the orders apart -/
theorem C15_check_gone_order_final_state (rcFirst goneFirst hasCb : Bool) (w : WP) (pid : Nat) (v : Option Int) :
    let a := markGoneO rcFirst goneFirst hasCb w pid v
    let b := markGone hasCb w pid v
    a.objs = b.objs ∧ a.gone = b.gone ∧ a.cbLog = b.cbLog ∧ a.now = b.now ∧
    (rcFirst = true → goneFirst = true → a = b) := by
  cases rcFirst <;> cases goneFirst <;> cases hasCb <;>
    simp [markGoneO, markGone, stepCallback, stepAddGone, stepSetRc]

/-- FULL statement of "at once if the PID never existed" over the stated quantifier (EINTR delivered to
    any waitpid call). FALSE of the code: see the counterexample. -/
def C15_never_existed_at_once_Full : Prop :=
  ∀ (env : Env) (pid : Nat) (timeout : Option Rat) (fuel : Nat) (now : Rat) (nWait : Nat),
    0 < pid → 1 ≤ fuel →
    neverExistedAtOnce ⟨env, pid, timeout, now⟩ (obsWait env pid timeout fuel now nWait) true

/-- counterexample (finding C15-eintr-never-existed, replayed on the real code by the harness): the first
    `os.waitpid` is interrupted → `sleep(0.0001)` runs before the second call says ECHILD: None comes
    0.1 ms late, after one sleep. `C15_never_existed_at_once` is the part that holds (first call not
    interrupted). -/
theorem C15_never_existed_at_once_counterexample : ¬ C15_never_existed_at_once_Full := by
  intro h
  have h1 := h neverEintrEnv 7 none 5 0 0 (by decide) (by decide) rfl rfl
  have h2 := (neverEintr_run cfg_good).2
  simp only [obsWait] at h1
  rw [h2] at h1
  simp at h1

/-- proof obligation (CHARACTERISATION of the code, not a clause of the property statement): the
    per-process slice of `wait_procs` is `1.0 / len(alive)` — the source's "every complete iteration
    (all processes) will last max 1 sec". `2.0 / len(alive)` stops this building. -/
theorem cfg_wait_procs_slice : cfg.sliceN = 1 := by decide

/-- characterisation: the slices of one pass over the `alive` set add up to exactly one second -/
theorem C15_wait_procs_pass_budget (alive : List Nat) (h : alive ≠ []) :
    maxTimeout cfg alive * (alive.length : Rat) = 1 := by
  unfold maxTimeout
  rw [cfg_wait_procs_slice]
  have hl : (alive.length : Rat) ≠ 0 := by
    cases alive with
    | nil => exact absurd rfl h
    | cons a l => simp; positivity
  field_simp
  simp

/-! ## seeded round 5 (C15-7): WHICH liveness probe the non-child poll asks, for every procfs view -/

/-- proof obligation on three translator facts: the ECHILD branch of `wait_pid` is
    `while _pid_exists(pid): …sleep…; return None`, the default of `_pid_exists` is `_psposix.pid_exists`
    whose only call is `os.kill(pid, 0)`, and `_pslinux.Process.wait` hands `wait_pid` nothing but the pid,
    the timeout and the name. Passing `_pid_exists=<the procfs-reading pid_exists>` (seeded C15-7), giving
    `_psposix.pid_exists` a second opinion, or polling something else in the loop stops this building. -/
theorem cfg_nonchild_probe : cfg.probe = .kill ∧ cfg.probeDirect = .kill := by decide

/-- what a caller observes of `wait_pid(pid, timeout)` when non-children are polled with `probe` and the
    procfs tree shows `view` -/
def obsWaitV (probe : Probe) (env : Env) (view : View) (pid : Int) (timeout : Option Rat) (fuel : Nat)
    (now : Rat) (nWait : Nat) : Obs :=
  ⟨(waitPidV cfg probe env view pid timeout fuel now nWait).1,
   (waitPidV cfg probe env view pid timeout fuel now nWait).2.now,
   (waitPidV cfg probe env view pid timeout fuel now nWait).2.sleeps⟩

/-- the wait the code makes (probe = the one the translator found) observes the same for EVERY procfs
    view — result, return instant, every sleep — namely what the view-free model of all theorems above
    observes: each of them holds in every world in which procfs hides or shows the process at will -/
theorem C15_wait_any_view (env : Env) (view : View) (n : Nat) (timeout : Option Rat) (fuel : Nat) (now : Rat)
    (nWait : Nat) :
    obsWaitV cfg.probe env view (n : Int) timeout fuel now nWait = obsWait env n timeout fuel now nWait ∧
    obsWaitV cfg.probeDirect env view (n : Int) timeout fuel now nWait = obsWait env n timeout fuel now nWait := by
  rw [cfg_nonchild_probe.1, cfg_nonchild_probe.2]
  simp [obsWaitV, obsWait, waitPidV_kill, waitPidI_nat cfg_pid_test.1 cfg_pid_test.2.2]

/-- never early, for every procfs view: a result comes only once the process has REALLY ended (kernel's
    table), in particular never while it is alive but not listed (hidepid, `PROCFS_PATH` elsewhere) -/
theorem C15_never_early_any_view (env : Env) (view : View) (n : Nat) (timeout : Option Rat) (fuel : Nat)
    (now : Rat) (nWait : Nat) :
    neverEarly ⟨env, n, timeout, now⟩ (obsWaitV cfg.probe env view (n : Int) timeout fuel now nWait) ∧
    noResultWhileHidden ⟨env, n, timeout, now⟩ view
      (obsWaitV cfg.probe env view (n : Int) timeout fuel now nWait) := by
  rw [(C15_wait_any_view env view n timeout fuel now nWait).1]
  have h := C15_never_early env n timeout fuel now nWait
  refine ⟨h, ?_⟩
  unfold noResultWhileHidden hiddenAlive
  unfold neverEarly at h
  split
  · rename_i cc hc; rw [hc] at h; exact fun hh => hh.1 h.2
  · rename_i hc; rw [hc] at h; exact fun hh => hh.1 h.2
  · trivial

/-- `Process.wait` and `Popen.wait`, for every view: the calls of the view-free model -/
theorem C15_process_wait_any_view (env : Env) (view : View) (timeout : Option Rat) (fuel : Nat) (now : Rat)
    (p : PObj) (q : PopenObj) :
    procWaitV cfg cfg.probe env view timeout fuel now p = procWait cfg env timeout fuel now p ∧
    popenWaitV cfg cfg.probe env view timeout fuel now q = popenWait cfg env timeout fuel now q := by
  rw [cfg_nonchild_probe.1]
  exact ⟨by rw [procWaitV_kill, procWaitI_eq cfg_pid_test.1 cfg_pid_test.2.2],
    popenWaitV_kill cfg_pid_test.1 cfg_pid_test.2.2 env view timeout fuel now q⟩

/-- the situation of seeded C15-7: some other process that does not end, whatever the procfs tree shows
    of it (not listed at all, listed and then hidden, …): `wait` can only time out — never None -/
theorem C15_hidden_alive_only_times_out (env : Env) (view : View) (n : Nat) (timeout : Option Rat) (fuel : Nat)
    (now : Rat) (nWait : Nat) :
    selfWait ⟨env, n, timeout, now⟩ (obsWaitV cfg.probe env view (n : Int) timeout fuel now nWait) := by
  rw [(C15_wait_any_view env view n timeout fuel now nWait).1]
  exact C15_wait_self env n timeout fuel now nWait

/-- one `check_gone` of `wait_procs`, for every assignment of procfs views to the processes: from any state
    satisfying the loop invariant (every cached exit code is a true one — `Fresh` states do, and every
    `check_gone` keeps it: `checkGone_step`) the step is the step of the view-free model, although
    `proc.is_running()` reads procfs: it is asked only after `wait()` returned None, when the kernel says
    the process is gone, and no view lists what the kernel does not have. The loops of `wait_procs` call
    nothing but `check_gone` (obligation `cfg_wait_procs_shape`). -/
theorem C15_check_gone_any_view (envOf : Nat → Env) (viewOf : Nat → View) (hasCb : Bool) (fuel : Nat)
    (input : List Nat) (w : WP) (pid : Nat) (t : Rat) (ht : 0 ≤ t) (hi : Inv envOf hasCb input w) :
    checkGoneV cfg cfg.probe envOf viewOf hasCb fuel w pid t = checkGone cfg envOf hasCb fuel w pid t := by
  rw [cfg_nonchild_probe.1]
  exact checkGoneV_kill cfg_good cfg_pid_test.1 cfg_pid_test.2.2 envOf viewOf hasCb fuel input w pid t ht hi

/-- the whole `wait_procs`, for every assignment of procfs views and every set-iteration order: from a
    fresh state the run — both lists, every returncode, callback log, return instant, every sleep — IS the
    run of the view-free model, so partition / callback once / returncode / gone-really-ended / deadline /
    alive-really-running hold whatever procfs hides; in particular no process is reported gone while it
    is alive but not listed -/
theorem C15_wait_procs_any_view (envOf : Nat → Env) (viewOf : Nat → View) (procs : List Nat)
    (timeout : Option Rat) (hasCb : Bool) (order : Nat → List Nat → List Nat) (fuel : Nat) (w w' : WP)
    (alive' : List Nat) (hperm : ∀ k l, (order k l).Perm l) (hf : Fresh envOf w) :
    waitProcsV cfg cfg.probe envOf viewOf procs timeout hasCb order fuel w =
      waitProcs cfg envOf procs timeout hasCb order fuel w ∧
    (waitProcsV cfg cfg.probe envOf viewOf procs timeout hasCb order fuel w = .ok (w', alive') →
      goneEnded ⟨envOf, procs, timeout, w.now, hasCb⟩ (obsProcs w' alive') ∧
      noGoneWhileHidden ⟨envOf, procs, timeout, w.now, hasCb⟩ viewOf (obsProcs w' alive')) := by
  have e : waitProcsV cfg cfg.probe envOf viewOf procs timeout hasCb order fuel w =
      waitProcs cfg envOf procs timeout hasCb order fuel w := by
    rw [cfg_nonchild_probe.1]
    exact waitProcsV_kill cfg_good cfg_pid_test.1 cfg_pid_test.2.2 envOf viewOf hasCb fuel order hperm procs
      timeout w hf
  refine ⟨e, fun h => ?_⟩
  rw [e] at h
  have hge := C15_wait_procs_gone_ended envOf procs timeout hasCb order fuel w w' alive' hperm hf h
  exact ⟨hge, fun pid hp hh => hh.1 (hge pid hp)⟩

/-- the full statement over the probe as well: whichever question the poll asks, never early -/
def C15_never_early_any_probe_Full : Prop :=
  ∀ (probe : Probe) (env : Env) (view : View) (n : Nat) (timeout : Option Rat) (fuel : Nat) (now : Rat)
    (nWait : Nat),
    neverEarly ⟨env, n, timeout, now⟩ (obsWaitV probe env view (n : Int) timeout fuel now nWait)

/-- … is FALSE: a poll that asks the procfs view (what seeded C15-7 makes `Process.wait` do) answers None
    at once for a live process the view does not list. This is why `cfg_nonchild_probe` is an obligation. -/
theorem C15_never_early_procfs_probe_counterexample : ¬ C15_never_early_any_probe_Full := by
  intro h
  have h1 := h .procfs hiddenEnv hiddenView 8 (some 0) 1 0 0
  have h2 := (hidden_run cfg cfg_pid_test.2.2).1
  unfold neverEarly obsWaitV at h1
  simp only [Nat.cast_ofNat] at h1
  rw [h2] at h1
  simp [endedBy, hiddenEnv] at h1

/-- non-vacuity: the witness is a process that is alive but hidden at the instant None came back -/
example : hiddenAlive hiddenEnv hiddenView 0 := by
  simp [hiddenAlive, endedBy, hiddenEnv, hiddenView]

example : View.window 1 (some 2) (1 / 2) = true ∧ View.window 1 (some 2) 1 = false ∧
    View.window 1 (some 2) 2 = true ∧ View.window 1 none 5 = false := by
  norm_num [View.window]

/-! ## seeded round 5 (C15-8): WHICH clock each deadline computation reads, for every wall clock -/

/-- proof obligation on four translator facts: the clock read in `stop_at = <clock>() + timeout` and in the
    deadline check of `wait_pid`'s `sleep()` (as `Process.wait` reaches them: through the default of the
    `_timer` parameter), and the clock read in `deadline = <clock>() + timeout` and in
    `min(deadline - <clock>(), max_timeout)` of `wait_procs` (through `psutil._timer`), is the STEADY clock
    (`time.monotonic`). Binding any of them to `time.time` (seeded C15-8: the default of `_timer`), to something
    the translator cannot resolve, or reading `time.time()` in place stops this building. -/
theorem cfg_steady_clock :
    cfg.stopClock = .steady ∧ cfg.checkClock = .steady ∧ cfg.procsDeadlineClock = .steady ∧
    cfg.procsSliceClock = .steady := by decide

/-- what a caller (holding the steady clock) observes of `wait_pid(pid, timeout)` when `stop_at` is computed
    from clock `cs`, the deadline check reads clock `cc`, and the wall clock reads `wall` -/
def obsWaitK (probe : Probe) (env : Env) (view : View) (cs cc : Clock) (wall : Wall) (pid : Int)
    (timeout : Option Rat) (fuel : Nat) (now : Rat) (nWait : Nat) : Obs :=
  ⟨(waitPidK cfg probe env view cs cc wall pid timeout fuel now nWait).1,
   (waitPidK cfg probe env view cs cc wall pid timeout fuel now nWait).2.now,
   (waitPidK cfg probe env view cs cc wall pid timeout fuel now nWait).2.sleeps⟩

/-- the wait the code makes (clocks and probe = the ones the translator found) observes the same for EVERY
    wall clock and every procfs view — result, return instant, every sleep — namely what the one-clock model
    of all theorems above observes: each of them holds in every world in which the wall clock is stepped
    forwards or backwards, by any amount, at any moment -/
theorem C15_wait_any_wall_clock (wall : Wall) (env : Env) (view : View) (n : Nat) (timeout : Option Rat)
    (fuel : Nat) (now : Rat) (nWait : Nat) :
    obsWaitK cfg.probe env view cfg.stopClock cfg.checkClock wall (n : Int) timeout fuel now nWait =
      obsWait env n timeout fuel now nWait ∧
    obsWaitK cfg.probeDirect env view cfg.stopClock cfg.checkClock wall (n : Int) timeout fuel now nWait =
      obsWait env n timeout fuel now nWait := by
  have h := C15_wait_any_view env view n timeout fuel now nWait
  rw [cfg_steady_clock.1, cfg_steady_clock.2.1]
  unfold obsWaitK
  simp only [waitPidK_steady]
  exact h

/-- timeouts honoured, for every wall clock: TimeoutExpired carries (timeout, pid) and is raised at or after
    the deadline and less than one 40 ms poll after it — of STEADY time; whatever way the call ends, it has
    ended before start + timeout + 40 ms; and (last waitpid call not interrupted) the process was still
    alive at the raise instant -/
theorem C15_timeout_honoured_any_wall_clock (wall : Wall) (env : Env) (view : View) (n : Nat)
    (timeout : Option Rat) (fuel : Nat) (now : Rat) (nWait : Nat) :
    onePollLate ⟨env, n, timeout, now⟩
      (obsWaitK cfg.probe env view cfg.stopClock cfg.checkClock wall (n : Int) timeout fuel now nWait) ∧
    timeoutHonoured ⟨env, n, timeout, now⟩
      (obsWaitK cfg.probe env view cfg.stopClock cfg.checkClock wall (n : Int) timeout fuel now nWait) ∧
    (∀ sec p, (obsWaitK cfg.probe env view cfg.stopClock cfg.checkClock wall (n : Int) timeout fuel now nWait).out
        = .timeout sec p →
      timeout = some sec ∧ p = n ∧
      now + sec ≤ (obsWaitK cfg.probe env view cfg.stopClock cfg.checkClock wall (n : Int) timeout fuel now nWait).ret) ∧
    (env.eintr (lastCall env n timeout fuel now nWait) = false →
      timeoutSound ⟨env, n, timeout, now⟩
        (obsWaitK cfg.probe env view cfg.stopClock cfg.checkClock wall (n : Int) timeout fuel now nWait)) := by
  rw [(C15_wait_any_wall_clock wall env view n timeout fuel now nWait).1]
  refine ⟨C15_at_most_one_poll_late env n timeout fuel now nWait, ?_,
    fun sec p h => C15_timeout_fields env n timeout fuel now nWait sec p h,
    fun hne => C15_timeout_sound_partial env n timeout fuel now nWait hne⟩
  unfold timeoutHonoured
  cases timeout with
  | none => trivial
  | some τ =>
    simp only
    intro h0 _ _
    exact C15_returns_before_deadline_plus_poll env n τ fuel now nWait h0

/-- `Process.wait` and `Popen.wait`, for every wall clock and every view: the calls of the one-clock model
    (validation, `_exitcode` cache, Popen layer included) -/
theorem C15_process_wait_any_wall_clock (wall : Wall) (env : Env) (view : View) (timeout : Option Rat)
    (fuel : Nat) (now : Rat) (p : PObj) (q : PopenObj) :
    procWaitK cfg cfg.probe env view cfg.stopClock cfg.checkClock wall timeout fuel now p =
      procWait cfg env timeout fuel now p ∧
    popenWaitK cfg cfg.probe env view cfg.stopClock cfg.checkClock wall timeout fuel now q =
      popenWait cfg env timeout fuel now q := by
  rw [cfg_steady_clock.1, cfg_steady_clock.2.1, procWaitK_steady, popenWaitK_steady]
  exact C15_process_wait_any_view env view timeout fuel now p q

/-- the whole `wait_procs` (Process and Popen objects, argument checks included), for every wall clock: the
    run — both lists, every returncode, callback log, return instant, every sleep — IS the run of the
    one-clock model `waitProcsFrontM`, so every `C15_wait_procs_*` theorem holds whatever the wall clock does -/
theorem C15_wait_procs_any_wall_clock (wall : Wall) (envOf : Nat → Env) (procs : List Nat) (hashable : Bool)
    (timeout : Option Rat) (cb : Cb) (order : Nat → List Nat → List Nat) (fuel : Nat) (m : WPM) :
    waitProcsFrontK cfg envOf wall procs hashable timeout cb order fuel m =
      waitProcsFrontM cfg envOf procs hashable timeout cb order fuel m :=
  waitProcsFrontK_steady cfg_pid_test.1 cfg_pid_test.2.2 cfg_steady_clock.1 cfg_steady_clock.2.1
    cfg_steady_clock.2.2.1 cfg_steady_clock.2.2.2 envOf wall procs hashable timeout cb order fuel m

/-- … in particular `wait_procs` returns before start + timeout + one 40 ms poll of steady time, and never
    reports a process gone that has not ended, for every wall clock -/
theorem C15_wait_procs_deadline_any_wall_clock (wall : Wall) (envOf : Nat → Env) (procs : List Nat)
    (timeout : Option Rat) (cb : Cb) (order : Nat → List Nat → List Nat) (fuel : Nat) (m m' : WPM)
    (alive' : List Nat) (hperm : ∀ k l, (order k l).Perm l) (hf : Fresh envOf m.embed)
    (h : waitProcsFrontK cfg envOf wall procs true timeout cb order fuel m = .ok (m', alive')) :
    deadlineOk ⟨envOf, procs, timeout, m.w.now, cb != .absent⟩ (obsProcs m'.w alive') ∧
    goneEnded ⟨envOf, procs, timeout, m.w.now, cb != .absent⟩ (obsProcs m'.w alive') := by
  rw [C15_wait_procs_any_wall_clock] at h
  have hM : waitProcsM cfg envOf procs timeout (cb != .absent) order fuel m = .ok (m', alive') := by
    unfold waitProcsFrontM at h
    split at h
    · cases h
    · split at h
      · cases h
      · split at h
        · cases h
        · split at h
          · cases h
          · rename_i r hr; cases h; exact hr
  obtain ⟨_, _, _, h4, h5, _, _⟩ :=
    C15_wait_procs_mixed envOf (cb != .absent) order fuel hperm procs timeout m m' alive' hf hM
  exact ⟨h5, h4⟩

/-- the full statement over the clocks as well: whichever clock the two deadline computations of `wait_pid`
    read, TimeoutExpired is raised only at/after the deadline and the call is over one poll after it -/
def C15_timeout_honoured_any_clock_Full : Prop :=
  ∀ (cs cc : Clock) (wall : Wall) (env : Env) (view : View) (n : Nat) (timeout : Option Rat) (fuel : Nat)
    (now : Rat) (nWait : Nat),
    (∀ sec p, (obsWaitK .kill env view cs cc wall (n : Int) timeout fuel now nWait).out = .timeout sec p →
      now + sec ≤ (obsWaitK .kill env view cs cc wall (n : Int) timeout fuel now nWait).ret) ∧
    timeoutHonoured ⟨env, n, timeout, now⟩ (obsWaitK .kill env view cs cc wall (n : Int) timeout fuel now nWait)

/-- … is FALSE: a wait that measures its deadline on the wall clock (what seeded C15-8 makes every
    `Process.wait(timeout)` do) raises TimeoutExpired 0.1 ms into a 1 s timeout, the process alive, when the wall
    clock is stepped forward by an hour right after the call started. This is why `cfg_steady_clock` is an
    obligation. -/
theorem C15_wall_clock_forward_step_counterexample : ¬ C15_timeout_honoured_any_clock_Full := by
  intro h
  have h1 := (h .wall .wall fwdWall exOther View.full 8 (some 1) 5 0 0).1 1 8
  have h2 := fwd_run cfg_good cfg_pid_test.2.2
  unfold obsWaitK at h1
  simp only [Nat.cast_ofNat] at h1
  rw [h2] at h1
  norm_num at h1

/-- … and, the wall clock stepped BACKWARD instead: `wait(timeout=1 ms)` on a child that ends after 50 ms
    raises nothing at 1 ms, polls on and hands back the exit code at 51.1 ms — 10 ms beyond deadline + one poll -/
theorem C15_wall_clock_backward_step_counterexample :
    ¬ timeoutHonoured ⟨exSlow, 7, some (1 / 1000), 0⟩
        (obsWaitK .kill exSlow View.full .wall .wall backWall 7 (some (1 / 1000)) 20 0 0) := by
  obtain ⟨h1, h2⟩ := back_run cfg_good cfg_pid_test.2.2
  unfold timeoutHonoured obsWaitK
  simp only [h1, h2]
  norm_num [Spec.cap]
  constructor <;> (intro h; cases h)

/-- non-vacuity: the two witnesses are stepping wall clocks — steady before the step, an hour off after it -/
example : fwdWall 0 = 0 ∧ fwdWall (1 / 10000) = 3600 + 1 / 10000 ∧ backWall (1 / 10000) = -3600 + 1 / 10000 ∧
    Wall.stepped 5 [(1, 2), (3, -4)] 2 = 9 ∧ Wall.stepped 5 [(1, 2), (3, -4)] 3 = 6 := by
  norm_num [fwdWall, backWall, Wall.stepped]

end Psutil.C15
