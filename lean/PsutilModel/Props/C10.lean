/-
  Props/C10.lean — property theorems for C10 (nowrap counters). Only statements that the
  property makes; helper lemmas live in Proofs/C10.lean.

  `cfg` is built from Generated/C10.lean, which the translator rewrites from /repo's
  source on every run; `cfg_good` is the proof obligation that breaks when the front end
  stops feeding empty snapshots to `wrap_numbers`, changes the comparison, or merges the
  two cache names.
-/
import PsutilModel.Proofs.C10
import PsutilModel.Model.C10Gen
namespace Psutil.C10
open Spec

theorem cfg_good : cfg.Good := by refine ⟨?_, ?_, ?_⟩ <;> decide

/-! ## The property -/

/-- **C10_refines.** After *any* history `h` of calls (either function, either `nowrap`
    value, any devices appearing/disappearing, any number of wraps) and `cache_clear`s, a
    `nowrap=True` call returns, for every listed device, exactly the value promised by the
    history-defined specification: raw value + Σ of the values the counter had just before
    each backwards step in the device's current epoch. -/
theorem C10_refines (w : Name → Nat) (h : List Op) (n : Name) (raw : Raw)
    (hw : ∀ op ∈ h, OpW w op) (hr : RawW (w n) raw) (hn : NodupKeys raw) (hne : raw ≠ []) :
    (step cfg (runAll cfg St.init h) (.call n true raw)).2 = .dict (expected h n raw) := by
  have hi := runAll_inv cfg cfg_good w h St.init (fun _ => []) hw (init_inv w)
  have hslot := slot_good cfg cfg_good n
  obtain ⟨he, _, _⟩ := cfg_good
  have hemp : raw.isEmpty = false := by cases raw <;> simp_all
  have hout := run_out cfg cfg_good _ _ raw (hi.inv n) hn
  simp only [step, he, hslot, hemp, Bool.false_and, Bool.false_eq_true, if_false, if_true]
  cases hc : ((runAll cfg St.init h).get n).cache with
  | none => simp [hout, expected, snapsOf]
  | some old =>
    have hhead : (List.foldl (snapsStep n) [] h).head? = some old := by
      rw [← (hi.inv n).cache]; exact hc
    have hold : RawW (w n) old := hi.width n old (List.mem_of_mem_head? hhead)
    simp [widthMismatch_false hold hr, hout, expected, snapsOf]

/-- nothing listed → `None` / `{}` (and, by `step_inv`, the snapshot still enters the history) -/
theorem C10_empty_none (h : List Op) (n : Name) (nowrap : Bool) :
    (step cfg (runAll cfg St.init h) (.call n nowrap [])).2 = .none := by
  obtain ⟨he, _, _⟩ := cfg_good
  cases nowrap with
  | false => simp [step]
  | true =>
    simp only [step, he, List.isEmpty_nil, Bool.and_self, Bool.not_true, Bool.and_false,
      Bool.false_eq_true, if_false, if_true]
    cases hc : ((runAll cfg St.init h).get (slot cfg n)).cache with
    | none => simp
    | some old => simp [widthMismatch]

/-- **C10_nowrap_false_raw.** `nowrap=False` returns the raw values and leaves every cache untouched. -/
theorem C10_nowrap_false_raw (s : St) (n : Name) (raw : Raw) (hne : raw ≠ []) :
    step cfg s (.call n false raw) = (s, .dict raw) := by
  have hemp : raw.isEmpty = false := by cases raw <;> simp_all
  simp [step, hemp]

/-- **C10_monotone.** A device listed in two consecutive `nowrap=True` snapshots never sees
    any of its counters decrease (whatever happened in between on the other function or
    with `nowrap=False`). -/
theorem C10_monotone (snaps : List Raw) (r1 r2 : Raw) (k : Key) (v1 v2 : List Nat) (i : Nat)
    (h1 : r1.lookup k = some v1) (h2 : r2.lookup k = some v2)
    (hi1 : i < v1.length) (hi2 : i < v2.length) :
    ((expectedTuple (r1 :: snaps) k).getD []).getD i 0
      ≤ ((expectedTuple (r2 :: r1 :: snaps) k).getD []).getD i 0 := by
  simp only [expectedTuple, epochVals_cons_some h2, epochVals_cons_some h1, Option.getD_some,
    List.getD_eq_getElem?_getD, List.getElem?_mapIdx, hi1, hi2, List.getElem?_eq_getElem,
    Option.map_some, wrapSum, tupleAt]
  by_cases hlt : v2[i] < v1[i]
  · simp [hlt]
  · simp [hlt]; omega

/-- **C10_value_formula.** The value is literally "raw + Σ previous values at backwards steps". -/
theorem C10_value_formula (snaps : List Raw) (r : Raw) (k : Key) (v : List Nat) (i : Nat)
    (h : r.lookup k = some v) (hi : i < v.length) :
    ((expectedTuple (r :: snaps) k).getD []).getD i 0
      = v.getD i 0 + wrapSum i (epochVals k (r :: snaps)) := by
  simp [expectedTuple, epochVals_cons_some h, hi]

/-- **C10_reappear_fresh.** A device absent from the previous `nowrap=True` snapshot (it
    disappeared, or nothing at all was listed) starts afresh: raw values, no carried sum. -/
theorem C10_reappear_fresh (snaps : List Raw) (r1 r2 : Raw) (k : Key) (v2 : List Nat)
    (h1 : r1.lookup k = none) (h2 : r2.lookup k = some v2) :
    expectedTuple (r2 :: r1 :: snaps) k = some v2 := by
  simp only [expectedTuple, epochVals_cons_some h2, epochVals_cons_none h1]
  simp [wrapSum]

/-- **C10_cache_clear_forgets.** Right after `fn.cache_clear()` a call returns raw values. -/
theorem C10_cache_clear_forgets (h : List Op) (n : Name) (raw : Raw) (hn : NodupKeys raw) :
    expected (h ++ [.clear n]) n raw = raw := by
  have hs : snapsOf n (h ++ [.clear n]) = [] := by simp [snapsOf, snapsStep]
  simp only [expected, hs]
  have key : (raw.map fun kv => (kv.1, ((expectedTuple [raw] kv.1).getD kv.2))) = raw.map id := by
    apply List.map_congr_left
    intro kv hm
    have hl := lookup_of_mem hn hm
    simp only [expectedTuple]
    rw [epochVals_cons_some hl]
    simp [epochVals, wrapSum]
  rw [key]; simp

/-- does the operation concern function `n`'s history at all? -/
def touches (n : Name) : Op → Bool
  | .call m nowrap _ => decide (m = n) && nowrap
  | .clear m => decide (m = n)
  | .clearAll => true

/-- **C10_names_independent.** The history of one function is invisible to the other:
    deleting every operation that does not concern `n` (all calls and clears of the other
    function, all `nowrap=False` calls) leaves what `n` is promised — hence, by
    `C10_refines`, what it returns — unchanged. -/
theorem C10_names_independent (h : List Op) (n : Name) :
    snapsOf n (h.filter (touches n)) = snapsOf n h := by
  unfold snapsOf
  generalize ([] : List Raw) = acc
  induction h generalizing acc with
  | nil => rfl
  | cons op ops ih =>
    simp only [List.filter_cons, List.foldl_cons]
    cases ht : touches n op with
    | true => simp [ih]
    | false =>
      have : snapsStep n acc op = acc := by
        cases op with
        | call m nw raw =>
          simp only [touches, Bool.and_eq_false_iff, decide_eq_false_iff_not] at ht
          simp only [snapsStep]
          split
          · rename_i hh; rcases ht with ht | ht
            · exact absurd hh.1 ht
            · simp [hh.2] at ht
          · rfl
        | clear m =>
          simp only [touches, decide_eq_false_iff_not] at ht
          simp [snapsStep, ht]
        | clearAll => simp [touches] at ht
      simp [this, ih]

/-! ## Non-vacuity and the reason `cfg_good` matters -/

/-- two wraps in a row: 100 → 10 → 5 is reported as 115 -/
example : (step cfg (runAll cfg St.init
      [.call .disk true [("sda", [100])], .call .disk true [("sda", [10])]])
      (.call .disk true [("sda", [5])])).2 = .dict [("sda", [115])] := by decide

/-- The full statement is **false** for a front end that returns before `wrap_numbers` on an
    empty snapshot (psutil ≤ 7.0.0): `{sda:100}`, `{}`, `{sda:5}` yields 105, not 5. -/
theorem C10_reappear_needs_empty_feed :
    let bad : Cfg := { emptyFeedsWrap := false, strictLess := true, namesDistinct := true }
    (step bad (runAll bad St.init [.call .disk true [("sda", [100])], .call .disk true []])
        (.call .disk true [("sda", [5])])).2 = .dict [("sda", [105])]
    ∧ expected [.call .disk true [("sda", [100])], .call .disk true []] .disk [("sda", [5])]
        = [("sda", [5])] := by decide

end Psutil.C10
