/-
  Props/C10.lean — property theorems for C10 (nowrap counters). Only statements that the
  property makes; helper lemmas live in Proofs/C10.lean.

  `cfg` is built from Generated/C10.lean, which the translator rewrites from /repo's
  source on every run; `cfg_good` is the proof obligation that breaks when the front end
  stops feeding empty snapshots to `wrap_numbers`, changes the comparison, or merges the
  two cache names.
-/
import PsutilModel.Proofs.C10
import PsutilModel.Proofs.C10Front
import PsutilModel.Proofs.C10Conc
import PsutilModel.Proofs.C10Dict
import PsutilModel.Proofs.C10Sample
import PsutilModel.Proofs.C10Lock
import PsutilModel.Proofs.C10Out
import PsutilModel.Model.C10Gen
import PsutilModel.Spec.C10Plat
namespace Psutil.C10
open Spec

theorem cfg_good : cfg.Good := by refine ⟨?_, ?_, ?_⟩ <;> decide

/-- obligation fed by the translator facts `runUnderLock` / `clearUnderLock`: the only call of
    `run` sits inside `with _wn.lock`, the bodies of `cache_clear`/`cache_info` inside `with self.lock`. -/
theorem cfg_good_conc : cfg.GoodConc := by refine ⟨?_, ?_⟩ <;> decide

/-- good configuration for the two forms of `disk_io_counters`: the per-disk form has its own
    `name`, and `disk_io_counters.cache_clear()` clears it too -/
def Cfg.FormsGood (c : Cfg) : Prop := c.formsSeparate = true ∧ c.clearPer = true

/-- obligation fed by the facts `diskPerName` / `diskClearNames`: it breaks when the per-disk and
    the system-wide form of `disk_io_counters` go back to one shared cache name (the defect fixed
    by /repo a52899b), or when `cache_clear()` stops clearing the per-disk name. -/
theorem cfg_forms_good : cfg.FormsGood := by refine ⟨?_, ?_⟩ <;> decide

/-! ## The property -/

/-- **C10_refines.** After *any* history `h` of calls (either function, either `nowrap`
    value, any devices appearing/disappearing, any number of wraps) and `cache_clear`s, a
    `nowrap=True` call returns, for every listed device, exactly the value promised by the
    history-defined specification: raw value + Σ of the values the counter had just before
    each backwards step in the device's current epoch. -/
theorem C10_refines (w : Name → Nat) (h : List Op) (n : Name) (raw : Raw)
    (hw : ∀ op ∈ h, OpW w op) (hr : RawW (w n) raw) (hn : NodupKeys raw) (hne : raw ≠ []) :
    (step cfg (runAll cfg St.init h) (.call n true raw)).2 = .dict (expected h n raw) := by
  have hi := runAll_inv cfg cfg_good w h St.init (fun _ => []) hw (init_inv w)
  have hslot := slot_good cfg cfg_good n
  obtain ⟨he, _, _⟩ := cfg_good
  have hemp : raw.isEmpty = false := by cases raw <;> simp_all
  have hout := run_out cfg cfg_good _ _ raw (hi.inv n) hn
  simp only [step, he, hslot, hemp, Bool.false_and, Bool.false_eq_true, if_false, if_true]
  cases hc : ((runAll cfg St.init h).get n).cache with
  | none => simp [hout, expected, snapsOf]
  | some old =>
    have hhead : (List.foldl (snapsStep n) [] h).head? = some old := by
      rw [← (hi.inv n).cache]; exact hc
    have hold : RawW (w n) old := hi.width n old (List.mem_of_mem_head? hhead)
    simp [widthMismatch_false hold hr, hout, expected, snapsOf]

/-- nothing listed → `None` / `{}` (and, by `step_inv`, the snapshot still enters the history) -/
theorem C10_empty_none (h : List Op) (n : Name) (nowrap : Bool) :
    (step cfg (runAll cfg St.init h) (.call n nowrap [])).2 = .none := by
  obtain ⟨he, _, _⟩ := cfg_good
  cases nowrap with
  | false => simp [step]
  | true =>
    simp only [step, he, List.isEmpty_nil, Bool.and_self, Bool.not_true, Bool.and_false,
      Bool.false_eq_true, if_false, if_true]
    cases hc : ((runAll cfg St.init h).get (slot cfg n)).cache with
    | none => simp
    | some old => simp [widthMismatch]

/-- **C10_nowrap_false_raw.** `nowrap=False` returns the raw values and leaves every cache untouched. -/
theorem C10_nowrap_false_raw (s : St) (n : Name) (raw : Raw) (hne : raw ≠ []) :
    step cfg s (.call n false raw) = (s, .dict raw) := by
  have hemp : raw.isEmpty = false := by cases raw <;> simp_all
  simp [step, hemp]

/-- **C10_monotone.** A device listed in two consecutive `nowrap=True` snapshots never sees
    any of its counters decrease (whatever happened in between on the other function or
    with `nowrap=False`). -/
theorem C10_monotone (snaps : List Raw) (r1 r2 : Raw) (k : Key) (v1 v2 : List Nat) (i : Nat)
    (h1 : r1.lookup k = some v1) (h2 : r2.lookup k = some v2)
    (hi1 : i < v1.length) (hi2 : i < v2.length) :
    ((expectedTuple (r1 :: snaps) k).getD []).getD i 0
      ≤ ((expectedTuple (r2 :: r1 :: snaps) k).getD []).getD i 0 := by
  simp only [expectedTuple, epochVals_cons_some h2, epochVals_cons_some h1, Option.getD_some,
    List.getD_eq_getElem?_getD, List.getElem?_mapIdx, hi1, hi2, List.getElem?_eq_getElem,
    Option.map_some, wrapSum, tupleAt]
  by_cases hlt : v2[i] < v1[i]
  · simp [hlt]
  · simp [hlt]; omega

/-- **C10_value_formula.** The value is literally "raw + Σ previous values at backwards steps". -/
theorem C10_value_formula (snaps : List Raw) (r : Raw) (k : Key) (v : List Nat) (i : Nat)
    (h : r.lookup k = some v) (hi : i < v.length) :
    ((expectedTuple (r :: snaps) k).getD []).getD i 0
      = v.getD i 0 + wrapSum i (epochVals k (r :: snaps)) := by
  simp [expectedTuple, epochVals_cons_some h, hi]

/-- **C10_reappear_fresh.** A device absent from the previous `nowrap=True` snapshot (it
    disappeared, or nothing at all was listed) starts afresh: raw values, no carried sum. -/
theorem C10_reappear_fresh (snaps : List Raw) (r1 r2 : Raw) (k : Key) (v2 : List Nat)
    (h1 : r1.lookup k = none) (h2 : r2.lookup k = some v2) :
    expectedTuple (r2 :: r1 :: snaps) k = some v2 := by
  simp only [expectedTuple, epochVals_cons_some h2, epochVals_cons_none h1]
  simp [wrapSum]

/-- **C10_cache_clear_forgets.** Right after `fn.cache_clear()` a call returns raw values. -/
theorem C10_cache_clear_forgets (h : List Op) (n : Name) (raw : Raw) (hn : NodupKeys raw) :
    expected (h ++ [.clear n]) n raw = raw := by
  have hs : snapsOf n (h ++ [.clear n]) = [] := by simp [snapsOf, snapsStep]
  simp only [expected, hs]
  have key : (raw.map fun kv => (kv.1, ((expectedTuple [raw] kv.1).getD kv.2))) = raw.map id := by
    apply List.map_congr_left
    intro kv hm
    have hl := lookup_of_mem hn hm
    simp only [expectedTuple]
    rw [epochVals_cons_some hl]
    simp [epochVals, wrapSum]
  rw [key]; simp

/-- does the operation concern function `n`'s history at all? -/
def touches (n : Name) : Op → Bool
  | .call m nowrap _ => decide (m = n) && nowrap
  | .clear m => decide (m = n)
  | .clearAll => true

/-- **C10_names_independent.** The history of one function is invisible to the other:
    deleting every operation that does not concern `n` (all calls and clears of the other
    function, all `nowrap=False` calls) leaves what `n` is promised — hence, by
    `C10_refines`, what it returns — unchanged. -/
theorem C10_names_independent (h : List Op) (n : Name) :
    snapsOf n (h.filter (touches n)) = snapsOf n h := by
  unfold snapsOf
  generalize ([] : List Raw) = acc
  induction h generalizing acc with
  | nil => rfl
  | cons op ops ih =>
    simp only [List.filter_cons, List.foldl_cons]
    cases ht : touches n op with
    | true => simp [ih]
    | false =>
      have : snapsStep n acc op = acc := by
        cases op with
        | call m nw raw =>
          simp only [touches, Bool.and_eq_false_iff, decide_eq_false_iff_not] at ht
          simp only [snapsStep]
          split
          · rename_i hh; rcases ht with ht | ht
            · exact absurd hh.1 ht
            · simp [hh.2] at ht
          · rfl
        | clear m =>
          simp only [touches, decide_eq_false_iff_not] at ht
          simp [snapsStep, ht]
        | clearAll => simp [touches] at ht
      simp [this, ih]

/-! ## The public front ends: per-device and system-wide form -/

/-- **C10_front_refines.** After any history of public operations (both functions, both forms,
    any `nowrap`, `cache_clear`s), a `nowrap=True` call returns the promised per-device values of
    the devices the platform layer handed over — as a dict (per-device form) or summed field by
    field (system-wide form). -/
theorem C10_front_refines (w : Name → Nat) (fh : List FOp) (fn : Fn) (perdev : Bool) (l : Listing)
    (hw : ∀ op ∈ lowerAll cfg fh, OpW w op)
    (hr : RawW (w (slotOf cfg fn perdev)) (platRaw cfg fn perdev l))
    (hn : NodupKeys (platRaw cfg fn perdev l)) (hne : platRaw cfg fn perdev l ≠ []) :
    (fstep cfg (frun cfg St.init fh) (.call ⟨fn, true, perdev, l⟩)).2
      = shape perdev (.dict (expected (lowerAll cfg fh) (slotOf cfg fn perdev) (platRaw cfg fn perdev l))) := by
  simp only [fstep, frun_eq]
  rw [C10_refines w (lowerAll cfg fh) _ _ hw hr hn hne]

/-- **C10_total_is_sum.** `net_io_counters(pernic=False, nowrap=True)` /
    `disk_io_counters(perdisk=False, nowrap=True)` return the field-wise sum, over the devices
    handed over by the platform layer, of the nowrap-adjusted per-device tuples. -/
theorem C10_total_is_sum (w : Name → Nat) (fh : List FOp) (fn : Fn) (l : Listing)
    (hw : ∀ op ∈ lowerAll cfg fh, OpW w op)
    (hr : RawW (w (slotOf cfg fn false)) (platRaw cfg fn false l))
    (hn : NodupKeys (platRaw cfg fn false l)) (hne : platRaw cfg fn false l ≠ []) :
    (fstep cfg (frun cfg St.init fh) (.call ⟨fn, true, false, l⟩)).2
      = .total (totalOf (expected (lowerAll cfg fh) (slotOf cfg fn false) (platRaw cfg fn false l))) := by
  rw [C10_front_refines w fh fn false l hw hr hn hne]
  simp only [shape, Bool.false_eq_true, if_false]
  rw [colSums_eq_totalOf _ _ (expected_width _ _ _ _ hr hn)]

/-- … and field `i` of that sum is Σ over the devices of the promised value of counter `i`. -/
theorem C10_total_field (w : Nat) (h : List Op) (n : Name) (raw : Raw)
    (hr : RawW w raw) (hn : NodupKeys raw) (hne : raw ≠ []) :
    totalOf (expected h n raw) = (List.range w).map fun i => totalField (snapsOf n h) raw i :=
  totalOf_expected w h n raw hr hn hne

/-- **C10_total_monotone.** While no device vanishes (every device of the previous `nowrap=True`
    snapshot is in the new one; new devices may show up) no field of the system-wide form decreases. -/
theorem C10_total_monotone (w : Nat) (snaps : List Raw) (r1 r2 : Raw) (i : Nat) (hi : i < w)
    (hw1 : RawW w r1) (hw2 : RawW w r2) (hn1 : NodupKeys r1)
    (hstay : ∀ kv ∈ r1, r2.lookup kv.1 ≠ none) :
    totalField snaps r1 i ≤ totalField (r1 :: snaps) r2 i := by
  unfold totalField
  have step1 : (r1.map fun kv => valueAt (r1 :: snaps) kv.1 i).sum
      ≤ (r1.map fun kv => valueAt (r2 :: r1 :: snaps) kv.1 i).sum := by
    apply sum_le_sum_pointwise
    intro kv hm
    have h1 := lookup_of_mem hn1 hm
    cases h2 : r2.lookup kv.1 with
    | none => exact absurd h2 (hstay kv hm)
    | some v2 =>
      have hl1 : i < kv.2.length := by rw [hw1 kv hm]; exact hi
      have hl2 : i < v2.length := by
        have := hw2 _ (mem_of_lookup h2); simp only at this; omega
      exact C10_monotone snaps r1 r2 kv.1 kv.2 v2 i h1 h2 hl1 hl2
  have step2 : (r1.map fun kv => valueAt (r2 :: r1 :: snaps) kv.1 i).sum
      ≤ (r2.map fun kv => valueAt (r2 :: r1 :: snaps) kv.1 i).sum := by
    have e1 : (r1.map fun kv => valueAt (r2 :: r1 :: snaps) kv.1 i)
        = (r1.map (·.1)).map fun k => valueAt (r2 :: r1 :: snaps) k i := by simp [List.map_map]
    have e2 : (r2.map fun kv => valueAt (r2 :: r1 :: snaps) kv.1 i)
        = (r2.map (·.1)).map fun k => valueAt (r2 :: r1 :: snaps) k i := by simp [List.map_map]
    rw [e1, e2]
    apply sum_le_of_nodup_subset _ _ _ hn1
    intro k hk
    simp only [List.mem_map] at hk
    obtain ⟨kv, hm, rfl⟩ := hk
    cases h2 : r2.lookup kv.1 with
    | none => exact absurd h2 (hstay kv hm)
    | some v2 => exact List.mem_map.mpr ⟨_, mem_of_lookup h2, rfl⟩
  exact Nat.le_trans step1 step2

/-- the same statement for *every* pair of consecutive snapshots — false: -/
def C10_total_monotone_Full : Prop :=
  ∀ (snaps : List Raw) (r1 r2 : Raw) (i : Nat), NodupKeys r1 → NodupKeys r2 →
    totalField snaps r1 i ≤ totalField (r1 :: snaps) r2 i

/-- **C10_total_drops_when_device_vanishes.** The property promises monotonicity per device only:
    when a device vanishes the system-wide figure loses that device's whole contribution
    (`{a:100, b:50}` then `{a:100}`: 150 → 100), and when a device comes back it re-enters with its
    raw value, without the offset it had accumulated (`{a:100}`,`{a:10}` → 110; `{}`; `{a:20}` → 20). -/
theorem C10_total_drops_when_device_vanishes :
    ¬ C10_total_monotone_Full
    ∧ (fstep cfg (frun cfg St.init [.call ⟨.net, true, false, [("a", true, [100]), ("b", true, [50])]⟩])
        (.call ⟨.net, true, false, [("a", true, [100])]⟩)).2 = .total [100]
    ∧ (fstep cfg (frun cfg St.init [.call ⟨.net, true, false, [("a", true, [100])]⟩,
          .call ⟨.net, true, false, [("a", true, [10])]⟩, .call ⟨.net, true, false, []⟩])
        (.call ⟨.net, true, false, [("a", true, [20])]⟩)).2 = .total [20] := by
  refine ⟨fun h => ?_, by decide, by decide⟩
  have := h [] [("a", [100]), ("b", [50])] [("a", [100])] 0
    (by unfold NodupKeys; decide) (by unfold NodupKeys; decide)
  revert this
  decide

/-! ## The two forms of `disk_io_counters` on Linux -/

/-- the front end as found at the baseline commit: one `name` for both forms of
    `disk_io_counters`, while on Linux the system-wide form is computed from whole disks only -/
def sharedCfg : Cfg := { emptyFeedsWrap := true, strictLess := true, namesDistinct := true }

/-- **Full statement**: a disk the kernel lists at every call never sees a counter of its
    per-disk tuple decrease from one `perdisk=True` call to the next, whatever system-wide calls
    of the same function happen in between. No hypothesis on the history before, on tuple widths
    or on the listings; `i < v2.length` only says that the later tuple has a field `i`. -/
def C10_present_monotone_Full (c : Cfg) : Prop :=
  ∀ (fh : List FOp) (l1 l2 : Listing) (mid : List Listing) (k : Key) (i : Nat) (r1 r2 : Raw)
    (v1 v2 : List Nat),
    (∀ l ∈ l1 :: l2 :: mid, ∃ e ∈ l, e.1 = k) →
    (fstep c (frun c St.init fh) (.call ⟨.disk, true, true, l1⟩)).2 = .dict r1 →
    (fstep c (frun c St.init (fh ++ .call ⟨.disk, true, true, l1⟩
        :: mid.map fun l => .call ⟨.disk, true, false, l⟩)) (.call ⟨.disk, true, true, l2⟩)).2 = .dict r2 →
    r1.lookup k = some v1 → r2.lookup k = some v2 → i < v2.length → tupleAt v1 i ≤ tupleAt v2 i

/-- **C10_forms_share_history_counterexample.** With one shared `name` the full statement is
    false: per-disk `{sda:100, sda1:100}`, `{sda:10, sda1:10}` (both wrapped: 110), system-wide call
    (the Linux layer hands over `sda` only, so `sda1` looks gone), per-disk `{sda:12, sda1:12}` →
    `sda1` is reported as 12 < 110 although the partition never went away. -/
theorem C10_forms_share_history_counterexample : ¬ C10_present_monotone_Full sharedCfg := by
  intro h
  have := h [.call ⟨.disk, true, true, [("sda", true, [100]), ("sda1", false, [100])]⟩]
    [("sda", true, [10]), ("sda1", false, [10])] [("sda", true, [12]), ("sda1", false, [12])]
    [[("sda", true, [11]), ("sda1", false, [11])]] "sda1" 0
    [("sda", [110]), ("sda1", [110])] [("sda", [112]), ("sda1", [12])] [110] [12]
    (by decide) (by decide) (by decide) (by decide) (by decide) (by decide)
  revert this
  decide

/-- **C10_present_monotone.** For the repaired front end (per-disk form with its own `name`) the
    full statement holds — after *any* history, for *any* listings (no width or uniqueness
    hypothesis), with any number of system-wide calls in between. -/
theorem C10_present_monotone (c : Cfg) (hc : c.Good) (hf : c.FormsGood) :
    C10_present_monotone_Full c := by
  intro fh l1 l2 mid k i r1 r2 v1 v2 hlisted h1 h2 hv1 hv2 hi
  have hslotP : slot c .diskPer = .diskPer := slot_good c hc _
  have hslotD : slot c .disk = .disk := slot_good c hc _
  have hso : slotOf c .disk true = .diskPer := by simp [slotOf, hf.1]
  -- first per-disk call
  simp only [fstep, hso, platRaw_perdev] at h1 h2
  have h1' := shape_true_dict h1
  have h2' := shape_true_dict h2
  obtain ⟨hr1, hs1, _⟩ := step_call_dict c _ _ _ _ h1'
  -- the state in which the second per-disk call runs
  have hmid : ∀ (ms : List Listing) (s : St),
      (frun c s (ms.map fun l => FOp.call ⟨.disk, true, false, l⟩)).get .diskPer = s.get .diskPer := by
    intro ms
    induction ms with
    | nil => intro s; rfl
    | cons m ms ih =>
      intro s
      simp only [List.map_cons, frun]
      rw [ih]
      simp only [fstep, slotOf, Bool.and_false, Bool.false_eq_true, if_false]
      exact step_call_get_other c s .disk .diskPer true _ (by rw [hslotD]; decide)
  have hstate : (frun c St.init (fh ++ FOp.call ⟨.disk, true, true, l1⟩
        :: mid.map fun l => FOp.call ⟨.disk, true, false, l⟩)).get .diskPer
      = (run c ((frun c St.init fh).get .diskPer) (l1.map fun e => (e.1, e.2.2))).1 := by
    rw [frun_append]
    simp only [frun]
    rw [hmid]
    simp only [fstep, hso, platRaw_perdev]
    rw [hs1, hslotP, get_set_same]
  obtain ⟨hr2, _, hwm⟩ := step_call_dict c _ _ _ _ h2'
  rw [hslotP, hstate] at hr2 hwm
  rw [hslotP] at hr1
  -- name the pieces
  generalize (frun c St.init fh).get .diskPer = w0 at hr1 hr2 hwm
  generalize hraw1 : (l1.map fun e => (e.1, e.2.2)) = raw1 at hr1 hr2 hwm
  generalize hraw2 : (l2.map fun e => (e.1, e.2.2)) = raw2 at hr2 hwm
  obtain ⟨o1, ho1⟩ := lookup_listed l1 k (hlisted l1 (by simp))
  obtain ⟨o2, ho2⟩ := lookup_listed l2 k (hlisted l2 (by simp))
  rw [hraw1] at ho1
  rw [hraw2] at ho2
  have hwm' := hwm raw1 (run_cache c w0 raw1)
  -- the second result: cache is `raw1`
  have hrun2 : (run c (run c w0 raw1).1 raw2).2
      = outOf raw1 raw2 (remAfter c raw1 raw2 (run c w0 raw1).1.rem) := by
    have run_some : ∀ (w : WN) (old raw : Raw), w.cache = some old →
        (run c w raw).2 = outOf old raw (remAfter c old raw w.rem) := by
      intro w old raw h
      simp only [run, h]
    exact run_some _ raw1 raw2 (run_cache c w0 raw1)
  rw [hrun2] at hr2
  subst hr2
  rw [lookup_outOf, ho2, ho1] at hv2
  simp only [Option.map_some, Option.some.injEq] at hv2
  subst hv2
  have hi2 : i < o2.length := by simpa using hi
  have hi1 : i < o1.length := by
    have hm := mem_of_lookup ho2
    unfold widthMismatch at hwm'
    rw [List.any_eq_false] at hwm'
    have := hwm' _ hm
    simp only [ho1, decide_eq_true_eq] at this
    omega
  rw [tupleAt_mapIdx_eq o2 _ i hi2]
  simp only [remAfter, ho1, ho2]
  -- the first result
  have hv1le : tupleAt v1 i ≤ tupleAt o1 i + (run c w0 raw1).1.rem k i := by
    cases hc0 : w0.cache with
    | none =>
      simp only [run, hc0] at hr1
      subst hr1
      rw [ho1] at hv1
      simp only [Option.some.injEq] at hv1
      subst hv1
      exact Nat.le_add_right _ _
    | some old =>
      simp only [run, hc0] at hr1 ⊢
      subst hr1
      rw [lookup_outOf, ho1] at hv1
      simp only [Option.map_some, Option.some.injEq] at hv1
      subst hv1
      cases old.lookup k with
      | none => exact Nat.le_add_right _ _
      | some _ => exact tupleAt_mapIdx_le o1 _ i
  by_cases hwr : wrapped c (tupleAt o2 i) (tupleAt o1 i) = true
  · rw [if_pos hwr]; omega
  · rw [if_neg hwr]
    have : tupleAt o1 i ≤ tupleAt o2 i := by
      simp only [wrapped] at hwr
      split at hwr <;> simp at hwr <;> omega
    omega

/-- … instantiated for the front end as extracted from the current source. -/
theorem C10_present_monotone_cfg : C10_present_monotone_Full cfg :=
  C10_present_monotone cfg cfg_good cfg_forms_good

/-- system-wide calls of `disk_io_counters` never touch the slot `diskPer` (the one the per-disk
    form uses once it has its own `name`): they leave its snapshot list unchanged. -/
theorem C10_forms_independent (c : Cfg) (h : List Op) (mid : List Listing) (nowrap : Bool) :
    snapsOf .diskPer (h ++ lowerAll c (mid.map fun l => .call ⟨.disk, nowrap, false, l⟩))
      = snapsOf .diskPer h := by
  apply snapsOf_append_untouched
  intro op hop s
  simp only [lowerAll, List.mem_flatMap, List.mem_map] at hop
  obtain ⟨fop, ⟨l, _, rfl⟩, hop⟩ := hop
  simp only [lower, slotOf, Bool.and_false, Bool.false_eq_true, if_false, List.mem_singleton] at hop
  subst hop
  simp [snapsStep]

/-! ## Clause 1 at the level of what the caller and the kernel see -/

theorem lowerAll_append (c : Cfg) (a b : List FOp) : lowerAll c (a ++ b) = lowerAll c a ++ lowerAll c b := by
  simp [lowerAll]

/-- **C10_outputs_monotone.** The first clause of the property, composed, about the *return values*
    of the public functions of the code as extracted (`cfg`), for BOTH functions: after any public
    history `fh`, take a per-device `nowrap=True` call of `fn` (kernel listing `l1`), then any public
    operations `mid` across which device `k` *stays present* (`Spec.StaysListed`, kernel-listing level:
    every `nowrap=True` call of `fn`, per-device or system-wide, finds `k` listed; no `fn.cache_clear()`;
    anything of the other function, any `nowrap=False` call), then another per-device `nowrap=True`
    call (listing `l2`). Both calls return dicts that contain `k`, and no counter of `k` is lower in the
    second than in the first. Hypothesis `hw`: the tuples handed to one cache slot have one width and
    device names are unique per snapshot (true of every platform layer; outside it the abstract model
    `step` is not faithful to the code — `C10_concrete_refines` has the same hypothesis). -/
theorem C10_outputs_monotone (w : Name → Nat) (fh mid : List FOp) (fn : Fn) (l1 l2 : Listing) (k : Key)
    (hw : ∀ op ∈ lowerAll cfg ((fh ++ FOp.call ⟨fn, true, true, l1⟩ :: mid) ++ [FOp.call ⟨fn, true, true, l2⟩]),
      OpW w op)
    (hl1 : ∃ e ∈ l1, e.1 = k) (hl2 : ∃ e ∈ l2, e.1 = k)
    (hmid : ∀ op ∈ mid, StaysListed fn k op) :
    ∃ r1 r2 v1 v2,
      (fstep cfg (frun cfg St.init fh) (.call ⟨fn, true, true, l1⟩)).2 = .dict r1
      ∧ (fstep cfg (frun cfg St.init (fh ++ FOp.call ⟨fn, true, true, l1⟩ :: mid))
          (.call ⟨fn, true, true, l2⟩)).2 = .dict r2
      ∧ r1.lookup k = some v1 ∧ r2.lookup k = some v2
      ∧ v1.length = w (slotOf cfg fn true) ∧ v2.length = w (slotOf cfg fn true)
      ∧ ∀ i, tupleAt v1 i ≤ tupleAt v2 i := by
  have hcons : ∀ (x : FOp) (xs : List FOp), x :: xs = [x] ++ xs := fun _ _ => rfl
  rw [hcons _ mid, lowerAll_append, lowerAll_append, lowerAll_append] at hw
  have hw0 : ∀ op ∈ lowerAll cfg fh, OpW w op := fun op h => hw op (by simp [h])
  have hwm : ∀ op ∈ lowerAll cfg mid, OpW w op := fun op h => hw op (by simp [h])
  have hwc1 : OpW w (.call (slotOf cfg fn true) true (platRaw cfg fn true l1)) :=
    hw _ (by simp [lowerAll, lower])
  have hwc2 : OpW w (.call (slotOf cfg fn true) true (platRaw cfg fn true l2)) :=
    hw _ (by simp [lowerAll, lower])
  have hwh : ∀ op ∈ lowerAll cfg (fh ++ FOp.call ⟨fn, true, true, l1⟩ :: mid), OpW w op := by
    intro op h
    rw [hcons _ mid, lowerAll_append, lowerAll_append] at h
    exact hw op (by simp only [List.mem_append] at h ⊢; exact Or.inl h)
  obtain ⟨o1, ho1⟩ := lookup_listed l1 k hl1
  obtain ⟨o2, ho2⟩ := lookup_listed l2 k hl2
  rw [← platRaw_perdev cfg fn l1] at ho1
  rw [← platRaw_perdev cfg fn l2] at ho2
  have hne1 : platRaw cfg fn true l1 ≠ [] := by intro h; rw [h] at ho1; simp at ho1
  have hne2 : platRaw cfg fn true l2 ≠ [] := by intro h; rw [h] at ho2; simp at ho2
  have e1 := C10_front_refines w fh fn true l1 hw0 hwc1.1 hwc1.2 hne1
  have e2 := C10_front_refines w (fh ++ FOp.call ⟨fn, true, true, l1⟩ :: mid) fn true l2 hwh hwc2.1 hwc2.2 hne2
  simp only [shape, if_true] at e1 e2
  obtain ⟨v1, hv1, hlen1, hval1⟩ := lookup_expected (lowerAll cfg fh) (slotOf cfg fn true) _ k o1 ho1
  obtain ⟨v2, hv2, hlen2, hval2⟩ :=
    lookup_expected (lowerAll cfg (fh ++ FOp.call ⟨fn, true, true, l1⟩ :: mid)) (slotOf cfg fn true) _ k o2 ho2
  have hlo1 : o1.length = w (slotOf cfg fn true) := hwc1.1 _ (mem_of_lookup ho1)
  have hlo2 : o2.length = w (slotOf cfg fn true) := hwc2.1 _ (mem_of_lookup ho2)
  refine ⟨_, _, v1, v2, e1, e2, hv1, hv2, by omega, by omega, ?_⟩
  intro i
  by_cases hi : i < w (slotOf cfg fn true)
  · rw [hval1, hval2]
    obtain ⟨S, hS, hSp⟩ := snaps_mid cfg cfg_forms_good.1 fn k mid hmid
      (platRaw cfg fn true l1 :: snapsOf (slotOf cfg fn true) (lowerAll cfg fh))
    have hsn : snapsOf (slotOf cfg fn true) (lowerAll cfg (fh ++ FOp.call ⟨fn, true, true, l1⟩ :: mid))
        = S ++ platRaw cfg fn true l1 :: snapsOf (slotOf cfg fn true) (lowerAll cfg fh) := by
      rw [hcons _ mid, lowerAll_append, lowerAll_append, ← hS]
      simp [snapsOf, lowerAll, lower, snapsStep]
    rw [hsn]
    exact valueAt_chain (w (slotOf cfg fn true)) k i hi _ _ o1 hwc1.1 ho1 S
      (fun r hr => ⟨(hSp r hr).1, (hwm _ (hSp r hr).2).1⟩) _ o2 hwc2.1 ho2
  · have a : tupleAt v1 i = 0 := by
      simp only [tupleAt, List.getD_eq_getElem?_getD]
      rw [List.getElem?_eq_none (by omega)]; rfl
    rw [a]; exact Nat.zero_le _

/-- **C10_floor_sound.** The same with "stays present" computed by `Spec.prevPresent` on the
    kernel-listing-level past (`Spec.pastOf`: per operation only function, `nowrap`, form and the NAMES
    the kernel listed) — the lower bound the correspondence check applies to every per-device
    `nowrap=True` result of the real functions (`floorOf` in Driver/C10.lean): if `prevPresent` finds
    entry `j`, then entry `j` is a per-device `nowrap=True` call of the same function, both calls
    returned dicts containing `k`, and no counter of `k` is lower now than then. -/
theorem C10_floor_sound (w : Name → Nat) (fh : List FOp) (fn : Fn) (l2 : Listing) (k : Key) (j : Nat)
    (hw : ∀ op ∈ lowerAll cfg (fh ++ [FOp.call ⟨fn, true, true, l2⟩]), OpW w op)
    (hl2 : ∃ e ∈ l2, e.1 = k) (hp : prevPresent k (pastOf fn fh) = some j) :
    ∃ pre l1 mid r1 r2 v1 v2,
      fh = pre ++ FOp.call ⟨fn, true, true, l1⟩ :: mid ∧ (pastOf fn mid).length = j
      ∧ (fstep cfg (frun cfg St.init pre) (.call ⟨fn, true, true, l1⟩)).2 = .dict r1
      ∧ (fstep cfg (frun cfg St.init fh) (.call ⟨fn, true, true, l2⟩)).2 = .dict r2
      ∧ r1.lookup k = some v1 ∧ r2.lookup k = some v2 ∧ ∀ i, tupleAt v1 i ≤ tupleAt v2 i := by
  obtain ⟨pre, l1, mid, hfh, hl1, hmid, hlen⟩ := prevPresent_split fn k fh j hp
  subst hfh
  obtain ⟨r1, r2, v1, v2, a, b, c, d, _, _, e⟩ := C10_outputs_monotone w pre mid fn l1 l2 k hw hl1 hl2 hmid
  exact ⟨pre, l1, mid, r1, r2, v1, v2, rfl, hlen, a, b, c, d, e⟩

/-- non-vacuity (net, a system-wide call and a call of the other function in between; two wraps):
    `eth0` 100 → (total call, 10: wrapped) → 5 (wrapped again) is reported as 100, then 115 -/
example :
    let fh : List FOp := [.call ⟨.net, true, true, [("eth0", true, [100]), ("lo", true, [7])]⟩,
      .call ⟨.net, true, false, [("eth0", true, [10])]⟩, .call ⟨.disk, true, true, [("sda", true, [3])]⟩,
      .call ⟨.net, false, true, []⟩]
    prevPresent "eth0" (pastOf .net fh) = some 2
    ∧ (fstep cfg (frun cfg St.init fh) (.call ⟨.net, true, true, [("eth0", true, [5])]⟩)).2
        = .dict [("eth0", [115])] := by decide

/-! ## Concurrency -/

/-- **C10_serialisable.** Any number of threads, any programs, any interleaving of their actions
    (`sample` outside the lock; `acquire`, `load`, `store`, `release`): the shared `_WrapNumbers`
    state and the return values handed out so far are exactly those of the *serial* execution of
    the bodies in the order they acquired the lock — all of them, or all but the one whose thread
    holds the lock and has not finished. Each call works on the raw sample it took at `sample`. -/
theorem C10_serialisable (acts : List Act) (s : Sys) (h : runC cfg Sys.init acts = some s) :
    ∃ done, (s.log = done ∨ ∃ x, s.log = done ++ [x]) ∧ serial cfg St.init done = (s.st, s.outs) :=
  invC_committed cfg s (runC_inv cfg cfg_good_conc acts Sys.init s (invC_init cfg) h)

/-- … in particular whenever the lock is free the whole log has been executed serially. -/
theorem C10_serialisable_quiescent (acts : List Act) (s : Sys) (h : runC cfg Sys.init acts = some s)
    (hl : s.lock = none) : serial cfg St.init s.log = (s.st, s.outs) :=
  (runC_inv cfg cfg_good_conc acts Sys.init s (invC_init cfg) h).free hl

/-- **C10_concurrent_refines.** Hence the sequential theorems apply to the lock order: the value a
    thread gets for a `nowrap=True` call is the one promised by the history of the bodies that
    took the lock before it. -/
theorem C10_concurrent_refines (w : Name → Nat) (pre post : List (Nat × Op)) (t : Nat) (n : Name) (raw : Raw)
    (hw : ∀ op ∈ pre.map (·.2), OpW w op) (hr : RawW (w n) raw) (hn : NodupKeys raw) (hne : raw ≠ []) :
    (serial cfg St.init (pre ++ (t, .call n true raw) :: post)).2
      = (serial cfg St.init pre).2 ++ (t, .dict (expected (pre.map (·.2)) n raw))
          :: (serial cfg (step cfg (runAll cfg St.init (pre.map (·.2))) (.call n true raw)).1 post).2 := by
  rw [serial_out_at, C10_refines w (pre.map (·.2)) n raw hw hr hn hne]

/-! ### Sampling order (finding C10-sample-outside-lock, fixes/C10-sample-under-lock) -/

/-- the front ends take the raw sample and feed it to `wrap_numbers` inside one lock -/
def Cfg.SampleGood (c : Cfg) : Prop := c.sampleUnderLock = true

/-- the current source with the raw sample taken OUTSIDE every lock (the front ends before
    fixes/C10-sample-under-lock) / INSIDE the front ends' sampling lock (after it) -/
def sampleOutsideCfg : Cfg := { cfg with sampleUnderLock := false }
def sampleInsideCfg : Cfg := { cfg with sampleUnderLock := true }

/-- **Full statement** for concurrent callers: in every interleaving of any number of threads the
    `wrap_numbers` calls go through `_wn.lock` in the order in which their raw snapshots were read
    from the kernel (`Sys.samples`, a ghost record of the platform calls) — at most one call has
    sampled and not yet taken the lock — and, whenever the lock is free, a `nowrap=True` call that
    sits in the log after the bodies `pre` has returned the history-defined `expected` value over
    `pre`, i.e. over exactly the raw kernel snapshots sampled before its own (and the `cache_clear`s
    that took the lock before it). No "given each call's raw sample in lock order" caveat. -/
def C10_concurrent_Full (c : Cfg) : Prop :=
  ∀ (w : Name → Nat) (acts : List Act) (s : Sys), runC c Sys.init acts = some s →
    (callsOf s.log ++ pending s = s.samples ∧ (pending s).length ≤ 1)
    ∧ (s.lock = none → ∀ (pre post : List (Nat × Op)) (t : Nat) (n : Name) (raw : Raw),
        s.log = pre ++ (t, .call n true raw) :: post →
        (∀ op ∈ pre.map (·.2), OpW w op) → RawW (w n) raw → NodupKeys raw → raw ≠ [] →
        callsOf pre ++ (t, .call n true raw) :: (callsOf post ++ pending s) = s.samples
        ∧ s.outs = (serial c St.init pre).2 ++ (t, .dict (expected (pre.map (·.2)) n raw))
            :: (serial c (step c (runAll c St.init (pre.map (·.2))) (.call n true raw)).1 post).2)

/-- **C10_concurrent_full_strength.** The full statement holds for every configuration in which the
    bodies run under `_wn.lock` and the sample is taken under the front ends' lock. Together with
    `C10_monotone` on the specification: a device that stays listed never goes backwards in the
    order in which the kernel was read, whatever the threads do. -/
theorem C10_concurrent_full_strength (c : Cfg) (hg : c.Good) (hc : c.GoodConc) (hs : c.SampleGood) :
    C10_concurrent_Full c := by
  intro w acts s h
  have hiS := runS_inv c hc hs acts Sys.init s invS_init h
  have hiC := runC_inv c hc acts Sys.init s (invC_init c) h
  refine ⟨⟨hiS.order, pending_length s⟩, ?_⟩
  intro hl pre post t n raw hlog hw hr hn hne
  refine ⟨?_, ?_⟩
  · rw [← hiS.order, hlog]
    simp [callsOf, isCall, List.filter_append]
  · have hser := hiC.free hl
    rw [hlog, ] at hser
    have := serial_out_at c pre post t (.call n true raw)
    rw [refines_good c hg w (pre.map (·.2)) n raw hw hr hn hne] at this
    rw [← this, hser]

/-- … for the current source with the sample taken under the lock (builds before and after
    fixes/C10-sample-under-lock lands; once it has landed `sampleInsideCfg = cfg`, see the block at
    the end of this section). -/
theorem C10_concurrent_full_strength_fixed : C10_concurrent_Full sampleInsideCfg :=
  C10_concurrent_full_strength sampleInsideCfg
    (by refine ⟨?_, ?_, ?_⟩ <;> decide) (by refine ⟨?_, ?_⟩ <;> decide) (by unfold Cfg.SampleGood; decide)

/-- **C10_lock_order_is_not_sampling_order.** Counterexample to the full statement for the front ends
    that sample OUTSIDE the lock (finding C10-sample-outside-lock): thread 0 reads 100, is overtaken
    by thread 1 which reads 105 and goes through `wrap_numbers` first; thread 0's older sample then
    looks like a backwards step (100 < 105) and is reported as 205 — and every later call carries
    the spurious offset 105 (110 → 215) until `cache_clear()`, although the kernel's counter
    (100, 105, 110 in sampling order) never went backwards. The harness replays exactly this
    overtaking on two real threads. With the sample under the lock the schedule is not a run. -/
theorem C10_lock_order_is_not_sampling_order :
    let acts : List Act :=
      [.sample 0 .net [("eth0", [100])], .sample 1 .net [("eth0", [105])],
       .acquire 1, .load 1, .store 1, .release 1,
       .acquire 0, .load 0, .store 0, .release 0,
       .sample 0 .net [("eth0", [110])], .acquire 0, .load 0, .store 0, .release 0]
    (runC sampleOutsideCfg Sys.init acts).map (·.outs)
      = some [(1, .dict [("eth0", [105])]), (0, .dict [("eth0", [205])]), (0, .dict [("eth0", [215])])]
    ∧ ¬ C10_concurrent_Full sampleOutsideCfg
    ∧ (runC sampleInsideCfg Sys.init acts).isNone = true := by
  refine ⟨by decide, ?_, by decide⟩
  intro hfull
  have key : (runC sampleOutsideCfg Sys.init [.sample 0 .net [("eth0", [100])],
      .sample 1 .net [("eth0", [105])], .acquire 1, .load 1, .store 1, .release 1,
      .acquire 0, .load 0, .store 0, .release 0]).map
        (fun s => decide (callsOf s.log ++ pending s = s.samples)) = some false := by decide
  cases hrun : runC sampleOutsideCfg Sys.init [.sample 0 .net [("eth0", [100])],
      .sample 1 .net [("eth0", [105])], .acquire 1, .load 1, .store 1, .release 1,
      .acquire 0, .load 0, .store 0, .release 0] with
  | none => simp [hrun] at key
  | some s =>
    have h1 := (hfull (fun _ => 1) _ s hrun).1.1
    simp [hrun, h1] at key

/-- (fix 875e1d0 landed) obligation fed by the translator facts `sampleUnderLockDisk`, `sampleUnderLockNet`,
    `samplingLocks` (each front end is judged on its own): in `disk_io_counters` AND in `net_io_counters` the platform
    call and the `wrap_numbers` call it feeds sit inside one `with <module-level threading.Lock()>:` when `nowrap`,
    and it is the same lock object for both (the first conjunct of `C10_concurrent_Full` is ONE sampling order
    over both functions: a per-function lock would make it false). -/
theorem cfg_sample_under_lock : cfg.SampleGood := by unfold Cfg.SampleGood; decide

/-- **C10_concurrent_full_strength_cfg.** The concurrent clause at full strength for the code as it is now. -/
theorem C10_concurrent_full_strength_cfg : C10_concurrent_Full cfg :=
  C10_concurrent_full_strength cfg cfg_good cfg_good_conc cfg_sample_under_lock

/-! ### The sampling lock as an OBJECT: where it comes from, and thread switches before it is held (seeded C10-5)

`Model/C10Lock`: a caller first evaluates the expression after `with` (`lookup`; policy `lazy`: a table lookup that
may miss, followed by `create` = make a fresh lock object and store it), then acquires THAT object (`enter`), reads
the kernel (`sample`), goes through `wrap_numbers` (`inner …`) and releases the object (`leave`). Any number of
threads, any interleaving of these actions. `Sys.outer` is only a ghost in that model. -/

/-- what `C10_concurrent_Full` promises, said of one state -/
def ConcurrentPromise (c : Cfg) (w : Name → Nat) (s : Sys) : Prop :=
  (callsOf s.log ++ pending s = s.samples ∧ (pending s).length ≤ 1)
  ∧ (s.lock = none → ∀ (pre post : List (Nat × Op)) (t : Nat) (n : Name) (raw : Raw),
      s.log = pre ++ (t, .call n true raw) :: post →
      (∀ op ∈ pre.map (·.2), OpW w op) → RawW (w n) raw → NodupKeys raw → raw ≠ [] →
      callsOf pre ++ (t, .call n true raw) :: (callsOf post ++ pending s) = s.samples
      ∧ s.outs = (serial c St.init pre).2 ++ (t, .dict (expected (pre.map (·.2)) n raw))
          :: (serial c (step c (runAll c St.init (pre.map (·.2))) (.call n true raw)).1 post).2)

/-- **C10_lock_object_exclusive.** Whatever the policy: two threads are never inside sampling sections guarded by
    the same lock OBJECT. (Under the lazy policy this is of no use: the two sections of one history may be guarded
    by two different objects — `C10_lazy_lock_created_twice`.) -/
theorem C10_lock_object_exclusive (c : Cfg) (pol : LockPolicy) (acts : List LAct) (s : LSys)
    (h : runL c pol LSys.init acts = some s) (t u l : Nat)
    (ht : secLock (s.lpc t) = some l) (hu : secLock (s.lpc u) = some l) : t = u := by
  have hi := runL_invX c pol acts LSys.init s invX_init h
  have := hi t l ht
  rw [hi u l hu] at this
  exact (Option.some.inj this).symm

/-- **C10_static_lock_refines_sampling_lock.** With ONE lock object that exists before any call, every
    interleaving of the lock-object model — thread switches between the start of a public call, the evaluation of
    the `with` expression, the acquisition, the platform call, every step of `wrap_numbers` and the release
    included — leaves the `_WrapNumbers` side in a state that `Model/C10Conc` reaches with the sample taken under
    the lock: the flag `sampleUnderLock` is a sound abstraction of a statically created lock object. -/
theorem C10_static_lock_refines_sampling_lock (c : Cfg) (l0 : Nat) (acts : List LAct) (s : LSys)
    (h : runL c (.static fun _ => l0) LSys.init acts = some s) :
    ∃ b, runC c.inside Sys.init b = some s.sys :=
  (runL_static c l0 acts LSys.init s invX_init (invO_init l0) (reach_init c) h).2.2

/-- **C10_concurrent_lock_objects.** The concurrent clause of the property over the lock-object model: for every
    good configuration whose sampling lock is one statically created object, in EVERY interleaving the calls go
    through `_wn.lock` in the order in which they read the kernel, and each `nowrap=True` call has returned
    `expected` over exactly the snapshots read before its own. -/
theorem C10_concurrent_lock_objects (c : Cfg) (hg : c.Good) (hc : c.GoodConc) (l0 : Nat) (w : Name → Nat)
    (acts : List LAct) (s : LSys) (h : runL c (.static fun _ => l0) LSys.init acts = some s) :
    ConcurrentPromise c.inside w s.sys := by
  obtain ⟨b, hb⟩ := C10_static_lock_refines_sampling_lock c l0 acts s h
  exact C10_concurrent_full_strength c.inside hg hc rfl w b s.sys hb

/-- obligation fed by the translator fact `samplingLockStatic` (+ the three of `cfg_sample_under_lock`): the
    expression after `with` in both front ends is a module-level NAME bound once, at import time, to
    `threading.Lock()` and never rebound — no caller looks a lock up, or creates one, at call time. Breaks on a
    lock table filled lazily (seeded C10-5), a lock created on first use through `global`, a lock factory call. -/
theorem cfg_sampling_lock_static : genSamplingLockStatic = true := by decide

theorem cfg_inside : cfg.inside = cfg := by
  have h : cfg.sampleUnderLock = true := cfg_sample_under_lock
  generalize cfg = c at h ⊢
  cases c
  simp only [Cfg.inside] at h ⊢
  subst h
  rfl

/-- **C10_concurrent_lock_objects_cfg.** … for the code as it is now. -/
theorem C10_concurrent_lock_objects_cfg (w : Name → Nat) (acts : List LAct) (s : LSys)
    (h : runL cfg lockPolicy LSys.init acts = some s) : ConcurrentPromise cfg w s.sys := by
  have hp : lockPolicy = .static fun _ => 0 := by
    unfold lockPolicy; rw [if_pos cfg_sampling_lock_static]
  rw [hp] at h
  have := C10_concurrent_lock_objects cfg cfg_good cfg_good_conc 0 w acts s h
  rwa [cfg_inside] at this

/-- **C10_lazy_lock_created_twice.** Counterexample for a lock looked up in a table and created by the caller on a
    miss (check-then-act; seeded C10-5): threads 0 and 1 make the first two calls of the process at once. Both
    miss; thread 0 creates and takes lock object 0 and reads 100; thread 1 creates lock object 1 — the table now
    names that one —, takes it although thread 0 is inside the section of the SAME history, reads 105 and goes
    through `wrap_numbers`; thread 0 follows with its older sample: 205, and every later call carries the spurious
    105 (110 → 215), although the kernel's counter never went backwards. The prefix of the same schedule without
    the two `create`s is not a run with a statically created lock (thread 1 cannot enter). -/
theorem C10_lazy_lock_created_twice :
    let cold : List LAct :=
      [.lookup 0 .net, .lookup 1 .net, .create 0, .enter 0, .sample 0 [("eth0", [100])],
       .create 1, .enter 1, .sample 1 [("eth0", [105])]]
    let rest : List LAct :=
      [.inner (.acquire 1), .inner (.load 1), .inner (.store 1), .inner (.release 1), .leave 1,
       .inner (.acquire 0), .inner (.load 0), .inner (.store 0), .inner (.release 0), .leave 0,
       .lookup 0 .net, .enter 0, .sample 0 [("eth0", [110])],
       .inner (.acquire 0), .inner (.load 0), .inner (.store 0), .inner (.release 0), .leave 0]
    -- both threads are inside the sampling section of history `net`, holding two different lock objects
    (runL cfg .lazy LSys.init cold).map (fun s => (secName (s.lpc 0), secLock (s.lpc 0), secName (s.lpc 1), secLock (s.lpc 1)))
      = some (some .net, some 0, some .net, some 1)
    ∧ (runL cfg .lazy LSys.init (cold ++ rest)).map (·.sys.outs)
      = some [(1, .dict [("eth0", [105])]), (0, .dict [("eth0", [205])]), (0, .dict [("eth0", [215])])]
    ∧ (runL cfg .lazy LSys.init (cold ++ rest)).map (fun s => decide (callsOf s.sys.log = s.sys.samples))
      = some false
    ∧ (runL cfg (.static fun _ => 0) LSys.init
        [.lookup 0 .net, .lookup 1 .net, .enter 0, .sample 0 [("eth0", [100])], .enter 1]).isNone = true := by
  refine ⟨by decide, by decide, by decide, by decide⟩

/-- **C10_unlocked_not_serialisable.** The lock is what makes this true: with `run` outside the
    lock two threads that both read the cache `{sda:100}` before either writes it back return 110
    and 105, while the serial execution of the same two bodies returns 110 and 115. -/
theorem C10_unlocked_not_serialisable :
    let bad : Cfg := { emptyFeedsWrap := true, strictLess := true, namesDistinct := true, lockedRun := false }
    let acts : List Act :=
      [.sample 0 .disk [("sda", [100])], .load 0, .store 0, .release 0,
       .sample 0 .disk [("sda", [10])], .sample 1 .disk [("sda", [5])],
       .load 0, .load 1, .store 0, .store 1]
    (runC bad Sys.init acts).map (·.outs)
        = some [(0, .dict [("sda", [100])]), (0, .dict [("sda", [110])]), (1, .dict [("sda", [105])])]
    ∧ (runC bad Sys.init acts).map (fun s => (serial bad St.init s.log).2)
        = some [(0, .dict [("sda", [100])]), (0, .dict [("sda", [110])]), (1, .dict [("sda", [115])])] := by
  decide

/-! ## The three dicts as they are in the code, and `cache_info()` -/

/-- obligation fed by the translator fact `rkAccumulates`: the only statement of `run` that touches
    `reminder_keys` is `self.reminder_keys[name][key].add(remkey)`, next to
    `self.reminders[name][remkey] += old_value`, with `remkey = (key, i)`. It breaks when the set is
    assigned instead of added to (seeded change C10-3). -/
theorem cfg_good_dict : cfg.DictGood := by unfold Cfg.DictGood; decide

/-- **C10_concrete_refines.** `_WrapNumbers` modelled with its three dicts as they are (association
    lists in insertion order, `defaultdict` reads that insert, `del` that can raise KeyError, the
    asserts of `_add_dict`) returns, after *any* history, exactly what the abstract model returns —
    so every theorem above speaks about the dict-level code — and its state abstracts to the
    abstract state (`reminders` read with default 0). In particular no `KeyError` / `AssertionError`. -/
theorem C10_concrete_refines (w : Name → Nat) (h : List Op) (op : Op)
    (hw : ∀ o ∈ h, OpW w o) (ho : OpW w op) :
    (cstep cfg (crunAll cfg CSt.init h) op).2 = .out (step cfg (runAll cfg St.init h) op).2
      ∧ absSt (crunAll cfg CSt.init h) = runAll cfg St.init h := by
  obtain ⟨h1, h2⟩ := crunAll_sim cfg cfg_good cfg_good_dict w h CSt.init (fun _ => []) hw
    (init_inv w) cinvSt_init
  rw [absSt_init] at h1
  have hi := runAll_inv cfg cfg_good w h St.init (fun _ => []) hw (init_inv w)
  rw [← h1] at hi
  obtain ⟨h3, _, _⟩ := cstep_sim cfg cfg_good cfg_good_dict w _ _ op ho hi h2
  rw [h1] at h3
  exact ⟨h3, h1⟩

/-- **C10_reminder_keys_support.** The invariant that ties the two reminder dicts, after *any*
    history and for every cache name: the entries `cache[name]`, `reminders[name]`,
    `reminder_keys[name]` exist together, and `reminder_keys[name][k]` is a duplicate-free set holding
    exactly the remkeys `(k, i)` whose reminder is not 0 — `reminder_keys` = support of `reminders`.
    This is what makes `_remove_dead_reminders` forget *everything* about a vanished device (it only
    deletes the reminders indexed there) and what a change like seeded C10-3 (`… [key] = wrapped`:
    only the fields of the most recent wrapping call stay indexed) breaks. -/
theorem C10_reminder_keys_support (w : Name → Nat) (h : List Op) (n : Name) (hw : ∀ o ∈ h, OpW w o) :
    (crunAll cfg CSt.init h).get n = {} ∨
    ∃ old d rk, (crunAll cfg CSt.init h).get n = ⟨some old, some d, some rk⟩
      ∧ (∀ k p, rkMem rk k p = true ↔ (p.1 = k ∧ remGet d p ≠ 0))
      ∧ (∀ k ps, rk.lookup k = some ps → ps.Nodup) := by
  obtain ⟨_, h2⟩ := crunAll_sim cfg cfg_good cfg_good_dict w h CSt.init (fun _ => []) hw
    (init_inv w) cinvSt_init
  rcases (h2 n).split with heq | ⟨old, d, rk, heq, hi⟩
  · exact Or.inl heq
  · refine Or.inr ⟨old, d, rk, heq, ?_, hi.nodup⟩
    intro k p
    rw [hi.supp k p]
    simp

/-- **C10_cache_info_reflects.** What `cache_info()` returns after any history `h`, in terms of the
    history alone: `name` is a key of each of the three dicts iff `name` has had a `nowrap=True` call
    since it was last cleared; `cache[name]` is the newest such snapshot; `reminders[name]` read at
    `(k, i)` (default 0) is the sum of the values counter `i` of `k` had just before each backwards
    step in `k`'s current epoch; `reminder_keys[name][k]` is the set of `(k, i)` where that sum is not 0. -/
theorem C10_cache_info_reflects (w : Name → Nat) (h : List Op) (n : Name) (hw : ∀ o ∈ h, OpW w o) :
    let info := cacheInfo (crunAll cfg CSt.init h)
    (∀ raw, (n, raw) ∈ info.cache ↔ (snapsOf n h).head? = some raw)
    ∧ (n ∈ info.cache.map (·.1) ↔ n ∈ info.reminders.map (·.1))
    ∧ (n ∈ info.cache.map (·.1) ↔ n ∈ info.reminderKeys.map (·.1))
    ∧ (∀ d, (n, d) ∈ info.reminders → ∀ k i, remGet d (k, i) = wrapSum i (epochVals k (snapsOf n h)))
    ∧ (∀ rk, (n, rk) ∈ info.reminderKeys → ∀ k p,
        rkMem rk k p = true ↔ (p.1 = k ∧ wrapSum p.2 (epochVals k (snapsOf n h)) ≠ 0)) := by
  intro info
  obtain ⟨h1, h2⟩ := crunAll_sim cfg cfg_good cfg_good_dict w h CSt.init (fun _ => []) hw
    (init_inv w) cinvSt_init
  rw [absSt_init] at h1
  have hi := (runAll_inv cfg cfg_good w h St.init (fun _ => []) hw (init_inv w)).inv n
  rw [← h1, absSt_get] at hi
  have hsn : (List.foldl (snapsStep n) [] h) = snapsOf n h := rfl
  rw [hsn] at hi
  have mc : ∀ x, (n, x) ∈ info.cache ↔ ((crunAll cfg CSt.init h).get n).cache = some x := by
    intro x; cases n <;> simp [info, cacheInfo, allNames, CSt.get]
  have mr : ∀ x, (n, x) ∈ info.reminders ↔ ((crunAll cfg CSt.init h).get n).rems = some x := by
    intro x; cases n <;> simp [info, cacheInfo, allNames, CSt.get]
  have mk : ∀ x, (n, x) ∈ info.reminderKeys ↔ ((crunAll cfg CSt.init h).get n).remKeys = some x := by
    intro x; cases n <;> simp [info, cacheInfo, allNames, CSt.get]
  have nm : ∀ (l : List (Name × Raw)), n ∈ l.map (·.1) ↔ ∃ x, (n, x) ∈ l := by
    intro l; simp
  have nm2 : ∀ (l : List (Name × RemD)), n ∈ l.map (·.1) ↔ ∃ x, (n, x) ∈ l := by
    intro l; simp
  have nm3 : ∀ (l : List (Name × RemK)), n ∈ l.map (·.1) ↔ ∃ x, (n, x) ∈ l := by
    intro l; simp
  simp only [nm, nm2, nm3, mc, mr, mk]
  rcases (h2 n).split with heq | ⟨old, d, rk, heq, hci⟩
  · rw [heq] at hi ⊢
    refine ⟨fun raw => ?_, by simp, by simp, by simp, by simp⟩
    rw [← hi.cache]; rfl
  · rw [heq] at hi ⊢
    refine ⟨fun raw => ?_, by simp, by simp, ?_, ?_⟩
    · rw [← hi.cache]; rfl
    · intro d' hd k i
      simp only [Option.some.injEq] at hd
      subst hd
      exact hi.rem k i
    · intro rk' hrk k p
      simp only [Option.some.injEq] at hrk
      subst hrk
      rw [hci.supp k p]
      have := hi.rem p.1 p.2
      simp only [absW] at this
      by_cases hp : p.1 = k
      · subst hp; simp [← this]
      · simp [hp]

/-- **C10_reminder_keys_overwrite_counterexample.** Why the invariant matters: if the set were
    assigned instead of added to, a reminder from an earlier wrapping call would no longer be
    indexed, survive the device's disappearance, and be added to the device's counters when it
    comes back: `{a:(100,100)}`, `{a:(10,100)}`, `{a:(10,10)}`, `{}`, `{a:(5,5)}`, `{a:(5,5)}` reports
    `(105, 5)` instead of `(5, 5)`. -/
theorem C10_reminder_keys_overwrite_counterexample :
    let bad : Cfg := { emptyFeedsWrap := true, strictLess := true, namesDistinct := true, rkAccumulate := false }
    let h : List Op := [.call .disk true [("a", [100, 100])], .call .disk true [("a", [10, 100])],
      .call .disk true [("a", [10, 10])], .call .disk true [], .call .disk true [("a", [5, 5])]]
    (cstep bad (crunAll bad CSt.init h) (.call .disk true [("a", [5, 5])])).2 = .out (.dict [("a", [105, 5])])
    ∧ expected h .disk [("a", [5, 5])] = [("a", [5, 5])]
    ∧ (cstep cfg (crunAll cfg CSt.init h) (.call .disk true [("a", [5, 5])])).2 = .out (.dict [("a", [5, 5])]) := by
  decide

/-- non-vacuity: after two wraps of field 0 and one of field 1 the dicts are as Python has them -/
example : (crunAll cfg CSt.init [.call .net true [("a", [100, 100])], .call .net true [("a", [10, 100])],
      .call .net true [("a", [5, 50])]]).net
    = ⟨some [("a", [5, 50])], some [(("a", 0), 110), (("a", 1), 100)], some [("a", [("a", 0), ("a", 1)])]⟩ := by
  decide

/-- **C10_indexerror_keeps_cache.** Outside the widths the front ends produce (an old tuple shorter
    than the new one): `run` raises IndexError in the middle of its loop; `cache[name]` then still
    holds the OLD dict (the reminders updated before the faulty field stay updated — that part is
    in the executable model and compared with the real `wrap_numbers` by the family `ragged`). -/
theorem C10_indexerror_keeps_cache (c : Cfg) (w : CWN) (input : Raw)
    (h : (crun c w input).2 = .out .indexError) :
    (crun c w input).1.cache = w.cache ∧ w.cache ≠ none := by
  obtain ⟨cache, rems, rk⟩ := w
  cases cache with
  | none => simp only [crun] at h; split at h <;> simp at h
  | some old =>
    cases rems with
    | none => simp [crun] at h
    | some d =>
      cases rk with
      | none => simp [crun] at h
      | some rk =>
        simp only [crun] at h ⊢
        cases h0 : removeDead d rk (goneKeys old input) with
        | none => simp [h0] at h
        | some p =>
          obtain ⟨d0, rk0⟩ := p
          simp only [h0] at h ⊢
          cases h1 : keysLoop c old input d0 rk0 with
          | mk d1 r =>
            obtain ⟨rk1, o⟩ := r
            cases o with
            | none => simp
            | some out => simp [h1] at h

/-! ## Closed world, transcribed bodies, raw kernel values (round 3) -/

/-- obligation fed by the facts `wrapNumbersRefs`, `wnRefs`, `nowrapLockRefs`, `cacheNameRefs`: in all of
    `psutil/**/*.py` the only callers of `wrap_numbers` are the two front ends (one call each), its
    `cache_clear` is only reached through the two `cache_clear` attributes, `_wn` is only used by
    `wrap_numbers` (`_wn.lock`, `_wn.run`) and the two attribute assignments, `_nowrap_lock` only by the two
    `with` statements, and the cache-name strings occur nowhere else. A third caller (which would share a
    name and bypass the sampling lock: clauses 6 and 7) breaks it. -/
theorem cfg_closed_world : users = modelledUsers := by decide

/-- obligation fed by the facts `astRun`, `astRemoveDead`, `astAddDict`, `astCacheClear`: the bodies of
    `_WrapNumbers.run`, `_remove_dead_reminders`, `_add_dict`, `cache_clear` are, up to comments, docstrings
    and layout, the text Model/C10 and Model/C10Dict transcribe. ANY edit of these bodies breaks it (an added
    eviction of `reminders`, a time-based expiry …); a harmless one then ends in `no-failing-input-found`. -/
theorem cfg_transcribed_bodies : bodies = transcribedBodies := by decide

/-- **C10_raw_is_kernel_value.** Fed by the fact `diskstatsLayouts` (the if/elif chain of
    `_pslinux.disk_io_counters.read_procfs()`): for every line layout the kernel writes to /proc/diskstats
    (7 fields: partition line of 2.6.0–2.6.24; 14; 18 since 4.18; 20 since 5.5; any longer line of a
    future kernel) the branch table takes the device name from field 2 and every counter from the field the
    kernel documentation gives it (sectors × 512; the 7-field line has no times / merges: 0). So the "raw
    kernel value" the theorems above speak about is the kernel's figure for each of these layouts. -/
theorem C10_raw_is_kernel_value (vals : List Nat) (h : isKernelLineLength vals.length = true) :
    countersOf layouts vals = some (kernelNameIdx, kernelCounters vals) := by
  simp only [isKernelLineLength, Bool.or_eq_true, decide_eq_true_eq] at h
  rcases h with (h | h) | h
  · simp [countersOf, layoutFor, layouts, Gen.C10.diskstatsLayouts, guardHolds, h, kernelNameIdx,
      kernelCounters, sectorSize, List.mapIdx_cons]
  · simp [countersOf, layoutFor, layouts, Gen.C10.diskstatsLayouts, guardHolds, h, kernelNameIdx,
      kernelCounters, sectorSize, List.mapIdx_cons]
  · have h15 : vals.length ≠ 15 := by omega
    have h7 : vals.length ≠ 7 := by omega
    simp [countersOf, layoutFor, layouts, Gen.C10.diskstatsLayouts, guardHolds, h, h15, h7, kernelNameIdx,
      kernelCounters, sectorSize, List.mapIdx_cons]

/-- a line with a number of fields the kernel never writes (and that is not psutil's own 15-field case)
    is rejected (`ValueError`), not guessed at -/
theorem C10_unknown_diskstats_layout (flen : Nat) (h : flen < 18) (h7 : flen ≠ 7) (h14 : flen ≠ 14)
    (h15 : flen ≠ 15) : layoutFor layouts flen = none := by
  have : ¬ 18 ≤ flen := by omega
  simp [layoutFor, layouts, Gen.C10.diskstatsLayouts, guardHolds, h7, h14, h15, this]

example : countersOf layouts [8, 1, 0, 11, 12, 13, 14] = some (2, [11, 13, 12 * 512, 14 * 512, 0, 0, 0, 0, 0]) := by
  decide

/-! ## Non-vacuity and the reason `cfg_good` matters -/

/-- two wraps in a row: 100 → 10 → 5 is reported as 115 -/
example : (step cfg (runAll cfg St.init
      [.call .disk true [("sda", [100])], .call .disk true [("sda", [10])]])
      (.call .disk true [("sda", [5])])).2 = .dict [("sda", [115])] := by decide

/-- The full statement is **false** for a front end that returns before `wrap_numbers` on an
    empty snapshot (psutil ≤ 7.0.0): `{sda:100}`, `{}`, `{sda:5}` yields 105, not 5. -/
theorem C10_reappear_needs_empty_feed :
    let bad : Cfg := { emptyFeedsWrap := false, strictLess := true, namesDistinct := true }
    (step bad (runAll bad St.init [.call .disk true [("sda", [100])], .call .disk true []])
        (.call .disk true [("sda", [5])])).2 = .dict [("sda", [105])]
    ∧ expected [.call .disk true [("sda", [100])], .call .disk true []] .disk [("sda", [5])]
        = [("sda", [5])] := by decide

end Psutil.C10
