/-
  Props/C20.lean — property theorems for C20 (every platform layer keeps the same error
  contract and record layout). Only statements the property makes; helper lemmas live in
  Proofs/C20.lean.

  `cfg`, `methodsOf`, `tracesOf`, `slotMapOf`, `feedsOf` and the `Gen.C20.*` tables are built
  from Generated/C20.lean, which the translator rewrites from /repo's source on every run: a
  changed `except` clause, a dropped decorator, a swapped slot, a changed index, a dropped
  export or the lost assignment of `nt._replace(...)` changes a generated fact and one of the
  theorems below stops building.
-/
import PsutilModel.Proofs.C20
import PsutilModel.Proofs.C20Two
import PsutilModel.Proofs.C20FaultsFixed
import PsutilModel.Proofs.C20Empty
import PsutilModel.Proofs.C20NetIf
import PsutilModel.Model.C20Block
import PsutilModel.Spec.C20Block
namespace Psutil.C20
open Spec

/-! ## 1. Error contract -/

/-- The statement at full strength: for every platform module, every errno in {ESRCH, ENOENT, EPERM,
    EACCES, EIO, EINVAL}, every `winerror` value, every pid and every pid state — the state being
    what the process IS (gone / zombie / alive), not what the module's probe can tell — the
    `wrap_exceptions` decorator produces exactly the cell of the contract table. FALSE of the code as
    it is (`C20_error_contract_counterexample`): Solaris and AIX have no zombie probe. -/
def C20_error_contract_Full : Prop :=
  ∀ (f : Family) (e : Err) (env : Env), wrapExceptions cfg f e env = Spec.contract f e env

/-- **C20_error_contract_partial.** For every platform module, every errno, every `winerror`, every
    pid, every pid state and pid-0 listing OUTSIDE the region `Spec.knownZombieDeviation` (Solaris /
    AIX, a "no such process" failure on a process that is alive, or on Solaris' PID 0 that is gone;
    finding C20-sunos-aix-exists-means-zombie), the `wrap_exceptions` decorator assembled from the
    `except` clauses the translator found in the current source produces exactly the cell of the
    contract table: NoSuchProcess / ZombieProcess / AccessDenied with pid and cached name, or the
    error unchanged (BSD and Solaris: AccessDenied for the existing PID 0). The region is empty on
    BSD, macOS and Windows (`C20_error_contract_bsd_osx_windows`): full strength there. -/
theorem C20_error_contract_partial (f : Family) (e : Err) (env : Env)
    (hdev : Spec.knownZombieDeviation f e env = false) :
    wrapExceptions cfg f e env = Spec.contract f e env := by
  unfold wrapExceptions
  rw [runClauses_eq_dispatch, dispatch_cfg]
  obtain ⟨errno, winerror⟩ := e
  obtain ⟨pid, state, listed⟩ := env
  cases f <;> cases errno <;>
    simp [actionTable, pyClass, runAction, contract, kind, listedAsZombie, pid0Exception, isZombie,
      pidExists, winCfg_generated, knownZombieDeviation] at hdev ⊢
  all_goals first
    | (by_cases h : pid = 0 <;> cases state <;> simp_all <;> done)
    | (simp only [convertOserror, convertOserrorGo, isPermissionErr, pyClass]
       by_cases h5 : winerror = some 5 <;> by_cases h13 : winerror = some 1314 <;>
         cases winerror <;> simp_all)

/-- **C20_error_contract_bsd_osx_windows.** Full strength on the three families that have a zombie
    probe or no zombies: no region excluded. -/
theorem C20_error_contract_bsd_osx_windows (f : Family) (hf : f = .bsd ∨ f = .osx ∨ f = .windows) (e : Err) (env : Env) :
    wrapExceptions cfg f e env = Spec.contract f e env := by
  apply C20_error_contract_partial
  rcases hf with rfl | rfl | rfl <;> simp [knownZombieDeviation]

/-- **C20_error_contract_deviation.** What the code does in the excluded region, exactly: the Solaris /
    AIX decorator reports ZombieProcess(pid, name, ppid) where the contract cell is
    NoSuchProcess(pid, name) — `pid_exists()` is its only probe, so "still there" is taken for
    "zombie" (and `_psposix.pid_exists(0)` is always True on Solaris). -/
theorem C20_error_contract_deviation (f : Family) (e : Err) (env : Env)
    (hdev : Spec.knownZombieDeviation f e env = true) :
    wrapExceptions cfg f e env = .zombie env.pid true ∧ Spec.contract f e env = .nsp env.pid true := by
  unfold wrapExceptions
  rw [runClauses_eq_dispatch, dispatch_cfg]
  obtain ⟨errno, winerror⟩ := e
  obtain ⟨pid, state, listed⟩ := env
  cases f <;> cases errno <;> cases state <;>
    simp [actionTable, pyClass, runAction, contract, kind, listedAsZombie, pid0Exception, isZombie,
      pidExists, knownZombieDeviation] at hdev ⊢ <;> simp_all

/-- the full statement is false of the code as it is: a RUNNING Solaris process whose native call
    fails with ESRCH is reported as ZombieProcess (witness replayed by the harness on the real
    `_pssunos.wrap_exceptions`; finding C20-sunos-aix-exists-means-zombie) -/
theorem C20_error_contract_counterexample : ¬ C20_error_contract_Full := by
  intro h
  have := h .sunos ⟨.ESRCH, none⟩ ⟨42, .alive, true⟩
  revert this
  decide

/-- the region is not empty and is exactly where the two differ -/
example : wrapExceptions cfg .aix ⟨.ENOENT, none⟩ ⟨42, .alive, true⟩ = .zombie 42 true ∧
    Spec.contract .aix ⟨.ENOENT, none⟩ ⟨42, .alive, true⟩ = .nsp 42 true ∧
    wrapExceptions cfg .sunos ⟨.ESRCH, none⟩ ⟨0, .gone, false⟩ = .zombie 0 true ∧
    wrapExceptions cfg .sunos ⟨.ESRCH, none⟩ ⟨42, .zombie, true⟩ = Spec.contract .sunos ⟨.ESRCH, none⟩ ⟨42, .zombie, true⟩ := by
  decide

/-- the hypotheses are met by a non-trivial case: a zombie on FreeBSD is reported as ZombieProcess -/
example : wrapExceptions cfg .bsd ⟨.ESRCH, none⟩ ⟨42, .zombie, true⟩ = .zombie 42 true := by decide

/-- **C20_zombie_codes_documented.** The native codes each identity's `PROC_STATUSES` maps to
    STATUS_ZOMBIE are exactly the ones the platform documents as zombie (OpenBSD: SDEAD and SZOMB). -/
theorem C20_zombie_codes_documented : ∀ p ∈ Platform.all, zombieCodesOf p = Spec.zombieCodes p := by
  decide +kernel

/-- **C20_zombie_probe_sees_documented_codes.** For every identity and every native status code of
    its table, the comparison `is_zombie(pid)` makes (translator fact: through `PROC_STATUSES`, or
    against one constant) says "zombie" exactly for the documented zombie codes. A probe that only
    knows `SZOMB` fails this on OpenBSD (`SDEAD`). -/
theorem C20_zombie_probe_sees_documented_codes :
    ∀ p ∈ Platform.all, ∀ code ∈ statusCodesOf p, probeIsZombie zcfg p code = Spec.documentedZombie p code := by
  decide +kernel

/-- **C20_error_contract_status_codes.** The contract in terms of the native status code: for every
    identity, every status code of its table (or no record at all: gone), every error, pid and
    pid-0 listing (outside the known Solaris / AIX deviation region, which is empty for the BSDs, macOS
    and Windows), the decorator — with the pid state as `is_zombie` derives it from that code —
    yields the contract cell for the world in which the process is a zombie iff the platform
    documents the code as zombie. In particular ESRCH on an OpenBSD `SDEAD` process is
    ZombieProcess(pid, name, ppid), not NoSuchProcess. -/
theorem C20_error_contract_status_codes :
    ∀ p ∈ Platform.all, ∀ status ∈ none :: (statusCodesOf p).map some, ∀ (e : Err) (pid : Nat) (listed : Bool),
      Spec.knownZombieDeviation p.family e (Spec.docEnv p pid status listed) = false →
      wrapExceptions cfg p.family e (probeEnv zcfg p pid status listed)
        = Spec.contract p.family e (Spec.docEnv p pid status listed) := by
  intro p hp status hs e pid listed hdev
  have henv : probeEnv zcfg p pid status listed = Spec.docEnv p pid status listed := by
    cases status with
    | none => rfl
    | some c =>
      have hc : c ∈ statusCodesOf p := by simpa using hs
      simp [probeEnv, Spec.docEnv, C20_zombie_probe_sees_documented_codes p hp c hc]
  rw [henv]
  exact C20_error_contract_partial _ _ _ hdev

/-- non-vacuous: OpenBSD, ESRCH, status slot = SDEAD → ZombieProcess; a probe that compares with
    `SZOMB` only would answer NoSuchProcess there -/
example : wrapExceptions cfg .bsd ⟨.ESRCH, none⟩ (probeEnv zcfg .openbsd 42 (some "SDEAD") true) = .zombie 42 true ∧
    wrapExceptions cfg .bsd ⟨.ESRCH, none⟩
      (probeEnv { zcfg with probe := fun _ => .eqConst "SZOMB" } .openbsd 42 (some "SDEAD") true) = .nsp 42 true := by
  decide +kernel

/-- **C20_error_contract_methods.** Corollary: whatever OSError leaves the body of a method that
    carries the decorator meets the contract cell (outside the known Solaris / AIX deviation region).
    Which methods carry it is `C20_all_methods_wrapped`. -/
theorem C20_error_contract_methods (p : Platform) (m : Method)
    (hw : m.wrapped = true) (e : Err) (env : Env) (hdev : Spec.knownZombieDeviation p.family e env = false) :
    escape cfg p m e env = Spec.contract p.family e env := by
  simp [escape, hw, C20_error_contract_partial _ _ _ hdev]

/-- the generated lists are not empty: FreeBSD's `cpu_times` is there and is decorated -/
example : ∃ m ∈ methodsOf .freebsd, m.name = "cpu_times" ∧ m.wrapped = true := by decide

/-! ### Methods without the decorator, justified one by one -/

inductive Justification
  /-- `oneshot_enter` / `oneshot_exit`: only switch the memoize caches on and off; no OS access -/
  | cacheSwitch
  /-- private helper; every method that refers to it is decorated (or justified itself) -/
  | helperOfWrapped
  /-- `_not_implemented`: raises NotImplementedError unconditionally -/
  | notImplemented
  /-- Windows `name()`: PIDs 0 and 4 are constants, otherwise its only OS access is the decorated `exe()` -/
  | viaWrappedMethod
  /-- Windows `memory_maps()`: a generator, so it converts by hand
      (`except OSError as err: raise convert_oserror(err, self.pid, self._name)`) -/
  | handTranslated
  /-- AIX `open_files()`: runs `/usr/bin/procfiles` and reads "no such process" from its stderr -/
  | externalTool
  deriving DecidableEq, Repr

def justification (p : Platform) (m : String) : Option Justification :=
  if m == "oneshot_enter" || m == "oneshot_exit" then some .cacheSwitch
  else match p with
  | .freebsd | .openbsd | .netbsd =>
    if m == "_assert_alive" then some .helperOfWrapped
    else if m == "_not_implemented" then some .notImplemented else none
  | .macos => none
  | .sunos => if m == "_assert_alive" || m == "_get_unix_sockets" then some .helperOfWrapped else none
  | .aix => if m == "open_files" then some .externalTool else none
  | .windows =>
    if m == "_proc_info" || m == "_get_raw_meminfo" then some .helperOfWrapped
    else if m == "name" then some .viaWrappedMethod
    else if m == "memory_maps" then some .handTranslated
    -- `ppid` has no entry: since /repo 61843a1 it carries `wrap_exceptions` (it is *decorated*, obligation
    -- `cfg_win_ppid_wrapped`); if the decorator were dropped again, `methodOK .windows ppid` is false and
    -- `C20_all_methods_wrapped` stops building
    else none

def methodOK (p : Platform) (m : Method) : Bool :=
  m.wrapped ||
  (match justification p m.name with
   | none => false
   | some .helperOfWrapped =>
     let cs := callersOf p m.name
     !cs.isEmpty && cs.all fun c => nameWrapped p c || (justification p c).isSome
   | some _ => true)

/-- **C20_all_methods_wrapped.** Every function in the class dict of every platform `Process`
    class carries `wrap_exceptions`, or is on the hand-justified list above; private helpers
    are only referred to by decorated (or justified) methods. A method that loses its decorator
    makes this fail. -/
theorem C20_all_methods_wrapped : ∀ p ∈ Platform.all, ∀ m ∈ methodsOf p, methodOK p m = true := by
  decide

/-- **C20_inner_handlers_transcribed.** The methods that contain a `try/except` able to catch an
    OSError (or a psutil error) inside their body are exactly the ones whose handlers
    `Model.inner` transcribes: a new or removed inner handler is noticed. -/
theorem C20_inner_handlers_transcribed :
    (∀ x ∈ Gen.C20.innerTry, x ∈ handledMethods) ∧ (∀ x ∈ handledMethods, x ∈ Gen.C20.innerTry) := by
  decide

/-! ### Every native call of every method -/

/-- full statement about the code as the translator sees it now: for every platform identity,
    every method, every native call the method makes (as traced under emulation), every swept
    error and every pid state, the outcome is one the specification allows — `Spec.allowed` and
    nothing else (no call site excluded, no deviation tolerated). FALSE of the code as it is:
    `C20_method_faults_not_full`. -/
def C20_method_faults_within_spec_Full : Prop :=
  ∀ p ∈ Platform.all, ∀ row ∈ tracesOf p, traceRowStrict p row = true

/-- the same with the ONE known deviation accepted in its region (`zombieDeviation`: Solaris / AIX,
    "no such process" failure, process still there but not a zombie → ZombieProcess(pid, name,
    ppid); finding C20-sunos-aix-exists-means-zombie); no call site excluded -/
def C20_method_faults_within_spec_Tolerant : Prop :=
  ∀ p ∈ Platform.all, ∀ row ∈ tracesOf p, traceRowOK true p row = true

/-- the tolerated outcome exists on Solaris and AIX only -/
theorem zombieDeviation_only_sunos_aix (p : Platform) (e : Err) (env : Env) (o : Outcome)
    (h1 : p.family ≠ .sunos) (h2 : p.family ≠ .aix) : zombieDeviation p e env o = false := by
  simp [zombieDeviation, Spec.knownZombieDeviation, h1, h2]

/-- **C20_method_faults_within_spec_repaired_cfg.** For the configuration with both Windows repairs
    (`ppid()` decorated, `memory_maps()` converting inside its loop), whatever the tree says: every
    platform identity × method × native call of its trace × swept error × pid state × pid-0 listing
    gives an outcome the specification allows, or the known Solaris / AIX zombie deviation in its
    region. No call site is excluded. -/
theorem C20_method_faults_within_spec_repaired_cfg :
    ∀ p ∈ Platform.all, ∀ row ∈ tracesOf p,
      traceRowOKc (variantCfg true) (variantMethod true) (fun _ _ _ => false) p row = true :=
  faults_table_repaired

/-- **C20_method_faults_within_spec_current.** The same for the code exactly as the translator
    reads it from the current tree. A call site is excluded only while its repair is absent from
    the source (`knownFinding` consults the generated decorator list of `ppid` and the generated
    flag `winMapsLoopGuarded`): on a tree with both repairs nothing is excluded. -/
theorem C20_method_faults_within_spec_current :
    ∀ p ∈ Platform.all, ∀ row ∈ tracesOf p, traceRowOK false p row = true :=
  faults_table_current

/-- once both repairs are in the source, no call site is excluded -/
theorem C20_method_faults_tolerant_when_repaired
    (h1 : nameWrapped .windows "ppid" = true) (h2 : cfg.winMapsLoopGuarded = true) :
    C20_method_faults_within_spec_Tolerant := by
  intro p hp row hrow
  have h := C20_method_faults_within_spec_current p hp row hrow
  have hk : ∀ q m c, knownFinding q m c = false := by
    intro q m c; simp [knownFinding, h1, h2]
  simpa [traceRowOK, hk] using h

/-- the unrepaired code violates the full statement: Windows `ppid()` without the decorator lets a
    PermissionError raised by `ppid_map()` through unchanged (witness replayed by the harness on an
    unrepaired tree, finding C20-win-ppid-bare) -/
theorem C20_method_faults_counterexample_ppid :
    faultOKc (variantCfg false) .windows ⟨"ppid", []⟩ "ppid_map" ⟨.EPERM, none⟩ ⟨42, .alive, true⟩ = false := by
  decide

/-- … and with the decorator the same fault gives AccessDenied(pid, name) -/
example : (methodFault (variantCfg true) .windows ⟨"ppid", ["wrap_exceptions"]⟩ "ppid_map" ⟨.EPERM, none⟩
    ⟨42, .alive, true⟩ false).1 = .ad 42 true := by decide

/-- … and unrepaired `memory_maps()` lets an error of `QueryDosDevice` (inside `convert_dos_path`)
    through unchanged, because only the first native call sits in its `try`
    (finding C20-win-memory-maps-bare); repaired, the same fault becomes NoSuchProcess -/
theorem C20_method_faults_counterexample_memory_maps :
    faultOKc (variantCfg false) .windows ⟨"memory_maps", []⟩ "QueryDosDevice" ⟨.ESRCH, none⟩ ⟨42, .alive, true⟩
      = false ∧
    (methodFault (variantCfg true) .windows ⟨"memory_maps", []⟩ "QueryDosDevice" ⟨.ESRCH, none⟩
      ⟨42, .alive, true⟩ false).1 = .nsp 42 true := by
  decide

/-- the pre-fix `_pssunos._proc_basic_info` raised `AccessDenied(self.pid)` without the cached
    name: Solaris `uids()` on an unreadable PID 0 then shows an AccessDenied that lost the name -/
theorem C20_method_faults_counterexample_sunos_pid0 :
    Spec.allowed .sunos "uids" (Spec.recoverable .sunos "uids" "proc_cred") ⟨.EPERM, none⟩ ⟨0, .gone, true⟩
      (methodFault { cfg with sunosPid0Named := false } .sunos ⟨"uids", ["wrap_exceptions"]⟩ "proc_cred"
        ⟨.EPERM, none⟩ ⟨0, .gone, true⟩ false).1 = false := by decide

/-- the full statement is false of the unrepaired configuration (whatever the current tree is) -/
theorem C20_method_faults_not_full_unrepaired :
    ¬ (∀ p ∈ Platform.all, ∀ row ∈ tracesOf p,
        traceRowOKc (variantCfg false) (variantMethod false) (fun _ _ _ => false) p row = true) := by
  intro h
  have := h .windows (by decide) ("ppid", 42, ["ppid_map"]) (by decide)
  revert this
  decide

/-! ### Two faulted native calls of one method -/

/-- **C20_two_faults_within_spec.** Two-fault sequences. For every platform identity and every
    row of the generated table `traces2` (method, pid, first faulted call, how the method went
    on — alternative path after an inner handler absorbed the error, or re-run by the
    partial-copy retry —, the native calls it still makes): whatever first error `e1` put the
    method on that path (ANY `Err`, not only the swept ones), every later call of the row ×
    every swept second error × pid state × pid-0 listing gives an outcome the specification
    allows for the second failure (its contract cell, or what is recoverable at that call) — or,
    on Solaris / AIX only, the one known deviation (`zombieDeviation`: ZombieProcess for a process
    that is still there but not a zombie; finding C20-sunos-aix-exists-means-zombie). On the BSDs,
    macOS and Windows the second disjunct is never true (`zombieDeviation_only_sunos_aix`). -/
theorem C20_two_faults_within_spec :
    ∀ p ∈ Platform.all, ∀ row ∈ traces2Of p, ∀ m, methodOf? p row.1 = some m →
      ∀ mode, Mode.ofTag? row.2.2.2.1 = some mode →
      ∀ call2 ∈ row.2.2.2.2, ∀ e2 ∈ sweptErrs p, ∀ env ∈ sweptEnvs row.2.1, ∀ (e1 : Err) (s : Nat),
        afterFirst cfg p m row.2.2.1 e1 env = .goesOn mode s →
        (Spec.allowed2 p m.name row.2.2.1 e1 call2 e2 env
          (methodFault2 cfg p m row.2.2.1 e1 call2 e2 env).1 = true ∨
         zombieDeviation p e2 env (methodFault2 cfg p m row.2.2.1 e1 call2 e2 env).1 = true) := by
  intro p hp row hrow m hm mode hmode call2 hc e2 he env henv e1 s hafter
  have h := two_faults_table p hp row hrow
  unfold row2OK at h
  rw [hm, hmode] at h
  simp only [List.all_eq_true] at h
  have h2 := h call2 hc e2 he env henv
  simpa [methodFault2, hafter, Spec.allowed2, secondOK] using h2

/-- **C20_two_faults_first_ends.** When the first faulted call ends the method (nothing
    absorbed it, no retry), a later fault changes nothing: the outcome is the single-fault one. -/
theorem C20_two_faults_first_ends (c : Cfg) (p : Platform) (m : Method) (call1 call2 : String) (e1 e2 : Err)
    (env : Env) (o : Outcome) (s : Nat) (h : afterFirst c p m call1 e1 env = .ended o s) :
    methodFault2 c p m call1 e1 call2 e2 env = methodFault c p m call1 e1 env false := by
  unfold methodFault2
  rw [h]
  unfold afterFirst at h
  unfold methodFault finish
  split at h <;> simp_all
  all_goals (split at h <;> simp_all)

/-- the table is not empty and the interesting paths are in it -/
example : ("cpu_times", 42, "proc_times", "fallback", ["proc_info"]) ∈ traces2Of .windows ∧
    ("cmdline", 42, "proc_cmdline", "rerun", ["proc_cmdline"]) ∈ traces2Of .windows ∧
    ("uids", 42, "proc_cred", "fallback", ["proc_basic_info", "proc_basic_info"]) ∈ traces2Of .sunos := by
  decide +kernel

/-- Windows `cpu_times()`: `proc_times` denied (absorbed, slower fallback), then `proc_info` says
    "no such process" → NoSuchProcess(pid, name), not the AccessDenied of the first error -/
example : methodFault2 cfg .windows ⟨"cpu_times", ["wrap_exceptions"]⟩ "proc_times" ⟨.EACCES, some 5⟩
    "proc_info" ⟨.ESRCH, none⟩ ⟨42, .alive, true⟩ = (.nsp 42 true, 0) := by decide

/-- Windows `cmdline()`: ERROR_PARTIAL_COPY twice in a row → two sleeps, then the value;
    denied with the PEB, then "no such process" without it → NoSuchProcess -/
example : methodFault2 cfg .windows ⟨"cmdline", ["wrap_exceptions", "retry_error_partial_copy"]⟩ "proc_cmdline"
      ⟨.EIO, some 299⟩ "proc_cmdline" ⟨.EIO, some 299⟩ ⟨42, .alive, true⟩ = (.value, 2) ∧
    methodFault2 cfg .windows ⟨"cmdline", ["wrap_exceptions", "retry_error_partial_copy"]⟩ "proc_cmdline"
      ⟨.EPERM, none⟩ "proc_cmdline" ⟨.ESRCH, none⟩ ⟨42, .alive, true⟩ = (.nsp 42 true, 0) := by decide

/-- Solaris `open_files()`: one fd link vanished (noted), the next one is unreadable → AccessDenied -/
example : methodFault2 cfg .sunos ⟨"open_files", ["wrap_exceptions"]⟩ "os.readlink" ⟨.ENOENT, none⟩
    "os.readlink" ⟨.EACCES, none⟩ ⟨42, .alive, true⟩ = (.ad 42 true, 0) := by decide

/-- **C20_partial_copy_retry.** Windows: a native call that keeps failing with
    ERROR_PARTIAL_COPY inside `cmdline()`, `environ()` or `cwd()` is retried 33 times and then
    reported as AccessDenied(pid, name). -/
theorem C20_partial_copy_retry :
    ∀ m ∈ methodsOf .windows, Spec.retriesPartialCopy m.name = true →
      m.retries = true ∧
      ∀ e ∈ Errno.all, ∀ env ∈ sweptEnvs 42,
        methodFault cfg .windows m "proc_any" ⟨e, some Spec.partialCopyCode⟩ env true
          = (.ad 42 true, Spec.partialCopyRetries) := by
  decide

/-! ## 2. Record layout -/

/-- for one slot map and one platform identity: the map is a bijection onto `0 … n-1`, `n` is
    the number of values the C function builds, and every slot index points at the value the C
    source labels with the slot's name -/
def slotMapOK (key ident : String) : Bool :=
  let sm := slotMapOf key
  let labels := (Gen.C20.nativeSlotLabels.lookup (key, ident)).getD []
  let want := (Spec.slotLabel.lookup key).getD []
  !sm.isEmpty && sm.map (·.2) == List.range sm.length && labels.length == sm.length &&
  sm.all fun kv =>
    match want.lookup kv.1, labels[kv.2]? with
    | some w, some g => w.contains g
    | _, _ => false

def slotMapKeys : List (String × String) :=
  [ ("bsd.kinfo_proc_map", "freebsd"), ("bsd.kinfo_proc_map", "openbsd"), ("bsd.kinfo_proc_map", "netbsd"),
    ("osx.kinfo_proc_map", "macos"), ("osx.pidtaskinfo_map", "macos"), ("sunos.proc_info_map", "sunos"),
    ("aix.proc_info_map", "aix"), ("windows.pinfo_map", "windows") ]

/-- **C20_slot_maps_match_native.** `kinfo_proc_map`, `pidtaskinfo_map`, `proc_info_map`,
    `pinfo_map`: every named slot index is the position at which the native layer (its
    `Py_BuildValue` call, per platform identity) puts the value of that name; no index is used
    twice, none is out of range; and there is no slot map the table does not cover. -/
theorem C20_slot_maps_match_native :
    (∀ k ∈ slotMapKeys, slotMapOK k.1 k.2 = true) ∧
    (∀ kv ∈ Gen.C20.slotMaps, kv.1 ∈ slotMapKeys.map (·.1)) := by decide +kernel

/-- **C20_slots_match.** Every namedtuple field (and every bare value) a Process method builds
    from the native one-shot record is fed from the slot *named for* that field — exactly the
    hand-written naming table of the specification, in both directions (nothing missing,
    nothing extra), for all five modules. -/
theorem C20_slots_match :
    ∀ f ∈ Family.all,
      (∀ q ∈ feedsOf f, q ∈ (Spec.slotNamedFor.lookup f.key).getD []) ∧
      (∀ q ∈ (Spec.slotNamedFor.lookup f.key).getD [], q ∈ feedsOf f) := by decide +kernel

/-- **C20_all_record_reads_named.** On every path of every function of the five modules (main
    path, `except`-handler fall-backs, comprehensions, module-level probes) a native one-shot
    record is only ever read as `<record>[<map>['<slot name>']]`, and a slot map is only ever
    used that way: no positional index, no computed slot name, no `*record`. Hence
    `C20_slots_match` speaks about *every* read of those records, whichever path it is on. -/
theorem C20_all_record_reads_named : Gen.C20.unnamedRecordRefs = [] := by decide

def fallbackFeedsOf (f : Family) : List (String × String) := (Gen.C20.fallbackFeeds.lookup f.key).getD []

/-- **C20_fallback_slots_match.** The slot reads that sit inside an `except` handler (the
    alternative paths: Windows slower fall-backs of `memory_info`/`memory_full_info`, `cpu_times`,
    `create_time`, `io_counters`, `num_handles`; Solaris `uids`/`gids` from psinfo) are exactly the
    documented ones, in the documented order, and each of them is a row of the feed table that
    `C20_slots_match` ties to the slot named for the field. -/
theorem C20_fallback_slots_match :
    ∀ f ∈ Family.all,
      fallbackFeedsOf f = (Spec.fallbackSlots.lookup f.key).getD [] ∧
      (fallbackFeedsOf f).all (fun q => (feedsOf f).any fun row => row.1 == q.1 && row.2.2.2 == q.2) = true := by
  decide +kernel

/-- non-vacuous: Windows has twenty fall-back reads, among them `pagefile` before `peak_pagefile` -/
example : (fallbackFeedsOf .windows).length = 20 ∧
    ((fallbackFeedsOf .windows).map (·.2)).idxOf "pinfo_map.pagefile"
      < ((fallbackFeedsOf .windows).map (·.2)).idxOf "pinfo_map.peak_pagefile" := by decide +kernel

/-- is `nt` (one of) the namedtuple type(s) the documentation shows for `meth`? -/
def ntupleOK (meth nt : String) : Bool :=
  match Spec.documentedNtuple.lookup meth with
  | some ok => ok.contains nt
  | none => false

/-- **C20_ntuple_types.** Each method returns the namedtuple type its documentation shows
    (`uids` → `puids`, `gids` → `pgids`, `cpu_times` → `pcputimes`, …) on every platform module. -/
theorem C20_ntuple_types :
    ∀ fr ∈ Gen.C20.returnsNtuple, ∀ mt ∈ fr.2, ntupleOK mt.1 mt.2 = true := by decide +kernel

/-- the pre-fix tables of `_psosx.py`, `_pssunos.py`, `_psaix.py`: `gids()` built a `puids` -/
theorem C20_ntuple_types_counterexample : ntupleOK "gids" "puids" = false := by decide

/-- **C20_win_pmem_layout.** Windows `memory_info()`: `pmem(rss, vms, *t)` where `t` is the
    native 10-tuple or, when that is denied, the ten `pinfo_map` slots in the same order;
    `rss` is the working set and `vms` the pagefile usage of that tuple. -/
theorem C20_win_pmem_layout :
    let fb := (feedsOf .windows).filter (fun q => q.1 == "_get_raw_meminfo")
    Gen.C20.winPmemFields = Spec.winPmemFields ∧
    fb.map (fun q => Spec.winFallbackField.lookup q.2.2.2) = (Spec.winPmemFields.drop 2).map some ∧
    Spec.winFallbackField.lookup ((fb.map (·.2.2.2)).getD Gen.C20.winRssIdx "") = some Spec.winRssFrom ∧
    Spec.winFallbackField.lookup ((fb.map (·.2.2.2)).getD Gen.C20.winVmsIdx "") = some Spec.winVmsFrom := by
  decide +kernel

/-! ## 3. Documented API -/

/-- **C20_api_names.** Every function, class, constant and Process method that docs/index.rst
    promises for a platform (its `Availability:` lines and per-constant platform notes) is
    exposed by the package when imported as that platform: listed in `__all__` and present as
    an attribute (methods: attribute of the front-end `Process` class). -/
theorem C20_api_names (p : Platform) : ∀ n ∈ documentedOf p, n ∈ exposedOf p :=
  subsetSorted_sound _ _ (api_subset_check p (Platform.mem_all p))

/-- non-vacuous: the table really lists names (e.g. `Process.cpu_num` is promised on FreeBSD) -/
example : "Process.cpu_num" ∈ documentedOf .freebsd ∧ "win_service_iter" ∈ documentedOf .windows := by
  decide +kernel

/-- the pre-fix front end did not export the documented `STATUS_WAKE_KILL` (any platform)
    nor `STATUS_SUSPENDED` (NetBSD): the subset check fails on such an `exposed` list -/
theorem C20_api_names_counterexample :
    subsetSorted ["STATUS_STOPPED", "STATUS_WAKE_KILL", "STATUS_WAKING"] ["STATUS_STOPPED", "STATUS_WAKING"] = false := by
  decide

/-! ## 4. Front-end post-processing -/

/-- the front end assigns the result of `nt._replace(broadcast=…)` (translator fact) -/
theorem cfg_broadcast_assigned : cfg.broadcastAssigned = true := by decide

/-- **C20_mac_padding.** `net_if_addrs()`: an AF_LINK address with fewer than six groups is
    completed with `00` groups (":" on POSIX, "-" on Windows) and is otherwise untouched. -/
theorem C20_mac_padding (c : Cfg) (windows : Bool) (r : RawAddr) (h : r.fam = .link) :
    (netIfAddrsEntry c windows r).mac = Spec.macPadded (if windows then '-' else ':') r.mac := by
  have hfam : (r.fam == AddrFam.inet) = false := by rw [h]; decide
  have hlink : (r.fam == AddrFam.link) = true := by rw [h]; decide
  have h6 : (r.fam == AddrFam.inet6) = false := by rw [h]; decide
  have key : ∀ sep : Char, sep ≠ '0' → padMac sep r.mac = Spec.macPadded sep r.mac := by
    intro sep h0
    exact padMacGo_spec sep h0 5 r.mac (by omega)
  cases windows <;>
    simp [netIfAddrsEntry, hfam, hlink, h6, key ':' (by decide), key '-' (by decide)]

example : (netIfAddrsEntry cfg false ⟨.link, "00:1a".toList, 0, none, none⟩).mac = "00:1a:00:00:00:00".toList := by
  decide

/-- **C20_broadcast_takes_effect.** On Windows, for an AF_INET address with a netmask, the
    tuple `net_if_addrs()` returns carries the computed broadcast address. -/
theorem C20_broadcast_takes_effect (r : RawAddr) (n : Nat) (hf : r.fam = .inet) (hp : r.plen = some n)
    (hn : n ≤ 32) (hip : r.ip < 2 ^ 32) :
    ∃ b, (netIfAddrsEntry cfg true r).bcast = some b ∧ Spec.IsBroadcast r.ip n b := by
  have hfam : (r.fam == AddrFam.inet) = true := by rw [hf]; decide
  have hlink : (r.fam == AddrFam.link) = false := by rw [hf]; decide
  refine ⟨ipv4Broadcast r.ip n, ?_, fun i => ipv4Broadcast_bits r.ip n hip i⟩
  simp [netIfAddrsEntry, hfam, hlink, hp, hn, cfg_broadcast_assigned]

/-- 192.168.1.10 / 255.255.255.0 → 192.168.1.255 -/
example : (netIfAddrsEntry cfg true ⟨.inet, [], 3232235786, some 24, none⟩).bcast = some 3232236031 := by
  decide

/-- **C20_broadcast6_takes_effect.** The IPv6 half of the same branch (`WINDOWS and fam in
    {AF_INET, AF_INET6}` → `_common.broadcast_addr`, `ipaddress.IPv6Network(f"{address}/{netmask}",
    strict=False).broadcast_address`): for an AF_INET6 address whose netmask is a prefix length
    n ≤ 128, the returned tuple carries the highest address of the network — the low 128 − n bits
    set, the others the address's (bit-level specification `Spec.IsBroadcast6`). -/
theorem C20_broadcast6_takes_effect (r : RawAddr) (n : Nat) (hf : r.fam = .inet6) (hp : r.plen = some n)
    (hn : n ≤ 128) (hip : r.ip < 2 ^ 128) :
    ∃ b, (netIfAddrsEntry cfg true r).bcast = some b ∧ Spec.IsBroadcast6 r.ip n b := by
  have hfam : (r.fam == AddrFam.inet) = false := by rw [hf]; decide
  have hlink : (r.fam == AddrFam.link) = false := by rw [hf]; decide
  have h6 : (r.fam == AddrFam.inet6) = true := by rw [hf]; decide
  refine ⟨ipv6Broadcast r.ip n, ?_, fun i => ipv6Broadcast_bits r.ip n hip i⟩
  simp [netIfAddrsEntry, hfam, hlink, h6, hp, hn, cfg_broadcast_assigned]

/-- fe80::1 / 64 → fe80::ffff:ffff:ffff:ffff; and without the assignment nothing arrives -/
example : (netIfAddrsEntry cfg true ⟨.inet6, [], 0xfe800000000000000000000000000001, some 64, none⟩).bcast
      = some 0xfe80000000000000ffffffffffffffff ∧
    (netIfAddrsEntry { cfg with broadcastAssigned := false } true
      ⟨.inet6, [], 0xfe800000000000000000000000000001, some 64, none⟩).bcast = none := by
  decide

/-- no netmask (what the real Windows native layer hands for IPv6), or a family other than
    AF_INET / AF_INET6: the native value stays -/
theorem C20_broadcast_untouched_without_netmask (c : Cfg) (w : Bool) (r : RawAddr) (h : r.plen = none) :
    (netIfAddrsEntry c w r).bcast = r.bcast := by
  unfold netIfAddrsEntry
  simp only [h]
  split <;> (try split) <;> simp

/-- the pre-fix front end (`nt._replace(broadcast=broadcast)` without assignment) discards the
    computed address: lead L17, witness 192.168.1.10/255.255.255.0 → None -/
theorem C20_broadcast_counterexample :
    (netIfAddrsEntry { cfg with broadcastAssigned := false } true ⟨.inet, [], 3232235786, some 24, none⟩).bcast
      = none := by decide

/-- off Windows the native layer's broadcast value is passed through untouched -/
theorem C20_broadcast_posix_untouched (c : Cfg) (r : RawAddr) :
    (netIfAddrsEntry c false r).bcast = r.bcast := by
  simp [netIfAddrsEntry]

/-! ### One call of `net_if_addrs()` on a native answer of ANY length (seeded round 5) -/

/-- the value handed to `_replace(broadcast=…)` is bound in the record's own iteration on every path
    (translator fact: definite assignment per iteration over the record loop) -/
theorem cfg_broadcast_fresh : cfg.broadcastFresh = true := by decide

/-- **C20_net_if_addrs_records_independent.** For every native answer (any number of records, any
    NICs, any families, netmasks present / absent / rejected by the helper, in any order) and every
    platform identity's family numbers: what `net_if_addrs()` appends is, position by position of the
    family-sorted answer, the single-record post-processing of THAT record — whatever the records
    before it were and whatever the surviving function-level name `broadcast` held. -/
theorem C20_net_if_addrs_records_independent (w : Bool) (key : AddrFam → Nat) (rs : List (Nat × RawAddr)) :
    netIfAddrs cfg w key rs = (sortByFam key rs).map fun x => (x.1, netIfAddrsEntry cfg w x.2) :=
  netIfAddrsLoop_fresh cfg cfg_broadcast_fresh w none _

/-- **C20_net_if_addrs_record_wise.** The specification's clause: the whole call is the record-wise
    map of the single-record post-processing, up to the order of the records (nothing lost, nothing
    invented, every NIC keeps its own records). -/
theorem C20_net_if_addrs_record_wise (w : Bool) (key : AddrFam → Nat) :
    Spec.RecordWise (netIfAddrsEntry cfg w) (netIfAddrs cfg w key) := by
  intro rs
  rw [C20_net_if_addrs_records_independent]
  exact (sortByFam_perm key rs).map _

/-- **C20_broadcast_rejected_netmask_leaves_record.** Every record `net_if_addrs()` returns stems from
    one native record of the same NIC, and when the helper cannot compute that record's broadcast
    address (netmask rejected, or absent) the record carries exactly the native layer's broadcast
    value — on every platform, whatever else the native answer holds. -/
theorem C20_broadcast_rejected_netmask_leaves_record (w : Bool) (key : AddrFam → Nat) (rs : List (Nat × RawAddr))
    (o : Nat × OutAddr) (ho : o ∈ netIfAddrs cfg w key rs) :
    ∃ x ∈ rs, o = (x.1, netIfAddrsEntry cfg w x.2) ∧
      ((Spec.NetmaskRejected x.2 ∨ x.2.plen = none) → o.2.bcast = x.2.bcast) := by
  have hp := (C20_net_if_addrs_record_wise w key rs).mem_iff.mp ho
  obtain ⟨x, hx, rfl⟩ := List.mem_map.mp hp
  refine ⟨x, hx, rfl, ?_⟩
  rintro (h | h)
  · rcases h with ⟨hf, n, hn, hlt⟩ | ⟨hf, n, hn, hlt⟩
    · have h1 : (x.2.fam == AddrFam.inet) = true := by rw [hf]; decide
      have h2 : ¬ n ≤ 32 := by omega
      cases w <;> simp [netIfAddrsEntry, h1, hn, h2]
    · have h0 : (x.2.fam == AddrFam.inet) = false := by rw [hf]; decide
      have h1 : (x.2.fam == AddrFam.inet6) = true := by rw [hf]; decide
      have h2 : ¬ n ≤ 128 := by omega
      cases w <;> simp [netIfAddrsEntry, h0, h1, hn, h2]
  · exact C20_broadcast_untouched_without_netmask cfg w x.2 h

/-- non-vacuous, the adversary's shape: Ethernet IPv4 /24 then an IPv6 record whose netmask the
    helper rejects — the IPv6 record keeps the native `None`, the IPv4 one gets its broadcast -/
example :
    (netIfAddrs cfg true (fun f => match f with | .link => 0 | .inet => 2 | .inet6 => 10 | .other => 99)
      [(0, ⟨.inet, [], 3232235786, some 24, none⟩), (0, ⟨.inet6, [], 0xfe800000000000000000000000000001, some 129, none⟩)]).map
      (fun o => o.2.bcast) = [some 3232236031, none] := by decide

/-- **C20_broadcast_carry_counterexample.** A front end in which a path reaches `_replace(broadcast=…)`
    with the name still holding the PREVIOUS record's value (`broadcastFresh := false`: e.g. the
    fix-up moved into a second pass with `try / except` flattened) is not record-wise: the record
    whose netmask the helper rejects comes back with its neighbour's broadcast address. -/
theorem C20_broadcast_carry_counterexample :
    (netIfAddrs { cfg with broadcastFresh := false } true
        (fun f => match f with | .link => 0 | .inet => 2 | .inet6 => 10 | .other => 99)
        [(0, ⟨.inet, [], 3232235786, some 24, none⟩), (1, ⟨.inet, [], 2886730249, some 33, none⟩)]).map
      (fun o => o.2.bcast) = [some 3232236031, some 3232236031] := by decide

/-! ## 5. The other platform-conditional branches of the front end -/

/-- **C20_front_branches_classified.** Every `if` / conditional expression inside a function or
    class body of `psutil/__init__.py` whose test names a platform constant (translator fact,
    source order, with its test text) is on the hand-classified list — modelled, part of
    `net_if_addrs`, API surface, Linux-only, no value transformed, or explicitly not modelled —
    and the list has nothing else: a new or altered platform branch is noticed. -/
theorem C20_front_branches_classified :
    Gen.C20.frontBranches = Spec.frontBranches.map (fun x => (x.1, x.2.1)) := by decide +kernel

/-- **C20_front_ppid.** `Process.ppid()`: the current parent on POSIX; on Windows the first answer
    is cached and returned from then on (a cached value is a PID > 0). -/
theorem C20_front_ppid (posix : Bool) (cached : Option Nat) (native : Nat) (h : ∀ c, cached = some c → c ≠ 0) :
    (frontPpid posix cached native).1 = Spec.ppidExpected posix cached native ∧
    (posix = false → (frontPpid posix cached native).2 = some (Spec.ppidExpected posix cached native)) := by
  cases posix <;> cases cached <;> simp_all [frontPpid, Spec.ppidExpected]

/-- **C20_front_name.** `Process.name()`: cached on Windows; on POSIX a truncated name (≥ 15 bytes)
    is completed from `cmdline()[0]` when that begins with it, and AccessDenied / ZombieProcess
    of `cmdline()` leave the truncated name; otherwise the platform layer's name. -/
theorem C20_front_name (windows posix : Bool) (cached : Option String) (native : String) :
    (∀ argv, frontName windows posix cached native (.ok argv) = Spec.nameExpected windows posix cached native (some argv)) ∧
    frontName windows posix cached native .swallowed = Spec.nameExpected windows posix cached native none := by
  constructor
  · intro argv
    cases windows <;> cases cached <;> cases argv <;> cases posix <;>
      simp [frontName, Spec.nameExpected, posixBasename] <;>
      (by_cases hl : 15 ≤ native.length <;> simp [hl] <;> omega)
  · cases windows <;> cases cached <;> simp [frontName, Spec.nameExpected]

example : frontName true false (some "a.exe") "b.exe" (.ok []) = "a.exe" ∧
    frontName false true (some "old") "new" .swallowed = "new" := by decide

/-- **C20_front_username.** POSIX: the passwd name of the *real* uid, the uid in decimal when the
    system cannot resolve it; Windows: the platform layer's `DOMAIN\\user`. -/
theorem C20_front_username (posix : Bool) (uid : Nat) (pw : Option String) (native : String) :
    frontUsername posix uid pw native = Spec.usernameExpected posix uid pw native := by
  cases posix <;> cases pw <;> rfl

/-- **C20_front_pid_exists.** Negative → False; PID 0 on POSIX exists iff `pids()` lists it (it is
    never probed with `kill`); everything else is the platform layer's answer. -/
theorem C20_front_pid_exists (posix : Bool) (pid : Int) (pids : List Nat) (native : Bool) :
    frontPidExists posix pid pids native = Spec.pidExistsExpected posix pid pids native := by
  unfold frontPidExists Spec.pidExistsExpected
  by_cases h : pid < 0
  · simp [h]
  · cases posix <;> by_cases h0 : pid = 0 <;> simp [h, h0]

/-- **C20_front_affinity_all_cpus.** Off Linux `cpu_affinity([])` asks for exactly the CPUs
    `0 … n-1` that `cpu_times(percpu=True)` reports; a non-empty request is handed on as a set. -/
theorem C20_front_affinity_all_cpus (ncpu : Nat) (cpus : List Nat) :
    frontAffinityArg false ncpu [] = List.range ncpu ∧
    (cpus ≠ [] → ∀ x, x ∈ frontAffinityArg false ncpu cpus ↔ x ∈ cpus) := by
  constructor
  · simp [frontAffinityArg]
  · intro h x
    cases cpus with
    | nil => exact absurd rfl h
    | cons a as => simp [frontAffinityArg, List.mem_eraseDups]

/-- **C20_front_disk_io_kwargs.** Only Linux's platform function is given `perdisk`; every other
    platform's is called without arguments, and the two forms keep separate nowrap histories. -/
theorem C20_front_disk_io_kwargs (perdisk : Bool) :
    frontDiskKwargs false perdisk = [] ∧ frontDiskKwargs true perdisk = [("perdisk", perdisk)] ∧
    frontDiskCacheName true ≠ frontDiskCacheName false := by
  refine ⟨rfl, rfl, by decide⟩

/-- proof obligations on the translator's facts (fixes 61843a1 and 4481769 landed): Windows `ppid()`
    is decorated and `memory_maps()` converts errors raised inside its loop -/
theorem cfg_win_ppid_wrapped : nameWrapped .windows "ppid" = true := by decide
theorem cfg_win_maps_loop_guarded : cfg.winMapsLoopGuarded = true := by decide

/-- **C20_method_faults_within_spec_partial.** For the code as it is now, no call site excluded:
    every platform identity × method × native call of its trace × swept error × pid state × pid-0
    listing gives an outcome the specification allows — or, on Solaris / AIX, ZombieProcess(pid,
    name, ppid) in the region of finding C20-sunos-aix-exists-means-zombie (and nothing else). -/
theorem C20_method_faults_within_spec_partial : C20_method_faults_within_spec_Tolerant :=
  C20_method_faults_tolerant_when_repaired cfg_win_ppid_wrapped cfg_win_maps_loop_guarded

/-- **C20_method_faults_within_spec_bsd_osx_windows.** FULL strength (strict judgement) on FreeBSD,
    OpenBSD, NetBSD, macOS and Windows: the deviation does not exist there. -/
theorem C20_method_faults_within_spec_bsd_osx_windows :
    ∀ p ∈ [Platform.freebsd, .openbsd, .netbsd, .macos, .windows], ∀ row ∈ tracesOf p, traceRowStrict p row = true := by
  intro p hp row hrow
  have hall : p ∈ Platform.all := Platform.mem_all p
  have h := C20_method_faults_within_spec_partial p hall row hrow
  have hf : p.family ≠ .sunos ∧ p.family ≠ .aix := by
    simp only [List.mem_cons, List.mem_nil_iff, or_false] at hp
    rcases hp with rfl | rfl | rfl | rfl | rfl <;> decide
  have hk : ∀ q m c, knownFinding q m c = false := by
    intro q m c; simp [knownFinding, cfg_win_ppid_wrapped, cfg_win_maps_loop_guarded]
  unfold traceRowStrict
  rw [← traceRowOKt_strict_of_family true _ _ _ p row hf.1 hf.2]
  simpa [traceRowOK, traceRowOKc, hk] using h

/-- **C20_method_faults_not_full.** The strict statement is false of the code as it is: Solaris
    `cpu_times()` on a RUNNING process whose `proc_cpu_times` call fails with ESRCH raises
    ZombieProcess; the specification allows only NoSuchProcess there (finding
    C20-sunos-aix-exists-means-zombie; witness replayed on the real module by the harness). -/
theorem C20_method_faults_not_full : ¬ C20_method_faults_within_spec_Full := by
  intro h
  have h1 := h .sunos (by decide) ("cpu_times", 42, ["proc_cpu_times"]) (by decide +kernel)
  revert h1
  decide +kernel

example : (methodFault cfg .sunos ⟨"cpu_times", ["wrap_exceptions"]⟩ "proc_cpu_times" ⟨.ESRCH, none⟩ ⟨42, .alive, true⟩ false).1
      = .zombie 42 true ∧
    Spec.allowed .sunos "cpu_times" .none ⟨.ESRCH, none⟩ ⟨42, .alive, true⟩ (.zombie 42 true) = false ∧
    Spec.allowed .sunos "cpu_times" .none ⟨.ESRCH, none⟩ ⟨42, .alive, true⟩ (.nsp 42 true) = true := by decide

/-! ## 6. Round 2: the native C calls, documented namedtuple fields, identity / equality / signals -/

/-- one slot map × identity: the C call has as many arguments as format units, as the Python map
    has slots and as the emulator's stub record has positions; the reviewed table names a C
    expression for exactly the map's slots; and the argument at the index the Python map gives a
    slot IS the C expression the table gives for that slot name -/
def nativeOrderOKExcept (skip : String → String → String → Bool) (key ident : String) : Bool :=
  let sm := slotMapOf key
  match nativeArgsOf key ident, Spec.slotCExpr.lookup (key, ident) with
  | some (fmt, args), some tbl =>
    args.length == sm.length && fmt.length == args.length && tbl.length == sm.length &&
    stubLenOf key ident == some args.length &&
    sm.all fun kv =>
      match tbl.lookup kv.1 with
      | some ce => skip key ident kv.1 || args[kv.2]? == some ce
      | none => false
  | _, _ => false

def nativeOrderOK (key ident : String) : Bool := nativeOrderOKExcept (fun _ _ _ => false) key ident

/-- the one slot whose C argument is known to differ from the intended member
    (defect C20-bsd-saved-gid, repaired by /repo c9c8f6b; the exception is kept so that `_partial` still builds on a tree without the repair) -/
def savedGidSlot (key ident slot : String) : Bool :=
  key == "bsd.kinfo_proc_map" && ["freebsd", "openbsd", "netbsd"].contains ident && slot == "saved_gid"

/-- a native tuple the Python side unpacks positionally: the C arguments are the table's, in order -/
def nativeTupleOK (k : String × String) : Bool :=
  match nativeArgsOf k.1 k.2, Spec.tupleCExpr.lookup k with
  | some (fmt, args), some tbl =>
    args == tbl.map (·.2) && fmt.length == args.length && stubLenOf k.1 k.2 == some args.length
  | _, _ => false

/-- The statement at full strength. For `kinfo_proc_map` (FreeBSD, OpenBSD, NetBSD, macOS),
    `pidtaskinfo_map`, both `proc_info_map`s and `pinfo_map`: slot `i` of the Python map is the
    `i`-th argument of the `Py_BuildValue` call of the C function that builds the record — the
    call itself (format string and argument list, read by the translator through the
    preprocessor branch of each identity) — and that argument is the struct member the slot is
    NAMED FOR (`Spec.slotCExpr`: the intended member, e.g. `saved_gid` ↦ `ki_svgid` / `p_svgid`).
    The same for the native tuples unpacked positionally. True of the code as it is (`C20_native_slot_order`);
    it was false before /repo c9c8f6b (saved_gid slot filled from the saved uid member). -/
def C20_native_slot_order_Full : Prop :=
    (∀ k ∈ slotMapKeys, nativeOrderOK k.1 k.2 = true) ∧
    (∀ k ∈ Spec.tupleCExpr.map (·.1), nativeTupleOK k = true) ∧
    (∀ r ∈ Gen.C20.nativeArgs, r.1 ∈ slotMapKeys ∨ r.1 ∈ Spec.tupleCExpr.map (·.1)) ∧
    ((Spec.tupleCExpr.lookup ("proc_memory_info", "windows")).map (·.map (·.1)) = some Spec.winMemTupleFields) ∧
    ((Spec.tupleCExpr.lookup ("proc_io_counters", "windows")).map (·.map (·.1)) = actualFieldsOf .windows "pio")

/-- **C20_native_slot_order_partial.** The full statement for every slot of every record except
    ONE: `saved_gid` of `kinfo_proc_map` on FreeBSD / OpenBSD / NetBSD (see the counterexample).
    Everything else — 135 of the 136 slot rows, the argument counts, format units, stub record
    lengths, the positional native tuples (`proc_cred`, `proc_cpu_times`, `proc_num_ctx_switches`,
    `proc_io_counters`, `proc_times`, `proc_memory_info`), "no parsed call outside the tables", the
    Windows tuple orders = field orders of `pmem` (after `rss`, `vms`) and `pio` — holds. A swapped
    C argument, a swapped Python index, an added or dropped slot on either side breaks this. -/
theorem C20_native_slot_order_partial :
    (∀ k ∈ slotMapKeys, nativeOrderOKExcept savedGidSlot k.1 k.2 = true) ∧
    (∀ k ∈ Spec.tupleCExpr.map (·.1), nativeTupleOK k = true) ∧
    (∀ r ∈ Gen.C20.nativeArgs, r.1 ∈ slotMapKeys ∨ r.1 ∈ Spec.tupleCExpr.map (·.1)) ∧
    ((Spec.tupleCExpr.lookup ("proc_memory_info", "windows")).map (·.map (·.1)) = some Spec.winMemTupleFields) ∧
    ((Spec.tupleCExpr.lookup ("proc_io_counters", "windows")).map (·.map (·.1)) = actualFieldsOf .windows "pio") := by
  decide +kernel

/-- macOS, Solaris, AIX and Windows records, and the five other records: nothing is excepted there -/
theorem C20_native_slot_order_other_records :
    ∀ k ∈ slotMapKeys, k.1 ≠ "bsd.kinfo_proc_map" → nativeOrderOK k.1 k.2 = true := by
  decide +kernel

/-- **C20_native_slot_order.** The full statement holds of the code as it is (since /repo c9c8f6b,
    `fix: BSD Process.gids().saved returned the saved *uid*`): on FreeBSD / OpenBSD / NetBSD the argument
    at the index of `kinfo_proc_map['saved_gid']` is the saved gid member (`ki_svgid` / `p_svgid`).
    Before that commit the very expression of the `saved_uid` slot was passed there (defect
    C20-bsd-saved-gid, fixed); re-introducing it breaks this theorem, and
    `C20_saved_gid_is_not_saved_uid` names the slot. -/
theorem C20_native_slot_order : C20_native_slot_order_Full := by
  unfold C20_native_slot_order_Full
  decide +kernel

/-- the saved-gid and saved-uid slots of the three BSD records are different indices holding
    different C expressions, each the member the slot is named for -/
theorem C20_saved_gid_is_not_saved_uid :
    ∀ ident ∈ ["freebsd", "openbsd", "netbsd"],
      (match nativeArgsOf "bsd.kinfo_proc_map" ident, (Spec.slotCExpr.lookup ("bsd.kinfo_proc_map", ident)),
             (slotMapOf "bsd.kinfo_proc_map").lookup "saved_gid", (slotMapOf "bsd.kinfo_proc_map").lookup "saved_uid" with
       | some (_, args), some tbl, some g, some u =>
         g != u && args[g]? != args[u]? && (args[g]?).isSome && args[g]? == tbl.lookup "saved_gid"
           && args[u]? == tbl.lookup "saved_uid"
       | _, _, _, _ => false) = true := by
  decide +kernel

/-- non-vacuous: FreeBSD's slot 14 (`user_time`) is `PSUTIL_TV2DOUBLE(kp.ki_rusage.ru_utime)` -/
example : (nativeArgsOf "bsd.kinfo_proc_map" "freebsd").map (·.2[14]?) = some (some "PSUTIL_TV2DOUBLE(kp.ki_rusage.ru_utime)") ∧
    (slotMapOf "bsd.kinfo_proc_map").lookup "user_time" = some 14 := by decide +kernel

/-- one documented field list against the namedtuple the package defines on that platform -/
def fieldsRowOK (p : Platform) (row : String × String × Bool × List String) : Bool :=
  match actualFieldsOf p row.2.1 with
  | none => false
  | some act =>
    row.2.2.2.all (fun f => act.contains f || Spec.fieldGaps.contains (p.key, row.1, f)) &&
    (!row.2.2.1 || row.2.2.2.isSublist act)

theorem api_fields_table : ∀ p ∈ Platform.all, ∀ row ∈ docFieldsOf p, fieldsRowOK p row = true := by
  decide +kernel

/-- **C20_api_fields.** For every platform identity and every function / Process method for which
    docs/index.rst lists namedtuple fields (bullets with their `*(platforms)*` notes, or a column
    of a per-platform field table): the namedtuple type exists in the package imported as that
    platform, every field documented for the platform is one of its `_fields` (or one of the six
    listed Solaris/AIX gaps), and where the docs give an order (table columns) the documented
    fields appear in that order. -/
theorem C20_api_fields (p : Platform) :
    ∀ row ∈ docFieldsOf p, ∃ act, actualFieldsOf p row.2.1 = some act ∧
      (∀ f ∈ row.2.2.2, f ∈ act ∨ (p.key, row.1, f) ∈ Spec.fieldGaps) ∧
      (row.2.2.1 = true → row.2.2.2.Sublist act) := by
  intro row hrow
  have h := api_fields_table p (Platform.mem_all p) row hrow
  unfold fieldsRowOK at h
  cases hact : actualFieldsOf p row.2.1 with
  | none => simp [hact] at h
  | some act =>
    simp only [hact, Bool.and_eq_true, List.all_eq_true, Bool.or_eq_true] at h
    refine ⟨act, rfl, ?_, ?_⟩
    · intro f hf
      rcases h.1 f hf with h1 | h1
      · exact Or.inl (by simpa using h1)
      · exact Or.inr (by simpa using h1)
    · intro ho
      have := h.2
      simp [ho] at this
      exact this

/-- non-vacuous: Windows `Process.memory_info()` documents twelve ordered fields, `wset` among them -/
example : ("Process.memory_info", "pmem", true, Spec.winPmemFields) ∈ docFieldsOf .windows := by decide +kernel

/-- **C20_api_fields_gaps_characterisation.** The listed gaps are exact: each one is a field the
    docs promise for that platform and the platform's namedtuple really lacks (so the list can
    neither hide a new gap nor keep a closed one). -/
theorem C20_api_fields_gaps_characterisation :
    Spec.fieldGaps.all (fun g =>
      match Platform.ofKey? g.1 with
      | some p => (docFieldsOf p).any fun row =>
          row.1 == g.2.1 && row.2.2.2.contains g.2.2 &&
            (match actualFieldsOf p row.2.1 with | some act => !act.contains g.2.2 | none => false)
      | none => false) = true := by
  decide +kernel

/-! ### `Process._get_ident` (Windows: fast creation time only) -/

/-- the native calls of `create_time()` in the generated traces (pid 42 and pid 0) -/
def ctimeRows (p : Platform) : List (String × Nat × List String) :=
  (tracesOf p).filter fun r => r.1 == "create_time"

def identRowOK (tol : Bool) (p : Platform) (row : String × Nat × List String) : Bool :=
  match methodOf? p "create_time" with
  | none => false
  | some m =>
    row.2.2.all fun call => (sweptErrs p).all fun e => (sweptEnvs row.2.1).all fun env =>
      [true, false].all fun ign =>
        if tol && Spec.knownZombieDeviation p.family e env then
          -- known deviation: the Solaris / AIX decorator says ZombieProcess, the constructor keeps (pid, None)
          frontInit ign 1 (identFault cfg p m call e env) == .built none none false
        else frontInit ign 1 (identFault cfg p m call e env) == Spec.initExpected p e env ign
          || (Spec.initAlso p call env).contains (frontInit ign 1 (identFault cfg p m call e env))

/-- full strength: what the constructor is left with is what the contract cell says, everywhere -/
def C20_front_ident_Full : Prop :=
  ∀ p ∈ Platform.all, ctimeRows p ≠ [] ∧ ∀ row ∈ ctimeRows p, identRowOK false p row = true

/-- **C20_front_ident_partial.** `Process(pid)` on every identity: for every native call the creation-time
    query makes × swept error × pid state × pid-0 listing × `_ignore_nsp`: what the constructor
    is left with — `_ident = (pid, None)` for a permission failure or a zombie, NoSuchProcess
    "process PID not found" (or the gone flag), another error unchanged — is what the contract
    cell of that failure says; in the region of finding C20-sunos-aix-exists-means-zombie (Solaris /
    AIX only) the constructor instead keeps `(pid, None)` for a process that is not a zombie. On
    Windows this holds *because* the identity uses `create_time(fast_only=True)`: no slower fall-back
    hides the permission failure. One documented extra (`Spec.initAlso`): the Solaris PID-0 psinfo gate answers
    AccessDenied whenever /proc/0/psinfo cannot be seen, so `Process(0)` is then built with `(0, None)`. -/
theorem C20_front_ident_partial :
    ∀ p ∈ Platform.all, ctimeRows p ≠ [] ∧ ∀ row ∈ ctimeRows p, identRowOK true p row = true := by
  decide +kernel

/-- full strength on the identities without the deviation -/
theorem C20_front_ident_bsd_osx_windows :
    ∀ p ∈ [Platform.freebsd, .openbsd, .netbsd, .macos, .windows],
      ctimeRows p ≠ [] ∧ ∀ row ∈ ctimeRows p, identRowOK false p row = true := by
  decide +kernel

/-- the full statement fails on Solaris: `Process(42)` of a running process whose creation-time query
    meets ESRCH is built with `(42, None)` instead of raising NoSuchProcess -/
theorem C20_front_ident_counterexample_sunos : ¬ C20_front_ident_Full := by
  intro h
  have := (h .sunos (by decide)).2
  revert this
  decide +kernel

/-- without a fault the identity is (pid, creation time) and the creation time is cached -/
theorem C20_front_ident_ok (ign : Bool) (ct : Nat) : frontInit ign ct .value = .built (some ct) (some ct) false := rfl

/-- obligation on the translator's fact: the identity query is the fast-only one -/
theorem cfg_ident_fast_only : cfg.winIdentFastOnly = true := by decide

/-- a front end that asked for the plain `create_time()` would hide the permission failure behind the
    slower fall-back: the identity of an access-denied process would then carry a creation time -/
theorem C20_front_ident_counterexample :
    frontInit false 1 (identFault { cfg with winIdentFastOnly := false } .windows ⟨"create_time", ["wrap_exceptions"]⟩
      "proc_times" ⟨.EACCES, some 5⟩ ⟨42, .alive, true⟩) = .built (some 1) (some 1) false ∧
    Spec.initExpected .windows ⟨.EACCES, some 5⟩ ⟨42, .alive, true⟩ false = .built none none false := by decide

/-- **C20_front_ident_fast_only.** The `WINDOWS` branch of `_get_ident` takes effect: a permission
    failure of `proc_times` is AccessDenied for the identity query (`fast_only=True`), whereas the
    public `create_time()` answers it from the system-wide process list. For every error the
    Windows layer counts as a permission failure. -/
theorem C20_front_ident_fast_only (e : Err) (env : Env) (h : isPermissionErr cfg.win e = true) :
    identFault cfg .windows ⟨"create_time", ["wrap_exceptions"]⟩ "proc_times" e env = .ad env.pid true ∧
    (methodFault cfg .windows ⟨"create_time", ["wrap_exceptions"]⟩ "proc_times" e env false).1 = .value := by
  have hw := winCfg_generated
  constructor
  · simp [identFault, innerIdent, cfg_ident_fast_only, bodyWith, finish, Method.retries, escape, Method.wrapped, wrapExceptions,
      runClauses_eq_dispatch, dispatch_cfg, actionTable, runAction, convertOserror, Platform.family]
    rw [hw] at h ⊢
    simp [convertOserrorGo, h]
  · simp [methodFault, body, inner, bodyWith, finish, h]

/-! ### `Process.__eq__` (OpenBSD / NetBSD zombies) -/

/-- **C20_front_eq.** Equality of two Process objects: on OpenBSD / NetBSD, same pid, the first
    with a creation time and the second without (None or 0.0): equal iff the process is a zombie
    now (`status()` says so, or raises ZombieProcess; another error: not equal); in every other
    case, and on every other platform, equality of (pid, creation time). For all identities. -/
theorem C20_front_eq (obn : Bool) (i1 i2 : Nat × Option Nat) (st : StatusRes) :
    frontEq obn i1 i2 st = Spec.eqExpected obn i1 i2 (Spec.zombieNow st) := by
  obtain ⟨p1, c1⟩ := i1
  obtain ⟨p2, c2⟩ := i2
  have hpair : ((p1, c1) == (p2, c2)) = (p1 == p2 && c1 == c2) := rfl
  unfold frontEq Spec.eqExpected
  simp only [hpair]
  cases obn <;> cases st <;> cases c1 <;> cases c2 <;>
    simp [ctimeTruthy, Spec.zombieNow] <;>
    (try (by_cases hp : p1 = p2 <;> simp [hp])) <;>
    (try (rename_i a b; by_cases ha : a = 0 <;> by_cases hb : b = 0 <;> simp_all)) <;>
    (try (rename_i a; by_cases ha : a = 0 <;> simp_all))

/-- the branch matters: a process that had ctime 1110 and now shows 0.0 as a zombie is the same
    process on NetBSD, a different one on FreeBSD -/
example : frontEq true (42, some 1110) (42, some 0) (.status true) = true ∧
    frontEq false (42, some 1110) (42, some 0) (.status true) = false := by decide

/-! ### signals -/

/-- **C20_front_send_signal_posix.** POSIX `send_signal` / `terminate` / `kill` / `suspend` / `resume`
    (all `_send_signal`): PID 0 is refused; ESRCH → NoSuchProcess(pid, name) and the object is
    marked gone — except on OpenBSD while the pid still exists: ZombieProcess(pid, name, ppid), not
    marked gone; EPERM / EACCES → AccessDenied(pid, name); any other error unchanged. -/
theorem C20_front_send_signal_posix (openbsd : Bool) (pid : Nat) (k : KillRes) (ex : Bool) :
    (frontSendSignalPosix openbsd pid k ex).1 = Spec.sendSignalPosixExpected openbsd pid k ex ∧
    ((frontSendSignalPosix openbsd pid k ex).2 = true ↔
      (frontSendSignalPosix openbsd pid k ex).1 = .nsp true) := by
  unfold frontSendSignalPosix Spec.sendSignalPosixExpected
  by_cases h0 : pid = 0
  · simp [h0]
  · cases k <;> cases openbsd <;> cases ex <;> simp [h0]

/-- **C20_front_send_signal_windows.** Off POSIX: `send_signal(SIGTERM)`, `terminate()` and `kill()`
    all end in `proc_kill`; `CTRL_C_EVENT` / `CTRL_BREAK_EVENT` go to `os.kill` when the process is
    running and are NoSuchProcess when it is not; any other signal is refused with ValueError
    (NoSuchProcess when the process is not running). -/
theorem C20_front_send_signal_windows (sig : WinSig) (running : Bool) :
    frontSendSignalWin sig running = Spec.sendSignalWinExpected sig running ∧
    frontTerminateWin = frontKillWin ∧ frontSendSignalWin .sigterm running = frontKillWin := by
  cases sig <;> cases running <;> decide

/-- **C20_front_send_signal_windows_contract.** … and an OSError raised by the primitive the signal
    ends in (`proc_kill`, `os.kill`) meets the decorator of the platform layer's `send_signal` /
    `kill`: the contract cell, for every error, pid and state. -/
theorem C20_front_send_signal_windows_contract (meth : String) (hm : meth = "send_signal" ∨ meth = "kill")
    (call : String) (hc : call = "proc_kill" ∨ call = "os.kill") (e : Err) (env : Env) :
    (methodFault cfg .windows ⟨meth, ["wrap_exceptions"]⟩ call e env false).1 = Spec.contract .windows e env := by
  have hi : inner cfg .windows meth call = .escapes := by
    rcases hm with rfl | rfl <;> rcases hc with rfl | rfl <;> decide
  simp [methodFault, body, hi, bodyWith, finish, Method.retries, escape, Method.wrapped]
  exact C20_error_contract_bsd_osx_windows .windows (by simp) e env

/-- the two methods are in the generated list with exactly that decorator -/
example : methodOf? .windows "send_signal" = some ⟨"send_signal", ["wrap_exceptions"]⟩ ∧
    methodOf? .windows "kill" = some ⟨"kill", ["wrap_exceptions"]⟩ := by decide +kernel

/-! ## 7. Seeded round 5: a native call that SUCCEEDS with an empty answer, then a failing one

  The statement quantifies over "any native call the method makes". Which calls a method makes depends
  on what the native layer answers: with an EMPTY answer about the process (no thread, no socket, no
  open file) the Solaris / AIX layers ask once more whether the process is still there
  (`if not ret: os.stat(<procfs>/<pid>)`), other methods stop early. `tracesEmpty` (translator fact) holds
  the call sequence of every such run — one row per (method, pid, emptied call) — and the theorems below
  quantify over its rows, i.e. over the emptied call as well. -/

/-- full statement: every platform identity × every row of `tracesEmpty` (method, pid, native call whose
    answer came back empty) × every native call of that run × swept error × pid state × pid-0 listing gives
    an outcome the specification allows — `Spec.allowed` and nothing else. FALSE of the code as it is on
    Solaris / AIX for the same reason as `C20_method_faults_within_spec_Full`
    (`C20_empty_answer_faults_not_full`). -/
def C20_empty_answer_faults_within_spec_Full : Prop :=
  ∀ p ∈ Platform.all, ∀ row ∈ tracesEmptyOf p, ∀ m, methodOf? p row.1 = some m →
    ∀ call ∈ row.2.2.2, ∀ e ∈ sweptErrs p, ∀ env ∈ sweptEnvs row.2.1,
      Spec.allowed p m.name (Spec.recoverable p m.name call) e env (methodFault cfg p m call e env false).1 = true

/-- **C20_empty_answer_faults_within_spec_partial.** For the code as it is, no call site excluded: for
    every platform identity, every method, every native call of it whose answer about the process can come
    back empty (row of `tracesEmpty`), every native call the method makes on THAT run — the liveness
    re-check included —, every swept error, pid state and pid-0 listing: the outcome is one the
    specification allows, or, on Solaris / AIX only, ZombieProcess(pid, name, ppid) in the region of
    finding C20-sunos-aix-exists-means-zombie (`zombieDeviation`), and nothing else. -/
theorem C20_empty_answer_faults_within_spec_partial :
    ∀ p ∈ Platform.all, ∀ row ∈ tracesEmptyOf p, ∀ m, methodOf? p row.1 = some m →
      ∀ call ∈ row.2.2.2, ∀ e ∈ sweptErrs p, ∀ env ∈ sweptEnvs row.2.1,
        (Spec.allowed p m.name (Spec.recoverable p m.name call) e env (methodFault cfg p m call e env false).1 = true ∨
         zombieDeviation p e env (methodFault cfg p m call e env false).1 = true) := by
  intro p hp row hrow m hm call hc e he env henv
  have h := empty_faults_table p hp row hrow
  unfold emptyRowOK traceRowOKt emptyRowCalls at h
  simp only [hm, List.all_eq_true] at h
  have h2 := h call hc
  simp only [Bool.false_or, List.all_eq_true] at h2
  have h3 := h2 e he env henv
  simpa [faultOKt, faultStrictOKc] using h3

/-- every row names a method of the generated method list (the theorem above is not vacuous through `methodOf?`) -/
theorem C20_empty_answer_rows_are_methods :
    ∀ p ∈ Platform.all, ∀ row ∈ tracesEmptyOf p, (methodOf? p row.1).isSome = true := by
  decide +kernel

/-- **C20_empty_answer_faults_bsd_osx_windows.** FULL strength (strict judgement) wherever the deviation
    does not exist. -/
theorem C20_empty_answer_faults_bsd_osx_windows :
    ∀ p ∈ [Platform.freebsd, .openbsd, .netbsd, .macos, .windows], ∀ row ∈ tracesEmptyOf p, ∀ m, methodOf? p row.1 = some m →
      ∀ call ∈ row.2.2.2, ∀ e ∈ sweptErrs p, ∀ env ∈ sweptEnvs row.2.1,
        Spec.allowed p m.name (Spec.recoverable p m.name call) e env (methodFault cfg p m call e env false).1 = true := by
  intro p hp row hrow m hm call hc e he env henv
  have hf : p.family ≠ .sunos ∧ p.family ≠ .aix := by
    simp only [List.mem_cons, List.mem_nil_iff, or_false] at hp
    rcases hp with rfl | rfl | rfl | rfl | rfl <;> decide
  rcases C20_empty_answer_faults_within_spec_partial p (Platform.mem_all p) row hrow m hm call hc e he env henv with h | h
  · exact h
  · rw [zombieDeviation_only_sunos_aix p e env _ hf.1 hf.2] at h
    exact absurd h (by decide)

/-- the re-check paths are in the table, and an unreadable /proc/<pid> on the re-check is AccessDenied,
    an I/O error passes unchanged, a vanished entry is NoSuchProcess: AIX `threads()` after an empty
    `proc_threads` answer -/
example : ("threads", 42, "proc_threads", ["proc_threads", "os.stat"]) ∈ tracesEmptyOf .aix ∧
    ("net_connections", 42, "net_connections", ["net_connections", "os.stat"]) ∈ tracesEmptyOf .aix ∧
    ("net_connections", 42, "net_connections", ["net_connections", "os.stat"]) ∈ tracesEmptyOf .sunos := by
  decide +kernel

example : (methodFault cfg .aix ⟨"threads", ["wrap_exceptions"]⟩ "os.stat" ⟨.EACCES, none⟩ ⟨42, .alive, true⟩ false).1 = .ad 42 true ∧
    (methodFault cfg .aix ⟨"threads", ["wrap_exceptions"]⟩ "os.stat" ⟨.EIO, none⟩ ⟨42, .alive, true⟩ false).1 = .raw ⟨.EIO, none⟩ ∧
    (methodFault cfg .aix ⟨"threads", ["wrap_exceptions"]⟩ "os.stat" ⟨.ENOENT, none⟩ ⟨42, .gone, true⟩ false).1 = .nsp 42 true := by
  decide

/-- **C20_empty_answer_faults_not_full.** The strict statement is false of the code as it is: AIX
    `threads()` on a RUNNING process, empty `proc_threads` answer, the re-check's stat says ENOENT →
    ZombieProcess where only NoSuchProcess is allowed (same finding as `C20_method_faults_not_full`). -/
theorem C20_empty_answer_faults_not_full : ¬ C20_empty_answer_faults_within_spec_Full := by
  intro h
  have h1 := h .aix (by decide) ("threads", 42, "proc_threads", ["proc_threads", "os.stat"]) (by decide +kernel)
    ⟨"threads", ["wrap_exceptions"]⟩ (by decide +kernel) "os.stat" (by decide) ⟨.ENOENT, none⟩ (by decide)
    ⟨42, .alive, true⟩ (by decide)
  revert h1
  decide

/-- what a re-check that asks a yes/no question instead (`if not pid_exists(pid): raise NoSuchProcess`)
    would do with an unreadable /proc/<pid>: the swallowed permission failure comes out as NoSuchProcess,
    which the specification does not allow at that call (the shape seeded change C20-4 introduces;
    `inner` has no such site, `C20_path_probes_transcribed` keeps it that way) -/
example : Spec.allowed .aix "threads" (Spec.recoverable .aix "threads" "os.path.exists") ⟨.EACCES, none⟩ ⟨42, .alive, true⟩
      (.nsp 42 true) = false ∧
    Spec.allowed .aix "threads" (Spec.recoverable .aix "threads" "os.path.exists") ⟨.EACCES, none⟩ ⟨42, .alive, true⟩
      (.ad 42 true) = true := by decide

/-- **C20_path_probes_transcribed.** `os.path.exists / isfile / islink` is a stat() whose failure the
    caller never sees (answered False). The (identity, method, question) triples that occur in ANY generated
    call sequence — plain runs, runs with an empty native answer, alternative paths after a first fault —
    are exactly the ones `Model.pathProbeSites` lists and `Model.inner` transcribes (Solaris: the PID-0
    psinfo gate of `_proc_basic_info`, the per-fd `islink` of `open_files()`; AIX: the candidate-path
    `isfile` of `exe()`): an OS query of a method that is moved behind such a question (a liveness
    re-check written with `pid_exists()`, say) changes a generated call sequence and this stops building. -/
theorem C20_path_probes_transcribed :
    ∀ p ∈ Platform.all,
      (∀ x ∈ pathProbesSeen p, x ∈ pathProbeSites p) ∧ (∀ x ∈ pathProbeSites p, x ∈ pathProbesSeen p) := by
  intro p hp
  have h := path_probes_table p hp
  unfold pathProbesOK at h
  simp only [Bool.and_eq_true, List.all_eq_true, List.contains_iff_mem] at h
  exact h

/-- **C20_path_probe_faults_within_spec.** At every transcribed question site a failing stat() — any
    swept error, pid state, pid-0 listing; PID 0 for the Solaris psinfo gate, which only exists there —
    leaves the method with an outcome the specification allows (`pathQuestion`: the item is left out and the
    method returns; `pid0Psinfo`: AccessDenied(pid, name) on PID 0). -/
theorem C20_path_probe_faults_within_spec :
    ∀ p ∈ Platform.all, ∀ site ∈ pathProbeSites p, ∀ m, methodOf? p site.1 = some m →
      ∀ e ∈ sweptErrs p, ∀ env ∈ sweptEnvs (if site.2 = "os.path.exists" then 0 else 42),
        Spec.allowed p m.name (Spec.recoverable p m.name site.2) e env (methodFault cfg p m site.2 e env false).1 = true := by
  decide +kernel

/-! ## Seeded round 5 (C20-8): a `oneshot()` block as a history — pid-state transitions between the first
    record read of the block and the failing call, and whether the decorator's probe asks the OS afresh -/

/-- **cfg_probe_fresh** (obligation on the translator fact `probeStale`). In every platform module the
    `except` handlers of the error-translating decorators reach no memoised function and no attribute of
    `self` (other than pid / _name / _ppid) — apart from the process-wide "does PID 0 answer" memo behind
    OpenBSD `pids()`: the probe that decides ZombieProcess vs NoSuchProcess asks the OS afresh. -/
theorem cfg_probe_fresh : ∀ f ∈ Family.all, probeFreshOf f = true := by decide

theorem probeFreshOf_true (f : Family) : probeFreshOf f = true :=
  cfg_probe_fresh f (by cases f <;> decide)

/-- **C20_oneshot_history_irrelevant.** For every platform identity, method, native call, error, EVERY
    history of earlier calls of the same `oneshot()` block (any length, any pid state at each of them, record
    read or not), inside the block or just after leaving it, every pid, pid state at the failing call and
    pid-0 listing: the outcome is the outcome of that call alone on the pid as it is NOW. -/
theorem C20_oneshot_history_irrelevant (p : Platform) (m : Method) (call : String) (e : Err)
    (h : List Earlier) (exited : Bool) (env : Env) (persistent : Bool) :
    blockFault cfg probeFreshOf p m call e h exited env persistent = methodFault cfg p m call e env persistent := by
  simp [blockFault, blockEnv, probeState, probeFreshOf_true]

/-- **C20_oneshot_block_within_spec.** Hence whatever the specification allows for the call alone
    (`C20_method_faults_within_spec_partial` and its strict forms speak about exactly those outcomes) is what
    it allows — and what the code does — after any history of the block. -/
theorem C20_oneshot_block_within_spec (p : Platform) (m : Method) (call : String) (e : Err)
    (h : List Earlier) (exited : Bool) (env : Env) (persistent : Bool)
    (hs : Spec.allowed p m.name (Spec.recoverable p m.name call) e env
            (methodFault cfg p m call e env persistent).1 = true) :
    Spec.allowedInBlock p m.name (Spec.recoverable p m.name call) e (h.map fun x => ⟨x.state⟩) exited env
      (blockFault cfg probeFreshOf p m call e h exited env persistent).1 = true := by
  rw [C20_oneshot_history_irrelevant]; exact hs

/-- **C20_oneshot_cached_probe_counterexample** (what-if: the macOS probe reads the status slot through the
    memoised record getter). `status()` while the process runs, the process dies and stays a zombie, `exe()`
    fails with ESRCH inside the same block: NoSuchProcess — the specification allows only ZombieProcess.
    And zombie at the first read, reaped before the failing call: ZombieProcess for a pid that is gone.
    After `oneshot_exit()` the cache is dropped and both are right again. -/
theorem C20_oneshot_cached_probe_counterexample :
    let stale : Family → Bool := fun f => f != .osx
    let m : Method := ⟨"exe", ["wrap_exceptions"]⟩
    let e : Err := ⟨.ESRCH, none⟩
    (blockFault cfg stale .macos m "proc_exe" e [⟨true, .alive⟩] false ⟨42, .zombie, true⟩ false).1 = .nsp 42 true ∧
    Spec.allowedInBlock .macos "exe" (Spec.recoverable .macos "exe" "proc_exe") e [⟨.alive⟩] false ⟨42, .zombie, true⟩
      (.nsp 42 true) = false ∧
    (blockFault cfg stale .macos m "proc_exe" e [⟨false, .alive⟩, ⟨true, .zombie⟩] false ⟨42, .gone, true⟩ false).1
      = .zombie 42 true ∧
    Spec.allowedInBlock .macos "exe" (Spec.recoverable .macos "exe" "proc_exe") e [⟨.alive⟩, ⟨.zombie⟩] false
      ⟨42, .gone, true⟩ (.zombie 42 true) = false ∧
    (blockFault cfg stale .macos m "proc_exe" e [⟨true, .alive⟩] true ⟨42, .zombie, true⟩ false).1 = .zombie 42 true := by
  decide +kernel

/-- non-vacuity: a block history on the code as it is -/
example : (blockFault cfg probeFreshOf .macos ⟨"exe", ["wrap_exceptions"]⟩ "proc_exe" ⟨.ESRCH, none⟩
            [⟨true, .alive⟩] false ⟨42, .zombie, true⟩ false).1 = .zombie 42 true := by decide +kernel

end Psutil.C20
