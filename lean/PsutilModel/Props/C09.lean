import PsutilModel.Model.C09Gen
import PsutilModel.Spec.C09
namespace Psutil.C09
theorem stub_sector : diskCfg.sector = Spec.sectorSize := by decide
end Psutil.C09
