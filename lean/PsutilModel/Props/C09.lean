/-
  Props/C09.lean — property theorems for C09 (disk/network counters: exact per-device values,
  totals never double count; disk_usage formulas). Helper lemmas: Proofs/C09.lean (net, text),
  Proofs/C09Disk.lean (/proc/diskstats, /sys/block filter), Proofs/C09Sysfs.lean (read_sysfs),
  Proofs/C09Order.lean (listing orders), Proofs/C09Usage.lean (disk_usage order facts, rounding).

  `netCfg`, `diskCfg`, `sysfsCfg`, `usageCfg` and the field-name lists come from Generated/C09.lean,
  which the translator rewrites from /repo's source on every run. The theorems below are *about the
  model instantiated with those facts*; a changed column order, branch guard, slice bound,
  sector size, skip condition, namedtuple field or disk_usage assignment makes them fail to
  build as long as the edit keeps a shape the translator recognises; every statement of the anchored
  functions that is NOT turned into a model parameter is pinned verbatim by `C09_code_frame`; a
  fact the translator cannot extract any more counts as a broken obligation (runner).

  The order of the items of the per-device dicts IS part of `C09_net` / `C09_disk` (the order of the
  lines of the file) and is compared by the correspondence; the `/sys/block` source promises the
  dict only up to the order of its items (`C09_sysfs_any_order`, `Expect.same`).
  The 15-field layout is psutil's own (named as such in the property's quantifier, pinned by its
  test-suite): `C09_disk_roundtrip_15` characterises the code against that layout, it is not a
  kernel format (the real Linux 2.4 statistics lived in /proc/partitions with another column order).
-/
import PsutilModel.Proofs.C09Disk
import PsutilModel.Proofs.C09Sysfs
import PsutilModel.Proofs.C09Usage
import PsutilModel.Proofs.C09Order
import PsutilModel.Proofs.C09Wrap
import PsutilModel.Spec.C09Hist
namespace Psutil.C09
open Spec

/-- the promised value, as an outcome of the model -/
def Spec.Expect.toOut : Expect → Out
  | .none => .none
  | .emptyDict => .emptyDict
  | .perdev d => .perdev d
  | .total t => .total t

/-! ## translator-fed obligations (tables) -/

/-- the sixteen kernel columns land in the eight documented fields: `bytes_sent = tx bytes`,
    `bytes_recv = rx bytes`, …, `dropout = tx drop` (unpack order and stored order together) -/
theorem C09_net_column_map (v0 v1 v2 v3 v4 v5 v6 v7 v8 v9 v10 v11 v12 v13 v14 v15 : Nat) :
    lookups (netCfg.unpack.zip [v0, v1, v2, v3, v4, v5, v6, v7, v8, v9, v10, v11, v12, v13, v14, v15])
      netCfg.output = some [v8, v0, v9, v1, v2, v10, v3, v11] := by rfl

/-- two header lines are skipped, the name ends at the LAST colon, sixteen values are unpacked,
    the blanks the kernel pads the name with are stripped -/
theorem C09_net_cfg :
    netCfg.skip = 2 ∧ netCfg.rfind = true ∧ netCfg.unpack.length = 16 ∧ netCfg.nameWs 32 = true := by
  refine ⟨by decide, by decide, by decide, by decide⟩

/-- the namedtuples carry the documented field names in the documented order -/
theorem C09_field_names :
    Gen.C09.snetioFields = netFieldNames ∧ Gen.C09.sdiskioFields = diskFieldNames ∧
    Gen.C09.sdiskusageFields = ["total", "used", "free", "percent"] := by decide

/-- sectors are converted at 512 bytes; `is_storage_device` probes `/sys/block/<name, / → !>` -/
theorem C09_disk_constants :
    diskCfg.sector = sectorSize ∧ Gen.C09.storageReplace = (47, 33) ∧
    Gen.C09.storagePath = "/sys/block/{}" ∧ diskCfg.skipPartitions = true := by decide

/-- empty raw dict → `{}` per device, `None` for the total, in both front ends -/
theorem C09_empty_literals :
    Gen.C09.frontEmpty = ["{}", "None", "{}", "None"] := by decide

/-- obligation: `_common.usage_percent` still has the body `diskUsage` transcribes (ratio · 100, `0.0` on
    ZeroDivisionError, `round(ret, round_)`); with `false` the model answers `none` and `C09_disk_usage` fails -/
theorem cfg_usage_percent_shape : usageCfg.pctShape = true := by decide

/-- obligation (audit item 6): `open_text` reads with `newline="\n"`, not with universal newlines — a `\r`
    inside an interface name or header line does not end a line. `C09_net*` / `C09_disk*` are proved for this
    mode only (no hypothesis on `\r`); a return to universal newlines stops them building. -/
theorem cfg_no_universal_newlines : netCfg.univNl = false ∧ diskCfg.univNl = false := by decide

/-- obligation: **everything else the anchored functions do**. Every statement of `_pslinux.net_io_counters`,
    `_pslinux.disk_io_counters` (with `read_procfs` and the aggregation loop) and — for `nowrap=False` — of
    the two front ends that is not turned into a parameter of the model by another fact is what the model
    transcribes: read all lines, start from an empty dict, loop, return the dict; nothing is filtered,
    truncated, re-ordered or post-processed. An inserted `if name.startswith(…): continue`, `readlines(n)`,
    `dict(sorted(…))`, `rawdict = {… if any(v)}` changes one of these lists. -/
theorem C09_code_frame :
    Gen.C09.netFrame =
      ["with open_text(f'{get_procfs_path()}/net/dev') as f:\n    lines = f.readlines()", "retdict = {}",
       "for line in lines[<netSkipLines>:]: <loop>", "return retdict"] ∧
    Gen.C09.diskFrame =
      ["def read_procfs(): <read_procfs>", "def read_sysfs(): <facts sysfs*>",
       "if os.path.exists(...): <fact diskSources> else: <fact diskNoSource>", "retdict = {}",
       "for entry in gen: <aggregation loop>", "return retdict",
       "read_procfs: with open_text(f'{get_procfs_path()}/diskstats') as f:\n    lines = f.readlines()",
       "read_procfs: for line in lines: <loop>"] ∧
    Gen.C09.frontFrame =
      [["kwargs = dict(perdisk=perdisk) if LINUX else {}",
        "name = 'psutil.disk_io_counters.perdisk' if perdisk else 'psutil.disk_io_counters'",
        "rawdict = _psplatform.disk_io_counters(**kwargs)", "if not rawdict:\n    return {} if perdisk else None",
        "nt = getattr(_psplatform, 'sdiskio', _common.sdiskio)",
        "if perdisk:\n    for disk, fields in rawdict.items():\n        rawdict[disk] = nt(*fields)\n    return rawdict\nelse:\n    return nt(*(sum(x) for x in zip(*rawdict.values())))"],
       ["rawdict = _psplatform.net_io_counters()", "if not rawdict:\n    return {} if pernic else None",
        "if pernic:\n    for nic, fields in rawdict.items():\n        rawdict[nic] = _common.snetio(*fields)\n    return rawdict\nelse:\n    return _common.snetio(*[sum(x) for x in zip(*rawdict.values())])"]] := by
  exact ⟨rfl, rfl, rfl⟩

/-! ## /proc/net/dev -/

/-- one kernel-rendered interface line parses to the interface's name and its eight
    documented counters — for every name (it may contain `:`, `/`, digits, blanks inside,
    bytes ≥ 0x80) and unbounded counters -/
theorem C09_net_line_roundtrip (i : Iface) (hn : WFName netCfg.nameWs i.name) :
    netLine netCfg (renderNetLine i) = .ok (i.name, (documented8 i).map (·.2)) := by
  rw [netLine_render netCfg C09_net_cfg.2.1 C09_net_cfg.2.2.1 C09_net_cfg.2.2.2 i hn]
  rfl

theorem netPlatform_gen (h1 h2 : Bytes) (ifs : List Iface) (wf : NetWF netCfg.nameWs h1 h2 ifs) :
    netPlatform netCfg (renderNetDev h1 h2 ifs) = .ok (ifs.map fun i => (i.name, tuple8 i)) :=
  netPlatform_render netCfg C09_net_cfg.2.1 C09_net_cfg.2.2.1 C09_net_cfg.1 C09_net_cfg.2.2.2
    cfg_no_universal_newlines.1 tuple8 (fun _ => rfl) h1 h2 ifs wf

/-- **net, all in one**: for every interface table, `psutil.net_io_counters(pernic)` over the
    kernel-rendered file is exactly what the property promises: per interface the documented
    fields, the items in the order of the lines of the file; system-wide their field-wise sum;
    `{}` / `None` when nothing is listed. (`NetWF`: header lines and names without `\n`, names non-empty,
    not beginning or ending with a blank, pairwise distinct; `\r`, `:`, `/`, inner blanks allowed.) -/
theorem C09_net (h1 h2 : Bytes) (ifs : List Iface) (wf : NetWF netCfg.nameWs h1 h2 ifs) (pernic : Bool) :
    netIoCounters pernic (renderNetDev h1 h2 ifs) = (expectNet pernic ifs).toOut := by
  unfold netIoCounters
  rw [netPlatform_gen h1 h2 ifs wf]
  cases ifs with
  | nil => cases pernic <;> rfl
  | cons i r =>
    cases pernic with
    | true =>
      simp only [frontEnd, List.map_cons, List.isEmpty_cons, Bool.false_eq_true, if_false, if_true]
      have := perdevTuples_map Gen.C09.snetioFields (i :: r) (·.name) tuple8 (fun _ _ => rfl)
      simp only [List.map_cons] at this
      rw [this]
      rfl
    | false =>
      simp only [frontEnd, List.isEmpty_cons, List.map_cons, Bool.false_eq_true, if_false,
        List.map_map, Function.comp_def]
      have hs := aggregate_tuple8 i r
      simp only [List.map_cons] at hs
      rw [hs]
      simp only [expectNet, List.isEmpty_cons, Bool.false_eq_true, if_false, Expect.toOut]
      rw [sumFields_documented8]
      rfl

/-- per interface: exactly the kernel's counters under the documented names -/
theorem C09_net_roundtrip (h1 h2 : Bytes) (ifs : List Iface) (wf : NetWF netCfg.nameWs h1 h2 ifs) (hne : ifs ≠ []) :
    netIoCounters true (renderNetDev h1 h2 ifs) = .perdev (ifs.map fun i => (i.name, documented8 i)) := by
  rw [C09_net h1 h2 ifs wf true]
  cases ifs with
  | nil => exact absurd rfl hne
  | cons i r => rfl

/-- system-wide: the field-wise sum over all interfaces -/
theorem C09_net_total_is_sum (h1 h2 : Bytes) (ifs : List Iface) (wf : NetWF netCfg.nameWs h1 h2 ifs) (hne : ifs ≠ []) :
    netIoCounters false (renderNetDev h1 h2 ifs)
      = .total (netFieldNames.map fun f => (f, (ifs.map fun i => ((documented8 i).lookup f).getD 0).sum)) := by
  rw [C09_net h1 h2 ifs wf false]
  cases ifs with
  | nil => exact absurd rfl hne
  | cons i r => simp [expectNet, Expect.toOut, sumFields, List.map_map, Function.comp_def]

/-- why `rfind`: with `find` an interface whose name contains a colon (`a:b`) is cut at the
    first colon, the tail no longer starts with a number and the whole call fails -/
theorem C09_net_find_counterexample (i : Iface) (h : i.name = [97, 58, 98]) :
    netLine { netCfg with rfind := false } (renderNetLine i) = .err .valueError := by
  have hline : renderNetLine i = [32, 32, 32, 97] ++ 58 :: ([98, 58] ++ renderCells i.cells) := by
    simp [renderNetLine, h, padLeft]
  have hfind : findIdx? 58 (renderNetLine i) = some 4 := by
    rw [hline]; exact findIdx?_first 58 [32, 32, 32, 97] _ (by decide)
  have hsplit : splitP isWsT ([98, 58] ++ renderCells i.cells)
      = [98, 58] :: i.cells.map fun wv => renderDec wv.2 := by
    have := splitP_layout isWsT [] [98, 58] (i.cells.map cellItem) []
      (by intro c hc; cases hc) ⟨by decide, by simp [NoP, isWsT, isWs]⟩ (good_cellItems _)
      (by intro c hc; cases hc)
    rw [renderCells_glue]
    simpa [cellItem, List.map_map, Function.comp_def] using this
  unfold netLine
  simp only [Bool.false_eq_true, if_false, hfind]
  have hdrop : (renderNetLine i).drop (3 + 1 + 1) = [98, 58] ++ renderCells i.cells := by
    rw [hline]; rfl
  have huni : hasUniSpace ([98, 58] ++ renderCells i.cells) = false := by
    rw [hasUniSpace_append_left [98, 58] _ (by decide)]
    exact hasUniSpace_of_odd_free _ (fun c hc => odd_not_mem_renderCells c _ hc)
  simp only [hdrop, huni, Bool.false_eq_true, if_false, hsplit, ints]
  have : intTok [98, 58] = .err .valueError := by rfl
  simp [this, Res.bind]

/-! ### every name the kernel accepts (lead: control characters / Unicode spaces at the ends) -/

/-- full strength, **name only and per line**: the line of EVERY interface whose name is free of C-locale
    whitespace — so also one that begins or ends with 0x1c–0x1f, which `str.strip()` regards as whitespace —
    parses, and to that very name (the counters `t` are not constrained here: `C09_net_line_roundtrip`; the
    statement about whole files of such names is `C09_net_kernel_names`) -/
def C09_net_every_kernel_name_Full (cfg : NetCfg) : Prop :=
  ∀ i : Iface, KName i.name → ∃ t, netLine cfg (renderNetLine i) = .ok (i.name, t)

theorem wf_of_KName {n : Bytes} (h : KName n) : WFName (fun c => [32].contains c) n := by
  have hws : ∀ c, (∃ x, n.head? = some c ∨ n.getLast? = some c ∨ x = c) → c ∈ n → ([32].contains c) = false := by
    intro c _ hc
    have := h.2 c hc
    cases hcc : [32].contains c with
    | false => rfl
    | true =>
      simp at hcc
      rw [hcc] at this
      exact absurd this (by decide)
  refine ⟨h.1, ?_, ?_, ?_⟩
  · intro c hc
    exact hws c ⟨c, Or.inl hc⟩ (List.mem_of_mem_head? hc)
  · intro c hc
    exact hws c ⟨c, Or.inr (Or.inl hc)⟩ (List.mem_of_getLast? hc)
  · intro hm; exact absurd (h.2 10 hm) (by decide)

/-- with `line[:colon].strip(' ')` (only the kernel's padding is removed) the full statement holds -/
theorem C09_net_every_kernel_name_fixed :
    C09_net_every_kernel_name_Full { netCfg with stripSet := some [32] } := by
  intro i hk
  refine ⟨tuple8 i, ?_⟩
  rw [netLine_render { netCfg with stripSet := some [32] } C09_net_cfg.2.1 C09_net_cfg.2.2.1 rfl i (wf_of_KName hk)]
  rfl

/-- … hence for the code as extracted, as soon as the translator sees `.strip(' ')` -/
theorem C09_net_every_kernel_name (h : netCfg.stripSet = some [32]) :
    C09_net_every_kernel_name_Full netCfg := by
  have : netCfg = { netCfg with stripSet := some [32] } := by
    cases hc : netCfg with
    | mk a b c d e => rw [hc] at h; simp at h; simp [h]
  rw [this]
  exact C09_net_every_kernel_name_fixed

/-- **the full-strength name statement holds for the code as it is**: the translator-generated
    configuration strips only the kernel's padding, so every interface name free of C-locale
    whitespace is reported unchanged. A return to the bare `line[:colon].strip()` turns the fact
    `netNameStrip` into `none` and this theorem no longer builds. -/
theorem C09_net_names_full : C09_net_every_kernel_name_Full netCfg :=
  C09_net_every_kernel_name (by decide)

/-- **whole files of kernel names** (audit item 7): every table of pairwise distinct interfaces whose names are
    free of C-locale whitespace (`KName`: whatever `dev_valid_name` lets through, and more), under any two
    header lines, gives exactly the promised answer — no hypothesis phrased in terms of the code's strip set -/
theorem C09_net_kernel_names (h1 h2 : Bytes) (hh1 : 10 ∉ h1) (hh2 : 10 ∉ h2) (ifs : List Iface)
    (hk : ∀ i ∈ ifs, KName i.name) (hd : (ifs.map (·.name)).Nodup) (pernic : Bool) :
    netIoCounters pernic (renderNetDev h1 h2 ifs) = (expectNet pernic ifs).toOut := by
  have hs : netCfg.nameWs = fun c => [32].contains c := by
    funext c; simp [NetCfg.nameWs, show netCfg.stripSet = some [32] from by decide]
  exact C09_net h1 h2 ifs ⟨hh1, hh2, fun i hi => hs ▸ wf_of_KName (hk i hi), hd⟩ pernic

/-- with the bare `line[:colon].strip()` it is false: the interface named `a\x1f` is reported
    as `a` (and collides with a real `a`) -/
theorem C09_net_ctrl_name_counterexample :
    ¬ C09_net_every_kernel_name_Full { netCfg with stripSet := none } := by
  intro hfull
  let i : Iface := ⟨[97, 31], 0, 0, 0, 0, 0, 0, 0, 0, 0, 0, 0, 0, 0, 0, 0, 0⟩
  obtain ⟨t, ht⟩ := hfull i ⟨by decide, by decide⟩
  rw [netLine_render_raw { netCfg with stripSet := none } C09_net_cfg.2.1 C09_net_cfg.2.2.1 i (by decide)] at ht
  have hl : lookups (({ netCfg with stripSet := none } : NetCfg).unpack.zip (i.cells.map (·.2)))
      ({ netCfg with stripSet := none } : NetCfg).output = some (tuple8 i) := rfl
  rw [hl] at ht
  have hs : stripP ({ netCfg with stripSet := none } : NetCfg).nameWs (padLeft 6 i.name) = [97] := by decide
  simp only [hs] at ht
  injection ht with h1
  injection h1 with h2 _
  exact absurd h2 (by decide)

/-! ## /proc/diskstats -/

/-- 14 fields (2.6 … 4.17): field i of the kernel line lands in the documented field, sectors × 512 -/
theorem C09_disk_roundtrip_14 (maj min : Nat) (name : Bytes) (p : Bool) (s : Io11) (hn : WFDisk name) :
    diskLine diskCfg (renderDiskLine ⟨maj, min, name, p, .full s []⟩)
      = .ok (name, [s.reads, s.writes, s.sectorsRead * 512, s.sectorsWritten * 512, s.msReading,
                    s.msWriting, s.readsMerged, s.writesMerged, s.msIo]) :=
  diskLine_render ⟨maj, min, name, p, .full s []⟩ hn (Or.inl rfl)

/-- 18 fields (4.18+: four discard counters appended) -/
theorem C09_disk_roundtrip_18 (maj min : Nat) (name : Bytes) (p : Bool) (s : Io11)
    (d0 d1 d2 d3 : Nat) (hn : WFDisk name) :
    diskLine diskCfg (renderDiskLine ⟨maj, min, name, p, .full s [d0, d1, d2, d3]⟩)
      = .ok (name, [s.reads, s.writes, s.sectorsRead * 512, s.sectorsWritten * 512, s.msReading,
                    s.msWriting, s.readsMerged, s.writesMerged, s.msIo]) :=
  diskLine_render ⟨maj, min, name, p, .full s [d0, d1, d2, d3]⟩ hn (Or.inr (by simp))

/-- 20 fields (5.5+: two flush counters appended) -/
theorem C09_disk_roundtrip_20 (maj min : Nat) (name : Bytes) (p : Bool) (s : Io11)
    (d0 d1 d2 d3 f0 f1 : Nat) (hn : WFDisk name) :
    diskLine diskCfg (renderDiskLine ⟨maj, min, name, p, .full s [d0, d1, d2, d3, f0, f1]⟩)
      = .ok (name, [s.reads, s.writes, s.sectorsRead * 512, s.sectorsWritten * 512, s.msReading,
                    s.msWriting, s.readsMerged, s.writesMerged, s.msIo]) :=
  diskLine_render ⟨maj, min, name, p, .full s [d0, d1, d2, d3, f0, f1]⟩ hn (Or.inr (by simp))

/-- any future extension of the 18-field layout keeps the first fourteen fields' meaning -/
theorem C09_disk_roundtrip_ge18 (maj min : Nat) (name : Bytes) (p : Bool) (s : Io11)
    (ext : List Nat) (he : 4 ≤ ext.length) (hn : WFDisk name) :
    diskLine diskCfg (renderDiskLine ⟨maj, min, name, p, .full s ext⟩)
      = .ok (name, [s.reads, s.writes, s.sectorsRead * 512, s.sectorsWritten * 512, s.msReading,
                    s.msWriting, s.readsMerged, s.writesMerged, s.msIo]) :=
  diskLine_render ⟨maj, min, name, p, .full s ext⟩ hn (Or.inr he)

/-- 7 fields (2.6.0–2.6.24 partition lines): four counters, the other five fields are 0 -/
theorem C09_disk_roundtrip_7 (maj min : Nat) (name : Bytes) (p : Bool) (r sr w sw : Nat)
    (hn : WFDisk name) :
    diskLine diskCfg (renderDiskLine ⟨maj, min, name, p, .part r sr w sw⟩)
      = .ok (name, [r, w, sr * 512, sw * 512, 0, 0, 0, 0, 0]) :=
  diskLine_render ⟨maj, min, name, p, .part r sr w sw⟩ hn trivial

/-- 15 fields (psutil's "Linux 2.4" layout, as pinned by its test-suite) -/
theorem C09_disk_roundtrip_15 (maj min : Nat) (name : Bytes) (p : Bool) (s : Io11) (last : Nat)
    (hn : WFDisk name) :
    diskLine diskCfg (renderDiskLine ⟨maj, min, name, p, .old24 s last⟩)
      = .ok (name, [s.reads, s.writes, s.sectorsRead * 512, s.sectorsWritten * 512, s.msReading,
                    s.msWriting, s.readsMerged, s.writesMerged, s.msIo]) :=
  diskLine_render ⟨maj, min, name, p, .old24 s last⟩ hn trivial

/-- every other number of fields (0–6, 8–13, 16, 17) is no layout: ValueError, whatever the
    fields contain -/
theorem C09_disk_unknown_layout_ValueError (line : Bytes) (hu : hasUniSpace line = false)
    (h : layoutKnown (splitP isWsT line).length = false) :
    diskLine diskCfg line = .err .valueError := by
  unfold diskLine diskFields
  rw [hu, branch_unknown _ h]
  rfl

/-- … and one such line anywhere makes the whole call raise it -/
theorem C09_disk_unknown_layout_propagates (storage : Bytes → Bool) (perdisk : Bool)
    (pre : List Dev) (hpre : ∀ d ∈ pre, WFDisk d.name ∧ WFRec d.stat) (line : Bytes) (rest : List Bytes)
    (hu : hasUniSpace line = false) (h : layoutKnown (splitP isWsT line).length = false) (d : Dict) :
    diskFold diskCfg storage perdisk d (pre.map renderDiskLine ++ line :: rest) = .err .valueError := by
  induction pre generalizing d with
  | nil => simp [diskFold, C09_disk_unknown_layout_ValueError line hu h]
  | cons x r ih =>
    have hx := hpre x (by simp)
    simp only [List.map_cons, List.cons_append, diskFold, diskLine_render x hx.1 hx.2]
    split <;> exact ih (fun y hy => hpre y (by simp [hy])) _

/-- **disk, all in one**: for every device table mixing all layouts, with the kernel's
    `/sys/block`, `psutil.disk_io_counters(perdisk)` is exactly what the property promises:
    every listed device with its documented fields; system-wide the field-wise sum over the
    whole disks only; `{}` when nothing is listed, `None` when no whole disk is listed -/
theorem C09_disk (devs : List Dev) (wf : DiskWF devs) (perdisk : Bool) :
    diskIoCounters (sysBlock devs) perdisk (renderDiskstats devs) = (expectDisk perdisk devs).toOut := by
  unfold diskIoCounters
  rw [diskPlatform_render devs wf perdisk]
  cases perdisk with
  | true =>
    cases devs with
    | nil => rfl
    | cons d r =>
      simp only [frontEnd, if_true, List.map_cons, List.isEmpty_cons, Bool.false_eq_true, if_false]
      have := perdevTuples_map Gen.C09.sdiskioFields (d :: r) (·.name) (fun d => vals9 d.stat)
        (fun x _ => by cases x.stat <;> rfl)
      simp only [List.map_cons] at this
      rw [this]
      simp only [expectDisk, if_true, List.isEmpty_cons, Bool.false_eq_true, if_false, Expect.toOut,
        List.map_cons, zip_vals9]
  | false =>
    simp only [Bool.false_eq_true, if_false, expectDisk]
    cases hw : wholeDisks devs with
    | nil => rfl
    | cons d r =>
      simp only [frontEnd, List.map_cons, List.isEmpty_cons, Bool.false_eq_true, if_false,
        List.map_map, Function.comp_def, Expect.toOut]
      have hs := aggregate_vals9 d r
      simp only [List.map_cons] at hs
      rw [hs]
      have hf := sumFields_documented9 (d :: r)
      simp only [List.map_cons] at hf
      rw [hf]
      rfl

/-- **disk, any `/sys/block`** (audit item 7): the per-device form does not depend on `/sys/block` at all and
    needs only pairwise distinct names; the system-wide form is the sum over the whole disks for EVERY listing
    `sb` of `/sys/block` that lists the table's whole disks (under their `/` → `!` names) and none of its
    partitions — whatever else it lists (disks without a line in the file, other entries), in any order -/
theorem C09_disk_any_sysblock (devs : List Dev) (wf : DiskTable devs) (sb : List Bytes) (perdisk : Bool)
    (hl : perdisk = false → ∀ d ∈ devs, (sysName d.name ∈ sb ↔ d.partition = false) ∧
            sysName d.name ≠ [46] ∧ sysName d.name ≠ [46, 46]) :
    diskIoCounters sb perdisk (renderDiskstats devs) = (expectDisk perdisk devs).toOut := by
  have hp := diskPlatform_render_st devs wf perdisk (isStorageDevice diskCfg sb)
    (fun hper d hd => isStorage_of_listing devs sb (fun x hx => (hl hper x hx).1) (fun x hx => (hl hper x hx).2) d hd)
  have hstd : diskIoCounters sb perdisk (renderDiskstats devs)
      = frontEnd Gen.C09.sdiskioFields diskAgg diskEmptyPer diskEmptyTot perdisk
          (.ok ((if perdisk then devs else wholeDisks devs).map fun d => (d.name, vals9 d.stat))) := by
    unfold diskIoCounters; rw [hp]
  rw [hstd, frontEnd_disk]
  cases expectDisk perdisk devs <;> rfl

/-- per device: every listed device (disk or partition) with exactly its documented fields -/
theorem C09_disk_roundtrip (devs : List Dev) (wf : DiskWF devs) (hne : devs ≠ []) :
    diskIoCounters (sysBlock devs) true (renderDiskstats devs)
      = .perdev (devs.map fun d => (d.name, documented9 d.stat)) := by
  rw [C09_disk devs wf true]
  cases devs with
  | nil => exact absurd rfl hne
  | cons d r => rfl

/-- system-wide: the field-wise sum over the whole disks only -/
theorem C09_total_is_sum_of_whole_disks (devs : List Dev) (wf : DiskWF devs)
    (hne : wholeDisks devs ≠ []) :
    diskIoCounters (sysBlock devs) false (renderDiskstats devs)
      = .total (diskFieldNames.map fun f =>
          (f, ((wholeDisks devs).map fun d => ((documented9 d.stat).lookup f).getD 0).sum)) := by
  rw [C09_disk devs wf false]
  cases hw : wholeDisks devs with
  | nil => exact absurd hw hne
  | cons d r => simp [expectDisk, hw, Expect.toOut, sumFields, List.map_map, Function.comp_def]

/-- nothing is counted twice: deleting every partition line from the file (and nothing from
    `/sys/block`) leaves the system-wide total unchanged -/
theorem C09_partitions_do_not_count (devs : List Dev) (wf : DiskWF devs) :
    diskIoCounters (sysBlock devs) false (renderDiskstats devs)
      = diskIoCounters (sysBlock (wholeDisks devs)) false (renderDiskstats (wholeDisks devs)) := by
  rw [C09_disk devs wf false, C09_disk _ (diskWF_wholeDisks wf) false]
  have : wholeDisks (wholeDisks devs) = wholeDisks devs := by simp [wholeDisks]
  simp only [expectDisk, this, Bool.false_eq_true, if_false]

/-- nothing listed → `None` for the total, `{}` per device (both functions; also a file with
    only partitions gives `None` for the disk total) -/
theorem C09_empty_convention (h1 h2 : Bytes) (wf : NetWF netCfg.nameWs h1 h2 []) :
    netIoCounters false (renderNetDev h1 h2 []) = .none ∧
    netIoCounters true (renderNetDev h1 h2 []) = .emptyDict ∧
    diskIoCounters [] false [] = .none ∧
    diskIoCounters [] true [] = .emptyDict ∧
    netIoCounters false [] = .none ∧ netIoCounters true [] = .emptyDict := by
  refine ⟨?_, ?_, by rfl, by rfl, by rfl, by rfl⟩
  · rw [C09_net h1 h2 [] wf false]; rfl
  · rw [C09_net h1 h2 [] wf true]; rfl

theorem C09_only_partitions_none (devs : List Dev) (wf : DiskWF devs) (h : wholeDisks devs = []) :
    diskIoCounters (sysBlock devs) false (renderDiskstats devs) = .none := by
  rw [C09_disk devs wf false]
  simp [expectDisk, h, Expect.toOut]

/-! ## the front ends' system-wide branch (translator fact `frontTotal`) -/

/-- both front ends compute the total as `CTOR(*(sum(x) for x in zip(*rawdict.values())))`;
    `C09_net`, `C09_net_total_is_sum`, `C09_disk`, `C09_total_is_sum_of_whole_disks`,
    `C09_sysfs*` go through this shape end to end (file text → raw dict → `zip` → `sum` → tuple) -/
theorem C09_front_total_shape :
    Gen.C09.frontTotal = [("sum", "zip(*rawdict.values())"), ("sum", "zip(*rawdict.values())")] := by decide

/-- why the shape matters: with `max` in place of `sum` the modelled front end returns, for two
    interfaces, the larger counter instead of the sum -/
theorem C09_front_total_max_counterexample :
    frontEnd Gen.C09.snetioFields { netAgg with reducer := "max" } netEmptyPer netEmptyTot false
        (.ok [([97], [1, 1, 1, 1, 1, 1, 1, 1]), ([98], [2, 2, 2, 2, 2, 2, 2, 2])])
      = .total (netFieldNames.map fun f => (f, 2)) ∧
    frontEnd Gen.C09.snetioFields netAgg netEmptyPer netEmptyTot false
        (.ok [([97], [1, 1, 1, 1, 1, 1, 1, 1]), ([98], [2, 2, 2, 2, 2, 2, 2, 2])])
      = .total (netFieldNames.map fun f => (f, 3)) := ⟨by rfl, by rfl⟩

/-! ## `int()` on the tokens of a text-mode `/proc` or `/sys` file -/

/-- what the kernel prints (`%u`, `%lu`, `%llu`: decimal digits only) is read back as the number
    printed, whatever else `int()` accepts -/
theorem C09_int_kernel_token (n : Nat) : intTok (renderDec n) = .ok n := intTok_renderDec n

/-- on every digits-only token `int()` is plain decimal reading (leading zeros allowed) -/
theorem C09_int_plain (t : Bytes) (h : PlainTok t) : pyInt? t = (parseDec? t).map Int.ofNat :=
  pyInt_plain t h

/-- the rest of `int()`'s acceptance on ASCII tokens, as modelled (and compared with CPython on
    every token of length ≤ 4 over `+-_019x`, blank, 0x1f by the correspondence): sign, single
    underscores between digits, surrounding blanks — but not 0x1c–0x1f, which only `str.strip()`
    and `str.split()` treat as whitespace -/
theorem C09_int_acceptance :
    pyInt? [43, 53] = some 5 ∧ pyInt? [49, 95, 48] = some 10 ∧ pyInt? [45, 48] = some 0 ∧
    pyInt? [48, 48, 49, 50] = some 12 ∧ pyInt? [32, 53, 10] = some 5 ∧ pyInt? [45, 53] = some (-5) ∧
    pyInt? [95, 49] = none ∧ pyInt? [49, 95] = none ∧ pyInt? [49, 95, 95, 48] = none ∧
    pyInt? [43] = none ∧ pyInt? [] = none ∧ pyInt? [53, 31] = none ∧ pyInt? [43, 45, 53] = none ∧
    pyInt? [49, 32, 50] = none := by decide

/-- outside the value domain of the model — reported as such, never as a value: a negative
    literal, a token with a non-ASCII byte, a line whose device name contains U+00A0 -/
theorem C09_outside_the_model :
    intTok [45, 53] = .err .unmodelled ∧ intTok [0xD9, 0xA1] = .err .unmodelled ∧
    diskLine diskCfg [56, 32, 48, 32, 115, 0xC2, 0xA0, 100, 32, 49] = .err .unmodelled := ⟨by rfl, by rfl, by rfl⟩

/-! ## /sys/block (`read_sysfs`: the source when `/proc/diskstats` does not exist) -/

/-- the translator's view of `read_sysfs` and of the choice between the sources -/
theorem C09_disk_sources :
    Gen.C09.diskSources = [("read_procfs", "{get_procfs_path()}/diskstats"), ("read_sysfs", "/sys/block")] ∧
    Gen.C09.diskNoSource = "NotImplementedError" ∧
    Gen.C09.sysfsShape = ["/sys/block", "os.walk(os.path.join('/sys/block', block))", "'stat' not in files",
      "open_text(os.path.join(root, 'stat'))", "fields = f.read().strip().split()"] ∧
    sysfsCfg.statName = statName ∧ sysfsCfg.take = 10 := by decide

/-- `/proc/diskstats` is preferred whenever it exists (then `/sys/block` only answers
    `is_storage_device`); with neither source the call raises `NotImplementedError` -/
theorem C09_source_dispatch (f : Bytes) (tree : List SysDir) (perdisk : Bool) :
    diskIoCountersW ⟨some f, some tree⟩ perdisk = diskIoCounters (tree.map (·.name)) perdisk f ∧
    diskIoCountersW ⟨some f, none⟩ perdisk
      = frontEnd Gen.C09.sdiskioFields diskAgg diskEmptyPer diskEmptyTot perdisk
          (diskPlatform diskCfg (fun _ => false) perdisk f) ∧
    diskIoCountersW ⟨none, none⟩ perdisk = .exc .notImplementedError := ⟨by rfl, by rfl, by rfl⟩

/-- 11 fields (2.6 … 4.17): field i of the `stat` file lands in the documented field, sectors × 512 -/
theorem C09_sysfs_roundtrip_11 (s : Io11) :
    (sysfsStat sysfsCfg diskCfg.univNl (renderStat s [])).bind (storeEntry diskCfg)
      = .ok [s.reads, s.writes, s.sectorsRead * 512, s.sectorsWritten * 512, s.msReading,
             s.msWriting, s.readsMerged, s.writesMerged, s.msIo] :=
  sysfsStat_render _ s []

/-- 15 fields (4.18+: four discard counters appended) -/
theorem C09_sysfs_roundtrip_15 (s : Io11) (d0 d1 d2 d3 : Nat) :
    (sysfsStat sysfsCfg diskCfg.univNl (renderStat s [d0, d1, d2, d3])).bind (storeEntry diskCfg)
      = .ok [s.reads, s.writes, s.sectorsRead * 512, s.sectorsWritten * 512, s.msReading,
             s.msWriting, s.readsMerged, s.writesMerged, s.msIo] :=
  sysfsStat_render _ s _

/-- 17 fields (5.5+: two flush counters appended) -/
theorem C09_sysfs_roundtrip_17 (s : Io11) (d0 d1 d2 d3 f0 f1 : Nat) :
    (sysfsStat sysfsCfg diskCfg.univNl (renderStat s [d0, d1, d2, d3, f0, f1])).bind (storeEntry diskCfg)
      = .ok [s.reads, s.writes, s.sectorsRead * 512, s.sectorsWritten * 512, s.msReading,
             s.msWriting, s.readsMerged, s.writesMerged, s.msIo] :=
  sysfsStat_render _ s _

/-- any later extension keeps the first ten fields' meaning -/
theorem C09_sysfs_roundtrip_ge11 (s : Io11) (ext : List Nat) :
    (sysfsStat sysfsCfg diskCfg.univNl (renderStat s ext)).bind (storeEntry diskCfg)
      = .ok [s.reads, s.writes, s.sectorsRead * 512, s.sectorsWritten * 512, s.msReading,
             s.msWriting, s.readsMerged, s.writesMerged, s.msIo] :=
  sysfsStat_render _ s ext

/-- a `stat` file with 1 … 9 fields: ValueError -/
theorem C09_sysfs_short_stat_ValueError (vs : List Nat) (h : vs.length < 10) (hne : vs ≠ []) :
    sysfsStat sysfsCfg diskCfg.univNl (renderStatLine vs) = .err .valueError :=
  sysfsStat_short _ vs h hne

/-- the two treatments of the directory name the translator recognises -/
def sysfsFixedCfg : SysfsCfg := sysfsCfgWith (some (33, 47))     -- `os.path.basename(root).replace('!', '/')`
def sysfsBareCfg : SysfsCfg := sysfsCfgWith none                 -- `os.path.basename(root)`

/-- obligation on the generated configuration (holds before and after fixes/C09-sysfs-slash-name):
    the name is either the bare directory name or that name with `!` mapped back to `/` -/
theorem C09_sysfs_name_cfg :
    sysfsCfg.nameReplace = none ∨ sysfsCfg.nameReplace = some (33, 47) := by decide

theorem sysfsCfg_eq : sysfsCfg = sysfsCfgWith sysfsCfg.nameReplace := rfl

theorem sysfs_with (nr : Option (Nat × Nat)) (hn : NameOk nr) (disks : List SysDisk) (wf : SysWF disks)
    (perdisk : Bool) :
    diskIoCountersWith (sysfsCfgWith nr) ⟨none, some (renderSysfs disks)⟩ perdisk
      = (expectDisk perdisk (namedBy nr (sysDevs disks))).toOut := by
  unfold diskIoCountersWith
  rw [sysfsPlatform_render nr hn disks wf perdisk, frontEnd_disk]
  cases expectDisk perdisk (namedBy nr (sysDevs disks)) <;> rfl

/-- **sysfs, as generated**: for every kernel-shaped `/sys/block` (disks with 11/15/17-or-more-field
    `stat` files, partitions below them, other attribute files and directories around), with
    `/proc/diskstats` absent, `psutil.disk_io_counters(perdisk)` gives every device — under the name
    `read_sysfs` computes for it — with its documented fields; system-wide the field-wise sum over
    the whole disks only; `{}` / `None` when nothing is listed. Builds for either treatment of the name. -/
theorem C09_sysfs_as_generated (disks : List SysDisk) (wf : SysWF disks) (perdisk : Bool) :
    diskIoCountersW ⟨none, some (renderSysfs disks)⟩ perdisk
      = (expectDisk perdisk (namedBy sysfsCfg.nameReplace (sysDevs disks))).toOut :=
  sysfs_with sysfsCfg.nameReplace (nameOk_of _ C09_sysfs_name_cfg) disks wf perdisk

/-- **sysfs, all in one, at full strength** — with `.replace('!', '/')` in `read_sysfs`: exactly what
    the property promises, every device under the kernel's own name (no `!` in a kernel name) -/
theorem C09_sysfs_fixed (disks : List SysDisk) (wf : SysWF disks)
    (hbang : ∀ d ∈ sysDevs disks, 33 ∉ d.name) (perdisk : Bool) :
    diskIoCountersWith sysfsFixedCfg ⟨none, some (renderSysfs disks)⟩ perdisk
      = (expectSysfs perdisk disks).toOut := by
  unfold sysfsFixedCfg expectSysfs
  rw [sysfs_with _ nameOk_unbang disks wf perdisk, namedBy_unbang _ hbang]

/-- … with the bare `basename(root)`: every device under its *directory* name (`cciss!c0d0`) -/
theorem C09_sysfs_unrepaired (disks : List SysDisk) (wf : SysWF disks) (perdisk : Bool) :
    diskIoCountersWith sysfsBareCfg ⟨none, some (renderSysfs disks)⟩ perdisk
      = (expectDisk perdisk (sysfsNamed (sysDevs disks))).toOut :=
  sysfs_with none nameOk_none disks wf perdisk

/-- … hence for the code as extracted, as soon as the translator sees the `.replace('!', '/')` -/
theorem C09_sysfs (h : sysfsCfg.nameReplace = some (33, 47)) (disks : List SysDisk) (wf : SysWF disks)
    (hbang : ∀ d ∈ sysDevs disks, 33 ∉ d.name) (perdisk : Bool) :
    diskIoCountersW ⟨none, some (renderSysfs disks)⟩ perdisk = (expectSysfs perdisk disks).toOut := by
  rw [C09_sysfs_as_generated disks wf perdisk, h, namedBy_unbang _ hbang]
  rfl

/-- per device (as generated): every disk and partition directory with exactly its documented fields -/
theorem C09_sysfs_roundtrip (disks : List SysDisk) (wf : SysWF disks) (hne : disks ≠ []) :
    diskIoCountersW ⟨none, some (renderSysfs disks)⟩ true
      = .perdev ((namedBy sysfsCfg.nameReplace (sysDevs disks)).map fun d => (d.name, documented9 d.stat)) := by
  rw [C09_sysfs_as_generated disks wf true]
  cases disks with
  | nil => exact absurd rfl hne
  | cons d r => rfl

/-- system-wide through sysfs (as generated; the names play no role): the sum over the directories
    listed in `/sys/block` only — partition directories are not counted twice -/
theorem C09_sysfs_total_is_sum_of_whole_disks (disks : List SysDisk) (wf : SysWF disks) (hne : disks ≠ []) :
    diskIoCountersW ⟨none, some (renderSysfs disks)⟩ false
      = .total (diskFieldNames.map fun f =>
          (f, ((wholeDisks (sysDevs disks)).map fun d => ((documented9 d.stat).lookup f).getD 0).sum)) := by
  rw [C09_sysfs_as_generated disks wf false]
  have hmap : (wholeDisks (namedBy sysfsCfg.nameReplace (sysDevs disks))).map (·.stat)
      = (wholeDisks (sysDevs disks)).map (·.stat) := by
    generalize sysDevs disks = devs
    induction devs with
    | nil => rfl
    | cons d r ih =>
      simp only [wholeDisks, namedBy, List.map_cons, List.filter_cons] at ih ⊢
      split <;> simp [ih]
  have hsum : ∀ (l : List Dev) (f : String),
      (l.map fun d => ((documented9 d.stat).lookup f).getD 0) = (l.map (·.stat)).map fun r => ((documented9 r).lookup f).getD 0 := by
    intro l f; simp [List.map_map, Function.comp_def]
  cases hw : wholeDisks (namedBy sysfsCfg.nameReplace (sysDevs disks)) with
  | nil =>
    cases disks with
    | nil => exact absurd rfl hne
    | cons d r => simp [wholeDisks, namedBy, sysDevs, SysDisk.devs] at hw
  | cons d r =>
    simp only [expectDisk, hw, Bool.false_eq_true, if_false, List.isEmpty_cons, Expect.toOut, sumFields]
    congr 1
    apply List.map_congr_left
    intro f _
    rw [List.map_map, ← hw]
    have := hsum (wholeDisks (namedBy sysfsCfg.nameReplace (sysDevs disks))) f
    simp only [Function.comp_def] at this ⊢
    rw [this, hmap, ← hsum]

/-- full strength: both sources give the same answer for the same kernel state (kernel names are
    single tokens without `!`) -/
def C09_sysfs_agrees_with_procfs_Full (sc : SysfsCfg) : Prop :=
  ∀ (disks : List SysDisk), SysWF disks → DiskWF (sysDevs disks) → (∀ d ∈ sysDevs disks, 33 ∉ d.name) →
    ∀ perdisk : Bool,
      diskIoCountersWith sc ⟨none, some (renderSysfs disks)⟩ perdisk
        = diskIoCountersWith sc ⟨some (renderDiskstats (sysDevs disks)), some (renderSysfs disks)⟩ perdisk

theorem procfs_world (sc : SysfsCfg) (disks : List SysDisk) (wfp : DiskWF (sysDevs disks)) (perdisk : Bool) :
    diskIoCountersWith sc ⟨some (renderDiskstats (sysDevs disks)), some (renderSysfs disks)⟩ perdisk
      = (expectDisk perdisk (sysDevs disks)).toOut := by
  have h : diskIoCountersWith sc ⟨some (renderDiskstats (sysDevs disks)), some (renderSysfs disks)⟩ perdisk
      = diskIoCounters ((renderSysfs disks).map (·.name)) perdisk (renderDiskstats (sysDevs disks)) := rfl
  have hb : sysBlock (sysfsNamed (sysDevs disks)) = sysBlock (sysDevs disks) := by
    simp [sysBlock, sysfsNamed, List.filter_map, List.map_map, Function.comp_def, sysName_idem]
  rw [h, sysBlock_render, hb, C09_disk _ wfp perdisk]

/-- **both sources agree** — at full strength — with `.replace('!', '/')` in `read_sysfs` -/
theorem C09_sysfs_agrees_with_procfs_fixed : C09_sysfs_agrees_with_procfs_Full sysfsFixedCfg := by
  intro disks wf wfp hbang perdisk
  rw [C09_sysfs_fixed disks wf hbang perdisk, procfs_world _ disks wfp perdisk]
  rfl

/-- … hence for the code as extracted, as soon as the translator sees the `.replace('!', '/')` -/
theorem C09_sysfs_agrees_with_procfs (h : sysfsCfg.nameReplace = some (33, 47)) :
    C09_sysfs_agrees_with_procfs_Full sysfsCfg := by
  have : sysfsCfg = sysfsFixedCfg := by rw [sysfsCfg_eq, h]; rfl
  rw [this]
  exact C09_sysfs_agrees_with_procfs_fixed

/-- with the bare `basename(root)` the sources agree only when no device name contains `/` -/
theorem C09_sysfs_agrees_with_procfs_slashfree (disks : List SysDisk) (wf : SysWF disks)
    (wfp : DiskWF (sysDevs disks)) (hslash : ∀ d ∈ sysDevs disks, 47 ∉ d.name) (perdisk : Bool) :
    diskIoCountersWith sysfsBareCfg ⟨none, some (renderSysfs disks)⟩ perdisk
      = diskIoCountersWith sysfsBareCfg ⟨some (renderDiskstats (sysDevs disks)), some (renderSysfs disks)⟩ perdisk := by
  rw [C09_sysfs_unrepaired disks wf perdisk, procfs_world _ disks wfp perdisk, sysfsNamed_id _ hslash]

/-- … and it is false in general (finding C09-sysfs-slash-name): a disk the kernel calls `c/d` is
    reported as `c!d` when the counters come from `/sys/block` and as `c/d` when they come from
    `/proc/diskstats` -/
theorem C09_sysfs_slash_name_counterexample : ¬ C09_sysfs_agrees_with_procfs_Full sysfsBareCfg := by
  intro hfull
  let s : Io11 := ⟨1, 2, 3, 4, 5, 6, 7, 8, 9, 10, 11⟩
  let disks : List SysDisk := [⟨8, 0, [99, 47, 100], s, [], [], [], []⟩]
  have wf : SysWF disks := by
    refine ⟨?_, ⟨by decide, by decide⟩⟩
    intro d hd
    simp only [disks, List.mem_singleton] at hd
    subst hd
    exact ⟨rfl, (by intro e he; simp [walkList_nil] at he), (by intro p hp; cases hp), (by intro p hp; cases hp)⟩
  have wfp : DiskWF (sysDevs disks) := by
    refine ⟨?_, ?_, by decide, by decide⟩
    · intro d hd
      simp only [disks, sysDevs, SysDisk.devs, List.flatMap_cons, List.flatMap_nil, List.map_nil,
        List.append_nil, List.mem_singleton] at hd
      subst hd
      exact ⟨by decide, by simp [NoP, isWsT, isWs], by rfl⟩
    · intro d hd
      simp only [disks, sysDevs, SysDisk.devs, List.flatMap_cons, List.flatMap_nil, List.map_nil,
        List.append_nil, List.mem_singleton] at hd
      subst hd
      simp [WFRec]
  have h := hfull disks wf wfp (by decide) true
  rw [C09_sysfs_unrepaired disks wf true, procfs_world _ disks wfp true] at h
  simp only [expectDisk, disks, sysDevs, SysDisk.devs, sysfsNamed, List.flatMap_cons,
    List.flatMap_nil, List.map_nil, List.append_nil, List.map_cons, if_true, List.isEmpty_cons,
    Bool.false_eq_true, if_false, Expect.toOut] at h
  injection h with h1
  injection h1 with h2 _
  injection h2 with h3 _
  exact absurd h3 (by decide)

/-- proof obligation on the translator's fact (fix da4a5df landed): `read_sysfs` maps the sysfs
    directory name back with `.replace('!', '/')`; a return to the bare `basename(root)` breaks this -/
theorem cfg_sysfs_unbang : sysfsCfg.nameReplace = some (33, 47) := by decide

/-- both sources agree for the code as it is -/
theorem C09_sysfs_agrees_with_procfs_full : C09_sysfs_agrees_with_procfs_Full sysfsCfg :=
  C09_sysfs_agrees_with_procfs cfg_sysfs_unbang

/-! ## disk_usage -/

/-- the `os.statvfs` result as the model's environment -/
def envOf (st : StatVfs) : List (String × Int) :=
  [("st.f_bsize", st.bsize), ("st.f_frsize", st.frsize), ("st.f_blocks", st.blocks),
   ("st.f_bfree", st.bfree), ("st.f_bavail", st.bavail), ("st.f_files", st.files),
   ("st.f_ffree", st.ffree), ("st.f_favail", st.favail), ("st.f_flag", st.flag),
   ("st.f_namemax", st.namemax)]

/-- `total = blocks·frsize`, `used = total − bfree·frsize`, `free = bavail·frsize`,
    `percent = round(used / (used + free) · 100, 1)` (0 when `used + free = 0`): the model RETURNS the
    rounded value (`percent`), `percentExact` is the ratio before rounding -/
theorem C09_disk_usage (st : StatVfs) :
    diskUsage usageCfg (envOf st)
      = some { total := (usage st).total, used := (usage st).used, free := (usage st).free,
               percentExact := (usage st).percent, percent := roundTo 1 (usage st).percent, roundDigits := 1 } := by
  rfl

/-- **the returned percentage** (audit item 4): a multiple of 1/10 within 0.05 of used / (used + free) · 100,
    and inside [0, 100] on a file system whose free count does not exceed its size. (CPython computes it on
    IEEE doubles: the float error is TRUSTED, the correspondence compares at 1e-9.) -/
theorem C09_disk_usage_percent_returned (st : StatVfs) :
    ∃ u, diskUsage usageCfg (envOf st) = some u ∧
      |u.percent - (usage st).percent| ≤ 1 / 20 ∧ u.percent = round1 (usage st).percent ∧
      (st.bfree ≤ st.blocks → 0 ≤ u.percent ∧ u.percent ≤ 100) := by
  refine ⟨_, C09_disk_usage st, ?_, roundTo_one _, ?_⟩
  · simp only [roundTo_one]; exact round1_close _
  · intro h
    simp only [roundTo_one]
    exact round1_range _ (usage_percent_range st h).1 (usage_percent_range st h).2

/-- on a file system whose free count does not exceed its size, 0 ≤ percent ≤ 100 -/
theorem C09_usage_percent_range (st : StatVfs) (h : st.bfree ≤ st.blocks) :
    0 ≤ (usage st).percent ∧ (usage st).percent ≤ 100 := usage_percent_range st h

/-- `used + free ≤ total` whenever the space available to users does not exceed the space free for root -/
theorem C09_usage_within_total (st : StatVfs) (h : st.bavail ≤ st.bfree) :
    (usage st).used + (usage st).free ≤ (usage st).total := usage_within_total st h

/-- rounding to one decimal moves a value by at most 0.05 (lemma about `round1`; the statement about the value
    `disk_usage` returns is `C09_disk_usage_percent_returned`) -/
theorem C09_usage_round1_close (q : Rat) : |round1 q - q| ≤ 1 / 20 := round1_close q

/-! ## /sys/block in any listing order -/

theorem sysfs_with_any_order (nr : Option (Nat × Nat)) (hn : NameOk nr) (disks : List SysDisk) (wf : SysWF disks)
    (tree : List SysDir) (hl : SysListing tree disks) (perdisk : Bool) :
    ∃ devs' : List Dev, devs'.Perm (namedBy nr (sysDevs disks)) ∧
      diskIoCountersWith (sysfsCfgWith nr) ⟨none, some tree⟩ perdisk = (expectDisk perdisk devs').toOut := by
  obtain ⟨devs', hp, he⟩ := sysfsPlatform_any_order nr hn disks wf tree hl perdisk
  refine ⟨devs', hp, ?_⟩
  unfold diskIoCountersWith
  rw [he, frontEnd_disk]
  cases expectDisk perdisk devs' <;> rfl

/-- **sysfs, any listing order, code as it is**: whatever order `os.listdir('/sys/block')` and the
    `os.walk`s below it list the entries in (disks, partition and attribute directories interleaved,
    files), the answer is the promised one as a `dict` (same keys, same values) -/
theorem C09_sysfs_any_order (disks : List SysDisk) (wf : SysWF disks) (hbang : ∀ d ∈ sysDevs disks, 33 ∉ d.name)
    (tree : List SysDir) (hl : SysListing tree disks) (perdisk : Bool) :
    ∃ e : Expect, diskIoCountersW ⟨none, some tree⟩ perdisk = e.toOut ∧ e.same (expectSysfs perdisk disks) := by
  obtain ⟨devs', hp, he⟩ := sysfs_with_any_order sysfsCfg.nameReplace (nameOk_of _ C09_sysfs_name_cfg) disks wf tree hl perdisk
  refine ⟨expectDisk perdisk devs', he, ?_⟩
  rw [cfg_sysfs_unbang, namedBy_unbang _ hbang] at hp
  exact expectDisk_perm perdisk _ _ hp

/-- … and the system-wide total is literally the same value: the sum over the whole disks, each once -/
theorem C09_sysfs_total_any_order (disks : List SysDisk) (wf : SysWF disks) (tree : List SysDir)
    (hl : SysListing tree disks) :
    diskIoCountersW ⟨none, some tree⟩ false = diskIoCountersW ⟨none, some (renderSysfs disks)⟩ false := by
  obtain ⟨devs', hp, he⟩ := sysfs_with_any_order sysfsCfg.nameReplace (nameOk_of _ C09_sysfs_name_cfg) disks wf tree hl false
  have h1 : diskIoCountersW ⟨none, some tree⟩ false = (expectDisk false devs').toOut := he
  rw [h1, C09_sysfs_as_generated disks wf false, expectDisk_total_perm _ _ hp]

/-- the canonical rendering is one of the listings (the hypothesis is satisfiable), and so is the same
    state with the two disks, the `stat` file and the sub-directories listed the other way round -/
theorem C09_sysfs_listing_examples (disks : List SysDisk) :
    SysListing (renderSysfs disks) disks ∧
    SysListing
      [.node [115, 100, 98] [(statName, renderStat ⟨1, 2, 3, 4, 5, 6, 7, 8, 9, 10, 11⟩ [])] [],
       .node [115, 100, 97] [(statName, renderStat ⟨1, 2, 3, 4, 5, 6, 7, 8, 9, 10, 11⟩ []), ([100, 101, 118], [56])]
         [.node [113] [] [], .node [115, 100, 97, 49] [(statName, renderStat ⟨1, 2, 3, 4, 5, 6, 7, 8, 9, 10, 11⟩ [])] []]]
      [⟨8, 0, [115, 100, 97], ⟨1, 2, 3, 4, 5, 6, 7, 8, 9, 10, 11⟩, [], [([100, 101, 118], [56])], [.node [113] [] []],
         [⟨1, [115, 100, 97, 49], ⟨1, 2, 3, 4, 5, 6, 7, 8, 9, 10, 11⟩, [], [], []⟩]⟩,
       ⟨8, 16, [115, 100, 98], ⟨1, 2, 3, 4, 5, 6, 7, 8, 9, 10, 11⟩, [], [], [], []⟩] := by
  refine ⟨sysListing_render disks, ?_⟩
  refine ⟨_, .cons _ _ _ _ _ _ ?_ (.cons _ _ _ _ _ (List.Perm.refl _) (List.Perm.refl _) .nil) ?_
    (.cons _ _ _ [] _ _ (List.Perm.refl _) .nil (List.Perm.refl _) .nil), List.Perm.swap _ _ _⟩
  · exact List.Perm.swap _ _ _
  · exact List.Perm.swap _ _ _

/-! ## disk_usage: units -/

/-- **which unit each count is in**: all three block counts of `statvfs` (`f_blocks`, `f_bfree`, `f_bavail`)
    are multiplied by the fragment size `f_frsize`; in bytes: total = blocks·frsize,
    used = (blocks − bfree)·frsize, free = bavail·frsize -/
theorem C09_disk_usage_units (st : StatVfs) :
    ∃ u, diskUsage usageCfg (envOf st) = some u ∧
      u.total = (st.blocks : Int) * st.frsize ∧ u.used = ((st.blocks : Int) - st.bfree) * st.frsize ∧
      u.free = (st.bavail : Int) * st.frsize := by
  refine ⟨_, C09_disk_usage st, rfl, ?_, rfl⟩
  simp only [usage]
  rw [Int.sub_mul]

/-- … and the preferred I/O block size `f_bsize` (or any other field of the record) plays no role -/
theorem C09_disk_usage_ignores_bsize (st : StatVfs) (b files ffree favail flag namemax : Nat) :
    diskUsage usageCfg (envOf { st with bsize := b, files := files, ffree := ffree, favail := favail,
                                        flag := flag, namemax := namemax })
      = diskUsage usageCfg (envOf st) := by
  rw [C09_disk_usage, C09_disk_usage]
  rfl

/-- why the unit matters (seeded change C09-3): with the free counts scaled by `f_bsize` instead, a
    file system of 100 fragments of 512 B, 50 of them free, with a 4096 B preferred block size would
    report used = 51200 − 204800 < 0 -/
theorem C09_disk_usage_bsize_counterexample :
    (diskUsage { usageCfg with assigns := usageCfg.assigns.map fun a =>
                  if a.lhs = "st.f_bfree" ∨ a.lhs = "st.f_bavail" then { a with rhs := "st.f_bsize" } else a }
        (envOf ⟨4096, 512, 100, 50, 40, 0, 0, 0, 0, 0⟩)).map (fun u => (u.total, u.used, u.free))
      = some (51200, -153600, 163840) ∧
    (diskUsage usageCfg (envOf ⟨4096, 512, 100, 50, 40, 0, 0, 0, 0, 0⟩)).map (fun u => (u.total, u.used, u.free))
      = some (51200, 25600, 20480) := by
  constructor <;> decide

/-- the call as a whole: an `OSError` of `os.statvfs` (ENOENT, EACCES, EIO …) reaches the caller with
    its errno; otherwise the record is turned into the documented values -/
theorem C09_disk_usage_call (e : Nat) (st : StatVfs) :
    diskUsageCall usageCfg (.error e) = .raised e ∧
    diskUsageCall usageCfg (.ok (envOf st))
      = .value (some { total := (usage st).total, used := (usage st).used, free := (usage st).free,
                       percentExact := (usage st).percent, percent := roundTo 1 (usage st).percent,
                       roundDigits := 1 }) :=
  ⟨rfl, by rw [diskUsageCall, C09_disk_usage]⟩

/-! ## translator-fed obligations of the second extension round -/

/-- `assert colon > 0`: the model's `netLine` raises AssertionError exactly for "no colon" and "colon at
    index 0" — the fact says the smallest accepted index is 1 -/
theorem C09_net_colon_assert :
    Gen.C09.netMinColon = 1 ∧
    -- `fields = line[colon + 1:]…`: the counters start right after the colon (the model's `line.drop (colon + 1)`;
    -- kernels before 2.6 printed "%6s:%8lu", a wide first counter touches the colon)
    Gen.C09.netFieldsOffset = 1 ∧ netLine netCfg [58, 32, 49] = .err .assertionError ∧
    netLine netCfg [32, 49] = .err .assertionError ∧
    -- index 1 passes the assertion (and then fails for having one value instead of sixteen)
    netLine netCfg [97, 58, 32, 49] = .err .valueError :=
  ⟨by decide, by decide, by rfl, by rfl, by rfl⟩

/-- a call without `perdisk` / `pernic` asks for the system-wide form (`C09_net … false`, `C09_disk … false`) -/
theorem C09_front_defaults : Gen.C09.frontPerDefault = ["False", "False"] := by decide

/-! ## the hypotheses are satisfiable -/

example : WFName netCfg.nameWs [101, 116, 104, 48, 58, 49] ∧ WFName netCfg.nameWs [97, 32, 58, 47, 98] := by
  refine ⟨⟨by decide, ?_, ?_, by decide⟩, ⟨by decide, ?_, ?_, by decide⟩⟩ <;>
    (intro c hc; simp at hc; subst hc; decide)

/-- a whole file: two interfaces, one with `:` and a `\r` inside its name, headers with a `\r` -/
example : NetWF netCfg.nameWs [72, 13] [104] [⟨[108, 111], 1, 2, 3, 4, 5, 6, 7, 8, 9, 10, 11, 12, 13, 14, 15, 16⟩,
                                              ⟨[97, 58, 13, 98], 0, 0, 0, 0, 0, 0, 0, 0, 0, 0, 0, 0, 0, 0, 0, 0⟩] := by
  refine ⟨by decide, by decide, ?_, by decide⟩
  intro i hi
  simp at hi
  rcases hi with rfl | rfl <;> refine ⟨by decide, ?_, ?_, by decide⟩ <;> (intro c hc; simp at hc; subst hc; decide)

example : DiskWF [⟨8, 0, [115, 100, 97], false, .full ⟨1, 2, 3, 4, 5, 6, 7, 8, 9, 10, 11⟩ []⟩,
                  ⟨8, 1, [115, 100, 97, 49], true, .part 1 2 3 4⟩,
                  ⟨104, 0, [99, 47, 100], false, .old24 ⟨1, 2, 3, 4, 5, 6, 7, 8, 9, 10, 11⟩ 12⟩] := by
  refine ⟨?_, ?_, by decide, by decide⟩
  · intro d hd
    simp at hd
    rcases hd with rfl | rfl | rfl <;> exact ⟨by decide, by simp [NoP, isWsT, isWs], by rfl⟩
  · intro d hd
    simp at hd
    rcases hd with rfl | rfl | rfl <;> simp [WFRec]

/-- a kernel-shaped `/sys/block`: one disk with an attribute file, an attribute directory and a partition -/
example : SysWF [⟨8, 0, [115, 100, 97], ⟨1, 2, 3, 4, 5, 6, 7, 8, 9, 10, 11⟩, [12, 13, 14, 15],
                  [([100, 101, 118], [56, 58, 48, 10])], [.node [113] [([120], [49])] []],
                  [⟨1, [115, 100, 97, 49], ⟨1, 2, 3, 4, 5, 6, 7, 8, 9, 10, 11⟩, [12, 13, 14, 15], [], []⟩]⟩] := by
  refine ⟨?_, ⟨by decide, by decide⟩⟩
  intro d hd
  simp only [List.mem_singleton] at hd
  subst hd
  refine ⟨by decide, ?_, ?_, ?_⟩
  · intro e he
    simp [walkList_cons, walk_node, walkList_nil] at he
    rw [he]; rfl
  · intro p hp
    simp only [List.mem_singleton] at hp
    subst hp
    rfl
  · intro p hp
    simp only [List.mem_singleton] at hp
    subst hp
    intro e he
    simp [walkList_nil] at he

/-- a device name with bytes ≥ 0x80 that is no Unicode space (`é`, U+00E9) is a good name -/
example : WFDisk [115, 0xC3, 0xA9] := ⟨by decide, by simp [NoP, isWsT, isWs], by rfl⟩

/-! ## seeded round 5 — the DEFAULT call form (`nowrap=True`) over a HISTORY of calls in one process

    The clause: "exactly the kernel's counters" per device and "nothing counted twice" in the total hold for the
    default arguments too, whatever was called before — unless that very counter of that very device was SEEN
    going backwards between two consecutive calls (of the same cache name) that both listed the device; a device
    that was not listed in between is a new device, and `cache_clear()` forgets (Spec/C09Hist.lean). -/

/-- obligation: `_common._WrapNumbers` (`__init__`, `_add_dict`, `_remove_dead_reminders`, `run`, `cache_clear`),
    `wrap_numbers`, the module-level instance, and the statements of the two front ends under `if nowrap:` (in
    their place among the others) are what Model/C09Wrap.lean transcribes: the previous dict is REPLACED by the
    new one (`self.cache[name] = input_dict`: a key that is not listed any more is gone from the history), the
    reminders of vanished keys are deleted, a new key keeps its raw tuple, the empty dict is fed as well, the raw
    sample and `_wrap_numbers` sit under one lock, `rawdict = wrapdict` comes after the empty test. Any edit of
    these statements changes one of the two lists. -/
theorem C09_wrap_code_frame :
    Gen.C09.wrapFrame =
      ["def __init__(self):", "    self.lock = threading.Lock()", "    self.cache = {}", "    self.reminders = {}", "    self.reminder_keys = {}", "def _add_dict(self, input_dict, name):", "    assert name not in self.cache", "    assert name not in self.reminders", "    assert name not in self.reminder_keys", "    self.cache[name] = input_dict", "    self.reminders[name] = collections.defaultdict(int)", "    self.reminder_keys[name] = collections.defaultdict(set)", "def _remove_dead_reminders(self, input_dict, name):", "    old_dict = self.cache[name]", "    gone_keys = set(old_dict.keys()) - set(input_dict.keys())", "    for gone_key in gone_keys:\n        for remkey in self.reminder_keys[name][gone_key]:\n            del self.reminders[name][remkey]\n        del self.reminder_keys[name][gone_key]", "def run(self, input_dict, name):", "    if name not in self.cache:\n        self._add_dict(input_dict, name)\n        return input_dict", "    self._remove_dead_reminders(input_dict, name)", "    old_dict = self.cache[name]", "    new_dict = {}", "    for key in input_dict:\n        input_tuple = input_dict[key]\n        try:\n            old_tuple = old_dict[key]\n        except KeyError:\n            new_dict[key] = input_tuple\n            continue\n        bits = []\n        for i in range(len(input_tuple)):\n            input_value = input_tuple[i]\n            old_value = old_tuple[i]\n            remkey = (key, i)\n            if input_value < old_value:\n                self.reminders[name][remkey] += old_value\n                self.reminder_keys[name][key].add(remkey)\n            bits.append(input_value + self.reminders[name][remkey])\n        new_dict[key] = tuple(bits)", "    self.cache[name] = input_dict", "    return new_dict", "def cache_clear(self, name=None):", "    with self.lock:\n        if name is None:\n            self.cache.clear()\n            self.reminders.clear()\n            self.reminder_keys.clear()\n        else:\n            self.cache.pop(name, None)\n            self.reminders.pop(name, None)\n            self.reminder_keys.pop(name, None)", "def wrap_numbers(input_dict, name):", "    with _wn.lock:\n        return _wn.run(input_dict, name)", "_wn = _WrapNumbers()", "wrap_numbers.cache_clear = _wn.cache_clear"] ∧
    Gen.C09.frontWrapFrame =
      [["kwargs = dict(perdisk=perdisk) if LINUX else {}", "name = 'psutil.disk_io_counters.perdisk' if perdisk else 'psutil.disk_io_counters'", "nowrap: with _nowrap_lock:\n    rawdict = _psplatform.disk_io_counters(**kwargs)\n    wrapdict = _wrap_numbers(rawdict, name)", "if not rawdict:", "nowrap: rawdict = wrapdict", "nt = getattr(_psplatform, 'sdiskio', _common.sdiskio)", "if perdisk:"], ["nowrap: with _nowrap_lock:\n    rawdict = _psplatform.net_io_counters()\n    wrapdict = _wrap_numbers(rawdict, 'psutil.net_io_counters')", "if not rawdict:", "nowrap: rawdict = wrapdict", "if pernic:"]] := by
  exact ⟨rfl, rfl⟩

/-- obligation on the translator facts the wrap model takes as parameters: the comparison is the strict `<` (an
    idle counter — same value twice — is not a wrap); both forms of `net_io_counters` share one cache name (both
    list every interface), the two forms of `disk_io_counters` use two names (the system-wide form lists whole
    disks only) that differ from the net name; each `cache_clear()` clears exactly the names of its function -/
theorem cfg_wrap_good :
    wrapStrict = true ∧ netPerName = netTotName ∧ diskPerName ≠ diskTotName ∧ diskPerName ≠ netPerName ∧
    diskTotName ≠ netPerName ∧ netClearNames = [netPerName] ∧ diskClearNames = [diskTotName, diskPerName] := by
  decide

/-- **every history**: whatever dicts (tuples of one width) were fed under a name since it was cleared — devices
    appearing, vanishing, coming back with lower or higher counters, wrapping, the empty dict, in any order and
    number — `run` never fails and the slot satisfies the invariant: a reminder is 0 unless THAT counter of THAT
    key was seen going backwards inside the current run of consecutive dicts listing the key -/
theorem C09_wrap_invariant_every_history (w : Nat) (ds : List Dict) (hds : ∀ d ∈ ds, ∀ kv ∈ d, kv.2.length = w) :
    ∃ s, feedAll wrapStrict Slot.init ds = .ok s ∧ SlotInv s ds.reverse := by
  rw [cfg_wrap_good.1]
  obtain ⟨s, h1, h2⟩ := feedAll_inv w Slot.init [] slotInv_init (by simp) ds hds
  exact ⟨s, h1, by simpa using h2⟩

/-- **exact unless seen going backwards** (`_wrap_numbers` level, every history): after ANY history `ds` under a
    name, the dict returned for the next sample `d` has the keys of `d` in their order, tuples of the same width,
    and counter i of key k is the raw one whenever it did not go backwards along the current run of consecutive
    samples listing k — in particular for a key the previous sample did not list, whatever was listed under
    that name earlier (the seeded change C09-4 made the last values of a vanished device count again) -/
theorem C09_wrap_exact_unless_seen_backwards (w : Nat) (ds : List Dict) (d : Dict)
    (hds : ∀ x ∈ ds, ∀ kv ∈ x, kv.2.length = w) (hd : ∀ kv ∈ d, kv.2.length = w) :
    ∃ (s s' : Slot) (adj : Bytes → List Nat → List Nat), feedAll wrapStrict Slot.init ds = .ok s ∧
      s.run wrapStrict d = .ok (s', d.map fun kv => (kv.1, adj kv.1 kv.2)) ∧
      ∀ kv ∈ d, (adj kv.1 kv.2).length = kv.2.length ∧
        ∀ i, quietAtD kv.1 i (d :: ds.reverse) = true → tupAt (adj kv.1 kv.2) i = tupAt kv.2 i := by
  obtain ⟨s, hfeed, inv⟩ := C09_wrap_invariant_every_history w ds hds
  have hw : ∀ old, ds.reverse.head? = some old → widthMismatch old d = false := by
    intro old ho
    have hmem : old ∈ ds := by simpa using List.mem_of_head? ho
    exact no_mismatch w old d (hds old hmem) hd
  obtain ⟨s', hrun, inv'⟩ := run_inv s ds.reverse inv d hw
  refine ⟨s, s', adjRow ds.reverse.head? s'.rem, hfeed, ?_, ?_⟩
  · rw [cfg_wrap_good.1]; exact hrun
  · intro kv _
    exact ⟨adjRow_length _ _ _ _, fun i hq => adjRow_exact _ _ _ _ i (inv'.zero kv.1 i hq)⟩

/-- what-if (the semantic content of seeded change C09-4): a `run` that MERGES the new sample into the old dict
    instead of replacing it. `tun0` sent 500000 bytes, is not listed by the second call, and a new `tun0` is
    listed by the third with 40: the merged history still holds 500000, takes 40 for a wrap and reports 500040 —
    while nothing went backwards along the run of samples listing `tun0` (`quietAtD`), so the code as it is
    (`Slot.run`) reports 40. -/
theorem C09_wrap_merge_counterexample :
    let tun0 : Bytes := [116, 117, 110, 48]
    let lo : Bytes := [108, 111]
    let d1 : Dict := [(lo, [1000]), (tun0, [500000])]
    let d2 : Dict := [(lo, [1100])]
    let d3 : Dict := [(lo, [1200]), (tun0, [40])]
    -- merged cache after the second call: d1 updated with d2
    let merged : Slot := ⟨some [(lo, [1100]), (tun0, [500000])], fun _ _ => 0⟩
    (∃ s, merged.run true d3 = .ok (s, [(lo, [1200]), (tun0, [500040])])) ∧
    quietAtD tun0 0 [d3, d2, d1] = true ∧
    (∃ s, feedAll true Slot.init [d1, d2] = .ok s ∧ ∃ s', s.run true d3 = .ok (s', d3)) := by
  refine ⟨⟨_, rfl⟩, by decide, ⟨_, rfl, _, rfl⟩⟩

/-- what-if: with `<=` instead of `<` an IDLE counter (5 at two consecutive calls) would count as a wrap and be
    reported as 10 -/
theorem C09_wrap_nonstrict_counterexample :
    (∃ s s', feedAll false Slot.init [[([97], [5])]] = .ok s ∧ s.run false [([97], [5])] = .ok (s', [([97], [10])])) ∧
    (∃ s s', feedAll true Slot.init [[([97], [5])]] = .ok s ∧ s.run true [([97], [5])] = .ok (s', [([97], [5])])) := by
  exact ⟨⟨_, _, rfl, rfl⟩, ⟨_, _, rfl, rfl⟩⟩

/-- the raw dict of the platform layer for an interface table / a device table -/
def netRaw (ifs : List Iface) : Dict := ifs.map fun i => (i.name, tuple8 i)
def diskRaw (perdisk : Bool) (devs : List Dev) : Dict :=
  (if perdisk then devs else wholeDisks devs).map fun d => (d.name, vals9 d.stat)

/-- **per interface, default arguments, any earlier history** (`obs` = the raw samples taken earlier under the
    net cache name, `SlotInv`: the state every history leads to, `C09_wrap_invariant_every_history`): the call
    returns one item per listed interface, in file order, under the documented field names, and field j of
    interface i is exactly the kernel's value whenever it was not seen going backwards along the current run of
    consecutive samples listing i -/
theorem C09_nowrap_pernic_exact (h1 h2 : Bytes) (ifs : List Iface) (wf : NetWF netCfg.nameWs h1 h2 ifs) (hne : ifs ≠ [])
    (w : WState) (obs : List Dict) (inv : SlotInv (w netPerName) obs) (hobs : ∀ d ∈ obs, ∀ kv ∈ d, kv.2.length = 8) :
    ∃ (s' : Slot) (adj : Iface → List Nat), netIoCountersWrap w true (renderNetDev h1 h2 ifs)
        = (w.set netPerName s', .perdev (ifs.map fun i => (i.name, Gen.C09.snetioFields.zip (adj i)))) ∧
      SlotInv s' (netRaw ifs :: obs) ∧
      ∀ i ∈ ifs, (adj i).length = 8 ∧
        ∀ j, quietAtD i.name j (netRaw ifs :: obs) = true → tupAt (adj i) j = tupAt ((documented8 i).map (·.2)) j := by
  have hw : ∀ old, obs.head? = some old → widthMismatch old (netRaw ifs) = false := fun old ho =>
    no_mismatch 8 old _ (hobs old (List.mem_of_head? ho)) (by intro kv hkv; obtain ⟨i, _, rfl⟩ := List.mem_map.mp hkv; rfl)
  have hne' : (netRaw ifs).isEmpty = false := by cases ifs with | nil => exact absurd rfl hne | cons _ _ => rfl
  obtain ⟨s', hcall, inv'⟩ := frontEndWrap_perdev netPerName Gen.C09.snetioFields netAgg netEmptyPer netEmptyTot w obs inv
    (netRaw ifs) hne' (by intro kv hkv; obtain ⟨i, _, rfl⟩ := List.mem_map.mp hkv; rfl) hw
  refine ⟨s', fun i => adjRow obs.head? s'.rem i.name (tuple8 i), ?_, inv', ?_⟩
  · unfold netIoCountersWrap
    rw [netPlatform_gen h1 h2 ifs wf, cfg_wrap_good.1]
    simp only [if_true]
    rw [show (ifs.map fun i => (i.name, tuple8 i)) = netRaw ifs from rfl, hcall]
    simp [netRaw, List.map_map, Function.comp_def]
  · intro i _
    exact ⟨adjRow_length _ _ _ _, fun j hq => adjRow_exact _ _ _ _ j (inv'.zero i.name j hq)⟩

/-- **per block device, default arguments, any earlier history**: as `C09_nowrap_pernic_exact`, for every table
    mixing all the `/proc/diskstats` layouts (sectors × 512), under the per-disk cache name -/
theorem C09_nowrap_perdisk_exact (devs : List Dev) (wf : DiskWF devs) (hne : devs ≠ [])
    (w : WState) (obs : List Dict) (inv : SlotInv (w diskPerName) obs) (hobs : ∀ d ∈ obs, ∀ kv ∈ d, kv.2.length = 9) :
    ∃ (s' : Slot) (adj : Dev → List Nat), diskIoCountersWrap w (sysBlock devs) true (renderDiskstats devs)
        = (w.set diskPerName s', .perdev (devs.map fun d => (d.name, Gen.C09.sdiskioFields.zip (adj d)))) ∧
      SlotInv s' (diskRaw true devs :: obs) ∧
      ∀ d ∈ devs, (adj d).length = 9 ∧
        ∀ j, quietAtD d.name j (diskRaw true devs :: obs) = true → tupAt (adj d) j = tupAt ((documented9 d.stat).map (·.2)) j := by
  have hlen : ∀ kv ∈ diskRaw true devs, kv.2.length = 9 := by
    intro kv hkv
    obtain ⟨d, _, rfl⟩ := List.mem_map.mp hkv
    cases d.stat <;> rfl
  have hw : ∀ old, obs.head? = some old → widthMismatch old (diskRaw true devs) = false := fun old ho =>
    no_mismatch 9 old _ (hobs old (List.mem_of_head? ho)) hlen
  have hne' : (diskRaw true devs).isEmpty = false := by cases devs with | nil => exact absurd rfl hne | cons _ _ => rfl
  obtain ⟨s', hcall, inv'⟩ := frontEndWrap_perdev diskPerName Gen.C09.sdiskioFields diskAgg diskEmptyPer diskEmptyTot w obs inv
    (diskRaw true devs) hne' hlen hw
  refine ⟨s', fun d => adjRow obs.head? s'.rem d.name (vals9 d.stat), ?_, inv', ?_⟩
  · unfold diskIoCountersWrap
    rw [diskPlatform_render devs wf true, cfg_wrap_good.1]
    simp only [if_true]
    rw [show (devs.map fun d => (d.name, vals9 d.stat)) = diskRaw true devs from rfl, hcall]
    simp [diskRaw, List.map_map, Function.comp_def]
  · intro d _
    refine ⟨?_, fun j hq => adjRow_exact _ _ _ _ j (inv'.zero d.name j hq)⟩
    show (adjRow obs.head? s'.rem d.name (vals9 d.stat)).length = 9
    rw [adjRow_length]
    cases d.stat <;> rfl

/-- **the total never counts anything twice, default arguments, any earlier history** (net): when no counter of a
    listed interface was seen going backwards along its current run of consecutive samples, the system-wide
    answer is the field-wise sum over the interfaces listed NOW (`expectNet false`, `C09_net_total_is_sum`) —
    nothing of an interface that was listed by an earlier call and is gone, or came back, is added -/
theorem C09_nowrap_net_total_never_double_counts (h1 h2 : Bytes) (ifs : List Iface) (wf : NetWF netCfg.nameWs h1 h2 ifs)
    (pernic : Bool) (w : WState) (obs : List Dict) (inv : SlotInv (w netPerName) obs)
    (hobs : ∀ d ∈ obs, ∀ kv ∈ d, kv.2.length = 8)
    (hq : ∀ i ∈ ifs, ∀ j, quietAtD i.name j (netRaw ifs :: obs) = true) :
    ∃ s', netIoCountersWrap w pernic (renderNetDev h1 h2 ifs) = (w.set netPerName s', (expectNet pernic ifs).toOut) ∧
      SlotInv s' (netRaw ifs :: obs) := by
  have hw : ∀ old, obs.head? = some old → widthMismatch old (netRaw ifs) = false := fun old ho =>
    no_mismatch 8 old _ (hobs old (List.mem_of_head? ho)) (by intro kv hkv; obtain ⟨i, _, rfl⟩ := List.mem_map.mp hkv; rfl)
  obtain ⟨s', hcall, inv'⟩ := frontEndWrap_total_quiet netPerName Gen.C09.snetioFields netAgg netEmptyPer netEmptyTot w obs inv
    (netRaw ifs) pernic hw (by intro kv hkv i; obtain ⟨x, hx, rfl⟩ := List.mem_map.mp hkv; exact hq x hx i)
  refine ⟨s', ?_, inv'⟩
  have hname : (if pernic then netPerName else netTotName) = netPerName := by cases pernic <;> simp [← cfg_wrap_good.2.1]
  have := C09_net h1 h2 ifs wf pernic
  unfold netIoCounters at this
  rw [netPlatform_gen h1 h2 ifs wf] at this
  unfold netIoCountersWrap
  rw [netPlatform_gen h1 h2 ifs wf, cfg_wrap_good.1, hname]
  rw [show (ifs.map fun i => (i.name, tuple8 i)) = netRaw ifs from rfl] at this ⊢
  rw [hcall, this]

/-- **the total never counts anything twice** (disk, either form): under the cache name of the form, when no
    counter of a device that form lists was seen going backwards along its current run, the answer is the one
    of a single call (`expectDisk`: per device the documented values; system-wide the sum over whole disks only) -/
theorem C09_nowrap_disk_total_never_double_counts (devs : List Dev) (wf : DiskWF devs) (perdisk : Bool)
    (w : WState) (obs : List Dict) (inv : SlotInv (w (if perdisk then diskPerName else diskTotName)) obs)
    (hobs : ∀ d ∈ obs, ∀ kv ∈ d, kv.2.length = 9)
    (hq : ∀ kv ∈ diskRaw perdisk devs, ∀ j, quietAtD kv.1 j (diskRaw perdisk devs :: obs) = true) :
    ∃ s', diskIoCountersWrap w (sysBlock devs) perdisk (renderDiskstats devs)
        = (w.set (if perdisk then diskPerName else diskTotName) s', (expectDisk perdisk devs).toOut) ∧
      SlotInv s' (diskRaw perdisk devs :: obs) := by
  have hlen : ∀ kv ∈ diskRaw perdisk devs, kv.2.length = 9 := by
    intro kv hkv
    obtain ⟨d, _, rfl⟩ := List.mem_map.mp hkv
    cases d.stat <;> rfl
  have hw : ∀ old, obs.head? = some old → widthMismatch old (diskRaw perdisk devs) = false := fun old ho =>
    no_mismatch 9 old _ (hobs old (List.mem_of_head? ho)) hlen
  obtain ⟨s', hcall, inv'⟩ := frontEndWrap_total_quiet (if perdisk then diskPerName else diskTotName) Gen.C09.sdiskioFields
    diskAgg diskEmptyPer diskEmptyTot w obs inv (diskRaw perdisk devs) perdisk hw hq
  refine ⟨s', ?_, inv'⟩
  have := C09_disk devs wf perdisk
  unfold diskIoCounters at this
  rw [diskPlatform_render devs wf perdisk] at this
  unfold diskIoCountersWrap
  rw [diskPlatform_render devs wf perdisk, cfg_wrap_good.1]
  rw [show ((if perdisk then devs else wholeDisks devs).map fun d => (d.name, vals9 d.stat)) = diskRaw perdisk devs from rfl]
    at this ⊢
  rw [hcall, this]

/-- an answer of the model against a promise with holes (`Spec.ExpectH`): same kind, same keys in the same order,
    same field names; a value only where the promise has one -/
def rowMeets (a : NT) (b : List (String × Option Nat)) : Prop :=
  a.map (·.1) = b.map (·.1) ∧ ∀ p ∈ a.zip b, ∀ v, p.2.2 = some v → p.1.2 = v

def Out.meets : Out → ExpectH → Prop
  | .none, .none => True
  | .emptyDict, .emptyDict => True
  | .perdev d, .perdev e => d.map (·.1) = e.map (·.1) ∧ ∀ p ∈ d.zip e, rowMeets p.1.2 p.2.2
  | .total t, .total e => rowMeets t e
  | _, _ => False

/-- what the process is shown for a kernel-side step -/
def renderStep : Spec.Step → MStep
  | .net per nowrap h1 h2 ifs => .net per nowrap (renderNetDev h1 h2 ifs)
  | .disk per nowrap devs => .disk per nowrap (sysBlock devs) (renderDiskstats devs)
  | .clearNet => .clearNet
  | .clearDisk => .clearDisk

def Spec.Step.WF : Spec.Step → Prop
  | .net _ _ h1 h2 ifs => NetWF netCfg.nameWs h1 h2 ifs
  | .disk _ _ devs => DiskWF devs
  | _ => True

/-- the FULL statement over whole histories of front-end calls (both functions, both forms, `nowrap` either way,
    `cache_clear()` anywhere): every answer of the model meets the history-defined promise of Spec/C09Hist.
    NOT proved as one theorem (time box of seeded round 5): its ingredients are —
    every history of samples leads to `SlotInv` (`C09_wrap_invariant_every_history`), a call in such a state is
    exact wherever nothing was seen going backwards (`C09_nowrap_pernic_exact`, `C09_nowrap_perdisk_exact`,
    `C09_nowrap_*_total_never_double_counts`), the names are as `cfg_wrap_good` says; the composition (the
    bookkeeping of three cache names against the two views of the specification) is what is missing. The
    correspondence compares EXACTLY this statement on the real code on every run (op `hist`: model and
    specification printed by the driver for every step). -/
def C09_nowrap_history_Full : Prop :=
  ∀ steps : List Spec.Step, (∀ s ∈ steps, s.WF) →
    List.Forall₂ Out.meets (mrun WState.init (steps.map renderStep)) (Spec.hrun Spec.HState.init steps)

/-- non-vacuity of the full statement, and the seeded scenario in it: lo + tun0, then lo alone, then lo + a NEW
    tun0 counting from 40 — the model's answers meet the promise, which has NO hole (every value is due) -/
example :
    let lo : Iface := ⟨[108, 111], 1000, 1, 2, 3, 4, 5, 6, 7, 1008, 9, 10, 11, 12, 13, 14, 15⟩
    let lo' : Iface := ⟨[108, 111], 1100, 1, 2, 3, 4, 5, 6, 7, 1108, 9, 10, 11, 12, 13, 14, 15⟩
    let tun : Iface := ⟨[116, 117, 110, 48], 500000, 1, 2, 3, 4, 5, 6, 7, 500008, 9, 10, 11, 12, 13, 14, 15⟩
    let tun' : Iface := ⟨[116, 117, 110, 48], 40, 1, 2, 3, 4, 5, 6, 7, 48, 9, 10, 11, 12, 13, 14, 15⟩
    let steps : List Spec.Step := [.net true true [72] [73] [lo, tun], .net true true [72] [73] [lo'],
                                   .net true true [72] [73] [lo', tun']]
    (Spec.hrun Spec.HState.init steps).getLast? =
      some (.perdev [([108, 111], (documented8 lo').map fun fv => (fv.1, some fv.2)),
                     ([116, 117, 110, 48], (documented8 tun').map fun fv => (fv.1, some fv.2))]) := by
  intro lo lo' tun tun' steps
  rfl

end Psutil.C09
