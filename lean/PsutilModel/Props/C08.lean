/-
  Props/C08.lean — property theorems for C08 (virtual_memory / swap_memory follow the documented
  formulas). Helper lemmas live in Proofs/C08*.lean.

  `cfg` is built from Generated/C08.lean, which the translator rewrites from /repo's source on
  every run; `cfg_good` is the proof obligation that breaks when a dictionary key, a factor, a
  guard, a prefix, `round_=1` or the positional layout of `svmem(...)`/`sswap(...)` changes.

  A `World` is a kernel state the renderers cover: any list of /proc/meminfo entries (so ANY
  subset of the optional keys, any magnitudes, any padding, with or without ` kB`), an optional
  /proc/zoneinfo (any lines, of which the `low` ones are watermarks) and a page size.
  `w.run` is the model of `psutil.virtual_memory()` on the rendered TEXT of those files.
-/
import PsutilModel.Proofs.C08Refine
import PsutilModel.Proofs.C08Text
import PsutilModel.Proofs.C08Float
import PsutilModel.Model.C08Gen
namespace Psutil.C08
open Spec

/-- the configuration the translator extracted from the current source is the one the theorems
    below are proved for (keys, factors, guards, prefixes, record layouts) -/
theorem cfg_good : cfg = kernelCfg ∧ shapeOk = true := by decide

set_option maxRecDepth 20000 in
/-- … and the statements the model transcribes but no structured fact describes (arithmetic of
    `used` and of the estimate, arguments of usage_percent, `round`, the vmstat `for … else` /
    `break`, the RuntimeWarning calls and their texts, `if missing_fields:`, the exception classes
    caught — `except OSError` around /proc/zoneinfo and /proc/vmstat) still read, after
    `ast.unparse`, as the text the model was transcribed from -/
theorem cfg_text_good : textOk = true := by decide

/-- bytes per page the CODE multiplies pswpin / pswpout by, in a process whose `PAGESIZE` is `ps`:
    the constant 4096 for the code as found, `ps` once it says `* PAGESIZE` (fact `swapPages`) -/
def codePage (ps : Nat) : Nat := if swapPages then ps else 4096

/-- the configuration extracted from the current source, for EVERY page size: the one the swap
    theorems are proved for (`cfgF`), with `codePage ps` bytes per page -/
theorem cfgAt_good (ps : Nat) : cfgAt ps = cfgF (codePage ps) := by
  have h0 : cfgAt ps = { cfgAt 4096 with sinFactor := (cfgAt ps).sinFactor,
                                          soutFactor := (cfgAt ps).soutFactor } := rfl
  rw [h0, show cfgAt 4096 = kernelCfg from cfg_good.1]
  first
    | (have hn : Gen.C08.sinFactorNames = [] ∧ Gen.C08.soutFactorNames = [] ∧ Gen.C08.sinIdxFactor = [1, 4096]
          ∧ Gen.C08.soutIdxFactor = [1, 4096] := by decide
       have hp : swapPages = false := by decide
       simp [cfgAt, codePage, cfgF, scaleAt, hn.1, hn.2.1, hn.2.2.1, hn.2.2.2, hp])
    | (have hn : Gen.C08.sinFactorNames = ["PAGESIZE"] ∧ Gen.C08.soutFactorNames = ["PAGESIZE"]
          ∧ Gen.C08.sinIdxFactor = [1, 1] ∧ Gen.C08.soutIdxFactor = [1, 1] := by decide
       have hp : swapPages = true := by decide
       simp [cfgAt, codePage, cfgF, scaleAt, hn.1, hn.2.1, hn.2.2.1, hn.2.2.2, hp])

structure World where
  es : List Entry
  zs : Option (List ZLine)      -- `none`: /proc/zoneinfo cannot be opened
  ps : Nat                      -- PAGESIZE

def World.WF (w : World) : Prop := (∀ e ∈ w.es, e.WF) ∧ (∀ l ∈ w.zs, ∀ z ∈ l, z.WF)
/-- the abstract meminfo map the kernel is showing -/
def World.m (w : World) : MemInfo := MemInfo.ofEntries w.es
/-- total of the zones' low watermarks, in bytes -/
def World.wm (w : World) : Option Nat := w.zs.map fun l => lowSum l * w.ps
/-- `psutil.virtual_memory()` on the rendered files -/
def World.run (w : World) : Except Err VmOut :=
  virtualMemory cfg w.ps (renderMeminfo w.es) (w.zs.map renderZoneinfo)

/-! ### the parsers invert the kernel's renderers -/

/-- parsing the rendered /proc/meminfo succeeds and `mems[b"Name:"]` is the kernel's figure
    times 1024, for every name (present or not), every entry list, padding and unit suffix -/
theorem C08_meminfo_roundtrip (es : List Entry) (h : ∀ e ∈ es, e.WF) :
    ∃ mems, parseMeminfo cfg.vmParse (renderMeminfo es) = .ok mems ∧
      ∀ k : Bytes, mems.lookup (k ++ [58]) = ((MemInfo.ofEntries es).get k).map (· * 1024) := by
  rw [cfg_good.1]
  exact ⟨_, parseMeminfo_render 1024 es h, fun k => lookup_parsed 1024 es k⟩

/-- the zoneinfo loop returns the sum of the `low` watermarks whatever else the file lists -/
theorem C08_zoneinfo_roundtrip (zs : List ZLine) (h : ∀ z ∈ zs, z.WF) :
    watermarkLow cfg (linesOf (renderZoneinfo zs)) = .ok (lowSum zs) := by
  rw [cfg_good.1]; exact watermarkLow_zoneinfo zs h

/-- the vmstat loop finds both counters (× the bytes per page the code uses, for every page size
    of the process) or reports that it did not -/
theorem C08_vmstat_roundtrip (ps : Nat) (vs : List VLine) (h : VWF vs) :
    vmstatLoop (cfgAt ps) (linesOf (renderVmstat vs)) none none =
      .ok (pairUp ((vmstatGet vs (K "pswpin")).map (· * codePage ps))
                  ((vmstatGet vs (K "pswpout")).map (· * codePage ps))) := by
  rw [cfgAt_good]; exact vmstatLoop_vmstatF _ vs h

/-! ### virtual_memory -/

/-- MAIN: on every world, whenever the specification makes a promise (MemTotal and MemFree
    listed) the call succeeds and returns exactly the promised record and warning list -/
theorem C08_vm_refines (w : World) (hw : w.WF) (s : Vm) (hs : vm w.m w.wm = some s) :
    w.run = .ok (toOut s) := by
  unfold World.run virtualMemory
  rw [cfg_good.1]
  have hp : parseMeminfo kernelCfg.vmParse (renderMeminfo w.es)
      = .ok ((w.es.map (kv 1024)).reverse) := parseMeminfo_render 1024 w.es hw.1
  rw [hp]
  exact vmCore_spec (bridge_parsed w.es) w.ps w.zs hw.2 s hs

/-- the output is determined: the record of the specification for these totals -/
theorem vm_out (w : World) (hw : w.WF) (total free : Nat)
    (ht : w.m.bytes "MemTotal" = some total) (hf : w.m.bytes "MemFree" = some free)
    (o : VmOut) (hrun : w.run = .ok o) : o = toOut (specVm w.m w.wm total free) := by
  have := C08_vm_refines w hw _ (vm_eq_specVm w.m w.wm total free ht hf)
  rw [this] at hrun
  exact (Except.ok.inj hrun).symm

/-- never fails when MemTotal and MemFree are present — for EVERY entry list, hence every subset
    of the other keys, every magnitude, with or without zoneinfo -/
theorem C08_never_fails (w : World) (hw : w.WF)
    (ht : (w.m.get (K "MemTotal")).isSome = true) (hf : (w.m.get (K "MemFree")).isSome = true) :
    ∃ o, w.run = .ok o := by
  obtain ⟨t, ht'⟩ := Option.isSome_iff_exists.mp ht
  obtain ⟨f, hf'⟩ := Option.isSome_iff_exists.mp hf
  exact ⟨_, C08_vm_refines w hw _ (vm_eq_specVm w.m w.wm (t * 1024) (f * 1024)
    (by simp [MemInfo.bytes, ht']) (by simp [MemInfo.bytes, hf']))⟩

section
variable (w : World) (hw : w.WF) (total free : Nat)
  (ht : w.m.bytes "MemTotal" = some total) (hf : w.m.bytes "MemFree" = some free)
  (o : VmOut) (hrun : w.run = .ok o)
include hw ht hf hrun

/-- total, free, buffers, cached (page cache + reclaimable slab), shared (Shmem | MemShared),
    active, inactive (Inactive | sum of the three 2.4 counters), slab: the kernel's figures in
    bytes, 0 when not listed -/
theorem C08_fields_exact :
    o.total = total ∧ o.free = free ∧ o.buffers = buffers w.m ∧ o.cached = cached w.m
    ∧ o.shared = shared w.m ∧ o.active = active w.m ∧ o.inactive = inactive w.m
    ∧ o.slab = slab w.m := by
  rw [vm_out w hw total free ht hf o hrun]
  simp [toOut, specVm]

/-- used = total - free - cached - buffers, total - free when that is negative -/
theorem C08_used :
    o.used = (if (total : Int) - free - o.cached - o.buffers < 0 then (total : Int) - free
              else (total : Int) - free - o.cached - o.buffers) := by
  rw [vm_out w hw total free ht hf o hrun]
  simp [toOut, specVm, used]

/-- available, kernel estimate: MemAvailable > 0 is reported (clamped) -/
theorem C08_avail_rule_kernel (a : Nat) (ha : w.m.bytes "MemAvailable" = some a) (hpos : 0 < a) :
    o.avail = clamp a total free := by
  rw [vm_out w hw total free ht hf o hrun]
  cases a with
  | zero => omega
  | succ a => simp [toOut, specVm, Spec.availRaw, ha]

/-- available, fallback when MemAvailable is absent OR zero and every input of the kernel's
    algorithm exists: the documented estimate from the low watermarks, truncated like `int()` -/
theorem C08_avail_rule_fallback
    (ha : w.m.bytes "MemAvailable" = none ∨ w.m.bytes "MemAvailable" = some 0)
    (af inf sr wmv : Nat) (h1 : w.m.bytes "Active(file)" = some af)
    (h2 : w.m.bytes "Inactive(file)" = some inf) (h3 : w.m.bytes "SReclaimable" = some sr)
    (h4 : w.wm = some wmv) :
    o.avail = clamp (truncRat (kernelEstimate free wmv af inf sr)) total free := by
  rw [vm_out w hw total free ht hf o hrun]
  rcases ha with ha | ha <;> simp [toOut, specVm, Spec.availRaw, ha, fallbackEstimate, h1, h2, h3, h4]

/-- available, fallback when MemAvailable is absent or zero and an input of the estimate is
    missing (or /proc/zoneinfo unreadable): free + cached -/
theorem C08_avail_rule_free_plus_cached
    (ha : w.m.bytes "MemAvailable" = none ∨ w.m.bytes "MemAvailable" = some 0)
    (hmiss : w.m.bytes "Active(file)" = none ∨ w.m.bytes "Inactive(file)" = none
              ∨ w.m.bytes "SReclaimable" = none ∨ w.wm = none) :
    o.avail = clamp ((free + (w.m.bytes "Cached").getD 0 : Nat) : Int) total free := by
  rw [vm_out w hw total free ht hf o hrun]
  have hfb : fallbackEstimate w.m free w.wm = ((free + (w.m.bytes "Cached").getD 0 : Nat) : Int) := by
    unfold fallbackEstimate
    rcases hmiss with h | h | h | h
    · rw [h]
    · rw [h]; cases w.m.bytes "Active(file)" <;> rfl
    · rw [h]; cases w.m.bytes "Active(file)" <;> cases w.m.bytes "Inactive(file)" <;> rfl
    · rw [h]; cases w.m.bytes "Active(file)" <;> cases w.m.bytes "Inactive(file)"
        <;> cases w.m.bytes "SReclaimable" <;> rfl
  rcases ha with ha | ha <;> simp [toOut, specVm, Spec.availRaw, ha, hfb]

/-- available lies in [0, total] whenever free ≤ total -/
theorem C08_avail_in_range (hle : free ≤ total) : 0 ≤ o.avail ∧ o.avail ≤ o.total := by
  rw [vm_out w hw total free ht hf o hrun]
  exact clamp_range _ total free hle

/-- percent is (total - available) / total * 100 rounded to one decimal (0 for a zero total) -/
theorem C08_percent : IsRound1 (percentExact o.total o.avail) ((o.percent : ℚ) / 10) := by
  rw [vm_out w hw total free ht hf o hrun, percentExact_cast]
  exact usagePercent_isRound1 _ _

/-- 0 ≤ percent ≤ 100 whenever free ≤ total (percent is kept in tenths) -/
theorem C08_percent_range (hle : free ≤ total) : 0 ≤ o.percent ∧ o.percent ≤ 1000 := by
  rw [vm_out w hw total free ht hf o hrun]
  have hr := clamp_range (Spec.availRaw w.m free w.wm) total free hle
  exact usagePercent_range _ _ (by simp only [toOut, specVm]; omega) (by simp only [toOut, specVm]; omega)

theorem C08_zero_total_percent_zero (h0 : total = 0) : o.percent = 0 := by
  rw [vm_out w hw total free ht hf o hrun]
  simp [toOut, specVm, usagePercentScaled, h0]

/-- a metric is named in the warning exactly when its source keys are not listed (slab never is);
    `available` exactly when the estimate came out negative; nothing else is ever named -/
theorem C08_missing_warns_exactly :
    ("buffers" ∈ o.missing ↔ w.m.get (K "Buffers") = none)
    ∧ ("cached" ∈ o.missing ↔ w.m.get (K "Cached") = none)
    ∧ ("shared" ∈ o.missing ↔ w.m.get (K "Shmem") = none ∧ w.m.get (K "MemShared") = none)
    ∧ ("active" ∈ o.missing ↔ w.m.get (K "Active") = none)
    ∧ ("inactive" ∈ o.missing ↔ w.m.get (K "Inactive") = none
          ∧ ¬ ((w.m.get (K "Inact_dirty")).isSome = true ∧ (w.m.get (K "Inact_clean")).isSome = true
                ∧ (w.m.get (K "Inact_laundry")).isSome = true))
    ∧ ("available" ∈ o.missing ↔ Spec.availRaw w.m free w.wm < 0)
    ∧ "slab" ∉ o.missing
    ∧ (∀ n ∈ o.missing, n ∈ ["buffers", "cached", "shared", "active", "inactive", "available"]) := by
  rw [vm_out w hw total free ht hf o hrun]
  simp only [toOut, specVm, warned_mem]
  refine ⟨?_, ?_, ?_, ?_, ?_, ?_, ?_, ?_⟩
  · simp
  · simp
  · simp
  · simp
  · cases w.m.get (K "Inactive") <;> cases w.m.get (K "Inact_dirty")
      <;> cases w.m.get (K "Inact_clean") <;> cases w.m.get (K "Inact_laundry") <;> simp
  · simp
  · simp
  · intro n hn
    rcases hn with h | h | h | h | h | h <;> simp [h.2]

/-- … and the metric named in the warning (or the unlisted slab) is reported as 0 -/
theorem C08_missing_reports_zero :
    ("buffers" ∈ o.missing → o.buffers = 0) ∧ ("cached" ∈ o.missing → o.cached = 0)
    ∧ ("shared" ∈ o.missing → o.shared = 0) ∧ ("active" ∈ o.missing → o.active = 0)
    ∧ ("inactive" ∈ o.missing → o.inactive = 0) ∧ ("available" ∈ o.missing → o.avail = 0)
    ∧ (w.m.get (K "Slab") = none → o.slab = 0) := by
  have hm := C08_missing_warns_exactly w hw total free ht hf o hrun
  obtain ⟨h1, h2, h3, h4, h5, h6, _, _⟩ := hm
  rw [vm_out w hw total free ht hf o hrun] at h1 h2 h3 h4 h5 h6 ⊢
  refine ⟨fun h => ?_, fun h => ?_, fun h => ?_, fun h => ?_, fun h => ?_, fun h => ?_, fun h => ?_⟩
  · simp [toOut, specVm, buffers, MemInfo.bytes, h1.mp h]
  · simp [toOut, specVm, cached, MemInfo.bytes, h2.mp h]
  · simp [toOut, specVm, shared, MemInfo.bytes, (h3.mp h).1, (h3.mp h).2]
  · simp [toOut, specVm, active, MemInfo.bytes, h4.mp h]
  · obtain ⟨hi, hn⟩ := h5.mp h
    simp only [toOut, specVm, inactive, MemInfo.bytes, hi, Option.map_none]
    cases h7 : w.m.get (K "Inact_dirty") <;> cases h8 : w.m.get (K "Inact_clean")
      <;> cases h9 : w.m.get (K "Inact_laundry") <;> simp_all
  · have := h6.mp h
    simp [toOut, specVm, clamp, this]
  · simp [toOut, specVm, slab, MemInfo.bytes, h]

end

/-! ### the boundary of the range claim (stated by the property itself: "whenever free <= total") -/

/-- full-strength reading "available is always within [0, total]" -/
def C08_avail_in_range_Full : Prop :=
  ∀ (w : World) (o : VmOut), w.WF → w.run = .ok o → 0 ≤ o.avail ∧ o.avail ≤ o.total

def wFreeAboveTotal : World :=
  ⟨[⟨K "MemTotal", 100, 0, true⟩, ⟨K "MemFree", 400, 0, true⟩, ⟨K "MemAvailable", 500, 0, true⟩],
   none, 4096⟩

theorem wFreeAboveTotal_wf : wFreeAboveTotal.WF := by
  refine ⟨?_, by intro l hl; cases hl⟩
  intro e he
  simp only [wFreeAboveTotal, List.mem_cons, List.not_mem_nil, or_false] at he
  rcases he with rfl | rfl | rfl <;> exact ⟨by decide, by unfold NoWs; decide⟩

/-- it does not hold when a container shows free > total: available > total is replaced by
    free (as procps does), which is then above total too. Witness replayed on the real code by
    the harness (corpus:free_gt_total): available = 409600 > total = 102400, percent = -300.0 -/
theorem C08_avail_in_range_needs_free_le_total : ¬ C08_avail_in_range_Full := by
  intro h
  obtain ⟨o, ho⟩ := C08_never_fails wFreeAboveTotal wFreeAboveTotal_wf (by decide) (by decide)
  have hr := (h wFreeAboveTotal o wFreeAboveTotal_wf ho).2
  have ht : wFreeAboveTotal.m.bytes "MemTotal" = some 102400 := by decide
  have hf : wFreeAboveTotal.m.bytes "MemFree" = some 409600 := by decide
  have ha : wFreeAboveTotal.m.bytes "MemAvailable" = some 512000 := by decide
  have h1 := C08_avail_rule_kernel wFreeAboveTotal wFreeAboveTotal_wf _ _ ht hf o ho 512000 ha (by decide)
  have h2 := (C08_fields_exact wFreeAboveTotal wFreeAboveTotal_wf _ _ ht hf o ho).1
  rw [h1, h2] at hr
  revert hr
  decide

/-! ### swap_memory -/

structure SwapWorld where
  es : List Entry
  sys : Sysinfo                 -- what `cext.linux_sysinfo()` would answer
  vs : Option (List VLine)      -- `none`: /proc/vmstat cannot be opened
  ps : Nat                      -- the kernel's page size (= the process's PAGESIZE)

def SwapWorld.WF (w : SwapWorld) : Prop := (∀ e ∈ w.es, e.WF) ∧ (∀ l ∈ w.vs, VWF l)
def SwapWorld.m (w : SwapWorld) : MemInfo := MemInfo.ofEntries w.es
/-- the record promised when a swapped page counts for `page` bytes -/
def SwapWorld.specAt (w : SwapWorld) (page : Nat) : Swap :=
  swap w.m (w.sys.total * w.sys.unit) (w.sys.free * w.sys.unit) page (w.vs.map vmstatGet)
/-- THE promise: swapped-in/out BYTES = the kernel's page counts × the kernel's page size -/
def SwapWorld.spec (w : SwapWorld) : Swap := w.specAt w.ps
/-- `psutil.swap_memory()` on the rendered files with the scripted sysinfo, in a process whose
    `PAGESIZE` is the world's page size -/
def SwapWorld.run (w : SwapWorld) : Except Err SwapOut :=
  swapMemory (cfgAt w.ps) (renderMeminfo w.es) w.sys (w.vs.map renderVmstat)

/-- MAIN (what the code does, whatever the page size): swap_memory never fails and returns the
    promised record with pages counted as `codePage w.ps` bytes, for every meminfo (with or
    without SwapTotal/SwapFree), every sysinfo answer, every well-formed vmstat (`VWF`: names
    distinct and prefix-clash free) or none -/
theorem C08_swap_refines_code (w : SwapWorld) (hw : w.WF) :
    w.run = .ok (toSwapOut (w.specAt (codePage w.ps))) := by
  unfold SwapWorld.run swapMemory
  rw [cfgAt_good]
  have hp : parseMeminfo (cfgF (codePage w.ps)).swParse (renderMeminfo w.es)
      = .ok ((w.es.map (kv 1024)).reverse) := parseMeminfo_render 1024 w.es hw.1
  rw [hp]
  exact swapCore_specF (codePage w.ps) (bridge_parsed w.es) w.sys w.vs hw.2

/-- MAIN (the property): the promised record — swapped-in/out in BYTES — on every world whose
    page size is 4 KiB, and on EVERY world once the code multiplies by PAGESIZE -/
theorem C08_swap_refines (w : SwapWorld) (hw : w.WF) (h : swapPages = true ∨ w.ps = 4096) :
    w.run = .ok (toSwapOut w.spec) := by
  rw [C08_swap_refines_code w hw]
  unfold SwapWorld.spec codePage
  rcases h with h | h
  · rw [h]; rfl
  · rw [h]; split <;> rfl

/-- full-strength reading of "cumulative swapped-in/out bytes": on every kernel, whatever its
    page size -/
def C08_swap_bytes_Full : Prop := ∀ w : SwapWorld, w.WF → w.run = .ok (toSwapOut w.spec)

/-- a 64 KiB-page kernel (arm64 / ppc64 default on several distributions) that has swapped 3
    pages in and 5 out -/
def swBigPages : SwapWorld :=
  ⟨[⟨K "SwapTotal", 1000, 0, true⟩, ⟨K "SwapFree", 400, 0, true⟩], ⟨0, 0, 1⟩,
   some [⟨K "pswpin", 3⟩, ⟨K "pswpout", 5⟩], 65536⟩

theorem swBigPages_wf : swBigPages.WF := by
  refine ⟨?_, ?_⟩
  · intro e he
    simp only [swBigPages, List.mem_cons, List.not_mem_nil, or_false] at he
    rcases he with rfl | rfl <;> exact ⟨by decide, by unfold NoWs; decide⟩
  · intro l hl
    simp only [swBigPages, Option.mem_def, Option.some.injEq] at hl
    subst hl
    refine ⟨?_, ?_, by decide⟩
    · intro x hx
      simp only [List.mem_cons, List.not_mem_nil, or_false] at hx
      rcases hx with rfl | rfl <;> exact ⟨by decide, by unfold NoWs; decide⟩
    · intro x hx
      simp only [List.mem_cons, List.not_mem_nil, or_false] at hx
      rcases hx with rfl | rfl <;> exact ⟨by decide, by decide⟩

/-- COUNTEREXAMPLE for the code as found (`* 4 * 1024`, fact `swapPages = false`): on the 64 KiB
    world 3 pages swapped in are 196 608 bytes, the call reports 12 288 (16 times too few).
    Replayed on the real code by the harness with `_pslinux.PAGESIZE` patched to 65536
    (corpus:swap_64k_pages; finding C08-swap-pagesize, repair fixes/C08-swap-pagesize.diff) -/
theorem C08_swap_hardcoded_4k_underreports (h : swapPages = false) :
    ∃ o, swBigPages.run = .ok o ∧ o.sin = 12288 ∧ o.sout = 20480
      ∧ swBigPages.spec.sin = 196608 ∧ swBigPages.spec.sout = 327680 := by
  refine ⟨_, C08_swap_refines_code swBigPages swBigPages_wf, ?_, ?_, ?_, ?_⟩
  · simp only [codePage, h]; decide
  · simp only [codePage, h]; decide
  · decide
  · decide

/-- the full statement holds EXACTLY when the code scales both counters by PAGESIZE: refuted for
    the code as found, proved for the repaired one. The same theorem builds on both trees; once
    the repair has landed the obligation `cfg_swap_pages` below turns it into the plain statement -/
theorem C08_swap_bytes_iff_pagesize : C08_swap_bytes_Full ↔ swapPages = true := by
  constructor
  · intro hfull
    cases hp : swapPages with
    | true => rfl
    | false =>
      obtain ⟨o, ho, hsin, _, hspec, _⟩ := C08_swap_hardcoded_4k_underreports hp
      rw [hfull swBigPages swBigPages_wf] at ho
      have : (toSwapOut swBigPages.spec).sin = o.sin := by rw [Except.ok.inj ho]
      rw [hsin] at this
      simp only [toSwapOut] at this
      rw [hspec] at this
      exact absurd this (by decide)
  · intro hp w hw
    exact C08_swap_refines w hw (Or.inl hp)

/- fixes/C08-swap-pagesize.diff has landed as /repo 700d6e8 (fact `swapPages` = true): obligation + the
   full-strength statement for the code as it is -/

/-- obligation: swap_memory() multiplies both page counters by PAGESIZE -/
theorem cfg_swap_pages : swapPages = true := by decide

/-- swapped-in/out are BYTES on every kernel, whatever its page size -/
theorem C08_swap_bytes_full : C08_swap_bytes_Full := C08_swap_bytes_iff_pagesize.mpr cfg_swap_pages

section
variable (w : SwapWorld) (hw : w.WF) (o : SwapOut) (hrun : w.run = .ok o)
include hw hrun

theorem swap_out : o = toSwapOut (w.specAt (codePage w.ps)) := by
  rw [C08_swap_refines_code w hw] at hrun
  exact (Except.ok.inj hrun).symm

/-- used = total - free -/
theorem C08_swap_used : o.used = (o.total : Int) - o.free := by
  rw [swap_out w hw o hrun]
  simp [toSwapOut, SwapWorld.specAt, swap]

/-- totals come from /proc/meminfo (kB × 1024) when both keys are listed; sysinfo not consulted -/
theorem C08_swap_meminfo (t f : Nat) (h1 : w.m.bytes "SwapTotal" = some t)
    (h2 : w.m.bytes "SwapFree" = some f) : o.total = t ∧ o.free = f ∧ o.usedSysinfo = false := by
  rw [swap_out w hw o hrun]
  simp [toSwapOut, SwapWorld.specAt, swap, h1, h2]

/-- … and from sysinfo(2) × unit when either is missing -/
theorem C08_swap_sysinfo_fallback
    (h : w.m.bytes "SwapTotal" = none ∨ w.m.bytes "SwapFree" = none) :
    o.total = w.sys.total * w.sys.unit ∧ o.free = w.sys.free * w.sys.unit
    ∧ o.usedSysinfo = true := by
  rw [swap_out w hw o hrun]
  rcases h with h | h
  · simp [toSwapOut, SwapWorld.specAt, swap, h]
  · cases h1 : w.m.bytes "SwapTotal" <;> simp [toSwapOut, SwapWorld.specAt, swap, h, h1]

/-- percent is used / total * 100 rounded to one decimal (0 for a zero total) -/
theorem C08_swap_percent : IsRound1 (swapPercentExact o.total o.used) ((o.percent : ℚ) / 10) := by
  rw [swap_out w hw o hrun, swapPercentExact_eq]
  exact usagePercent_isRound1 _ _

/-- 0 ≤ percent ≤ 100 (kept in tenths) whenever free ≤ total -/
theorem C08_swap_percent_range (hle : o.free ≤ o.total) : 0 ≤ o.percent ∧ o.percent ≤ 1000 := by
  have hu := C08_swap_used w hw o hrun
  rw [swap_out w hw o hrun] at hle hu ⊢
  simp only [toSwapOut] at hle hu ⊢
  exact usagePercent_range _ _ (by omega) (by omega)

/-- a zero total gives percent 0 (ZeroDivisionError branch), not an exception -/
theorem C08_swap_zero_total (h0 : o.total = 0) : o.percent = 0 := by
  rw [swap_out w hw o hrun] at h0 ⊢
  simp only [toSwapOut] at h0 ⊢
  simp [usagePercentScaled, h0]

/-- what the code reports: sin / sout are the kernel's pswpin / pswpout page counts ×
    `codePage` (4096 for the code as found), without a warning -/
theorem C08_swap_sin_sout_code (l : List VLine) (hl : w.vs = some l) (i u : Nat)
    (hi : vmstatGet l (K "pswpin") = some i) (hu : vmstatGet l (K "pswpout") = some u) :
    o.sin = i * codePage w.ps ∧ o.sout = u * codePage w.ps ∧ o.warned = false := by
  rw [swap_out w hw o hrun]
  simp [toSwapOut, SwapWorld.specAt, swap, hl, hi, hu]

/-- the property's clause "cumulative swapped-in/out BYTES" (pages × the kernel's page size):
    holds on 4 KiB-page kernels, and on every kernel once the code says `* PAGESIZE` -/
theorem C08_swap_sin_sout (h4k : swapPages = true ∨ w.ps = 4096)
    (l : List VLine) (hl : w.vs = some l) (i u : Nat)
    (hi : vmstatGet l (K "pswpin") = some i) (hu : vmstatGet l (K "pswpout") = some u) :
    o.sin = i * w.ps ∧ o.sout = u * w.ps ∧ o.warned = false := by
  have hc : codePage w.ps = w.ps := by
    unfold codePage
    rcases h4k with h | h
    · rw [h]; rfl
    · rw [h]; split <;> rfl
  have := C08_swap_sin_sout_code w hw o hrun l hl i u hi hu
  rwa [hc] at this

/-- unreadable /proc/vmstat or a counter not listed: BOTH reported 0, with the warning (the pair
    rule: with only one of pswpin / pswpout listed the listed one is reported 0 as well — the
    named deviation from "0 for the affected metric", see `Spec.swap`) -/
theorem C08_swap_counters_missing
    (h : w.vs = none ∨ ∃ l, w.vs = some l ∧
          (vmstatGet l (K "pswpin") = none ∨ vmstatGet l (K "pswpout") = none)) :
    o.sin = 0 ∧ o.sout = 0 ∧ o.warned = true := by
  rw [swap_out w hw o hrun]
  rcases h with h | ⟨l, hl, h | h⟩
  · simp [toSwapOut, SwapWorld.specAt, swap, h]
  · simp [toSwapOut, SwapWorld.specAt, swap, hl, h]
  · cases h1 : vmstatGet l (K "pswpin") <;> simp [toSwapOut, SwapWorld.specAt, swap, hl, h, h1]

end

/-! ### the hypotheses are satisfiable -/

def wExample : World :=
  ⟨[⟨K "MemTotal", 1000, 5, true⟩, ⟨K "MemFree", 400, 3, true⟩, ⟨K "Active(file)", 7, 0, true⟩,
    ⟨K "Inactive(file)", 8, 0, true⟩, ⟨K "SReclaimable", 5, 0, true⟩, ⟨K "HugePages_Total", 0, 7, false⟩],
   some [.other 0 (K "Node 0, zone   Normal"), .low 8 5 200, .other 8 (K "high     240")], 4096⟩

theorem wExample_wf : wExample.WF := by
  refine ⟨?_, ?_⟩
  · intro e he
    simp only [wExample, List.mem_cons, List.not_mem_nil, or_false] at he
    rcases he with rfl | rfl | rfl | rfl | rfl | rfl <;> exact ⟨by decide, by unfold NoWs; decide⟩
  · intro l hl z hz
    simp only [wExample, Option.mem_def, Option.some.injEq] at hl
    subst hl
    simp only [List.mem_cons, List.not_mem_nil, or_false] at hz
    rcases hz with rfl | rfl | rfl
    · exact ⟨by decide, by decide⟩
    · trivial
    · exact ⟨by decide, by decide⟩

/-- a world with MemAvailable missing, all fallback inputs present and watermarks above free:
    it runs, and the estimate is negative, so `available` is warned about and reported 0 -/
example : ∃ o, wExample.run = .ok o ∧ "available" ∈ o.missing ∧ o.avail = 0 ∧ o.percent = 1000 := by
  obtain ⟨o, ho⟩ := C08_never_fails wExample wExample_wf (by decide) (by decide)
  have ht : wExample.m.bytes "MemTotal" = some 1024000 := by decide
  have hf : wExample.m.bytes "MemFree" = some 409600 := by decide
  have hneg : Spec.availRaw wExample.m 409600 wExample.wm < 0 := by
    have e : Spec.availRaw wExample.m 409600 wExample.wm
        = Int.tdiv (availHalves 409600 819200 (7168 + 8192) 5120) 2 := by
      rw [calc_trunc]
      have h0 : wExample.m.bytes "MemAvailable" = none := by decide
      have h1 : wExample.m.bytes "Active(file)" = some 7168 := by decide
      have h2 : wExample.m.bytes "Inactive(file)" = some 8192 := by decide
      have h3 : wExample.m.bytes "SReclaimable" = some 5120 := by decide
      have h4 : wExample.wm = some 819200 := by decide
      simp only [Spec.availRaw, fallbackEstimate, h0, h1, h2, h3, h4]
    rw [e]
    decide
  have hm := (C08_missing_warns_exactly wExample wExample_wf _ _ ht hf o ho).2.2.2.2.2.1.mpr hneg
  have hz := (C08_missing_reports_zero wExample wExample_wf _ _ ht hf o ho).2.2.2.2.2.1 hm
  refine ⟨o, ho, hm, hz, ?_⟩
  rw [vm_out wExample wExample_wf _ _ ht hf o ho] at hz ⊢
  simp only [toOut] at hz ⊢
  rw [hz]
  decide

def swExample : SwapWorld :=
  ⟨[⟨K "SwapTotal", 1000, 5, true⟩, ⟨K "SwapFree", 400, 3, true⟩], ⟨5, 3, 4096⟩,
   some [⟨K "pgpgin", 77⟩, ⟨K "pswpin", 3⟩, ⟨K "pswpout", 9⟩], 4096⟩

theorem swExample_wf : swExample.WF := by
  refine ⟨?_, ?_⟩
  · intro e he
    simp only [swExample, List.mem_cons, List.not_mem_nil, or_false] at he
    rcases he with rfl | rfl <;> exact ⟨by decide, by unfold NoWs; decide⟩
  · intro l hl
    simp only [swExample, Option.mem_def, Option.some.injEq] at hl
    subst hl
    refine ⟨?_, ?_, by decide⟩
    · intro x hx
      simp only [List.mem_cons, List.not_mem_nil, or_false] at hx
      rcases hx with rfl | rfl | rfl <;> exact ⟨by decide, by unfold NoWs; decide⟩
    · intro x hx
      simp only [List.mem_cons, List.not_mem_nil, or_false] at hx
      rcases hx with rfl | rfl | rfl <;> exact ⟨by decide, by decide⟩

example : ∃ o, swExample.run = .ok o ∧ o.sin = 12288 ∧ o.sout = 36864 ∧ o.total = 1024000 := by
  refine ⟨_, C08_swap_refines swExample swExample_wf (Or.inr rfl), ?_, ?_, ?_⟩ <;> decide


/-! ## Extension round: the text layer on ARBITRARY bytes — which outcome, exactly when -/

/-- per line of /proc/meminfo: IndexError exactly for fewer than two blank-separated fields;
    ValueError exactly when there are two and the second is not an `int()` literal; the
    statement completes exactly when the second field is a non-negative literal -/
theorem C08_meminfo_line_outcomes (l : Bytes) :
    (lineFail l = some .indexError ↔ (splitWs l).length < 2)
    ∧ (lineFail l = some .valueError ↔
        2 ≤ (splitWs l).length ∧ pyIntLit ((splitWs l).getD 1 []) = .invalid)
    ∧ (lineFail l = none ↔
        2 ≤ (splitWs l).length ∧ ∃ n, pyIntLit ((splitWs l).getD 1 []) = .nat n)
    ∧ (∀ k, lineFail l ≠ some (.keyError k)) := by
  unfold lineFail
  by_cases h : (splitWs l).length < 2
  · simp [h] <;> omega
  · have h2 : 2 ≤ (splitWs l).length := by omega
    simp only [h, if_false, h2, true_and]
    cases pyIntLit ((splitWs l).getD 1 []) <;> simp

/-- the parsing loop on arbitrary file content: it raises exactly the failure of the FIRST
    failing line; it completes exactly when no line fails, and then `mems` holds, per key, the
    last line's figure × 1024 -/
theorem C08_parse_meminfo_outcomes (content : Bytes) :
    (∀ e, parseMeminfo cfg.vmParse content = .error e ↔ meminfoFail content = some e)
    ∧ ((∃ m, parseMeminfo cfg.vmParse content = .ok m) ↔ ∀ l ∈ linesOf content, lineFail l = none)
    ∧ (∀ m, parseMeminfo cfg.vmParse content = .ok m → m = memsOf 1024 content) := by
  rw [cfg_good.1, show kernelCfg.vmParse = ⟨0, 1, 1024⟩ from rfl]
  obtain ⟨h1, h2⟩ := parseMeminfo_char 1024 content
  rw [← meminfoFail_none_iff]
  cases hm : meminfoFail content with
  | some e0 =>
    have := h1 e0 hm
    refine ⟨fun e => ?_, ?_, fun m hmm => ?_⟩
    · rw [this]; constructor
      · intro h; cases h; rfl
      · intro h; cases h; rfl
    · rw [this]; simp
    · rw [this] at hmm; cases hmm
  | none =>
    have := h2 hm
    refine ⟨fun e => ?_, ?_, fun m hmm => ?_⟩
    · rw [this]; simp
    · rw [this]; simp
    · rw [this] at hmm; cases hmm; rfl

/-- `virtual_memory()` on ARBITRARY contents of /proc/meminfo and /proc/zoneinfo raises exactly
    what `vmFail` says (first failing meminfo line; KeyError for a missing MemTotal, then MemFree;
    first failing `low` line of zoneinfo when — and only when — the estimate reads it) … -/
theorem C08_vm_fails_iff (ps : Nat) (mi : Bytes) (zi : Option Bytes) (e : Err) :
    virtualMemory cfg ps mi zi = .error e ↔ vmFail mi zi = some e := by
  rw [cfg_good.1]
  obtain ⟨h1, h2⟩ := virtualMemory_char ps mi zi
  constructor
  · intro h
    cases hv : vmFail mi zi with
    | none => obtain ⟨o, ho⟩ := h2 hv; rw [ho] at h; cases h
    | some e' => have := h1 e' hv; rw [this] at h; cases h; rfl
  · exact h1 e

/-- … and succeeds exactly otherwise: the exact converse of `C08_never_fails` -/
theorem C08_vm_ok_iff (ps : Nat) (mi : Bytes) (zi : Option Bytes) :
    (∃ o, virtualMemory cfg ps mi zi = .ok o) ↔ vmFail mi zi = none := by
  rw [cfg_good.1]
  obtain ⟨h1, h2⟩ := virtualMemory_char ps mi zi
  constructor
  · rintro ⟨o, ho⟩
    cases hv : vmFail mi zi with
    | none => rfl
    | some e' => have := h1 e' hv; rw [this] at ho; cases ho
  · exact h2

/-- never any other exception class: whatever the bytes, the call returns, or raises IndexError,
    ValueError, KeyError(b'MemTotal:') or KeyError(b'MemFree:') — or `int()` produced a negative
    number, where the model explicitly stops (no claim) -/
theorem C08_parse_total_outcomes (ps : Nat) (mi : Bytes) (zi : Option Bytes) :
    (∃ o, virtualMemory cfg ps mi zi = .ok o)
    ∨ virtualMemory cfg ps mi zi = .error .indexError
    ∨ virtualMemory cfg ps mi zi = .error .valueError
    ∨ virtualMemory cfg ps mi zi = .error (.keyError (key "MemTotal"))
    ∨ virtualMemory cfg ps mi zi = .error (.keyError (key "MemFree"))
    ∨ virtualMemory cfg ps mi zi = .error .negLiteral := by
  cases hv : vmFail mi zi with
  | none => exact Or.inl ((C08_vm_ok_iff ps mi zi).mpr hv)
  | some e =>
    have hrun := (C08_vm_fails_iff ps mi zi e).mpr hv
    rw [hrun]
    have hline : ∀ l, lineFail l = some e →
        e = .indexError ∨ e = .valueError ∨ e = .negLiteral := by
      intro l hl
      unfold lineFail at hl
      split at hl
      · cases hl; simp
      · split at hl <;> cases hl <;> simp
    have hlow : ∀ l, lowFail l = some e →
        e = .indexError ∨ e = .valueError ∨ e = .negLiteral := by
      intro l hl
      unfold lowFail at hl
      simp only at hl
      split at hl
      · split at hl
        · cases hl; simp
        · split at hl <;> cases hl <;> simp
      · cases hl
    have hcls : e = .indexError ∨ e = .valueError ∨ e = .negLiteral
        ∨ e = .keyError (key "MemTotal") ∨ e = .keyError (key "MemFree") := by
      unfold vmFail at hv
      cases hm : meminfoFail mi with
      | some e0 =>
        rw [hm] at hv
        cases hv
        obtain ⟨l, _, hl⟩ := head?_filterMap_mem lineFail _ _ hm
        rcases hline l hl with h | h | h <;> simp [h]
      | none =>
        rw [hm] at hv
        simp only at hv
        split at hv
        · cases hv; simp
        · split at hv
          · cases hv; simp
          · split at hv
            · cases zi with
              | none => cases hv
              | some z =>
                obtain ⟨l, _, hl⟩ := head?_filterMap_mem lowFail _ _ hv
                rcases hlow l hl with h | h | h <;> simp [h]
            · cases hv
    rcases hcls with h | h | h | h | h <;> subst h <;> simp

/-- the exact converse of `C08_never_fails` on the kernel's own format: a rendered world runs
    iff MemTotal and MemFree are listed; without them the call raises KeyError for the first
    missing of the two -/
theorem C08_never_fails_iff (w : World) (hw : w.WF) :
    ((∃ o, w.run = .ok o) ↔
      ((w.m.get (K "MemTotal")).isSome = true ∧ (w.m.get (K "MemFree")).isSome = true))
    ∧ (w.m.get (K "MemTotal") = none → w.run = .error (.keyError (key "MemTotal")))
    ∧ ((w.m.get (K "MemTotal")).isSome = true → w.m.get (K "MemFree") = none →
        w.run = .error (.keyError (key "MemFree"))) := by
  have hp : parseMeminfo kernelCfg.vmParse (renderMeminfo w.es)
      = .ok ((w.es.map (kv 1024)).reverse) := parseMeminfo_render 1024 w.es hw.1
  have hB := bridge_parsed w.es
  have hT : w.m.get (K "MemTotal") = none → w.run = .error (.keyError (key "MemTotal")) := by
    intro h
    unfold World.run virtualMemory
    rw [cfg_good.1, hp]
    simp only
    unfold vmCore
    rw [show kernelCfg.kMemTotal = key "MemTotal" from rfl, hB "MemTotal"]
    simp [MemInfo.bytes, show (MemInfo.ofEntries w.es).get (K "MemTotal") = none from h]
  have hF : (w.m.get (K "MemTotal")).isSome = true → w.m.get (K "MemFree") = none →
      w.run = .error (.keyError (key "MemFree")) := by
    intro ht h
    obtain ⟨t, ht'⟩ := Option.isSome_iff_exists.mp ht
    unfold World.run virtualMemory
    rw [cfg_good.1, hp]
    simp only
    unfold vmCore
    rw [show kernelCfg.kMemTotal = key "MemTotal" from rfl,
      show kernelCfg.kMemFree = key "MemFree" from rfl, hB "MemTotal", hB "MemFree"]
    simp [MemInfo.bytes, show (MemInfo.ofEntries w.es).get (K "MemTotal") = some t from ht',
      show (MemInfo.ofEntries w.es).get (K "MemFree") = none from h]
  refine ⟨⟨fun ⟨o, ho⟩ => ?_, fun ⟨a, b⟩ => C08_never_fails w hw a b⟩, hT, hF⟩
  cases h1 : w.m.get (K "MemTotal") with
  | none => rw [hT h1] at ho; cases ho
  | some t =>
    cases h2 : w.m.get (K "MemFree") with
    | none => rw [hF (by simp [h1]) h2] at ho; cases ho
    | some f => simp

/-! ### swap_memory(): outcomes, the unreadable /proc/vmstat, the prefix tests -/

/-- swap_memory() on ARBITRARY bytes never raises KeyError (nor anything but IndexError /
    ValueError): the two keys are optional, the sysinfo fallback takes over -/
theorem C08_swap_total_outcomes (mi : Bytes) (sys : Sysinfo) (vs : Option Bytes) :
    (∃ o, swapMemory cfg mi sys vs = .ok o)
    ∨ swapMemory cfg mi sys vs = .error .indexError
    ∨ swapMemory cfg mi sys vs = .error .valueError
    ∨ swapMemory cfg mi sys vs = .error .negLiteral := by
  have key : ∀ e, swapMemory cfg mi sys vs = .error e →
      e = .indexError ∨ e = .valueError ∨ e = .negLiteral := by
    intro e h
    rw [cfg_good.1] at h
    unfold swapMemory at h
    obtain ⟨h1, h2⟩ := parseMeminfo_char 1024 mi
    rw [show kernelCfg.swParse = ⟨0, 1, 1024⟩ from rfl] at h
    cases hm : meminfoFail mi with
    | some e0 =>
      rw [h1 e0 hm] at h
      cases h
      obtain ⟨l, _, hl⟩ := head?_filterMap_mem lineFail _ _ hm
      have := (C08_meminfo_line_outcomes l).2.2.2
      unfold lineFail at hl
      split at hl
      · cases hl; simp
      · split at hl <;> cases hl <;> simp
    | none =>
      rw [h2 hm] at h
      simp only at h
      unfold swapCore at h
      simp only at h
      cases vs with
      | none => simp at h
      | some v =>
        simp only at h
        split at h
        · next e' he => cases h; exact vmstatLoop_err_range _ _ _ _ _ he
        · cases h
        · cases h
  cases hr : swapMemory cfg mi sys vs with
  | ok o => exact Or.inl ⟨o, rfl⟩
  | error e => rcases key e hr with h | h | h <;> subst h <;> simp

/-- a failing /proc/meminfo line fails swap_memory() the same way (it runs the same loop) -/
theorem C08_swap_fails_on_meminfo (mi : Bytes) (sys : Sysinfo) (vs : Option Bytes) (e : Err)
    (h : meminfoFail mi = some e) : swapMemory cfg mi sys vs = .error e := by
  rw [cfg_good.1]
  unfold swapMemory
  rw [show kernelCfg.swParse = ⟨0, 1, 1024⟩ from rfl, (parseMeminfo_char 1024 mi).1 e h]

/-- /proc/vmstat missing or unreadable (`except OSError`): for ANY parseable /proc/meminfo the
    call succeeds, sin = sout = 0 and the RuntimeWarning is issued -/
theorem C08_swap_vmstat_unreadable (mi : Bytes) (sys : Sysinfo) (h : meminfoFail mi = none) :
    ∃ o, swapMemory cfg mi sys none = .ok o ∧ o.sin = 0 ∧ o.sout = 0 ∧ o.warned = true := by
  rw [cfg_good.1]
  unfold swapMemory
  rw [show kernelCfg.swParse = ⟨0, 1, 1024⟩ from rfl, (parseMeminfo_char 1024 mi).2 h]
  simp [swapCore]

/-- the loop, case "pswpout completes the pair": the lines before it hold no `pswpout…` line and
    at least one `pswpin…` line; then sin is the LAST `pswpin…`-prefixed line's value (a later
    match overwrites an earlier one), sout this line's, and nothing after it is read -/
theorem C08_vmstat_break_on_out (pre post : List Bytes) (l : Bytes)
    (hno : ∀ x ∈ pre, isOut x = false) (hex : ∃ x ∈ pre, isIn x = true)
    (hgood : ∀ x ∈ pre, isIn x = true → ∃ v, swapField x = .ok v)
    (hl : isOut l = true) (v : Nat) (hv : swapField l = .ok v) :
    ∃ a, lastVal isIn pre none = some a ∧
      vmstatLoop cfg (pre ++ l :: post) none none = .ok (some (a, v)) := by
  rw [cfg_good.1]
  obtain ⟨a, ha⟩ := lastVal_isSome isIn pre hex hgood
  refine ⟨a, ha, ?_⟩
  have hi : isIn l = false := by
    cases h : isIn l with
    | false => rfl
    | true => rw [isIn_isOut l h] at hl; cases hl
  rw [loop_skip_noOut pre _ none hno hgood, ha, loop_step_out l post (some a) none hi hl, hv]

/-- … case "pswpin completes the pair" -/
theorem C08_vmstat_break_on_in (pre post : List Bytes) (l : Bytes)
    (hno : ∀ x ∈ pre, isIn x = false) (hex : ∃ x ∈ pre, isOut x = true)
    (hgood : ∀ x ∈ pre, isOut x = true → ∃ v, swapField x = .ok v)
    (hl : isIn l = true) (v : Nat) (hv : swapField l = .ok v) :
    ∃ b, lastVal isOut pre none = some b ∧
      vmstatLoop cfg (pre ++ l :: post) none none = .ok (some (v, b)) := by
  rw [cfg_good.1]
  obtain ⟨b, hb⟩ := lastVal_isSome isOut pre hex hgood
  refine ⟨b, hb, ?_⟩
  rw [loop_skip_noIn pre _ none hno hgood, hb, loop_step_in l post none (some b) hl, hv]

/-- … case "no pair": one of the two prefixes never occurs (the matching lines being readable):
    the `for … else` branch — both counters 0 with the warning -/
theorem C08_vmstat_no_pair (ls : List Bytes)
    (h : (∀ x ∈ ls, isOut x = false) ∧ (∀ x ∈ ls, isIn x = true → ∃ v, swapField x = .ok v)
       ∨ (∀ x ∈ ls, isIn x = false) ∧ (∀ x ∈ ls, isOut x = true → ∃ v, swapField x = .ok v)) :
    vmstatLoop cfg ls none none = .ok none := by
  rw [cfg_good.1]
  rcases h with ⟨h1, h2⟩ | ⟨h1, h2⟩
  · have := loop_skip_noOut ls [] none h1 h2
    simpa [vmstatLoop] using this
  · have := loop_skip_noIn ls [] none h1 h2
    simpa [vmstatLoop] using this

/-- … case "error": a matching line whose `split(b' ')[1]` is missing / not an int raises, when
    it is reached before the pair is complete -/
theorem C08_vmstat_error (pre post : List Bytes) (l : Bytes) (e : Err)
    (hpre : (∀ x ∈ pre, isOut x = false) ∧ (∀ x ∈ pre, isIn x = true → ∃ v, swapField x = .ok v)
          ∨ (∀ x ∈ pre, isIn x = false) ∧ (∀ x ∈ pre, isOut x = true → ∃ v, swapField x = .ok v))
    (hl : isIn l = true ∨ isOut l = true) (he : swapField l = .error e) :
    vmstatLoop cfg (pre ++ l :: post) none none = .error e := by
  rw [cfg_good.1]
  have step : ∀ s t, vmstatLoop kernelCfg (l :: post) s t = .error e := by
    intro s t
    rcases hl with hl | hl
    · rw [loop_step_in l post s t hl, he]
    · have hi : isIn l = false := by
        cases h : isIn l with
        | false => rfl
        | true => rw [isIn_isOut l h] at hl; cases hl
      rw [loop_step_out l post s t hi hl, he]
  rcases hpre with ⟨h1, h2⟩ | ⟨h1, h2⟩
  · rw [loop_skip_noOut pre _ none h1 h2]; exact step _ _
  · rw [loop_skip_noIn pre _ none h1 h2]; exact step _ _

/-- full-strength reading without the no-clash hypothesis: "sin is the pswpin counter whatever
    other names /proc/vmstat lists" -/
def C08_swap_sin_is_pswpin_Full : Prop :=
  ∀ (vs : List VLine) (i : Nat), (∀ l ∈ vs, l.name ≠ [] ∧ NoWs l.name) →
    vmstatGet vs (K "pswpin") = some i → (vmstatGet vs (K "pswpout")).isSome = true →
    ∃ b, vmstatLoop cfg (linesOf (renderVmstat vs)) none none = .ok (some (i * 4096, b))

def vClash : List VLine := [⟨K "pswpin", 5⟩, ⟨K "pswpin_x", 9⟩, ⟨K "pswpout", 3⟩]

/-- it needs the hypothesis (`VWF.noClash`): `startswith` is a prefix test, so a counter named
    `pswpin_x` listed between pswpin and pswpout is read INSTEAD (last match before the break):
    sin = 9 × 4096, not 5 × 4096. No kernel up to 6.18 lists such a name (checked on the live
    /proc/vmstat on every run); replayed on the real code (corpus:swap_prefix_clash) -/
theorem C08_swap_prefix_clash_reads_other_counter :
    vmstatLoop cfg (linesOf (renderVmstat vClash)) none none = .ok (some (9 * 4096, 3 * 4096))
    ∧ ¬ C08_swap_sin_is_pswpin_Full := by
  have h : vmstatLoop cfg (linesOf (renderVmstat vClash)) none none
      = .ok (some (9 * 4096, 3 * 4096)) := by
    have hr : renderVmstat vClash = K "pswpin 5\npswpin_x 9\npswpout 3\n" := by
      have d : ∀ n, n < 10 → renderDec n = [48 + n] := by
        intro n hn
        unfold renderDec renderRadix
        rw [renderRadixAux]
        simp [decimal, hn]
      simp only [renderVmstat, vClash, renderVLine, List.map_cons, List.map_nil, d 5 (by decide),
        d 9 (by decide), d 3 (by decide)]
      decide
    rw [cfg_good.1, hr]; decide
  refine ⟨h, fun hf => ?_⟩
  obtain ⟨b, hb⟩ := hf vClash 5 (by
    intro l hl
    simp only [vClash, List.mem_cons, List.not_mem_nil, or_false] at hl
    rcases hl with rfl | rfl | rfl <;> exact ⟨by decide, by unfold NoWs; decide⟩) (by decide) (by decide)
  rw [h] at hb
  simp at hb

/-! ### the native record behind the fallback (arch/linux/mem.c) -/

/-- what the Python keeps of `cext.linux_sysinfo()` is (totalswap, freeswap, mem_unit) of
    `struct sysinfo`, whatever the other members hold -/
theorem C08_sysinfo_native (s : SysinfoC) :
    sysView cfg (s.tuple cfg.sysCOrder) = some ⟨s.totalswap, s.freeswap, s.mem_unit⟩ := by
  rw [cfg_good.1]; rfl

/-- … so the fallback reports bytes: the kernel's counts × `mem_unit` -/
theorem C08_swap_sysinfo_bytes (w : SwapWorld) (hw : w.WF) (o : SwapOut) (hrun : w.run = .ok o)
    (s : SysinfoC) (hs : sysView cfg (s.tuple cfg.sysCOrder) = some w.sys)
    (h : w.m.bytes "SwapTotal" = none ∨ w.m.bytes "SwapFree" = none) :
    o.total = s.totalswap * s.mem_unit ∧ o.free = s.freeswap * s.mem_unit := by
  rw [C08_sysinfo_native] at hs
  have := C08_swap_sysinfo_fallback w hw o hrun h
  rw [← Option.some.inj hs] at this
  exact ⟨this.1, this.2.1⟩

/-! ### `percent`: how far a computation that is only ε-accurate can be from the exact rounding

  There is NO model of IEEE doubles here. The `C08_percent` theorems are about the exact quotient
  (`usagePercentScaled`, integers). What follows is a lemma on RATIONALS in which the accuracy ε
  of the real computation is a HYPOTHESIS (`h1 h2`), not something proved about `float.__truediv__`:
  it states which relation between the returned value and the model's value the correspondence
  check may tolerate (|r' − r| ≤ 0.1, and only next to a rounding boundary) and nothing more. The
  harness instantiates ε = |exact|·2⁻⁵¹ (two correctly rounded operations; TRUSTED), counts the
  cases inside that margin (`vm:percent_boundary_cases`) and demands bit-equality elsewhere. -/

/-- IF a rational `x` is within ε < 1/20 of the exact percent and `r'` is `x` rounded to one
    decimal (`IsRound1 x r'`), THEN `r'` and the model's percent differ by at most 0.1, and differ
    at all only when the exact value is within ε of a rounding boundary (an odd multiple of 1/20).
    (Was `C08_percent_float_stable`: renamed, it proves nothing about floats.) -/
theorem C08_percent_stable_within_eps (w : World) (hw : w.WF) (total free : Nat)
    (ht : w.m.bytes "MemTotal" = some total) (hf : w.m.bytes "MemFree" = some free)
    (o : VmOut) (hrun : w.run = .ok o) (x r' ε : ℚ) (hx : IsRound1 x r')
    (h1 : x - percentExact o.total o.avail ≤ ε) (h2 : percentExact o.total o.avail - x ≤ ε)
    (hs : ε < 1 / 20) :
    (r' - (o.percent : ℚ) / 10 ≤ 1 / 10 ∧ (o.percent : ℚ) / 10 - r' ≤ 1 / 10)
    ∧ (r' ≠ (o.percent : ℚ) / 10 → ∃ k : ℤ,
        percentExact o.total o.avail - (2 * (k : ℚ) + 1) / 20 ≤ ε
        ∧ (2 * (k : ℚ) + 1) / 20 - percentExact o.total o.avail ≤ ε) :=
  round1_stable _ x _ r' ε (C08_percent w hw total free ht hf o hrun) hx h1 h2 hs

/-- the same for swap_memory().percent -/
theorem C08_swap_percent_stable_within_eps (w : SwapWorld) (hw : w.WF) (o : SwapOut)
    (hrun : w.run = .ok o) (x r' ε : ℚ) (hx : IsRound1 x r')
    (h1 : x - swapPercentExact o.total o.used ≤ ε) (h2 : swapPercentExact o.total o.used - x ≤ ε)
    (hs : ε < 1 / 20) :
    (r' - (o.percent : ℚ) / 10 ≤ 1 / 10 ∧ (o.percent : ℚ) / 10 - r' ≤ 1 / 10)
    ∧ (r' ≠ (o.percent : ℚ) / 10 → ∃ k : ℤ,
        swapPercentExact o.total o.used - (2 * (k : ℚ) + 1) / 20 ≤ ε
        ∧ (2 * (k : ℚ) + 1) / 20 - swapPercentExact o.total o.used ≤ ε) :=
  round1_stable _ x _ r' ε (C08_swap_percent w hw o hrun) hx h1 h2 hs

/-! ### psutil/__init__.py: virtual_memory() primes `_TOTAL_PHYMEM` (used by memory_percent) -/

/-- a successful call stores the record's `total` in `_TOTAL_PHYMEM`, whatever was there; a call
    that raises leaves it alone -/
theorem C08_vm_sets_total_phymem (w : World) (hw : w.WF) (total free : Nat)
    (ht : w.m.bytes "MemTotal" = some total) (hf : w.m.bytes "MemFree" = some free)
    (st : Option Int) :
    (frontVm cfg st w.run).1 = some (total : Int)
    ∧ (∀ e, (frontVm cfg st (.error e)).1 = st) := by
  obtain ⟨o, ho⟩ := C08_never_fails w hw (by simpa [MemInfo.bytes] using congrArg Option.isSome ht)
    (by simpa [MemInfo.bytes] using congrArg Option.isSome hf)
  have hto := (C08_fields_exact w hw total free ht hf o ho).1
  rw [ho, cfg_good.1]
  refine ⟨?_, fun e => rfl⟩
  simp [frontVm, kernelCfg, VmOut.var, hto]

/-- `Process.memory_percent()` divides by the primed figure as long as it is truthy — even when
    /proc/meminfo has changed since (`fresh` is what a new call would return) — and calls
    virtual_memory() again (priming the cache anew) when it is `None` or 0 -/
theorem C08_memory_percent_uses_primed_total (t : Int) (fresh : Except Err VmOut) :
    (t ≠ 0 → memPercentTotal cfg (some t) fresh = (some t, some t))
    ∧ (∀ o, fresh = .ok o → memPercentTotal cfg none fresh = (some (o.total : Int), some (o.total : Int))
        ∧ memPercentTotal cfg (some 0) fresh = (some (o.total : Int), some (o.total : Int))) := by
  rw [cfg_good.1]
  refine ⟨fun h => ?_, fun o ho => ?_⟩
  · simp [memPercentTotal, kernelCfg, h]
  · subst ho
    simp [memPercentTotal, frontVm, kernelCfg, VmOut.var]

end Psutil.C08
