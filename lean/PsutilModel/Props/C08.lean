import PsutilModel.Proofs.C08
import PsutilModel.Model.C08Gen
namespace Psutil.C08
open Spec

/-- the configuration the translator extracted from the current source is the one the theorems
    below are proved for (keys, factors, guards, prefixes, record layouts) -/
theorem cfg_good : cfg = kernelCfg ∧ shapeOk = true := by decide

end Psutil.C08
