/-
  Props/C04.lean — property theorems for C04 (`pids()`, `pid_exists()`, `process_iter()`).
  Helper lemmas live in Proofs/C04*.lean.

  `cfg` is built from Generated/C04.lean, which the translator rewrites from /repo's source on
  every run. Proof obligations on the facts (each one stops building when the fact changes):
  `cfg_good` (`pid_exists` turns the OverflowError of an out-of-range int into False, lead L4),
  `cfg_reuse_attrs` (the ONLY `as_dict` name whose getter calls `_raise_if_pid_reused()` is `ppid`:
  the region of known finding C04-reuse-check-skips-pid must not grow), `cfg_no_access_attrs`
  (`as_dict` answers exactly `pid` and `create_time` from the object), `cfg_names_valid` (those three
  are valid names), `cfg_pop_guarded` (fix 4d302c5), `cfg_flag_set_ops` / `cfg_pmap_ops` (EVERY use of the two
  module globals `_pids_reused` / `_pmap` in the package: `is_running()` adds, the prologue of `process_iter`
  tests and pops, `cache_clear()` clears `_pmap` only — the frame the flag-lifetime theorems
  `C04_flag_kept_by_every_other_op` … `C04_found_recycled_never_yielded_again` rest on). The order in which `process_iter` drains
  `_pids_reused` (`cfg.drainFirst`, lead L19 — a known finding, its repair is pinned by an
  existing test) is NOT an obligation: it selects which model the driver runs. Safety theorems hold
  for both orders; completeness at full strength for the repaired order only (`…_repaired`), refuted
  for the shipped one (`C04_iter_each_listed_Full_fails_shipped`), where the two-iteration form
  `C04_recycled_replaced_two_iterations` holds instead.
-/
import PsutilModel.Proofs.C04Whole
import PsutilModel.Proofs.C04Fine
import PsutilModel.Proofs.C04Flag
import PsutilModel.Proofs.C04Keep
import PsutilModel.Proofs.C04Status
import PsutilModel.Proofs.C04Scan
import PsutilModel.Model.C04Gen
import PsutilModel.Model.C04ScanGen
namespace Psutil.C04
open Spec

/-- what the `pid_exists` / refinement theorems need of the translator facts (every field is used by a
    proof: `C04_pidExists_iff`, `C04_refines_sequential`) -/
structure Cfg.Good (c : Cfg) : Prop where
  range : c.rangeGuard = true

theorem cfg_good : cfg.Good := ⟨by decide⟩

/-- **obligation (audit item 3).** `ppid` is the only `as_dict` name whose getter calls
    `_raise_if_pid_reused()` (anywhere in its body). A getter that gains the call — `process_iter(attrs=[that
    name])` would then drop every recycled PID — changes this fact and stops the build; the harness keeps the
    region of known finding C04-reuse-check-skips-pid pinned to `ppid`, so the new behaviour is a failing
    input, not a known finding. Consumed by `C04_noReuse_iff`. -/
theorem cfg_reuse_attrs : cfg.reuseAttrs = ["ppid"] := by decide

/-- **obligation.** exactly `pid` (special-cased by `as_dict`) and `create_time` (cached by `_init`) are
    answered from the object without looking at the process. Consumed by `C04_noReuse_iff`; pins the
    parameter `noAccess` of the specification machine in `C04_refines_sequential`. -/
theorem cfg_no_access_attrs : cfg.noAccessAttrs = ["create_time", "pid"] := by decide

/-- **obligation.** the names the model gives a kind of their own are valid `as_dict` names -/
theorem cfg_names_valid :
    cfg.validNames.contains "pid" = true ∧ cfg.validNames.contains "create_time" = true
    ∧ cfg.validNames.contains "ppid" = true := by decide

/-- what the hypothesis `NoReuse cfg attrs` of the completeness / refinement theorems means for the code as
    it is (uses `cfg_reuse_attrs`, `cfg_no_access_attrs`, `cfg_names_valid`): `attrs=None`, or a non-empty
    list of names without `ppid`. `attrs=[]` (all names, `ppid` among them) is excluded. -/
theorem C04_noReuse_iff (l : List String) :
    NoReuse cfg (.names l) ↔ l ≠ [] ∧ "ppid" ∉ l := by
  have kind : ∀ n, kindOf cfg n = .reuse ↔ n = "ppid" := by
    intro n
    simp only [kindOf, cfg_reuse_attrs, cfg_no_access_attrs]
    by_cases h1 : n = "create_time"
    · subst h1; decide
    · by_cases h2 : n = "pid"
      · subst h2; decide
      · by_cases h3 : n = "ppid"
        · subst h3; decide
        · simp [h1, h2, h3]
  simp only [NoReuse, namesOf]
  cases l with
  | nil =>
    simp only [List.isEmpty_nil, if_true, ne_eq, not_true_eq_false, false_and, iff_false]
    intro h
    have hv : "ppid" ∈ cfg.validNames := by simpa using cfg_names_valid.2.2
    exact h "ppid" hv ((kind "ppid").mpr rfl)
  | cons x xs =>
    simp only [List.isEmpty_cons, Bool.false_eq_true, if_false, ne_eq, reduceCtorEq, not_false_eq_true, true_and]
    constructor
    · intro h hm
      exact h "ppid" ((mem_dedup _ _).mpr hm) ((kind "ppid").mpr rfl)
    · intro h n hn hk
      rw [(kind n).mp hk] at hn
      exact h ((mem_dedup _ _).mp hn)

/-! ## `pids()` -/

/-- an entry of the procfs root: a process directory or something whose name is not all digits -/
inductive DirEntry
  | proc (pid : Nat)
  | other (name : Bytes)

def DirEntry.name : DirEntry → Bytes
  | .proc pid => renderDec pid
  | .other n => n

def DirEntry.pid? : DirEntry → Option Nat
  | .proc pid => some pid
  | .other _ => none

/-- **C04_listing_exact.** Whatever else the procfs root contains and in whatever order the
    directory is read, `_pslinux.pids()` returns exactly the PIDs of the process directories
    (kernel fact used: no other entry of `/proc` has an all-digit name). -/
theorem C04_listing_exact (es : List DirEntry)
    (hother : ∀ n, DirEntry.other n ∈ es → isDigitName n = false) :
    pidsOfEntries (es.map DirEntry.name) = es.filterMap DirEntry.pid? := by
  induction es with
  | nil => rfl
  | cons e es ih =>
    have ih' := ih (fun n hn => hother n (by simp [hn]))
    cases e with
    | proc pid =>
      have hd : isDigitName (renderDec pid) = true := by
        simp only [isDigitName, Bool.and_eq_true, Bool.not_eq_true', List.isEmpty_eq_false_iff,
          List.all_eq_true]
        exact ⟨renderDec_ne_nil pid, renderDec_isDigit pid⟩
      simp only [pidsOfEntries, List.map_cons, DirEntry.name, List.filterMap_cons, hd, if_true,
        parseDec_renderDec, DirEntry.pid?] at ih' ⊢
      rw [ih']
    | other n =>
      have hd := hother n (by simp)
      simp only [pidsOfEntries, List.map_cons, DirEntry.name, List.filterMap_cons, hd,
        Bool.false_eq_true, if_false, DirEntry.pid?] at ih' ⊢
      rw [ih']

/-- **C04_pids_sorted_exact.** For every non-empty table with one entry per PID, `pids()` returns
    the strictly ascending list whose members are exactly the listed PIDs. -/
theorem C04_pids_sorted_exact (c : Cfg) (s : St) (hne : s.k.procs ≠ []) (hnd : s.k.listdir.Nodup) :
    ∃ l, (step c s .pids).2 = .pidList l ∧ IsPidList s.k l := by
  have hsorted := sortNat_sorted s.k.listdir hnd
  have hmem : ∀ n, n ∈ sortNat s.k.listdir ↔ ∃ p ∈ s.k.procs, p.pid = n := by
    intro n; rw [mem_sortNat, mem_listdir]
  simp only [step, pidsCall]
  cases hs : sortNat s.k.listdir with
  | nil =>
    exfalso
    cases hp : s.k.procs with
    | nil => exact hne hp
    | cons p ps =>
      have : p.pid ∈ sortNat s.k.listdir := (hmem p.pid).mpr ⟨p, by simp [hp], rfl⟩
      rw [hs] at this; simp at this
  | cons p ps =>
    refine ⟨p :: ps, rfl, ?_⟩
    rw [← hs]
    exact ⟨hsorted, hmem⟩

/-- the ascending PID list is unique: any list meeting the specification is what `pids()` returns -/
theorem C04_pids_unique (k : Kernel) (l1 l2 : List Nat) (h1 : IsPidList k l1) (h2 : IsPidList k l2) :
    l1 = l2 :=
  eq_of_sorted_mem h1.1 h2.1 (fun a => by rw [h1.2, h2.2])

/-- `pids()` records the smallest PID in `_LOWEST_PID` -/
theorem C04_pids_sets_lowest (c : Cfg) (s : St) (l : List Nat) (h : (step c s .pids).2 = .pidList l)
    (hnd : s.k.listdir.Nodup) :
    ∃ m, (step c s .pids).1.lowest = some m ∧ m ∈ s.k.listdir ∧ ∀ n ∈ s.k.listdir, m ≤ n := by
  have hsorted := sortNat_sorted s.k.listdir hnd
  simp only [step, pidsCall] at h ⊢
  cases hs : sortNat s.k.listdir with
  | nil => rw [hs] at h; simp at h
  | cons p ps =>
    rw [hs] at hsorted
    refine ⟨p, rfl, ?_, ?_⟩
    · rw [← mem_sortNat, hs]; simp
    · intro n hn
      rw [← mem_sortNat, hs] at hn
      rcases List.mem_cons.mp hn with e | hm
      · omega
      · exact Nat.le_of_lt ((List.pairwise_cons.mp hsorted).1 n hm)

/-! ## `pid_exists()` -/

/-- **C04_pidExists_iff.** For every integer `n` (negative, zero, thread id, id of a foreign
    process, id whose status file cannot be read or lacks its `Tgid:` line, out of `pid_t`
    range…) and every well-formed non-empty table, `pid_exists(n)` returns a bool — never an
    exception — which is True exactly when `n` is a listed PID. -/
theorem C04_pidExists_iff (c : Cfg) (hg : c.Good) (s : St) (hwf : s.k.WF) (hne : s.k.procs ≠ [])
    (n : Int) :
    ∃ b, (step c s (.pidExists n)).2 = .bool b ∧ (b = true ↔ Spec.Exists s.k n) := by
  simp only [step, pidExists]
  by_cases hneg : n < 0
  · refine ⟨false, by simp [hneg], ?_⟩
    simp only [Bool.false_eq_true, false_iff, Spec.Exists]
    omega
  · simp only [hneg, if_false]
    have hn0 : 0 ≤ n := by omega
    have hcast : ((n.toNat : Nat) : Int) = n := Int.toNat_of_nonneg hn0
    have hex : Spec.Exists s.k n ↔ n.toNat ∈ s.k.listdir := by
      rw [mem_listdir]
      simp only [Spec.Exists, hn0, true_and]
      constructor
      · rintro ⟨p, hp, e⟩; exact ⟨p, hp, by omega⟩
      · rintro ⟨p, hp, e⟩; exact ⟨p, hp, by omega⟩
    by_cases hz : n.toNat = 0
    · -- pid 0: `0 in pids()`
      simp only [hz, beq_self_eq_true, if_true, pidsCall]
      cases hs : sortNat s.k.listdir with
      | nil =>
        exfalso
        cases hp : s.k.procs with
        | nil => exact hne hp
        | cons p ps =>
          have : p.pid ∈ sortNat s.k.listdir := by rw [mem_sortNat, mem_listdir]; exact ⟨p, by simp [hp], rfl⟩
          rw [hs] at this; simp at this
      | cons p ps =>
        refine ⟨(p :: ps).contains 0, rfl, ?_⟩
        rw [hex, hz, ← mem_sortNat, hs]
        simp
    · have hzb : (n.toNat == 0) = false := by simpa using hz
      simp only [hzb, Bool.false_eq_true, if_false, hg.range, Bool.true_and, decide_eq_true_eq]
      by_cases hbig : n.toNat > pidTMax
      · refine ⟨false, by simp [hbig], ?_⟩
        simp only [Bool.false_eq_true, false_iff, hex, mem_listdir]
        rintro ⟨p, hp, e⟩
        have := hwf.bound p hp
        omega
      · simp only [hbig, if_false, platformPidExists, Kernel.kill]
        cases hfp : s.k.findProc n.toNat with
        | some p =>
          have hp := findProc_some hfp
          have hlisted : n.toNat ∈ s.k.listdir := mem_listdir.mpr ⟨p, hp.1, hp.2⟩
          have hcontains : s.k.listdir.contains n.toNat = true := by simpa using hlisted
          refine ⟨true, ?_, by simp [hex, hlisted]⟩
          simp only [Kernel.readStatus, hfp]
          cases p.foreign <;> cases p.status <;> simp [hlisted]
        | none =>
          have hnl : n.toNat ∉ s.k.listdir := by
            rw [mem_listdir]; rintro ⟨p, hp, e⟩; exact findProc_none hfp p hp e
          have hcontains : s.k.listdir.contains n.toNat = false := by simpa using hnl
          refine ⟨false, ?_, by simp [hex, hnl]⟩
          simp only [Kernel.readStatus, hfp]
          cases hft : s.k.findThr n.toNat with
          | none => simp
          | some t =>
            have ht := findThr_some hft
            have hne' : t.tgid ≠ n.toNat := by rw [← ht.2]; exact hwf.thrTgid t ht.1
            have hb : (t.tgid == n.toNat) = false := by simpa using hne'
            simp only
            cases s.k.findProc t.tgid with
            | none => simp [hb]
            | some q => by_cases hq : q.foreign = true <;> simp [hq, hb]

/-- hypotheses of `C04_pidExists_iff` are satisfiable, and threads / foreign processes / broken
    status files are really covered -/
example :
    let k : Kernel := ⟨[⟨1, 10, false, false, .ok⟩, ⟨2, 11, false, true, .unreadable⟩, ⟨3, 12, true, false, .noTgid⟩],
                       [⟨7, 1, 13⟩]⟩
    ((List.map (fun n => (step cfg (St.init k) (.pidExists n)).2) [-1, 0, 1, 2, 3, 7, 8, 2147483648])
      = [.bool false, .bool false, .bool true, .bool true, .bool true, .bool false, .bool false, .bool false]) := by
  decide

/-- **Lead L4 (pre-fix code).** Without the range guard `pid_exists(2**31)` raises OverflowError
    although the statement promises a bool for every non-negative int. -/
theorem C04_pidExists_overflow_counterexample :
    let bad : Cfg := { cfg with rangeGuard := false }
    (step bad (St.init ⟨[⟨1, 10, false, false, .ok⟩], []⟩) (.pidExists 2147483648)).2 = .exc "OverflowError" := by
  decide

/-! ## the platform functions branch by branch (`_psposix.pid_exists`, `_pslinux.pid_exists`) -/

/-- **C04_posix_pidExists_branches.** Every branch of `_psposix.pid_exists(n)`: PID 0 is answered
    True without a probe; an int above `pid_t` makes `os.kill` raise OverflowError (caught one
    level up, fact `rangeGuard`); otherwise the answer is a bool, True exactly when `kill(n, 0)`
    does not say ESRCH — that is when `n` is the id of a process OR of a thread, whoever owns it
    (EPERM counts as "exists"). -/
theorem C04_posix_pidExists_branches (k : Kernel) (n : Nat) :
    (n = 0 → posixPidExists k n = .bool true)
    ∧ (n > pidTMax → posixPidExists k n = .exc "OverflowError")
    ∧ (0 < n → n ≤ pidTMax →
        posixPidExists k n = .bool ((k.findProc n).isSome || (k.findThr n).isSome)) := by
  refine ⟨?_, ?_, ?_⟩
  · intro h; simp [posixPidExists, h]
  · intro h
    have h0 : (n == 0) = false := by
      have : n ≠ 0 := by unfold pidTMax at h; omega
      simpa using this
    simp [posixPidExists, h0, Kernel.kill, h]
  · intro h0 hb
    have hz : (n == 0) = false := by
      have : n ≠ 0 := by omega
      simpa using this
    have hnb : ¬ n > pidTMax := by omega
    simp only [posixPidExists, hz, Bool.false_eq_true, if_false, Kernel.kill, hnb]
    cases hfp : k.findProc n with
    | some p => cases hf : p.foreign <;> simp [hf]
    | none =>
      cases hft : k.findThr n with
      | none => simp
      | some t =>
        cases hq : k.findProc t.tgid with
        | none => simp [hq]
        | some q => cases hf : q.foreign <;> simp [hq, hf]

/-- the model of `psutil.pid_exists` uses exactly the two platform functions (no table change in
    between) -/
theorem C04_platform_eq (k : Kernel) (n : Nat) (hn : 0 < n) :
    platformPidExists k n = (linuxPidExists k n []).2 := by
  have hz : (n == 0) = false := by
    have : n ≠ 0 := by omega
    simpa using this
  simp only [platformPidExists, linuxPidExists, posixPidExists, hz, Bool.false_eq_true, if_false,
    Kernel.applyAll, List.foldl_nil]
  cases k.kill n <;> simp only <;> cases k.readStatus n <;> rfl

/-- **C04_linux_pidExists_two_instants.** `_pslinux.pid_exists(n)` called on its own, every branch
    (ESRCH; `Tgid:` equal / different — a thread id; `Tgid:` line missing → ValueError → listing;
    status unreadable or gone → OSError → listing; PID 0), with ANY table changes between the
    `kill` probe and the status read: the answer is a bool; True only if `n` is a listed PID when
    the status file is read; False only if `n` was not a listed PID at the probe or is not one at
    the read. So the answer is right for the table at one of TWO instants of the call (probe, read) — not a
    linearizability proof: the fallback `n in pids()` is read at the same instant as the status file. -/
theorem C04_linux_pidExists_two_instants (k : Kernel) (hwf : k.WF) (n : Nat) (hb : n ≤ pidTMax)
    (mid : List KEv) :
    ∃ b, (linuxPidExists k n mid).2 = .bool b
      ∧ (b = true → n ∈ (k.applyAll mid).listdir)
      ∧ (b = false → n ∉ k.listdir ∨ n ∉ (k.applyAll mid).listdir) := by
  have hpos : ∃ e, posixPidExists k n = .bool e ∧ (e = false → n ∉ k.listdir) := by
    by_cases h0 : n = 0
    · exact ⟨true, (C04_posix_pidExists_branches k n).1 h0, by simp⟩
    · refine ⟨_, (C04_posix_pidExists_branches k n).2.2 (by omega) hb, ?_⟩
      intro he hl
      have := findProc_isSome_iff.mpr hl
      simp [this] at he
  obtain ⟨e, he, hfalse⟩ := hpos
  have hwf' : (k.applyAll mid).WF := Kernel.applyAll_wf k mid hwf
  unfold linuxPidExists
  rw [he]
  cases e with
  | false => exact ⟨false, rfl, by simp, fun _ => Or.inl (hfalse rfl)⟩
  | true =>
    simp only [Kernel.readStatus]
    cases hfp : (k.applyAll mid).findProc n with
    | some p =>
      have hp := findProc_some hfp
      have hl : n ∈ (k.applyAll mid).listdir := mem_listdir.mpr ⟨p, hp.1, hp.2⟩
      have hc : (k.applyAll mid).listdir.contains n = true := by simpa using hl
      cases hst : p.status <;> exact ⟨true, by simp [hst, hl], fun _ => hl, by simp⟩
    | none =>
      have hnl : n ∉ (k.applyAll mid).listdir := by
        rw [mem_listdir]; rintro ⟨p, hp, e⟩; exact findProc_none hfp p hp e
      have hc : (k.applyAll mid).listdir.contains n = false := by simpa using hnl
      cases hft : (k.applyAll mid).findThr n with
      | none => exact ⟨false, by simp [hnl], by simp, fun _ => Or.inr hnl⟩
      | some t =>
        have ht := findThr_some hft
        have hne : t.tgid ≠ n := by rw [← ht.2]; exact hwf'.thrTgid t ht.1
        have hbq : (t.tgid == n) = false := by simpa using hne
        exact ⟨false, by simp [hbq], by simp, fun _ => Or.inr hnl⟩

/-- **C04_linux_pidExists_iff.** Without a table change inside the call, `_pslinux.pid_exists(n)`
    is True exactly for the listed PIDs — False for every thread id. -/
theorem C04_linux_pidExists_iff (k : Kernel) (hwf : k.WF) (n : Nat) (hb : n ≤ pidTMax) :
    ∃ b, (linuxPidExists k n []).2 = .bool b ∧ (b = true ↔ n ∈ k.listdir) := by
  obtain ⟨b, h1, h2, h3⟩ := C04_linux_pidExists_two_instants k hwf n hb []
  refine ⟨b, h1, h2, ?_⟩
  intro hl
  cases b with
  | true => rfl
  | false => rcases h3 rfl with h | h <;> exact absurd hl h

/-- **C04_linux_pidExists_denied.** When the status file cannot be opened — whatever the errno
    (EACCES included), whether `n` is a PID or a thread id that passed the probe — the answer comes
    from the listing: a bool, True only for an id that is a listed PID at that moment, so never
    for a thread id. -/
theorem C04_linux_pidExists_denied (k : Kernel) (n : Nat) (hb : n ≤ pidTMax) (mid : List KEv) :
    ∃ b, (linuxPidExistsDenied k n mid).2 = .bool b
      ∧ (b = true → n ∈ (k.applyAll mid).listdir)
      ∧ (b = false → n ∉ k.listdir ∨ n ∉ (k.applyAll mid).listdir) := by
  have hpos : ∃ e, posixPidExists k n = .bool e ∧ (e = false → n ∉ k.listdir) := by
    by_cases h0 : n = 0
    · exact ⟨true, (C04_posix_pidExists_branches k n).1 h0, by simp⟩
    · refine ⟨_, (C04_posix_pidExists_branches k n).2.2 (by omega) hb, ?_⟩
      intro he hl
      have := findProc_isSome_iff.mpr hl
      simp [this] at he
  obtain ⟨e, he, hfalse⟩ := hpos
  unfold linuxPidExistsDenied
  rw [he]
  cases e with
  | false => exact ⟨false, rfl, by simp, fun _ => Or.inl (hfalse rfl)⟩
  | true =>
    refine ⟨(k.applyAll mid).listdir.contains n, rfl, ?_, ?_⟩
    · intro h; simpa using h
    · intro h; right; simpa using h

/-- non-vacuity: a thread id passes the POSIX probe and is refused by the Tgid check; a process
    that exits between the probe and the read (its id becoming a thread id of another process) is
    answered False, one that appears in the window (thread id turned PID) True -/
example :
    let k : Kernel := ⟨[⟨1, 10, false, false, .ok⟩, ⟨2, 11, false, true, .ok⟩], [⟨7, 1, 13⟩, ⟨8, 2, 14⟩]⟩
    ([posixPidExists k 7, posixPidExists k 8, posixPidExists k 9, posixPidExists k 0, posixPidExists k 2147483648,
     (linuxPidExists k 7 []).2, (linuxPidExists k 2 []).2,
     (linuxPidExists k 2 [.exit 2, .thread ⟨2, 1, 20⟩]).2,
     (linuxPidExists k 7 [.exit 1, .spawn ⟨7, 30, false, false, .noTgid⟩]).2]
    = [.bool true, .bool true, .bool false, .bool true, .exc "OverflowError",
       .bool false, .bool true, .bool false, .bool true]) := by
  decide

/-- **C04_pidExists_bool.** A `bool` argument is an int (`True` = 1, `False` = 0): the statement
    covers it — `pid_exists(True)` / `pid_exists(False)` is a bool, True exactly when PID 1 / PID 0
    is listed. -/
theorem C04_pidExists_bool (c : Cfg) (hg : c.Good) (s : St) (hwf : s.k.WF) (hne : s.k.procs ≠ []) (a : Bool) :
    ∃ b, (pidExistsArg c s (.bool a)).2 = .bool b ∧ (b = true ↔ Spec.Exists s.k (if a then 1 else 0)) :=
  C04_pidExists_iff c hg s hwf hne (if a then 1 else 0)

/-- **C04_pidExists_float** (outside the statement, which speaks about ints; recorded so that the
    behaviour is pinned): a negative float → False, `0.0` → like `0`, any other float → the
    TypeError of `os.kill` escapes. -/
theorem C04_pidExists_float (c : Cfg) (s : St) :
    pidExistsArg c s .floatNeg = (s, .bool false)
    ∧ pidExistsArg c s .floatZero = pidExists c s 0
    ∧ (pidExistsArg c s .floatOther).2 = .exc "TypeError" := ⟨rfl, rfl, rfl⟩

/-! ## `process_iter()` — safety, for EVERY history (overlapping generators included) -/

/-- **C04_iter_ascending.** Along ANY history — other generators interleaved, the table changing
    at any point, `cache_clear()`, `is_running()`, partially consumed and closed generators,
    either order of draining `_pids_reused` — the PIDs one generator yields are strictly
    ascending (hence no PID twice), and all of them are among the PIDs it still had to visit. -/
theorem C04_iter_ascending (c : Cfg) (g : Nat) (h : List Op) :
    ∀ (s : St), Inv s →
      (yieldsOf c s g h).Pairwise (· < ·) ∧ ∀ l, pending s g = some l → ∀ y ∈ yieldsOf c s g h, y ∈ l := by
  induction h with
  | nil => intro s _; simp [yieldsOf]
  | cons op ops ih =>
    intro s hi
    have hs := step_inv c s op hi
    have ih' := ih (step c s op).1 hs.1
    rw [yieldsOf_cons]
    cases hy : yieldOf g (op, (step c s op).2) with
    | none =>
      simp only
      refine ⟨ih'.1, ?_⟩
      intro l hl y hy'
      obtain ⟨l', h1, h2⟩ := hs.2 g l hl
      exact h2 y (ih'.2 l' h1 y hy')
    | some p =>
      simp only
      -- the step is `next(g)` and yielded `p`
      cases op with
      | next g' mid =>
        cases hout : (step c s (.next g' mid)).2 with
        | yield r p' info =>
          rw [hout] at hy
          simp only [yieldOf] at hy
          split at hy
          · rename_i hgg
            simp only [Option.some.injEq] at hy
            subst hy; subst hgg
            have gs := genNext_step c s g' mid hi
            obtain ⟨_, _, _, _, g5, _⟩ := gs
            obtain ⟨rest, r1, r2, r3⟩ := g5 r p' info hout
            refine ⟨List.pairwise_cons.mpr ⟨fun y hy' => r2 y (ih'.2 rest r1 y hy'), ih'.1⟩, ?_⟩
            intro l hl y hy'
            rcases List.mem_cons.mp hy' with e | hm
            · rw [e]; exact r3 l hl
            · obtain ⟨l', h1, h2⟩ := hs.2 g' l hl
              exact h2 y (ih'.2 l' h1 y hm)
          · cases hy
        | unit => rw [hout] at hy; simp [yieldOf] at hy
        | pidList l => rw [hout] at hy; simp [yieldOf] at hy
        | bool b => rw [hout] at hy; simp [yieldOf] at hy
        | exc e => rw [hout] at hy; simp [yieldOf] at hy
        | gen i => rw [hout] at hy; simp [yieldOf] at hy
        | stop => rw [hout] at hy; simp [yieldOf] at hy
        | badArg => rw [hout] at hy; simp [yieldOf] at hy
      | kev e => simp [yieldOf] at hy
      | pids => simp [yieldOf] at hy
      | pidExists n => simp [yieldOf] at hy
      | iter a => simp [yieldOf] at hy
      | close g' => simp [yieldOf] at hy
      | cacheClear => simp [yieldOf] at hy
      | isRunning r => simp [yieldOf] at hy

/-- **C04_overlap_safety.** From the initial state over any well-formed table, for every history
    (two or more generators overlapping in any way): each generator yields strictly ascending
    PIDs without duplicates; every state reached satisfies the invariant; and `next(g)` can only
    yield, stop, raise ValueError (an invalid name in `attrs`) or IndexError (empty process
    table) — never anything else. That a yielded PID was in the listing the generator took is
    `C04_yield_was_listed`. -/
theorem C04_overlap_safety (c : Cfg) (k : Kernel) (hk : k.WF) (h : List Op) (g : Nat) :
    (yieldsOf c (St.init k) g h).Pairwise (· < ·)
    ∧ (yieldsOf c (St.init k) g h).Nodup
    ∧ Inv (runAll c (St.init k) h)
    ∧ ∀ mid, NextOut c (runAll c (St.init k) h) g (step c (runAll c (St.init k) h) (.next g mid)).2 := by
  have hi := init_inv k hk
  have h1 := (C04_iter_ascending c g h (St.init k) hi).1
  have h2 := runAll_inv c h _ hi
  exact ⟨h1, sorted_nodup h1, h2, fun mid => (genNext_step c _ g mid h2).2.2.2.2.2⟩

/-- **C04_yield_was_listed.** A PID that `next(g)` yields was in the (ascending) listing `g` took
    when it started: for a generator that has not started, the listing is `pids()` of the table
    at that moment; for a suspended one, the PID was still on its to-do list. -/
theorem C04_yield_was_listed (c : Cfg) (s : St) (hi : Inv s) (g : Nat) (mid : List KEv) (r : Ref) (p : Nat)
    (info : Option (List String)) (h : (step c s (.next g mid)).2 = .yield r p info) :
    (∀ l, pending s g = some l → p ∈ l)
    ∧ (pending s g = none → p ∈ sortNat s.k.listdir) := by
  have gs := genNext_step c s g mid hi
  obtain ⟨_, _, _, _, g5, _⟩ := gs
  obtain ⟨rest, _, _, r3⟩ := g5 r p info h
  refine ⟨r3, ?_⟩
  intro hp
  -- not started: the prologue ran now; its to-do list is inside the listing
  simp only [step, genNext] at h
  cases hg : s.gens[g]? with
  | none => rw [hg] at h; cases h
  | some gen =>
    rw [hg] at h
    simp only at h
    cases hst : gen.st with
    | done => simp [pending, hg, hst] at hp
    | running pm todo l => simp [pending, hg, hst] at hp
    | fresh =>
      rw [hst] at h
      simp only at h
      have pr := prologue_res c s hi.kernel.nodup hi.pmap
      cases hpr : prologue c s with
      | mk s1 res =>
        rw [hpr] at pr h
        simp only at pr h
        obtain ⟨p1, p2, p3, _, p5⟩ := pr
        cases res with
        | none => cases h
        | some x =>
          obtain ⟨pm, todo, listed⟩ := x
          simp only at p5 h
          obtain ⟨q1, _, q3, q4, q5, _⟩ := p5
          have hwf1 : (s1.applyMid mid).k.WF := by
            simp only [St.applyMid]; rw [p2]; exact Kernel.applyAll_wf s.k mid hi.kernel
          have vs := visit_step c gen.attrs g listed todo (s1.applyMid mid) pm gen hwf1
            (by simp only [St.applyMid]; rw [p3]; exact hi.pmap)
            (fun i gen' _ h => hi.gens i gen' (by simpa [St.applyMid, p1] using h))
            (by simpa [St.applyMid, p1] using hg) q3 q4 q5
          obtain ⟨_, _, _, _, _, v6, _, _⟩ := vs
          obtain ⟨_, _, _, _, _, h3, _⟩ := v6 r p info h
          rw [← q1]; exact h3

/-! ## `process_iter()` — completeness -/

/-- The completeness clause at full strength for a configuration `c`: in ANY state reachable
    (invariant `Inv`), one `next(g)` of a generator whose `attrs` contain no reuse-checking name:
    if `l` is what `g` has still to visit — for a generator that has not started, ALL listed PIDs
    in ascending order — then a yield of `p` splits `l` into `pre ++ p :: rest`, `rest` is what
    remains, and every PID of `pre` (skipped) had vanished from the table; StopIteration means
    every remaining PID had vanished. So each listed PID is visited exactly once, in ascending
    order, and is left out only if it vanished while iterating. -/
def C04_iter_each_listed_Full (c : Cfg) : Prop :=
  ∀ (s : St) (g : Nat) (mid : List KEv) (gen : Gen) (l : List Nat),
    Inv s → s.gens[g]? = some gen → NoReuse c gen.attrs → remaining s g = some l →
    (∀ r p info, (step c s (.next g mid)).2 = .yield r p info →
      ∃ pre rest, l = pre ++ p :: rest ∧ remaining (step c s (.next g mid)).1 g = some rest
        ∧ ∀ q ∈ pre, (s.k.applyAll mid).statStart q = none)
    ∧ ((step c s (.next g mid)).2 = .stop →
        remaining (step c s (.next g mid)).1 g = some [] ∧ ∀ q ∈ l, (s.k.applyAll mid).statStart q = none)

/-- **C04_iter_each_listed_once_repaired** — NOT a statement about the shipped code: the completeness
    clause holds at full strength — overlapping generators included — for any configuration with the
    REPAIRED order (`_pids_reused` drained before the set differences). For the shipped order it is
    false: `C04_iter_each_listed_Full_fails_shipped`. -/
theorem C04_iter_each_listed_once_repaired (c : Cfg) (hd : c.drainFirst = true) : C04_iter_each_listed_Full c :=
  fun s g mid gen l hi hg hnr hl => genNext_complete c s (Or.inl hd) g mid hi gen hg hnr l hl

/-- …and for the code as it is (either order) whenever no PID is flagged as recycled at the
    moment of the call (`_pids_reused` empty) — the remaining case is lead L19, see
    `C04_L19_counterexample`. -/
theorem C04_iter_each_listed_once_partial (s : St) (hi : Inv s) (hfl : s.flagged = []) (g : Nat) (mid : List KEv)
    (gen : Gen) (hg : s.gens[g]? = some gen) (hnr : NoReuse cfg gen.attrs) (l : List Nat)
    (hl : remaining s g = some l) :
    (∀ r p info, (step cfg s (.next g mid)).2 = .yield r p info →
      ∃ pre rest, l = pre ++ p :: rest ∧ remaining (step cfg s (.next g mid)).1 g = some rest
        ∧ ∀ q ∈ pre, (s.k.applyAll mid).statStart q = none)
    ∧ ((step cfg s (.next g mid)).2 = .stop →
        remaining (step cfg s (.next g mid)).1 g = some [] ∧ ∀ q ∈ l, (s.k.applyAll mid).statStart q = none) :=
  genNext_complete cfg s (Or.inr hfl) g mid hi gen hg hnr l hl

/-- non-vacuity: three listed PIDs, PID 5 vanishes right after the listing: 1, 9, stop -/
example : trace cfg (St.init ⟨[⟨9, 109, false, false, .ok⟩, ⟨1, 101, false, false, .ok⟩, ⟨5, 105, false, false, .ok⟩], []⟩)
      [.iter .none, .next 0 [.exit 5], .next 0 [], .next 0 []]
    = [.gen 0, .yield 0 1 none, .yield 1 9 none, .stop] := by decide

/-! ## `process_iter()` — the cache, for every SEQUENTIAL history -/

/-- **C04_refines_sequential.** For EVERY sequential history over a well-formed table — any
    kernel events (spawn, exit, PID reuse, zombies, threads) between and during iterations,
    partially consumed and closed generators, `cache_clear()`, `is_running()` on any object,
    `pids()`/`pid_exists()` anywhere, `attrs` of any names that do not start with
    `_raise_if_pid_reused()` — every output of the model (PID, object identity, info keys,
    StopIteration, booleans, lists) is exactly the output of the shared-cache specification
    machine of Spec/C04.lean: the object yielded for a PID is the one cached for it, entries of
    PIDs that are no longer listed are dropped, entries flagged by `is_running()` are replaced by
    fresh objects, `cache_clear()` empties the cache. *Sequential* (`SeqHist`): a generator is
    advanced only while no other one is suspended, `cache_clear()` is called only while none is
    suspended, and (for the current order of the prologue, lead L19) no PID is flagged at the
    moment an iteration starts; outside that region see the counterexamples below. -/
theorem C04_refines_sequential (k : Kernel) (hk : k.WF) (h : List Op) (hs : SeqHist cfg (St.init k) h) :
    strace cfg.validNames cfg.noAccessAttrs (SSt.init k) h = (trace cfg (St.init k) h).map some := by
  rw [← abs_init]
  exact trace_sim cfg cfg_good.range h _ (init_seqInv k hk) hs

/-- the same with the specification machine's parameter `noAccess` written out as the literal the statement
    allows ("`pid` and the cached `create_time` need no look at the process"), not read off the code: by the
    obligation `cfg_no_access_attrs` the two coincide, and if the code changes the obligation — not the
    specification — moves (audit item 6). -/
theorem C04_refines_sequential_literal (k : Kernel) (hk : k.WF) (h : List Op) (hs : SeqHist cfg (St.init k) h) :
    strace cfg.validNames ["create_time", "pid"] (SSt.init k) h = (trace cfg (St.init k) h).map some := by
  rw [← cfg_no_access_attrs]; exact C04_refines_sequential k hk h hs

/-- what "vanished" (`Kernel.statStart q = none`, used by the specification machine and by every completeness
    theorem) means, written out from the statement's vocabulary: no process of the table has PID `q` and no
    thread has id `q` (`/proc/q` cannot be opened). -/
theorem C04_vanished_iff (k : Kernel) (q : Nat) :
    k.statStart q = none ↔ (∀ pr ∈ k.procs, pr.pid ≠ q) ∧ (∀ t ∈ k.thrs, t.tid ≠ q) := by
  simp only [Kernel.statStart]
  cases h1 : k.findProc q with
  | some p =>
    have hp := findProc_some h1
    simp only [reduceCtorEq, false_iff, not_and]
    intro h; exact absurd hp.2 (h p hp.1)
  | none =>
    have hnp := findProc_none h1
    simp only [Option.map_eq_none_iff]
    constructor
    · intro h2
      refine ⟨fun pr hpr => hnp pr hpr, ?_⟩
      intro t ht he
      simp only [Kernel.findThr, List.find?_eq_none] at h2
      exact absurd (by simpa using he) (h2 t ht)
    · intro h2
      simp only [Kernel.findThr, List.find?_eq_none]
      intro t ht
      simpa using h2.2 t ht

/-! The lemmas below say what the specification machine's cache does — by
    `C04_refines_sequential` that is what the code does on every sequential history. -/

/-- the cache an iteration starts with (the expression used by `Spec.sstep`) -/
def startCache (cache : PMap) (flagged listed : List Nat) : PMap :=
  (cache.filter fun e => !flagged.contains e.1).filter fun e => listed.contains e.1

/-- **C04_identity_stable_sequential / C04_reused_replaced (cache level).** When an iteration
    starts, the entry of PID `p` is kept — the very same object — iff `p` is still listed and was
    not flagged as recycled by `is_running()`; otherwise it is dropped (a gone PID) or will be
    replaced by a fresh object (a flagged one). -/
theorem C04_start_cache (cache : PMap) (flagged listed : List Nat) (p : Nat) :
    (startCache cache flagged listed).get p
      = if listed.contains p && !flagged.contains p then cache.get p else none := by
  unfold startCache
  rw [get_filter _ (fun q => listed.contains q), get_filter _ (fun q => !flagged.contains q)]
  cases listed.contains p <;> cases flagged.contains p <;> simp

/-- **C04_identity_stable_sequential (visit level).** At a PID that has a cached object the
    iteration yields that very object (unless `info` has to be filled from a process that has
    vanished); at a PID without one it yields a reference no object had before. -/
theorem C04_spec_visit (valid noAccess : List String) (g : Nat) (ss : SSt) (p : Nat) (rest : List Nat) :
    (∀ r, ss.cache.get p = some r →
      (svisit valid noAccess .none g ss (p :: rest)).2 = .yield r p none)
    ∧ (∀ b, ss.cache.get p = none → ss.k.statStart p = some b →
      (svisit valid noAccess .none g ss (p :: rest)).2 = .yield ss.objs.length p none
      ∧ (svisit valid noAccess .none g ss (p :: rest)).1.cache.get p = some ss.objs.length) := by
  refine ⟨?_, ?_⟩
  · intro r h
    simp [svisit, scached, h, sfill]
  · intro b h hb
    simp [svisit, scached, h, hb, sfill, SSt.setGen, PMap.get_set_self]

/-- **C04_reused_replaced (flag level).** `is_running()` on an object whose PID now belongs to a
    process with another start time returns False and flags the PID, so that (`C04_start_cache`)
    the next iteration drops the entry and (`C04_spec_visit`) yields a fresh object. -/
theorem C04_isRunning_flags (ss : SSt) (r : Ref) (o : GObj) (b : Nat)
    (hd : o.dead = false) (hs : ss.k.statStart o.pid = some b) (hne : b ≠ o.birth) :
    (sIsRunning ss r o).2 = false ∧ o.pid ∈ (sIsRunning ss r o).1.flagged := by
  have hb : (b == o.birth) = false := by simpa using hne
  simp only [sIsRunning, hd, Bool.false_eq_true, if_false, hs, hb, addFlag, true_and]
  split
  · rename_i h; simpa using h
  · simp

/-- **C04_cache_clear.** `cache_clear()` empties the cache: whatever the history, the next
    iteration finds no entry, so every object it yields is a fresh one. -/
theorem C04_cache_clear (valid noAccess : List String) (ss : SSt) :
    (sstep valid noAccess ss .cacheClear).1.cache = []
    ∧ ∀ flagged listed p, (startCache (sstep valid noAccess ss .cacheClear).1.cache flagged listed).get p = none := by
  refine ⟨rfl, ?_⟩
  intro flagged listed p
  rw [C04_start_cache]
  simp [sstep, PMap.get]

/-- **C04_info_keys.** In every history, an object yielded by a generator created with
    `attrs=None` carries no new `info`; one created with `attrs=[names…]` carries an `info` dict
    whose keys are exactly the requested names, each once (all valid names for `attrs=[]`). -/
theorem C04_info_keys (c : Cfg) (s : St) (g : Nat) (mid : List KEv) (gen : Gen) (hg : s.gens[g]? = some gen)
    (r : Ref) (p : Nat) (info : Option (List String)) (h : (step c s (.next g mid)).2 = .yield r p info) :
    match gen.attrs with
    | .none => info = none
    | .names l => ∃ ks, info = some ks ∧ (l ≠ [] → ks.Nodup ∧ ∀ x, x ∈ ks ↔ x ∈ l) ∧ (l = [] → ks = c.validNames) := by
  have key : info = match gen.attrs with
      | .none => none
      | .names l => some (namesOf c l) := by
    simp only [step, genNext, hg] at h
    cases hst : gen.st with
    | done => rw [hst] at h; cases h
    | running pm todo listed => rw [hst] at h; exact visit_info c _ g listed todo _ pm r p info h
    | fresh =>
      rw [hst] at h
      simp only at h
      cases hp : prologue c s with
      | mk s1 res =>
        rw [hp] at h
        cases res with
        | none => cases h
        | some x => obtain ⟨pm, todo, listed⟩ := x; exact visit_info c _ g listed todo _ pm r p info h
  cases ha : gen.attrs with
  | none => rw [ha] at key; exact key
  | names l =>
    rw [ha] at key
    simp only at key ⊢
    refine ⟨namesOf c l, key, ?_, ?_⟩
    · intro hne
      have : l.isEmpty = false := by cases l <;> simp_all
      simp only [namesOf, this, Bool.false_eq_true, if_false]
      exact ⟨nodup_dedup l, fun x => mem_dedup x l⟩
    · intro he
      simp [namesOf, he]

/-! ## `info` values: `ad_value` -/

/-- **C04_asdict_ad_value.** Whatever each getter does short of NoSuchProcess / NotImplementedError:
    the dict has exactly the requested names as keys, in order, each once per request, and the
    value stored under a name is `ad_value` exactly when its getter raised AccessDenied or
    ZombieProcess (EACCES on one file does not cost the other entries). -/
theorem C04_asdict_ad_value (explicit : Bool) (outs : List (String × GetRes))
    (h : ∀ x ∈ outs, x.2 ≠ .nsp ∧ x.2 ≠ .notImpl) (acc : List (String × Bool)) :
    asDictVals explicit outs acc
      = .dict (acc ++ outs.map fun x => (x.1, decide (x.2 = .accessDenied ∨ x.2 = .zombie))) := by
  induction outs generalizing acc with
  | nil => simp [asDictVals]
  | cons x rest ih =>
    obtain ⟨nm, r⟩ := x
    have hx := h (nm, r) (by simp)
    have hr := fun y hy => h y (List.mem_cons_of_mem _ hy)
    cases r with
    | val => simp [asDictVals, ih hr]
    | accessDenied => simp [asDictVals, ih hr]
    | zombie => simp [asDictVals, ih hr]
    | nsp => exact absurd rfl hx.1
    | notImpl => exact absurd rfl hx.2

/-- a getter that is not implemented on this platform is left out when all names were asked for
    (`attrs=[]`), and is an error when it was asked for by name; NoSuchProcess always propagates
    (process_iter then skips the PID) -/
example :
    asDictVals false [("a", .val), ("b", .notImpl), ("c", .accessDenied)] [] = .dict [("a", false), ("c", true)]
    ∧ asDictVals true [("a", .val), ("b", .notImpl), ("c", .accessDenied)] [] = .notImpl
    ∧ asDictVals false [("a", .zombie), ("b", .nsp), ("c", .val)] [] = .nsp := by decide

/-! ## two threads entering `process_iter()` while a PID is flagged -/

/-- **C04_drain_race_counterexample.** With the `pop()` unguarded (the code before the repair), two
    threads that both find `_pids_reused` non-empty race for its one element: A tests, B tests,
    B pops, B tests again and leaves, A pops from the empty set — `KeyError` escapes from
    `process_iter()`. Found on the real code by the bounded-pre-emption explorer (program
    `flagged2`, one pre-emption). -/
theorem C04_drain_race_counterexample :
    (drainRun false [5] DTh.start DTh.start [false, true, true, true, false]).2.1.pc = .keyError := by
  decide

/-- **C04_drain_guarded_safe.** With the guarded `pop()`, for EVERY flagged set and EVERY schedule of
    the two threads neither of them ever raises, and no flag is lost: every PID that was in the set
    is still in it or has been dropped by one of the two threads. -/
theorem C04_drain_guarded_safe (sched : List Bool) :
    ∀ (set : List Nat) (a b : DTh), a.pc ≠ .keyError → b.pc ≠ .keyError →
      (drainRun true set a b sched).2.1.pc ≠ .keyError ∧ (drainRun true set a b sched).2.2.pc ≠ .keyError
      ∧ ∀ p, (p ∈ set ∨ p ∈ a.removed ∨ p ∈ b.removed) →
          (p ∈ (drainRun true set a b sched).1 ∨ p ∈ (drainRun true set a b sched).2.1.removed
            ∨ p ∈ (drainRun true set a b sched).2.2.removed) := by
  have key : ∀ (set : List Nat) (t : DTh), t.pc ≠ .keyError →
      (drainStep true set t).2.pc ≠ .keyError
      ∧ (∀ p, p ∈ t.removed → p ∈ (drainStep true set t).2.removed)
      ∧ ∀ p, p ∈ set → p ∈ (drainStep true set t).1 ∨ p ∈ (drainStep true set t).2.removed := by
    intro set t ht
    unfold drainStep
    cases hpc : t.pc with
    | test => by_cases he : set.isEmpty = true <;> simp [he] <;> exact fun p hp => Or.inl hp
    | pop =>
      cases set with
      | nil => simp
      | cons q qs =>
        refine ⟨by simp, fun p hp => by simp [hp], fun p hp => ?_⟩
        rcases List.mem_cons.mp hp with e | hm
        · right; simp [e]
        · left; exact hm
    | done => simp [hpc]; exact fun p hp => Or.inl hp
    | keyError => exact absurd hpc ht
  induction sched with
  | nil => intro set a b ha hb; exact ⟨ha, hb, fun p hp => hp⟩
  | cons x rest ih =>
    intro set a b ha hb
    cases x with
    | false =>
      obtain ⟨k1, k2, k3⟩ := key set a ha
      have := ih (drainStep true set a).1 (drainStep true set a).2 b k1 hb
      simp only [drainRun]
      refine ⟨this.1, this.2.1, fun p hp => this.2.2 p ?_⟩
      rcases hp with h | h | h
      · rcases k3 p h with h' | h'
        · exact Or.inl h'
        · exact Or.inr (Or.inl h')
      · exact Or.inr (Or.inl (k2 p h))
      · exact Or.inr (Or.inr h)
    | true =>
      obtain ⟨k1, k2, k3⟩ := key set b hb
      have := ih (drainStep true set b).1 a (drainStep true set b).2 ha k1
      simp only [drainRun]
      refine ⟨this.1, this.2.1, fun p hp => this.2.2 p ?_⟩
      rcases hp with h | h | h
      · rcases k3 p h with h' | h'
        · exact Or.inl h'
        · exact Or.inr (Or.inr h')
      · exact Or.inr (Or.inl h)
      · exact Or.inr (Or.inr (k2 p h))

/-! ## proved counterexamples (leads re-found through the model; each witness is replayed on the
    real code by the harness corpus) -/

def p1 : Proc := ⟨1, 101, false, false, .ok⟩
def p5 : Proc := ⟨5, 105, false, false, .ok⟩
def p5' : Proc := ⟨5, 999, false, false, .ok⟩     -- PID 5 recycled: another start time
def p9 : Proc := ⟨9, 109, false, false, .ok⟩
def k159 : Kernel := ⟨[p1, p5, p9], []⟩

/-- `list(process_iter(attrs))` over a 3-PID table: the generator and four `next`s -/
def fullIter (g : Nat) (attrs : Attrs := .none) : List Op :=
  [.iter attrs, .next g [], .next g [], .next g [], .next g []]

/-- the L19 history: iterate; PID 5 is recycled; `is_running()` on the old object notices; iterate -/
def histL19 : List Op :=
  fullIter 0 ++ [.kev (.exit 5), .kev (.spawn p5'), .isRunning 1] ++ fullIter 1

/-- **Lead L19.** With the set differences computed before `_pids_reused` is drained (the order
    of the current code), the iteration that follows the `is_running()` call yields PIDs 1 and 9
    only, although 5 is listed — while the specification, and the model with the repaired order,
    yield a fresh object for 5. That `C04_iter_each_listed_Full` itself fails for the shipped order
    is `C04_iter_each_listed_Full_fails_shipped` (same witness); what holds instead is
    `C04_recycled_replaced_two_iterations`. -/
theorem C04_L19_counterexample :
    let cur : Cfg := { cfg with drainFirst := false }
    let rep : Cfg := { cfg with drainFirst := true }
    (trace cur (St.init k159) histL19).drop 9
        = [.yield 0 1 none, .yield 2 9 none, .stop, .stop]
    ∧ (trace rep (St.init k159) histL19).drop 9
        = [.yield 0 1 none, .yield 3 5 none, .yield 2 9 none, .stop]
    ∧ (strace cfg.validNames cfg.noAccessAttrs (SSt.init k159) histL19).drop 9
        = [some (.yield 0 1 none), some (.yield 3 5 none), some (.yield 2 9 none), some .stop] := by
  decide

/-- The identity statement at full strength: for EVERY history the model yields what the
    shared-cache specification yields. It holds for sequential histories
    (`C04_refines_sequential`) and is false in general: -/
def C04_identity_Full : Prop :=
  ∀ (k : Kernel) (h : List Op), k.WF →
    (trace cfg (St.init k) h).map some = strace cfg.validNames cfg.noAccessAttrs (SSt.init k) h

/-- **Lead L5.** `g1 = process_iter(); g2 = process_iter(); next(g1); next(g2)`: the two
    generators yield two different objects for PID 1; the specification yields the same one. -/
theorem C04_identity_overlap_counterexample : ¬ C04_identity_Full := by
  intro h
  have := h ⟨[p1], []⟩ [.iter .none, .iter .none, .next 0 [], .next 1 []]
    ⟨by decide, by decide, by decide, by decide⟩
  revert this
  decide

/-- the whole L5 witness: after `next(g1); next(g2); list(g1); list(g2)` a third iteration yields
    g2's object (reference 1), not g1's (reference 0) -/
theorem C04_overlap_later_yields_second :
    (trace cfg (St.init ⟨[p1], []⟩)
      [.iter .none, .iter .none, .next 0 [], .next 1 [], .next 0 [], .next 1 [], .iter .none, .next 2 []])
      = [.gen 0, .gen 1, .yield 0 1 none, .yield 1 1 none, .stop, .stop, .gen 2, .yield 1 1 none] := by
  decide

/-- **cache_clear() while a generator is suspended** has no lasting effect: the iteration started
    after it yields the pre-clear objects 0,1,2 again (the specification: fresh ones for the PIDs
    not yet visited when the cache was cleared). -/
theorem C04_clear_while_suspended_counterexample :
    let h : List Op := [.iter .none, .next 0 [], .cacheClear, .next 0 [], .next 0 [], .next 0 []] ++ fullIter 1
    (trace cfg (St.init k159) h).drop 7 = [.yield 0 1 none, .yield 1 5 none, .yield 2 9 none, .stop]
    ∧ (strace cfg.validNames cfg.noAccessAttrs (SSt.init k159) h).drop 7
        = [some (.yield 3 1 none), some (.yield 1 5 none), some (.yield 2 9 none), some .stop] := by
  decide

/-- **Reuse check inside `as_dict` (`ppid`).** The cached object of the recycled PID 5 makes
    `ppid()` raise NoSuchProcess, `process_iter(attrs=['ppid'])` takes that for "vanished" and
    yields 1 and 9 only; the specification yields 5 as well. Not repaired by `drainFirst`. -/
theorem C04_reuse_check_skips_pid_counterexample :
    let h : List Op := fullIter 0 ++ [.kev (.exit 5), .kev (.spawn p5')] ++ fullIter 1 (.names ["ppid"])
    (trace cfg (St.init k159) h).drop 8
        = [.yield 0 1 (some ["ppid"]), .yield 2 9 (some ["ppid"]), .stop, .stop]
    ∧ (strace cfg.validNames cfg.noAccessAttrs (SSt.init k159) h).drop 8
        = [some (.yield 0 1 (some ["ppid"])), some (.yield 1 5 (some ["ppid"])),
           some (.yield 2 9 (some ["ppid"])), some .stop] := by
  decide

/-- non-vacuity of `C04_refines_sequential`: iterate, PID 5 recycled, iterate (the stale object is
    yielded again), `cache_clear()`, `pids()`, `pid_exists(5)`, an `attrs` iteration — sequential
    for the current code -/
example : SeqHist cfg (St.init k159)
    (fullIter 0 ++ [.kev (.exit 5), .kev (.spawn p5')] ++ fullIter 1
      ++ [.cacheClear, .pids, .pidExists 5] ++ fullIter 2 (.names ["name", "pid"])) :=
  seqHistB_sound cfg _ _ (by decide)

/-- …and the L19 history itself is sequential for the repaired order -/
example : SeqHist { cfg with drainFirst := true } (St.init k159) histL19 :=
  seqHistB_sound _ _ _ (by decide)

/-! ## `process_iter()` — one WHOLE iteration as one sentence (round 2) -/

/-- what the statement says about one iteration, along the history `H` run from `s`, for the listing
    `l`: the PIDs generator `g` yields are a subsequence of `l` (ascending, each at most once), and
    every PID of `l` is accounted for — yielded, or absent from the process table at one of `g`'s
    `next()` calls (`VanishedAt`), or still to be visited when `H` ends -/
def IterationAccounted (c : Cfg) (s : St) (g : Nat) (l : List Nat) (H : List Op) : Prop :=
  (yieldsOf c s g H).Sublist l
  ∧ ∀ q ∈ l, q ∈ yieldsOf c s g H ∨ VanishedAt c g q s H
      ∨ ∃ l', remaining (runAll c s H) g = some l' ∧ q ∈ l'

/-- The completeness clause as ONE sentence about a whole iteration, at full strength for a
    configuration `c`: from ANY reachable state, for a generator `g` (not started: `l` = all listed
    PIDs ascending at its first `next()`; suspended: what it has still to visit) with valid `attrs`
    free of reuse-checking names, and ANY continuation `h` of its first `next()` — other generators
    advancing, the table changing inside and between calls, `cache_clear()`, `is_running()`,
    `pids()`… — that does not close `g`. -/
def C04_iteration_complete_Full (c : Cfg) : Prop :=
  ∀ (s : St) (g : Nat) (gen : Gen) (l : List Nat) (mid0 : List KEv) (h : List Op),
    Inv s → s.gens[g]? = some gen → ValidAttrs c gen.attrs → NoReuse c gen.attrs →
    remaining s g = some l → Op.close g ∉ h →
    IterationAccounted c s g l (.next g mid0 :: h)

/-- **C04_iteration_complete_repaired** — NOT a statement about the shipped code: full strength,
    overlapping generators included, for the REPAIRED prologue order; false for the shipped one
    (`C04_iteration_complete_Full_fails_shipped`). -/
theorem C04_iteration_complete_repaired (c : Cfg) (hd : c.drainFirst = true) : C04_iteration_complete_Full c :=
  fun s g gen l mid0 h hi hg hv hnr hl hnc =>
    whole_iteration c s hi g gen hg (fun _ => Or.inl hd) hv hnr l hl mid0 h hnc

/-- **C04_iteration_complete_partial** — the code as it is (either order): the same sentence whenever
    the generator has already started, or no PID is flagged at the moment it starts (lead L19
    otherwise, `C04_L19_counterexample`). -/
theorem C04_iteration_complete_partial (s : St) (hi : Inv s) (g : Nat) (gen : Gen) (hg : s.gens[g]? = some gen)
    (hfl : gen.st = .fresh → s.flagged = []) (hv : ValidAttrs cfg gen.attrs) (hnr : NoReuse cfg gen.attrs)
    (l : List Nat) (hl : remaining s g = some l) (mid0 : List KEv) (h : List Op) (hnc : Op.close g ∉ h) :
    IterationAccounted cfg s g l (.next g mid0 :: h) :=
  whole_iteration cfg s hi g gen hg (fun hf => Or.inr (hfl hf)) hv hnr l hl mid0 h hnc

/-- **C04_iteration_drained.** Once the generator has run to its end, every PID of the listing was
    either yielded or found absent at one of its `next()` calls: "one Process per listed PID in
    ascending order, skipping only processes that vanish while iterating". -/
theorem C04_iteration_drained (c : Cfg) (s : St) (g : Nat) (l : List Nat) (H : List Op)
    (hacc : IterationAccounted c s g l H) (hend : remaining (runAll c s H) g = some []) :
    (yieldsOf c s g H).Sublist l ∧ ∀ q ∈ l, q ∈ yieldsOf c s g H ∨ VanishedAt c g q s H := by
  refine ⟨hacc.1, fun q hq => ?_⟩
  rcases hacc.2 q hq with h | h | ⟨l', h1, h2⟩
  · exact Or.inl h
  · exact Or.inr h
  · rw [hend] at h1
    simp only [Option.some.injEq] at h1
    subst h1; cases h2

/-- non-vacuity (current code): two overlapping generators over {1,5,9}; PID 5 exits inside `g0`'s second
    `next()`, `g1` starts in between and still sees 5 listed but not there: both run to the end,
    `g0` yields 1, 9 — 5 is accounted for as vanished at its second call -/
example :
    let H : List Op := [.next 0 [], .iter .none, .next 0 [.exit 5], .next 1 [], .next 0 [], .next 1 [], .next 1 []]
    let s0 : St := (step cfg (St.init k159) (.iter .none)).1
    yieldsOf cfg s0 0 H = [1, 9] ∧ yieldsOf cfg s0 1 H = [1, 9]
      ∧ remaining (runAll cfg s0 H) 0 = some [] ∧ VanishedAt cfg 0 5 s0 H := by
  refine ⟨by decide, by decide, by decide, ?_⟩
  exact Or.inr (Or.inr (Or.inl ⟨[.exit 5], rfl, by decide⟩))

/-! ## one thread at STATEMENT granularity against any environment (round 2)

    `Model/C04Fine.lean`: the thread as a function of what it reads from the shared world — `_pmap` at
    the instant of the copy, the table at the instant of the listing, the PIDs `_pids_reused.pop()`
    handed to it, the world's answer at each `Process(pid)` / `as_dict`. The theorems hold for ALL
    values read: any number of other threads doing anything between two statements of this one,
    the table changing at any point (also between `add(pid)` and `as_dict`, between two skipped
    PIDs). -/

/-- **C04_fine_prologue_atomic.** Whatever happens between the copy, the listing and the pops, the
    thread's private map and to-do list are those of the ATOMIC prologue (the one the history
    machine runs, `prologue`) on the hybrid snapshot "table as listed, `_pmap` as copied, flagged =
    what this thread popped". -/
theorem C04_fine_prologue_atomic (c : Cfg) (rd : FReads) (hne : rd.listing ≠ []) :
    (prologue c (hyb rd)).2 = some ((finePrologue c rd).1, (finePrologue c rd).2, sortNat rd.listing) :=
  finePrologue_eq c rd hne

/-- **C04_fine_safety.** For every value read and every sequence of answers (= every schedule of
    any number of threads, every placement of table changes): the PIDs yielded are strictly
    ascending and were all in the listing this thread took; each yielded object is either the one
    `_pmap` held for that very PID at the instant of the copy — and then that PID was not handed to
    this thread as recycled — or an object this thread created for that PID, which had no entry
    left in its private map; and the only exceptions are IndexError (empty table), KeyError (only
    with the unguarded `pop()`) and ValueError (an invalid name in `attrs`). -/
theorem C04_fine_safety (c : Cfg) (rd : FReads) (invalid hasAttrs : Bool) (base : Nat) (ts : List FTouch)
    (hk : rd.listing.Nodup) (hp : NodupKeys rd.copy) :
    ((fineRun c rd invalid hasAttrs base ts).yields.map (·.1)).Pairwise (· < ·)
    ∧ (∀ e ∈ (fineRun c rd invalid hasAttrs base ts).yields, e.1 ∈ rd.listing
        ∧ ((rd.copy.get e.1 = some e.2 ∧ rd.popped.contains e.1 = false)
            ∨ (e.2 = base + e.1 ∧ (finePrologue c rd).1.get e.1 = none)))
    ∧ ((fineRun c rd invalid hasAttrs base ts).exc = none
        ∨ ((fineRun c rd invalid hasAttrs base ts).exc = some "IndexError" ∧ rd.listing = [])
        ∨ ((fineRun c rd invalid hasAttrs base ts).exc = some "KeyError" ∧ rd.popErr = true ∧ c.popGuarded = false)
        ∨ ((fineRun c rd invalid hasAttrs base ts).exc = some "ValueError" ∧ hasAttrs = true ∧ invalid = true)) := by
  unfold fineRun
  by_cases he : rd.listing.isEmpty = true
  · simp only [he, if_true]
    exact ⟨by simp, by simp, Or.inr (Or.inl ⟨trivial, by simpa using he⟩)⟩
  · have hne : rd.listing ≠ [] := by simpa using he
    simp only [he, Bool.false_eq_true, if_false]
    by_cases hpe : (rd.popErr && !c.popGuarded) = true
    · simp only [hpe, if_true]
      simp only [Bool.and_eq_true, Bool.not_eq_true'] at hpe
      exact ⟨by simp, by simp, Or.inr (Or.inr (Or.inl ⟨trivial, hpe.1, hpe.2⟩))⟩
    · simp only [hpe, Bool.false_eq_true, if_false]
      obtain ⟨q1, q2, q3, q4, _⟩ := finePrologue_props c rd hne hk hp
      obtain ⟨zs, h1, h2, h3, _, h5⟩ :=
        fineLoop_res invalid hasAttrs base (finePrologue c rd).2 (finePrologue c rd).1 ts []
      simp only [List.nil_append] at h1
      refine ⟨?_, ?_, ?_⟩
      · show (List.map (·.1) (fineLoop invalid hasAttrs base _ _ ts []).1).Pairwise (· < ·)
        rw [h1]; exact List.Pairwise.sublist h2 q1
      · intro e hy
        have hy' : e ∈ zs := by rw [← h1]; exact hy
        rcases h3 e hy' with hm | ⟨hm, hr⟩
        · have hl := q2 e.1 (List.mem_map.mpr ⟨_, hm, rfl⟩)
          have hg := (q4 _ hm).symm
          obtain ⟨g1, g2, _⟩ := finePrologue_get c rd e.1 e.2 hg
          exact ⟨hl, Or.inl ⟨g1, g2⟩⟩
        · exact ⟨q2 e.1 (List.mem_map.mpr ⟨_, hm, rfl⟩), Or.inr ⟨hr, (q4 _ hm).symm⟩⟩
      · rcases h5 with h | h
        · exact Or.inl h
        · exact Or.inr (Or.inr (Or.inr h))

/-- **C04_fine_publish** (what this thread guarantees to the others). Whatever it read and was
    answered, the map it stores into `_pmap` has one entry per key, only PIDs of its listing as
    keys, and under PID `p` either the very object the copy held under `p` or the object this
    thread created for `p` — never an object under another PID's key. Every writer of `_pmap` keeps
    this, so every reader may rely on it: the circle closes for any number of threads. -/
theorem C04_fine_publish (c : Cfg) (rd : FReads) (invalid hasAttrs : Bool) (base : Nat) (ts : List FTouch)
    (hk : rd.listing.Nodup) (hp : NodupKeys rd.copy) (pm' : PMap)
    (h : (fineRun c rd invalid hasAttrs base ts).published = some pm') :
    ∀ e ∈ pm', e.1 ∈ rd.listing ∧ (rd.copy.get e.1 = some e.2 ∨ e.2 = base + e.1) := by
  unfold fineRun at h
  by_cases he : rd.listing.isEmpty = true
  · simp [he] at h
  · have hne : rd.listing ≠ [] := by simpa using he
    simp only [he, Bool.false_eq_true, if_false] at h
    by_cases hpe : (rd.popErr && !c.popGuarded) = true
    · simp [hpe] at h
    · simp only [hpe, Bool.false_eq_true, if_false, Option.some.injEq] at h
      obtain ⟨_, q2, q3, _, _⟩ := finePrologue_props c rd hne hk hp
      obtain ⟨zs, _, _, _, h4, _⟩ :=
        fineLoop_res invalid hasAttrs base (finePrologue c rd).2 (finePrologue c rd).1 ts []
      intro e hm
      rw [← h] at hm
      rcases h4 e hm with hm' | ⟨hm', hr⟩
      · have hg := get_of_mem q3 hm'
        obtain ⟨g1, _, g3⟩ := finePrologue_get c rd e.1 e.2 hg
        exact ⟨g3, Or.inl g1⟩
      · exact ⟨q2 e.1 (List.mem_map.mpr ⟨_, hm', rfl⟩), Or.inr hr⟩

/-- **C04_fine_complete.** Completeness for every schedule: if the consumer runs the generator to
    its end, every PID of the listing is yielded unless the world answered "no such process" when
    the loop touched it (`Process(pid)` for a new PID, `as_dict` otherwise) — provided the prologue
    drains `_pids_reused` first or this thread was handed no flagged PID (lead L19 otherwise). -/
theorem C04_fine_complete (c : Cfg) (rd : FReads) (invalid hasAttrs : Bool) (base : Nat) (ts : List FTouch)
    (hk : rd.listing.Nodup) (hp : NodupKeys rd.copy) (hne : rd.listing ≠ [])
    (hd : c.drainFirst = true ∨ rd.popped = []) (hpe : rd.popErr = true → c.popGuarded = true)
    (hv : (hasAttrs && invalid) = false) (hlen : (finePrologue c rd).2.length ≤ ts.length) :
    ∀ q ∈ rd.listing, q ∈ (fineRun c rd invalid hasAttrs base ts).yields.map (·.1)
      ∨ ∃ x ∈ (finePrologue c rd).2.zip ts, x.1.1 = q ∧ NspAnswer hasAttrs x := by
  intro q hq
  have he : rd.listing.isEmpty = false := by simpa using hne
  have hpe' : (rd.popErr && !c.popGuarded) = false := by
    cases h1 : rd.popErr with
    | false => rfl
    | true => simp [hpe h1]
  obtain ⟨_, _, _, _, q5⟩ := finePrologue_props c rd hne hk hp
  have hq' : q ∈ todoPids (finePrologue c rd).2 := by rw [q5 hd, mem_sortNat]; exact hq
  obtain ⟨en, hen, heq⟩ := List.mem_map.mp hq'
  obtain ⟨t, ht⟩ := mem_zip_of_mem_left _ ts en hen hlen
  have := fineLoop_complete invalid hasAttrs base hv (finePrologue c rd).2 (finePrologue c rd).1 ts [] (en, t) ht
  unfold fineRun
  simp only [he, hpe', Bool.false_eq_true, if_false]
  rcases this with h | h
  · left; rw [← heq]; exact h
  · right; exact ⟨(en, t), ht, heq, h⟩

/-- the code as it is has the guarded `pop()`: no KeyError, whatever the other threads do -/
theorem C04_fine_no_keyerror (rd : FReads) (invalid hasAttrs : Bool) (base : Nat) (ts : List FTouch) :
    (fineRun cfg rd invalid hasAttrs base ts).exc ≠ some "KeyError" := by
  unfold fineRun
  have hg : cfg.popGuarded = true := by decide
  split
  · simp
  · simp only [hg, Bool.not_true, Bool.and_false, Bool.false_eq_true, if_false]
    obtain ⟨zs, _, _, _, _, h5⟩ :=
      fineLoop_res invalid hasAttrs base (finePrologue cfg rd).2 (finePrologue cfg rd).1 ts []
    rcases h5 with h | h
    · show (fineLoop invalid hasAttrs base _ _ ts []).2.2 ≠ _
      rw [h]; simp
    · show (fineLoop invalid hasAttrs base _ _ ts []).2.2 ≠ _
      rw [h.1]; decide

/-- non-vacuity, and the interleaving the history machine cannot express: this thread copies `_pmap`
    = {1↦0, 5↦1, 9↦2}; ANOTHER thread's `is_running()` flags 5 and a third thread's prologue pops it
    (this thread is handed nothing); the table read is {1,5,7,9}; PID 7 exits between the listing and
    `Process(7)`, PID 9 between `add` and `as_dict`: yields 1 and 5 (the cached objects), publishes
    {1↦0, 5↦1} -/
example :
    fineRun cfg ⟨[(1, 0), (5, 1), (9, 2)], [9, 7, 5, 1], [], false⟩ false true 100
      [⟨none, true⟩, ⟨none, true⟩, ⟨none, true⟩, ⟨none, false⟩]
    = ⟨[(1, some 0), (5, some 1), (7, none), (9, some 2)], [(1, 0), (5, 1)], some [(1, 0), (5, 1)], none⟩ := by
  decide

/-! ## round 3 — the shipped prologue order and a PID flagged as recycled; object ↔ PID -/

/-- the shipped order as a configuration: the extracted facts with `drainFirst = false`. On the current tree
    this IS `cfg` (`Generated.C04.drainFirst = false`); written this way so that a landed repair of L19 flips
    the model the driver runs without breaking the counterexamples. -/
def shipped : Cfg := { cfg with drainFirst := false }

/-- the L19 state: `list(process_iter())` over {1,5,9}; 5 recycled; `is_running()` on the old object flags
    it; a second generator (number 1) is created -/
def sL19 : St := runAll shipped (St.init k159) (fullIter 0 ++ [.kev (.exit 5), .kev (.spawn p5'), .isRunning 1, .iter .none])

/-- **¬ C04_iter_each_listed_Full for the shipped order** (audit item 2): in the reachable state `sL19` the
    remaining PIDs of the new generator are [1, 5, 9]; its first `next()` yields 1 and leaves [9] — 5, which
    is in the table all along, is neither yielded nor remaining. Known finding C04-flagged-pid-skipped. -/
theorem C04_iter_each_listed_Full_fails_shipped : ¬ C04_iter_each_listed_Full shipped := by
  intro hF
  have hi : Inv sL19 := runAll_inv shipped _ _ (init_inv k159 ⟨by decide, by decide, by decide, by decide⟩)
  have h := (hF sL19 1 [] ⟨.none, .fresh⟩ [1, 5, 9] hi (by decide) trivial (by decide)).1 0 1 none (by decide)
  obtain ⟨pre, rest, h1, h2, _⟩ := h
  have h3 : remaining (step shipped sL19 (.next 1 [])).1 1 = some [9] := by decide
  rw [h3] at h2
  simp only [Option.some.injEq] at h2
  subst h2
  have hl := congrArg List.length h1
  cases pre with
  | nil => simp at h1
  | cons x xs =>
    cases xs with
    | nil => simp at h1
    | cons y ys => simp at hl

/-- the same for the whole-iteration sentence: the generator runs to its end having yielded [1, 9]; 5 never
    vanished -/
theorem C04_iteration_complete_Full_fails_shipped : ¬ C04_iteration_complete_Full shipped := by
  intro hF
  have hi : Inv sL19 := runAll_inv shipped _ _ (init_inv k159 ⟨by decide, by decide, by decide, by decide⟩)
  have h := hF sL19 1 ⟨.none, .fresh⟩ [1, 5, 9] [] [.next 1 [], .next 1 []] hi (by decide) trivial trivial
    (by decide) (by decide)
  rcases h.2 5 (by decide) with h5 | h5 | ⟨l', h5, h6⟩
  · revert h5; decide
  · simp only [VanishedAt] at h5
    rcases h5 with ⟨mid, he, hv⟩ | ⟨mid, he, hv⟩ | ⟨mid, he, hv⟩ | h5
    · cases he; revert hv; decide
    · cases he; revert hv; decide
    · cases he; revert hv; decide
    · exact h5
  · have : remaining (runAll shipped sL19 [.next 1 [], .next 1 [], .next 1 []]) 1 = some [] := by decide
    rw [this] at h5
    simp only [Option.some.injEq] at h5
    subst h5; cases h6

/-- for the code as it is: if the extracted order is the shipped one, `cfg` itself fails the full clause -/
theorem C04_iter_each_listed_Full_fails (h : cfg.drainFirst = false) : ¬ C04_iter_each_listed_Full cfg := by
  have : cfg = shipped := by
    unfold shipped
    cases hc : cfg
    rw [hc] at h
    simp only at h
    simp [h]
  rw [this]; exact C04_iter_each_listed_Full_fails_shipped

/-- **C04_flagged_iteration_skips (iteration n, shipped order)** — the characterisation of known finding
    C04-flagged-pid-skipped at full generality: from ANY reachable state in which PID `p` is flagged as
    recycled (`_pids_reused`) and still cached, the iteration that starts now — consumed by any number of
    `next(g)` calls, kernel events anywhere (inside and between the calls), any `attrs` — never yields `p`
    (although it may be listed all along), and once it has finished the published `_pmap` has no entry for
    `p`: the stale object is dropped. -/
theorem C04_flagged_iteration_skips (c : Cfg) (hd : c.drainFirst = false) (s : St) (hi : Inv s) (g : Nat)
    (gen : Gen) (hg : s.gens[g]? = some gen) (hst : gen.st = .fresh) (hne : s.k.listdir ≠ []) (p : Nat)
    (hp : p ∈ s.flagged) (hc : (s.pmap.get p).isSome) (mid0 : List KEv) (h : List Op) (hops : IterOps g h) :
    p ∉ yieldsOf c s g (.next g mid0 :: h)
    ∧ (∀ gen', (runAll c s (.next g mid0 :: h)).gens[g]? = some gen' → gen'.st = .done →
        (runAll c s (.next g mid0 :: h)).pmap.get p = none) := by
  obtain ⟨h1, gen', hg', hcase⟩ := flagged_iteration_skips c hd s hi g gen hg hst hne p hp hc mid0 h hops
  refine ⟨h1, ?_⟩
  intro gen'' hg'' hdone
  rw [hg'] at hg''
  simp only [Option.some.injEq] at hg''
  subst hg''
  rcases hcase with ⟨pm, t, l, hst', _, _⟩ | ⟨_, hpm⟩
  · rw [hst'] at hdone; cases hdone
  · exact hpm

/-- **C04_uncached_iteration_fresh (iteration n+1, shipped order).** From ANY reachable state in which `_pmap`
    has no entry for the listed PID `p` (in particular the state `C04_flagged_iteration_skips` ends in), the
    iteration that starts now — any number of `next(g)` calls, kernel events anywhere, any `attrs` — yields for
    `p` only a reference that NO object had when the iteration started (`Process(p)` is called anew), and that
    object is a `Process` whose `pid` is `p`. Whether `p` is yielded at all is the completeness clause
    (`C04_iteration_complete_partial`: nothing is flagged any more, so yielded or vanished). -/
theorem C04_uncached_iteration_fresh (c : Cfg) (hd : c.drainFirst = false) (s : St) (hi : Inv s) (ho : ObjInv s)
    (g : Nat) (gen : Gen) (hg : s.gens[g]? = some gen) (hst : gen.st = .fresh) (p : Nat)
    (hc : s.pmap.get p = none) (hl : p ∈ s.k.listdir) (mid0 : List KEv) (h : List Op) (hops : IterOps g h) :
    ∀ r ∈ yieldRefsOf c s g p (.next g mid0 :: h),
      s.objs.length ≤ r ∧ ∃ o, (runAll c s (.next g mid0 :: h)).objs[r]? = some o ∧ o.pid = p := by
  intro r hr
  have hfresh := uncached_iteration_fresh c hd s hi ho g gen hg hst p hc hl mid0 h hops r hr
  refine ⟨hfresh, ?_⟩
  exact yieldRef_obj c g p (.next g mid0 :: h) s ho r hr

/-- **C04_recycled_replaced_two_iterations** (statement clause 8 for the SHIPPED order; audit item 1). PID `p`
    was found recycled by `is_running()` (flagged) and its stale object is still cached. Iteration n (generator
    `g`, run to its end by `next(g)` calls with kernel events anywhere) does not yield `p` — the flagged entry
    is only dropped (known finding C04-flagged-pid-skipped) — and iteration n+1 (a generator created after
    that, `p` still listed) yields for `p` only a FRESH object of PID `p`: a reference that did not exist
    before iteration n+1 began, hence different from the stale object and from every other cached one. That
    the fresh object is then KEPT by later iterations is `C04_refines_sequential_from` (nothing is flagged
    any more) with `C04_start_cache` / `C04_spec_visit`. -/
theorem C04_recycled_replaced_two_iterations (c : Cfg) (hd : c.drainFirst = false) (s : St) (hi : Inv s)
    (ho : ObjInv s) (g : Nat) (gen : Gen) (hg : s.gens[g]? = some gen) (hst : gen.st = .fresh)
    (hne : s.k.listdir ≠ []) (p : Nat) (hp : p ∈ s.flagged) (hc : (s.pmap.get p).isSome)
    (mid0 : List KEv) (h1 : List Op) (hops1 : IterOps g h1)
    (gen1 : Gen) (hend : (runAll c s (.next g mid0 :: h1)).gens[g]? = some gen1) (hdone : gen1.st = .done)
    (a' : Attrs) (hl : p ∈ (runAll c s (.next g mid0 :: h1)).k.listdir)
    (mid1 : List KEv) (h2 : List Op)
    (hops2 : IterOps (runAll c s (.next g mid0 :: h1)).gens.length h2) :
    let s1 := runAll c s (.next g mid0 :: h1)
    let s2 := (step c s1 (.iter a')).1
    let g' := s1.gens.length
    p ∉ yieldsOf c s g (.next g mid0 :: h1)
    ∧ ∀ r ∈ yieldRefsOf c s2 g' p (.next g' mid1 :: h2),
        s1.objs.length ≤ r ∧ ∃ o, (runAll c s2 (.next g' mid1 :: h2)).objs[r]? = some o ∧ o.pid = p := by
  intro s1 s2 g'
  obtain ⟨n1, n2⟩ := C04_flagged_iteration_skips c hd s hi g gen hg hst hne p hp hc mid0 h1 hops1
  have hpm : s1.pmap.get p = none := n2 gen1 hend hdone
  have hi1 : Inv s1 := runAll_inv c _ s hi
  have ho1 : ObjInv s1 := runAll_objInv c _ s ho
  have hi2 : Inv s2 := (step_inv c s1 (.iter a') hi1).1
  have ho2 : ObjInv s2 := step_objInv c s1 (.iter a') ho1
  have hg2 : s2.gens[g']? = some ⟨a', .fresh⟩ := by
    show (s1.gens ++ [⟨a', .fresh⟩])[s1.gens.length]? = _
    simp
  refine ⟨n1, ?_⟩
  exact C04_uncached_iteration_fresh c hd s2 hi2 ho2 g' ⟨a', .fresh⟩ hg2 rfl p hpm hl mid1 h2 hops2

/-- the L19 history continued by two more iterations, on the shipped order: iteration n yields 1, 9 (5 is
    dropped, not yielded); iteration n+1 yields the fresh object 3 for PID 5; iteration n+2 yields the very
    same objects again (the fresh one is kept) -/
example :
    (trace shipped (St.init k159) (histL19 ++ fullIter 2 ++ fullIter 3)).drop 9
      = [.yield 0 1 none, .yield 2 9 none, .stop, .stop,
         .gen 2, .yield 0 1 none, .yield 3 5 none, .yield 2 9 none, .stop,
         .gen 3, .yield 0 1 none, .yield 3 5 none, .yield 2 9 none, .stop] := by decide

/-- **C04_refines_sequential_from.** The refinement of `C04_refines_sequential` from ANY idle reachable state
    (no generator suspended), not only the initial one: in particular from the state after the iteration that
    dropped a flagged PID — from there on nothing is flagged, and every sequential continuation of the code as
    it is equals the specification machine started on the abstraction of that state: the fresh object yielded
    for the recycled PID in the next iteration is cached and yielded again by the following ones. -/
theorem C04_refines_sequential_from (s : St) (hi : Inv s)
    (hidle : ∀ (j : Nat) (gen : Gen), s.gens[j]? = some gen → isRun gen = false)
    (h : List Op) (hs : SeqHist cfg s h) :
    strace cfg.validNames cfg.noAccessAttrs (abs s) h = (trace cfg s h).map some :=
  trace_sim cfg cfg_good.range h s (seqInv_of_idle hi hidle) hs

/-- **C04_yield_object_pid** (statement clause "yields one Process per listed PID"; audit item 8). In every
    state reachable from the initial one by ANY history, for every configuration: the reference `next(g)`
    yields together with PID `p` points to an existing object whose `pid` field is `p`; and every reference
    stored in `_pmap`, in a suspended generator's private map or on its to-do list points to an existing
    object of the PID it is filed under (no dangling reference: the `none` defaults of `raiseIfReused` /
    `asDictLoop` / `St.setObj` are unreachable). -/
theorem C04_yield_object_pid (c : Cfg) (k : Kernel) (h : List Op) (g : Nat) (mid : List KEv) (r : Ref) (p : Nat)
    (info : Option (List String))
    (hy : (step c (runAll c (St.init k) h) (.next g mid)).2 = .yield r p info) :
    (∃ o, (step c (runAll c (St.init k) h) (.next g mid)).1.objs[r]? = some o ∧ o.pid = p)
    ∧ ObjInv (runAll c (St.init k) h) :=
  ⟨next_yield_obj c _ (reachable_objInv c k h) g mid r p info hy, reachable_objInv c k h⟩

/-- objects are never deleted and never change PID: a reference once yielded for `p` stays an object of `p`
    along any continuation -/
theorem C04_object_pid_stable (c : Cfg) (s : St) (ho : ObjInv s) (h : List Op) (r : Ref) (o : PObj)
    (hr : s.objs[r]? = some o) : ∃ o', (runAll c s h).objs[r]? = some o' ∧ o'.pid = o.pid :=
  runAll_objsExt c h s ho r o hr

/-- proof obligation on the translator's fact (fix 4d302c5 landed): the drain loop of `process_iter`
    survives `_pids_reused.pop()` on a set another thread emptied (so `C04_drain_guarded_safe`, not
    `C04_drain_race_counterexample`, describes the code as it is) -/
theorem cfg_pop_guarded : cfg.popGuarded = true := by decide

/-! ## seeded round 5 — the LIFETIME of a "recycled" flag: `cache_clear()`, generators in flight

    Statement clause: "an entry whose PID was found recycled by is_running() is replaced by a fresh object",
    quantified over "partially consumed iterators, cache_clear() calls". What carries the clause between the
    `is_running()` call and the next iteration is the flag in `_pids_reused`; the theorems below quantify over
    EVERYTHING that may happen in between (any operations, any number of generators in flight that advance,
    finish or are closed and thereby republish their private maps, `cache_clear()` at any point). -/

/-- proof obligation on the translator's fact `flagSetOps`: EVERY use of the module global `_pids_reused` in the
    package — `Process.is_running` adds to it, `process_iter` tests it and pops from it, nothing else touches it
    (in particular `process_iter.cache_clear` does not). This is the frame `step_flagSub` transcribes: in the model
    only `isRunningObj` adds a flag and only `prologue` removes flags. Stops building as soon as any other code
    reads, empties, re-binds or aliases the set. -/
theorem cfg_flag_set_ops :
    Gen.C04.flagSetOps = ["<module>:init", "Process.is_running:add", "process_iter:pop", "process_iter:truth"] := by
  decide

/-- the same for `_pmap`: copied and re-bound by `process_iter` (prologue / `finally`), cleared by
    `process_iter.cache_clear` — the three places `prologue`, `finish` and `step … .cacheClear` transcribe -/
theorem cfg_pmap_ops :
    Gen.C04.pmapOps = ["<module>:init", "process_iter.cache_clear:clear", "process_iter:copy", "process_iter:global",
                       "process_iter:store"] := by
  decide

/-- `is_running()` on object `o` (reference `r`) FINDS its PID recycled: the object is live so far (neither
    `_gone` nor `_pid_reused`) and the table holds the number as another incarnation (`Spec.Recycled`) -/
def FindsRecycled (s : St) (r : Ref) (o : PObj) : Prop :=
  s.objs[r]? = some o ∧ o.gone = false ∧ o.reused = false ∧ Recycled s.k o.pid o.ident

/-- **C04_flag_kept_by_every_other_op.** For every configuration, state and operation other than the first
    `next()` of a generator (the only one that runs the prologue's drain loop): every flagged PID stays flagged.
    `cache_clear()`, `next()` / `close()` of generators in flight (their `finally` republishes the private map),
    `is_running()`, `pids()`, `pid_exists()`, creating generators, kernel events — none of them loses a flag. -/
theorem C04_flag_kept_by_every_other_op (c : Cfg) (s : St) (op : Op) (h : ¬ StartsIter s op) (p : Nat)
    (hp : p ∈ s.flagged) : p ∈ (step c s op).1.flagged :=
  step_flagSub c s op h p hp

/-- `cache_clear()` empties the cache and nothing else: the flags are kept (model side of `cfg_flag_set_ops`) -/
theorem C04_cache_clear_keeps_flags (c : Cfg) (s : St) :
    (step c s .cacheClear).1.pmap = [] ∧ (step c s .cacheClear).1.flagged = s.flagged
    ∧ (step c s .cacheClear).1.gens = s.gens ∧ (step c s .cacheClear).1.objs = s.objs :=
  ⟨rfl, rfl, rfl, rfl⟩

/-- **C04_found_recycled_stays_flagged.** `is_running()` finds the PID of `o` recycled: it answers False, and
    after ANY continuation `h0` in which no iteration starts — `cache_clear()` calls, generators in flight that
    are advanced, exhausted or closed, further `is_running()` / `pids()` / `pid_exists()` calls, kernel events,
    new generator objects — the PID is still flagged. -/
theorem C04_found_recycled_stays_flagged (c : Cfg) (s : St) (r : Ref) (o : PObj) (hf : FindsRecycled s r o)
    (h0 : List Op) (hns : NoStart c (step c s (.isRunning r)).1 h0) :
    (step c s (.isRunning r)).2 = .bool false
    ∧ o.pid ∈ (runAll c (step c s (.isRunning r)).1 h0).flagged := by
  obtain ⟨hr, hg, hu, b, hs, hne⟩ := hf
  obtain ⟨h1, h2⟩ := isRunning_finds_recycled c s r o hr hg hu b hs hne
  exact ⟨h1, runAll_flagSub c h0 _ hns _ h2⟩

/-- **C04_found_recycled_never_yielded_again** (the clause, either prologue order, any attrs). From any state
    satisfying the invariants (every reachable one: `runAll_inv`, `reachable_objInv`): `is_running()` finds the
    PID of object `r` recycled; then anything happens except the start of an iteration (`h0` as above:
    `cache_clear()` while generators are in flight, those generators finishing and republishing the stale entry,
    …); then an iteration starts (generator `g`, first `next()`) and is consumed by `next(g)` calls with kernel
    events anywhere. That iteration NEVER yields the stale object `r` for the PID: whatever it yields for it is a
    reference that did not exist when it started. -/
theorem C04_found_recycled_never_yielded_again (c : Cfg) (s : St) (hi : Inv s) (ho : ObjInv s) (r : Ref) (o : PObj)
    (hf : FindsRecycled s r o) (h0 : List Op) (hns : NoStart c (step c s (.isRunning r)).1 h0)
    (g : Nat) (gen : Gen) (hg : (runAll c (step c s (.isRunning r)).1 h0).gens[g]? = some gen) (hst : gen.st = .fresh)
    (mid0 : List KEv) (h : List Op) (hops : IterOps g h) :
    ∀ r' ∈ yieldRefsOf c (runAll c (step c s (.isRunning r)).1 h0) g o.pid (.next g mid0 :: h),
      r < r' ∧ s.objs.length ≤ r' := by
  intro r' hr'
  have hp := (C04_found_recycled_stays_flagged c s r o hf h0 hns).2
  have hi0 : Inv (step c s (.isRunning r)).1 := (step_inv c s _ hi).1
  have ho0 : ObjInv (step c s (.isRunning r)).1 := step_objInv c s _ ho
  have hi1 := runAll_inv c h0 _ hi0
  have ho1 := runAll_objInv c h0 _ ho0
  have hl0 := step_objs_length_le c s (.isRunning r) ho
  have hl1 := (runAll_objsExt c h0 _ ho0).length_le
  have hfresh := flagged_iteration_fresh c _ hi1 ho1 g gen hg hst o.pid hp mid0 h hops r' hr'
  have hlt : r < s.objs.length := by
    obtain ⟨hlt, _⟩ := List.getElem?_eq_some_iff.mp hf.1
    exact hlt
  have hle : s.objs.length ≤ r' := by omega
  exact ⟨Nat.lt_of_lt_of_le hlt hle, hle⟩

/-- **C04_found_recycled_replaced** — the whole clause for the shipped order: found recycled by `is_running()`;
    anything but an iteration start (`h0`); iteration n (the stale entry still — or again, republished by a
    generator that was in flight — cached) does not yield the PID and drops the entry; iteration n+1 yields for
    it only a FRESH object of that PID. (`C04_found_recycled_stays_flagged` composed with
    `C04_recycled_replaced_two_iterations`.) -/
theorem C04_found_recycled_replaced (c : Cfg) (hd : c.drainFirst = false) (s : St) (hi : Inv s) (ho : ObjInv s)
    (r : Ref) (o : PObj) (hf : FindsRecycled s r o) (h0 : List Op) (hns : NoStart c (step c s (.isRunning r)).1 h0)
    (g : Nat) (gen : Gen) (hg : (runAll c (step c s (.isRunning r)).1 h0).gens[g]? = some gen) (hst : gen.st = .fresh)
    (hne : (runAll c (step c s (.isRunning r)).1 h0).k.listdir ≠ [])
    (hc : ((runAll c (step c s (.isRunning r)).1 h0).pmap.get o.pid).isSome)
    (mid0 : List KEv) (h1 : List Op) (hops1 : IterOps g h1)
    (gen1 : Gen)
    (hend : (runAll c (runAll c (step c s (.isRunning r)).1 h0) (.next g mid0 :: h1)).gens[g]? = some gen1)
    (hdone : gen1.st = .done) (a' : Attrs)
    (hl : o.pid ∈ (runAll c (runAll c (step c s (.isRunning r)).1 h0) (.next g mid0 :: h1)).k.listdir)
    (mid1 : List KEv) (h2 : List Op)
    (hops2 : IterOps (runAll c (runAll c (step c s (.isRunning r)).1 h0) (.next g mid0 :: h1)).gens.length h2) :
    let s0 := runAll c (step c s (.isRunning r)).1 h0
    let s1 := runAll c s0 (.next g mid0 :: h1)
    let s2 := (step c s1 (.iter a')).1
    let g' := s1.gens.length
    o.pid ∉ yieldsOf c s0 g (.next g mid0 :: h1)
    ∧ ∀ r' ∈ yieldRefsOf c s2 g' o.pid (.next g' mid1 :: h2),
        s1.objs.length ≤ r' ∧ ∃ o', (runAll c s2 (.next g' mid1 :: h2)).objs[r']? = some o' ∧ o'.pid = o.pid := by
  have hp := (C04_found_recycled_stays_flagged c s r o hf h0 hns).2
  have hi0 : Inv (step c s (.isRunning r)).1 := (step_inv c s _ hi).1
  have ho0 : ObjInv (step c s (.isRunning r)).1 := step_objInv c s _ ho
  have hi1 := runAll_inv c h0 _ hi0
  have ho1 := runAll_objInv c h0 _ ho0
  exact C04_recycled_replaced_two_iterations c hd _ hi1 ho1 g gen hg hst hne o.pid hp hc mid0 h1 hops1 gen1 hend hdone
    a' hl mid1 h2 hops2

/-- the seeded-round-5 history up to the `cache_clear()`: iterate {1,5,9}; PID 5 is recycled; a second generator
    is started and yields PID 1 (it holds its private copy of the table, stale entry for 5 included);
    `is_running()` on the old object of PID 5 finds it recycled -/
def histInFlight : List Op :=
  fullIter 0 ++ [.kev (.exit 5), .kev (.spawn p5'), .iter .none, .next 1 [], .isRunning 1]

/-- …and after it: the generator in flight is exhausted (republishing the stale entry), two more iterations -/
def histAfterClear : List Op := [.next 1 [], .next 1 [], .next 1 []] ++ fullIter 2 ++ fullIter 3

/-- what a `cache_clear()` that ALSO emptied `_pids_reused` would leave behind -/
def clearDroppingFlags (s : St) : St := { s with pmap := [], flagged := [] }

/-- non-vacuity of the hypotheses above on that history: `is_running()` there does find PID 5 recycled, and
    `cache_clear`, the three `next(1)` of the generator in flight and the creation of generator 2 start no iteration -/
example :
    FindsRecycled (runAll shipped (St.init k159) (histInFlight.dropLast)) 1 ⟨5, 105, false, false⟩
    ∧ NoStart shipped (runAll shipped (St.init k159) histInFlight)
        [.cacheClear, .next 1 [], .next 1 [], .next 1 [], .iter .none] := by
  refine ⟨⟨by decide, rfl, rfl, 999, by decide, by decide⟩, ?_⟩
  simp only [NoStart, StartsIter, and_true, not_false_eq_true, true_and]
  decide

/-- **why `cfg_flag_set_ops` is an obligation** (seeded change C04-4). The code as it is (`cache_clear()` keeps
    the flags): the generator in flight still yields the stale object 1 for PID 5 — it started before the
    `is_running()` call — and republishes it, but the next iteration drops it (yields 1, 9: known finding
    C04-flagged-pid-skipped) and the one after yields the fresh object 3. With a `cache_clear()` that also empties
    `_pids_reused`, EVERY later iteration yields the stale object 1 for PID 5: the object's own `_pid_reused` makes
    `is_running()` return early, so the PID is never flagged again. -/
theorem C04_clear_dropping_flags_counterexample :
    let s := runAll shipped (St.init k159) histInFlight
    trace shipped (step shipped s .cacheClear).1 histAfterClear
        = [.yield 1 5 none, .yield 2 9 none, .stop,
           .gen 2, .yield 0 1 none, .yield 2 9 none, .stop, .stop,
           .gen 3, .yield 0 1 none, .yield 3 5 none, .yield 2 9 none, .stop]
    ∧ trace shipped (clearDroppingFlags s) histAfterClear
        = [.yield 1 5 none, .yield 2 9 none, .stop,
           .gen 2, .yield 0 1 none, .yield 1 5 none, .yield 2 9 none, .stop,
           .gen 3, .yield 0 1 none, .yield 1 5 none, .yield 2 9 none, .stop]
    ∧ (step shipped (runAll shipped (clearDroppingFlags s) histAfterClear) (.isRunning 1)).2 = .bool false
    ∧ (step shipped (runAll shipped (clearDroppingFlags s) histAfterClear) (.isRunning 1)).1.flagged = [] := by
  decide

/-! ## seeded round 5b — the TEXT of `/proc/<n>/status`: the thread-group id is compared AS A NUMBER

    The clause "`pid_exists()` is False for thread IDs and agrees with `pids()`" used to rest on the abstract
    answer `Kernel.readStatus` (a number) and the model's `t == n`. `Model/C04Status.lean` transcribes the scan
    of the file's bytes, `Spec/C04Status.lean` says what the kernel prints; the theorems quantify over every
    id asked about, every thread-group id printed (so every textual relation between the two decimals: proper
    prefix, suffix, same digits …) and every text around the `Tgid:` line. -/

/-- **obligation.** the statements of `_pslinux.pid_exists` are the ones `scanTgid` / `linuxPidExistsText`
    transcribe: probe first; the lines of `/proc/<pid>/status` in order; the FIRST line starting with `Tgid:`;
    its second blank-separated field through `int()`; `==` with the argument; no such line → ValueError;
    OSError / ValueError → `pid in pids()`. Any rewrite of the function changes this fact and stops the build
    (the correspondence family `tid_digits` / `status_text` then looks for a concrete id). -/
theorem cfg_tgid_scan :
    Gen.C04.tgidScan =
      ["0:if not _psposix.pid_exists(pid):", "1:return False", "0:else:", "1:try:",
       "2:path = f'{get_procfs_path()}/{pid}/status'", "2:with open_binary(path) as f:", "3:for line in f:",
       "4:if line.startswith(b'Tgid:'):", "5:tgid = int(line.split()[1])", "5:return tgid == pid",
       "3:msg = f\"'Tgid' line not found in {path}\"", "3:raise ValueError(msg)",
       "1:except (OSError, ValueError):", "2:return pid in pids()"] := by decide

/-- **C04_tgid_field_compared_as_number.** On ANY status text in the kernel's format — any lines before the
    `Tgid:` line that start with their own key, anything at all after it — and for ANY two numbers: the scan ends
    in `return tgid == pid` with the thread-group id that was printed, i.e. it answers whether the two NUMBERS are
    equal. In particular `n = 123`, `tgid = 1234` (a thread whose id is a decimal prefix of its process's):
    False. -/
theorem C04_tgid_field_compared_as_number (t : StatusText) (hwf : t.WF) (n : Nat) :
    scanStatus t.render n = .eq (t.tgid == n) := scanStatus_render t hwf n

/-- **C04_linux_pidExists_text_refines.** `_pslinux.pid_exists(n)` run on the BYTES of a status file in the
    kernel's format that carries the thread-group id the table gives `n` (after any table changes `mid` between
    probe and read) is the abstract `linuxPidExists` — so `C04_linux_pidExists_two_instants`, `C04_linux_pidExists_iff`,
    `C04_platform_eq` and `C04_pidExists_iff` speak about the text-level function. -/
theorem C04_linux_pidExists_text_refines (k : Kernel) (n : Nat) (mid : List KEv) (t : StatusText) (hwf : t.WF)
    (hd : (k.applyAll mid).readStatus n = .tgid t.tgid) :
    linuxPidExistsText k n mid (some t.render) = linuxPidExists k n mid := by
  unfold linuxPidExistsText linuxPidExists
  cases posixPidExists k n with
  | bool e =>
    cases e with
    | false => rfl
    | true =>
      simp only [scanStatus_render t hwf n, hd]
  | _ => rfl

/-- the other two kinds of status file: it cannot be opened (= `linuxPidExistsDenied`), or it has no line
    starting with `Tgid:` (ValueError → the listing, as `readStatus = .noTgid`) -/
theorem C04_linux_pidExists_text_other (k : Kernel) (n : Nat) (mid : List KEv) :
    linuxPidExistsText k n mid none = linuxPidExistsDenied k n mid
    ∧ ∀ content, (∀ l ∈ linesOf content, startsWith tgidKey l = false) →
        (k.applyAll mid).readStatus n = .noTgid →
        linuxPidExistsText k n mid (some content) = linuxPidExists k n mid := by
  refine ⟨?_, ?_⟩
  · unfold linuxPidExistsText linuxPidExistsDenied
    cases posixPidExists k n with
    | bool e => cases e <;> rfl
    | _ => rfl
  · intro content hc hd
    unfold linuxPidExistsText linuxPidExists
    cases posixPidExists k n with
    | bool e =>
      cases e with
      | false => rfl
      | true => simp only [scanStatus, scanTgid_none _ n hc, hd]
    | _ => rfl

/-- **C04_linux_pidExists_text_iff.** The clause at text level: on a well-formed table, whatever the status file
    of `n` looks like around its `Tgid:` line, `_pslinux.pid_exists(n)` is a bool, True exactly when `n` is a
    listed PID. -/
theorem C04_linux_pidExists_text_iff (k : Kernel) (hwf : k.WF) (n : Nat) (hb : n ≤ pidTMax)
    (t : StatusText) (ht : t.WF) (hd : k.readStatus n = .tgid t.tgid) :
    ∃ b, (linuxPidExistsText k n [] (some t.render)).2 = .bool b ∧ (b = true ↔ n ∈ k.listdir) := by
  rw [C04_linux_pidExists_text_refines k n [] t ht (by simpa [Kernel.applyAll] using hd)]
  exact C04_linux_pidExists_iff k hwf n hb

/-- **C04_thread_id_text_false.** `pid_exists()` is False for thread IDs, at text level: `n` is the id of a
    thread (not of a process) whose status file prints the thread-group id `th.tgid` — ANY number, however its
    decimal digits relate to those of `n` — among any other lines: the answer is False. -/
theorem C04_thread_id_text_false (k : Kernel) (hwf : k.WF) (n : Nat) (hb : n ≤ pidTMax) (th : Thr)
    (hp : k.findProc n = none) (hth : k.findThr n = some th)
    (t : StatusText) (ht : t.WF) (htg : t.tgid = th.tgid) :
    (linuxPidExistsText k n [] (some t.render)).2 = .bool false := by
  have hd : k.readStatus n = .tgid t.tgid := by simp [Kernel.readStatus, hp, hth, htg]
  obtain ⟨b, h1, h2⟩ := C04_linux_pidExists_text_iff k hwf n hb t ht hd
  have hnl : n ∉ k.listdir := by
    rw [mem_listdir]; rintro ⟨p, hp', e⟩; exact findProc_none hp p hp' e
  cases b with
  | false => exact h1
  | true => exact absurd (h2.mp rfl) hnl

/-- the status file of thread 123 of process 1234, as the kernel prints it (`Name:\tp`, `Tgid:\t1234`, `Pid:\t123`) -/
def status123of1234 : StatusText :=
  ⟨[[78, 97, 109, 101, 58, 9, 112]], 1234, [[80, 105, 100, 58, 9, 49, 50, 51]]⟩

/-- non-vacuity + **why `cfg_tgid_scan` is an obligation** (seeded change C04-5): the text is well formed and is
    these three lines; the code as it is answers `1234 == 123` = False, the same scan comparing the field as TEXT
    (the decimal of the argument only has to be a prefix of the field — `scanTgidPrefix`, not the code) answers
    True for the thread id 123, which no listing contains. -/
theorem C04_tgid_prefix_match_counterexample :
    status123of1234.WF
    ∧ status123of1234.lines = [[78, 97, 109, 101, 58, 9, 112], [84, 103, 105, 100, 58, 9, 49, 50, 51, 52],
                                 [80, 105, 100, 58, 9, 49, 50, 51]]
    ∧ scanTgid 123 status123of1234.lines = .eq false
    ∧ scanTgidPrefix [49, 50, 51] status123of1234.lines = .eq true
    ∧ (linuxPidExists ⟨[⟨1234, 10, false, false, .ok⟩], [⟨123, 1234, 11⟩]⟩ 123 []).2 = .bool false := by
  have hl : status123of1234.lines = [[78, 97, 109, 101, 58, 9, 112], [84, 103, 105, 100, 58, 9, 49, 50, 51, 52],
                                      [80, 105, 100, 58, 9, 49, 50, 51]] := by
    simp [status123of1234, StatusText.lines, tgidLine, tgidLabel, renderDec, renderRadix, renderRadixAux, decimal]
  refine ⟨(StatusText.wfb_iff _).mp (by decide), hl, ?_, ?_, by decide⟩
  · rw [hl]; decide
  · rw [hl]; decide

/-! ## seeded round 5c — a listed process changes state DURING its own `as_dict()` scan

    Statement clause: "process_iter() yields one Process per listed PID … and silently skips processes that
    VANISH while iterating", quantified over "process-table changes (…, zombie, …) between and DURING
    iterations". A zombie is still listed. `Model/C04Scan.lean` takes one visit apart into the OS accesses of
    the getters inside the one `oneshot()` block; the theorems quantify over the state of the process at EVERY
    access instant (`ScanWorld.life`, one-way: alive → zombie → gone), over what a zombie's files give
    (`zres`: content, empty, ESRCH, ENOENT, EACCES — per file, any kernel), over the errno a gone process gives
    (`gesrch`), over denied files, over the requested names and where each getter's value comes from (`srcs`).
    What ties them to the source: `cfg_scan_code` (the statements of `wrap_exceptions`, `_is_zombie`,
    `_raise_if_zombie`, `_readlink`), `cfg_zombie_probe` (`_is_zombie` makes its OWN read of `stat`, it does not
    answer from the block's cache), `cfg_memo_readers`, `cfg_scan_sources`. -/

/-- **obligation.** the code `classify` / `isZombie` / `getter … (.link _)` transcribe, statement by statement -/
theorem cfg_scan_code :
    Gen.C04.scanCode =
      ["wrapper|0:pid, name = (self.pid, self._name)", "wrapper|0:try:", "wrapper|1:return fun(self, *args, **kwargs)",
       "wrapper|0:except PermissionError as err:", "wrapper|1:raise AccessDenied(pid, name) from err",
       "wrapper|0:except ProcessLookupError as err:", "wrapper|1:self._raise_if_zombie()",
       "wrapper|1:raise NoSuchProcess(pid, name) from err", "wrapper|0:except FileNotFoundError as err:",
       "wrapper|1:self._raise_if_zombie()", "wrapper|1:if not os.path.exists(f'{self._procfs_path}/{pid}/stat'):",
       "wrapper|2:raise NoSuchProcess(pid, name) from err", "wrapper|1:raise",
       "_is_zombie|0:try:", "_is_zombie|1:data = bcat(f'{self._procfs_path}/{self.pid}/stat')",
       "_is_zombie|0:except OSError:", "_is_zombie|1:return False", "_is_zombie|0:else:",
       "_is_zombie|1:rpar = data.rfind(b')')", "_is_zombie|1:status = data[rpar + 2:rpar + 3]",
       "_is_zombie|1:return status == b'Z'",
       "_raise_if_zombie|0:if self._is_zombie():", "_raise_if_zombie|1:raise ZombieProcess(self.pid, self._name, self._ppid)",
       "_readlink|0:try:", "_readlink|1:return readlink(path)", "_readlink|0:except (FileNotFoundError, ProcessLookupError):",
       "_readlink|1:if os.path.lexists(f'{self._procfs_path}/{self.pid}'):", "_readlink|2:self._raise_if_zombie()",
       "_readlink|2:if fallback is not UNSET:", "_readlink|3:return fallback", "_readlink|1:raise"] := by decide

/-- **obligation.** `_is_zombie()` reads `/proc/<pid>/stat` itself, at the instant it is asked: it mentions no
    memoized reader (directly, through `__wrapped__`, or otherwise). An `_is_zombie()` that answers from the
    `oneshot()` cache changes this fact, stops the build, and makes the driver run the `.memo` model
    (`C04_scan_stale_probe_counterexample` shows what that one does). -/
theorem cfg_zombie_probe : Gen.C04.zombieProbe = "read:stat" ∧ scanProbe = .fresh := by decide

/-- **obligation.** the memoized readers and the file each reads; `oneshot_enter()` activates exactly them -/
theorem cfg_memo_readers :
    Gen.C04.memoReaders = [("_parse_stat_file", "stat"), ("_read_smaps_file", "smaps"), ("_read_status_file", "status")]
    ∧ Gen.C04.oneshotActivates = Gen.C04.memoReaders.map (·.1) := by decide

/-- **obligation.** where the getters the correspondence drives get their value from -/
theorem cfg_scan_sources :
    scanSrcs =
      [("cmdline", .readProbe "cmdline"), ("cpu_num", .memo "stat"), ("cpu_times", .memo "stat"), ("create_time", .obj),
       ("cwd", .link "cwd"), ("environ", .read "environ"), ("gids", .memo "status"), ("io_counters", .read "io"),
       ("memory_info", .read "statm"), ("num_ctx_switches", .memo "status"), ("num_threads", .memo "status"),
       ("pid", .obj), ("status", .memo "stat"), ("terminal", .memo "stat"), ("uids", .memo "status")] := by decide

/-- **the clause, for one visit.** Whatever names are requested and wherever their values come from, whenever
    the process turns zombie / is reaped relative to the accesses of the scan, whatever a zombie's files
    answer: the visit (with the fresh zombie probe) skips the PID only if the process was GONE at one of the
    instants the visit itself looked at it; otherwise it yields with exactly the requested keys; no exception
    comes out of it. `cold` = the object is created by this visit. -/
theorem C04_scan_listed_never_skipped (srcs : List (String × Src)) (w : ScanWorld) (hm : OneWay w.life)
    (cold : Bool) (names : List String) :
    VisitOk w.life (visitScan .fresh srcs w cold names).1.i names (visitScan .fresh srcs w cold names).2 := by
  cases cold with
  | false => exact scan_visit_ok srcs w hm names ScanSt.init
  | true =>
    obtain ⟨g1, g2, g3⟩ := getter_sound w hm ScanSt.init (.read statFile)
    have hv := scan_visit_ok srcs w hm names (getter Probe.fresh w ScanSt.init (Src.read statFile)).1
    unfold visitScan
    simp only [if_true]
    cases hg : (getter Probe.fresh w ScanSt.init (Src.read statFile)).2 with
    | nsp =>
      obtain ⟨i, _, b, c⟩ := g2 hg
      exact ⟨i, b, c⟩
    | fnf => exact absurd hg g3
    | val => exact hv
    | ad => exact hv
    | zombie => exact hv

/-- the same for the code as it is (`scanProbe`, `scanSrcs` come from the translator facts) -/
theorem C04_scan_listed_never_skipped_cfg (w : ScanWorld) (hm : OneWay w.life) (cold : Bool) (names : List String) :
    VisitOk w.life (visitScan scanProbe scanSrcs w cold names).1.i names (visitScan scanProbe scanSrcs w cold names).2 := by
  rw [cfg_zombie_probe.2]; exact C04_scan_listed_never_skipped scanSrcs w hm cold names

/-- the same when the CALLER holds `with proc.oneshot():` on the cached object and fetched `held` in it before
    iterating (at earlier instants of the same life): whatever the block's cache holds by then, the visit skips
    the PID only if the process was gone at one of the instants it (or the caller) looked at it -/
theorem C04_scan_held_listed_never_skipped (srcs : List (String × Src)) (w : ScanWorld) (hm : OneWay w.life)
    (held names : List String) :
    VisitOk w.life (visitScanHeld .fresh srcs w held names).1.i names (visitScanHeld .fresh srcs w held names).2 :=
  scan_visit_ok srcs w hm names (heldReads .fresh srcs w ScanSt.init held)

/-- **a zombie is still listed.** A process that stays in the table during the whole visit — alive, or turning
    into a zombie at ANY point of the scan — is yielded, with exactly the requested keys. -/
theorem C04_scan_zombie_still_yielded (srcs : List (String × Src)) (w : ScanWorld) (hm : OneWay w.life)
    (hl : ∀ i, Listed (w.life i)) (cold : Bool) (names : List String) :
    ∃ items, (visitScan .fresh srcs w cold names).2 = .yielded items ∧ items.map (·.1) = names := by
  have h := C04_scan_listed_never_skipped srcs w hm cold names
  cases hr : (visitScan .fresh srcs w cold names).2 with
  | yielded items => rw [hr] at h; exact ⟨items, rfl, h⟩
  | skipped => rw [hr] at h; obtain ⟨i, _, hi⟩ := h; exact absurd hi (hl i)
  | exc c => rw [hr] at h; exact absurd h id

/-- **the one-step abstraction of the history machine is this model when nothing changes during the visit**
    (`asDictLoop`: a name answered from the object never fails, any other name fails iff the process directory
    is gone): a cached PID is skipped iff the process is gone and some requested getter looks at it. -/
theorem C04_scan_steady (srcs : List (String × Src)) (l : Life) (zres : String → Rd) (gesrch : Nat → Bool)
    (deny aempty : String → Bool) (names : List String) :
    (visitScan .fresh srcs (steady l zres gesrch deny aempty) false names).2 = .skipped
      ↔ (l = .gone ∧ names.any (fun nm => (srcOf srcs nm).looks) = true) := by
  have hm := steady_oneWay l zres gesrch deny aempty
  constructor
  · intro h
    have hv := C04_scan_listed_never_skipped srcs (steady l zres gesrch deny aempty) hm false names
    rw [h] at hv
    obtain ⟨i, _, hi⟩ := hv
    have hl : l = .gone := hi
    refine ⟨hl, ?_⟩
    subst hl
    have hg := scanLoop_gone .fresh srcs (steady .gone zres gesrch deny aempty) (fun _ => rfl) names ScanSt.init [] rfl
    have h' : (scanLoop .fresh srcs (steady .gone zres gesrch deny aempty) ScanSt.init names []).2.visit = .skipped := h
    rw [hg] at h'
    by_cases ha : names.any (fun nm => (srcOf srcs nm).looks) = true
    · exact ha
    · rw [if_neg ha] at h'; simp [ScanOut.visit] at h'
  · rintro ⟨hl, ha⟩
    subst hl
    have hg := scanLoop_gone .fresh srcs (steady .gone zres gesrch deny aempty) (fun _ => rfl) names ScanSt.init [] rfl
    show (scanLoop .fresh srcs (steady .gone zres gesrch deny aempty) ScanSt.init names []).2.visit = .skipped
    rw [hg, if_pos ha]; rfl

/-- the world of seeded change C04-6: alive at the first access of the scan, a zombie from the second on -/
def zombieAfterFirst (r : Rd) : ScanWorld :=
  ⟨fun i => if i = 0 then .alive else .zombie, fun f => if f == "environ" then r else .ok, fun _ => false, fun _ => false,
   fun _ => false⟩

theorem zombieAfterFirst_listed (r : Rd) : OneWay (zombieAfterFirst r).life ∧ ∀ i, Listed ((zombieAfterFirst r).life i) := by
  constructor
  · intro i j hij
    show (if i = 0 then Life.alive else Life.zombie).rank ≤ (if j = 0 then Life.alive else Life.zombie).rank
    by_cases hi : i = 0 <;> by_cases hj : j = 0 <;> simp [hi, hj, Life.rank]
    omega
  · intro i
    show (if i = 0 then Life.alive else Life.zombie) ≠ Life.gone
    by_cases hi : i = 0 <;> simp [hi]

/-- **why `cfg_zombie_probe` is an obligation** (seeded change C04-6). `process_iter(attrs=['status','environ'])`
    on a cached PID that turns zombie between the two reads, on a kernel where a zombie's `environ` gives ESRCH:
    the code as it is yields the PID with `environ = ad_value`; an `_is_zombie()` answering from the block's
    memoized `stat` (read while the process was alive) says "not a zombie", the ESRCH becomes NoSuchProcess and
    the still-listed PID is SKIPPED (cache entry dropped); with ENOENT instead (a zombie's `cwd`, `exe`) the
    stale probe lets the FileNotFoundError out of `process_iter()`. The last two: the caller holds
    `with proc.oneshot():`, called `status()` while the process was alive, then iterates with `attrs=['environ']`. -/
theorem C04_scan_stale_probe_counterexample :
    (visitScan .fresh [("status", .memo "stat"), ("environ", .read "environ")] (zombieAfterFirst .esrch) false
        ["status", "environ"]).2 = .yielded [("status", false), ("environ", true)]
    ∧ (visitScan .memo [("status", .memo "stat"), ("environ", .read "environ")] (zombieAfterFirst .esrch) false
        ["status", "environ"]).2 = .skipped
    ∧ (visitScan .memo [("status", .memo "stat"), ("environ", .read "environ")] (zombieAfterFirst .enoent) false
        ["status", "environ"]).2 = .exc "FileNotFoundError"
    ∧ (visitScanHeld .fresh [("status", .memo "stat"), ("environ", .read "environ")] (zombieAfterFirst .esrch)
        ["status"] ["environ"]).2 = .yielded [("environ", true)]
    ∧ (visitScanHeld .memo [("status", .memo "stat"), ("environ", .read "environ")] (zombieAfterFirst .esrch)
        ["status"] ["environ"]).2 = .skipped
    ∧ (∀ i, Listed ((zombieAfterFirst .esrch).life i)) := by
  refine ⟨by decide, by decide, by decide, by decide, by decide, (zombieAfterFirst_listed _).2⟩

/-- **one whole iteration, the scan dimension included.** One thread at statement granularity (`fineRun`:
    any schedule of other threads, any table changes between its statements) whose every `as_dict` answer is
    the access-granularity scan of THAT PID's process in its own world `W pid` (any one-way life, any kernel
    flavour): run to its end, every PID of the listing is yielded, or `Process(pid)` did not find the new PID,
    or the process was gone at one of the instants its own scan looked at it. -/
theorem C04_fine_complete_scan (c : Cfg) (rd : FReads) (base : Nat) (ts : List FTouch)
    (srcs : List (String × Src)) (names : List String) (W : Nat → ScanWorld) (hW : ∀ q, OneWay (W q).life)
    (hk : rd.listing.Nodup) (hp : NodupKeys rd.copy) (hne : rd.listing ≠ [])
    (hd : c.drainFirst = true ∨ rd.popped = []) (hpe : rd.popErr = true → c.popGuarded = true)
    (hlen : (finePrologue c rd).2.length ≤ ts.length)
    (hfill : ∀ x ∈ (finePrologue c rd).2.zip ts,
      x.2.fill = false → (visitScan .fresh srcs (W x.1.1) false names).2 = .skipped) :
    ∀ q ∈ rd.listing, q ∈ (fineRun c rd false true base ts).yields.map (·.1)
      ∨ (∃ x ∈ (finePrologue c rd).2.zip ts, x.1.1 = q ∧ x.1.2 = none ∧ x.2.create = none)
      ∨ Vanished (W q).life (visitScan .fresh srcs (W q) false names).1.i := by
  intro q hq
  rcases C04_fine_complete c rd false true base ts hk hp hne hd hpe (by simp) hlen q hq with h | ⟨x, hx, hxq, hn⟩
  · exact Or.inl h
  · rcases hn with ⟨h1, h2⟩ | ⟨_, h2⟩
    · exact Or.inr (Or.inl ⟨x, hx, hxq, h1, h2⟩)
    · right; right
      have hs := hfill x hx h2
      rw [hxq] at hs
      have hv := C04_scan_listed_never_skipped srcs (W q) (hW q) false names
      rw [hs] at hv
      exact hv

end Psutil.C04
