/-
  Props/C04.lean — property theorems for C04 (`pids()`, `pid_exists()`, `process_iter()`).
  Helper lemmas live in Proofs/C04*.lean.

  `cfg` is built from Generated/C04.lean, which the translator rewrites from /repo's source on
  every run; `cfg_good` is the proof obligation that breaks when `process_iter` computes the
  set differences before draining `_pids_reused` (lead L19), when `pid_exists` lets the
  OverflowError of an out-of-range int escape (lead L4), or when `pid`/`ppid` stop being valid
  `as_dict` names of the kinds the model assumes.
-/
import PsutilModel.Proofs.C04
import PsutilModel.Model.C04Gen
namespace Psutil.C04
open Spec

/-- what the theorems need of the translator facts -/
structure Cfg.Good (c : Cfg) : Prop where
  drain : c.drainFirst = true
  range : c.rangeGuard = true
  pidValid : c.validNames.contains "pid" = true
  pidNoAccess : c.noAccessAttrs.contains "pid" = true
  reuseValid : c.reuseAttrs.all c.validNames.contains = true
  reuseAccess : c.reuseAttrs.all (fun n => !c.noAccessAttrs.contains n) = true

theorem cfg_good : cfg.Good := by
  refine ⟨?_, ?_, ?_, ?_, ?_, ?_⟩ <;> decide

/-! ## `pids()` -/

/-- an entry of the procfs root: a process directory or something whose name is not all digits -/
inductive DirEntry
  | proc (pid : Nat)
  | other (name : Bytes)

def DirEntry.name : DirEntry → Bytes
  | .proc pid => renderDec pid
  | .other n => n

def DirEntry.pid? : DirEntry → Option Nat
  | .proc pid => some pid
  | .other _ => none

/-- **C04_listing_exact.** Whatever else the procfs root contains and in whatever order the
    directory is read, `_pslinux.pids()` returns exactly the PIDs of the process directories
    (kernel fact used: no other entry of `/proc` has an all-digit name). -/
theorem C04_listing_exact (es : List DirEntry)
    (hother : ∀ n, DirEntry.other n ∈ es → isDigitName n = false) :
    pidsOfEntries (es.map DirEntry.name) = es.filterMap DirEntry.pid? := by
  induction es with
  | nil => rfl
  | cons e es ih =>
    have ih' := ih (fun n hn => hother n (by simp [hn]))
    cases e with
    | proc pid =>
      have hd : isDigitName (renderDec pid) = true := by
        simp only [isDigitName, Bool.and_eq_true, Bool.not_eq_true', List.isEmpty_eq_false_iff,
          List.all_eq_true]
        exact ⟨renderDec_ne_nil pid, renderDec_isDigit pid⟩
      simp only [pidsOfEntries, List.map_cons, DirEntry.name, List.filterMap_cons, hd, if_true,
        parseDec_renderDec, DirEntry.pid?] at ih' ⊢
      rw [ih']
    | other n =>
      have hd := hother n (by simp)
      simp only [pidsOfEntries, List.map_cons, DirEntry.name, List.filterMap_cons, hd,
        Bool.false_eq_true, if_false, DirEntry.pid?] at ih' ⊢
      rw [ih']

/-- **C04_pids_sorted_exact.** For every non-empty table with one entry per PID, `pids()` returns
    the strictly ascending list whose members are exactly the listed PIDs. -/
theorem C04_pids_sorted_exact (c : Cfg) (s : St) (hne : s.k.procs ≠ []) (hnd : s.k.listdir.Nodup) :
    ∃ l, (step c s .pids).2 = .pidList l ∧ IsPidList s.k l := by
  have hsorted := sortNat_sorted s.k.listdir hnd
  have hmem : ∀ n, n ∈ sortNat s.k.listdir ↔ ∃ p ∈ s.k.procs, p.pid = n := by
    intro n; rw [mem_sortNat, mem_listdir]
  simp only [step, pidsCall]
  cases hs : sortNat s.k.listdir with
  | nil =>
    exfalso
    cases hp : s.k.procs with
    | nil => exact hne hp
    | cons p ps =>
      have : p.pid ∈ sortNat s.k.listdir := (hmem p.pid).mpr ⟨p, by simp [hp], rfl⟩
      rw [hs] at this; simp at this
  | cons p ps =>
    refine ⟨p :: ps, rfl, ?_⟩
    rw [← hs]
    exact ⟨hsorted, hmem⟩

/-- the ascending PID list is unique: any list meeting the specification is what `pids()` returns -/
theorem C04_pids_unique (k : Kernel) (l1 l2 : List Nat) (h1 : IsPidList k l1) (h2 : IsPidList k l2) :
    l1 = l2 :=
  eq_of_sorted_mem h1.1 h2.1 (fun a => by rw [h1.2, h2.2])

/-- `pids()` records the smallest PID in `_LOWEST_PID` -/
theorem C04_pids_sets_lowest (c : Cfg) (s : St) (l : List Nat) (h : (step c s .pids).2 = .pidList l)
    (hnd : s.k.listdir.Nodup) :
    ∃ m, (step c s .pids).1.lowest = some m ∧ m ∈ s.k.listdir ∧ ∀ n ∈ s.k.listdir, m ≤ n := by
  have hsorted := sortNat_sorted s.k.listdir hnd
  simp only [step, pidsCall] at h ⊢
  cases hs : sortNat s.k.listdir with
  | nil => rw [hs] at h; simp at h
  | cons p ps =>
    rw [hs] at hsorted
    refine ⟨p, rfl, ?_, ?_⟩
    · rw [← mem_sortNat, hs]; simp
    · intro n hn
      rw [← mem_sortNat, hs] at hn
      rcases List.mem_cons.mp hn with e | hm
      · omega
      · exact Nat.le_of_lt ((List.pairwise_cons.mp hsorted).1 n hm)

/-! ## `pid_exists()` -/

/-- **C04_pidExists_iff.** For every integer `n` (negative, zero, thread id, id of a foreign
    process, id whose status file cannot be read or lacks its `Tgid:` line, out of `pid_t`
    range…) and every well-formed non-empty table, `pid_exists(n)` returns a bool — never an
    exception — which is True exactly when `n` is a listed PID. -/
theorem C04_pidExists_iff (c : Cfg) (hg : c.Good) (s : St) (hwf : s.k.WF) (hne : s.k.procs ≠ [])
    (n : Int) :
    ∃ b, (step c s (.pidExists n)).2 = .bool b ∧ (b = true ↔ Spec.Exists s.k n) := by
  simp only [step, pidExists]
  by_cases hneg : n < 0
  · refine ⟨false, by simp [hneg], ?_⟩
    simp only [Bool.false_eq_true, false_iff, Spec.Exists]
    omega
  · simp only [hneg, if_false]
    have hn0 : 0 ≤ n := by omega
    have hcast : ((n.toNat : Nat) : Int) = n := Int.toNat_of_nonneg hn0
    have hex : Spec.Exists s.k n ↔ n.toNat ∈ s.k.listdir := by
      rw [mem_listdir]
      simp only [Spec.Exists, hn0, true_and]
      constructor
      · rintro ⟨p, hp, e⟩; exact ⟨p, hp, by omega⟩
      · rintro ⟨p, hp, e⟩; exact ⟨p, hp, by omega⟩
    by_cases hz : n.toNat = 0
    · -- pid 0: `0 in pids()`
      simp only [hz, beq_self_eq_true, if_true, pidsCall]
      cases hs : sortNat s.k.listdir with
      | nil =>
        exfalso
        cases hp : s.k.procs with
        | nil => exact hne hp
        | cons p ps =>
          have : p.pid ∈ sortNat s.k.listdir := by rw [mem_sortNat, mem_listdir]; exact ⟨p, by simp [hp], rfl⟩
          rw [hs] at this; simp at this
      | cons p ps =>
        refine ⟨(p :: ps).contains 0, rfl, ?_⟩
        rw [hex, hz, ← mem_sortNat, hs]
        simp
    · have hzb : (n.toNat == 0) = false := by simpa using hz
      simp only [hzb, Bool.false_eq_true, if_false, hg.range, Bool.true_and, decide_eq_true_eq]
      by_cases hbig : n.toNat > pidTMax
      · refine ⟨false, by simp [hbig], ?_⟩
        simp only [Bool.false_eq_true, false_iff, hex, mem_listdir]
        rintro ⟨p, hp, e⟩
        have := hwf.bound p hp
        omega
      · simp only [hbig, if_false, platformPidExists, Kernel.kill]
        cases hfp : s.k.findProc n.toNat with
        | some p =>
          have hp := findProc_some hfp
          have hlisted : n.toNat ∈ s.k.listdir := mem_listdir.mpr ⟨p, hp.1, hp.2⟩
          have hcontains : s.k.listdir.contains n.toNat = true := by simpa using hlisted
          refine ⟨true, ?_, by simp [hex, hlisted]⟩
          simp only [Kernel.readStatus, hfp]
          cases p.foreign <;> cases p.status <;> simp [hlisted]
        | none =>
          have hnl : n.toNat ∉ s.k.listdir := by
            rw [mem_listdir]; rintro ⟨p, hp, e⟩; exact findProc_none hfp p hp e
          have hcontains : s.k.listdir.contains n.toNat = false := by simpa using hnl
          refine ⟨false, ?_, by simp [hex, hnl]⟩
          simp only [Kernel.readStatus, hfp]
          cases hft : s.k.findThr n.toNat with
          | none => simp
          | some t =>
            have ht := findThr_some hft
            have hne' : t.tgid ≠ n.toNat := by rw [← ht.2]; exact hwf.thrTgid t ht.1
            have hb : (t.tgid == n.toNat) = false := by simpa using hne'
            simp only
            cases s.k.findProc t.tgid with
            | none => simp [hb]
            | some q => by_cases hq : q.foreign = true <;> simp [hq, hb]

/-- hypotheses of `C04_pidExists_iff` are satisfiable, and threads / foreign processes / broken
    status files are really covered -/
example :
    let k : Kernel := ⟨[⟨1, 10, false, false, .ok⟩, ⟨2, 11, false, true, .unreadable⟩, ⟨3, 12, true, false, .noTgid⟩],
                       [⟨7, 1, 13⟩]⟩
    ((List.map (fun n => (step cfg (St.init k) (.pidExists n)).2) [-1, 0, 1, 2, 3, 7, 8, 2147483648])
      = [.bool false, .bool false, .bool true, .bool true, .bool true, .bool false, .bool false, .bool false]) := by
  decide

/-- **Lead L4 (pre-fix code).** Without the range guard `pid_exists(2**31)` raises OverflowError
    although the statement promises a bool for every non-negative int. -/
theorem C04_pidExists_overflow_counterexample :
    let bad : Cfg := { cfg with rangeGuard := false }
    (step bad (St.init ⟨[⟨1, 10, false, false, .ok⟩], []⟩) (.pidExists 2147483648)).2 = .exc "OverflowError" := by
  decide

/-! ## proved counterexamples (leads re-found through the model; each witness is replayed on the
    real code by the harness corpus) -/

def p1 : Proc := ⟨1, 101, false, false, .ok⟩
def p5 : Proc := ⟨5, 105, false, false, .ok⟩
def p5' : Proc := ⟨5, 999, false, false, .ok⟩     -- PID 5 recycled: another start time
def p9 : Proc := ⟨9, 109, false, false, .ok⟩
def k159 : Kernel := ⟨[p1, p5, p9], []⟩

/-- `list(process_iter(attrs))` over a 3-PID table: the generator and four `next`s -/
def fullIter (g : Nat) (attrs : Attrs := .none) : List Op :=
  [.iter attrs, .next g [], .next g [], .next g [], .next g []]

/-- the L19 history: iterate; PID 5 is recycled; `is_running()` on the old object notices; iterate -/
def histL19 : List Op :=
  fullIter 0 ++ [.kev (.exit 5), .kev (.spawn p5'), .isRunning 1] ++ fullIter 1

/-- **Lead L19 (pre-fix code).** With the set differences computed before `_pids_reused` is
    drained, the iteration that follows the `is_running()` call yields PIDs 1 and 9 only, although
    5 is listed — while the specification (and the fixed order) yields a fresh object for 5. -/
theorem C04_L19_counterexample :
    let bad : Cfg := { cfg with drainFirst := false }
    (trace bad (St.init k159) histL19).drop 9
        = [.yield 0 1 none, .yield 2 9 none, .stop, .stop]
    ∧ (trace cfg (St.init k159) histL19).drop 9
        = [.yield 0 1 none, .yield 3 5 none, .yield 2 9 none, .stop]
    ∧ (strace cfg.validNames cfg.noAccessAttrs (SSt.init k159) histL19).drop 9
        = [some (.yield 0 1 none), some (.yield 3 5 none), some (.yield 2 9 none), some .stop] := by
  decide

/-- The identity statement at full strength: for EVERY history the model yields what the
    shared-cache specification yields. It holds for sequential histories
    (`C04_refines_sequential`) and is false in general: -/
def C04_identity_Full : Prop :=
  ∀ (k : Kernel) (h : List Op), k.WF →
    (trace cfg (St.init k) h).map some = strace cfg.validNames cfg.noAccessAttrs (SSt.init k) h

/-- **Lead L5.** `g1 = process_iter(); g2 = process_iter(); next(g1); next(g2)`: the two
    generators yield two different objects for PID 1; the specification yields the same one. -/
theorem C04_identity_overlap_counterexample : ¬ C04_identity_Full := by
  intro h
  have := h ⟨[p1], []⟩ [.iter .none, .iter .none, .next 0 [], .next 1 []]
    ⟨by decide, by decide, by decide, by decide⟩
  revert this
  decide

/-- the whole L5 witness: after `next(g1); next(g2); list(g1); list(g2)` a third iteration yields
    g2's object (reference 1), not g1's (reference 0) -/
theorem C04_overlap_later_yields_second :
    (trace cfg (St.init ⟨[p1], []⟩)
      [.iter .none, .iter .none, .next 0 [], .next 1 [], .next 0 [], .next 1 [], .iter .none, .next 2 []])
      = [.gen 0, .gen 1, .yield 0 1 none, .yield 1 1 none, .stop, .stop, .gen 2, .yield 1 1 none] := by
  decide

/-- **cache_clear() while a generator is suspended** has no lasting effect: the iteration started
    after it yields the pre-clear objects 0,1,2 again (the specification: fresh ones for the PIDs
    not yet visited when the cache was cleared). -/
theorem C04_clear_while_suspended_counterexample :
    let h : List Op := [.iter .none, .next 0 [], .cacheClear, .next 0 [], .next 0 [], .next 0 []] ++ fullIter 1
    (trace cfg (St.init k159) h).drop 7 = [.yield 0 1 none, .yield 1 5 none, .yield 2 9 none, .stop]
    ∧ (strace cfg.validNames cfg.noAccessAttrs (SSt.init k159) h).drop 7
        = [some (.yield 3 1 none), some (.yield 1 5 none), some (.yield 2 9 none), some .stop] := by
  decide

/-- **Reuse check inside `as_dict` (`ppid`).** The cached object of the recycled PID 5 makes
    `ppid()` raise NoSuchProcess, `process_iter(attrs=['ppid'])` takes that for "vanished" and
    yields 1 and 9 only; the specification yields 5 as well. Not repaired by `drainFirst`. -/
theorem C04_reuse_check_skips_pid_counterexample :
    let h : List Op := fullIter 0 ++ [.kev (.exit 5), .kev (.spawn p5')] ++ fullIter 1 (.names ["ppid"])
    (trace cfg (St.init k159) h).drop 8
        = [.yield 0 1 (some ["ppid"]), .yield 2 9 (some ["ppid"]), .stop, .stop]
    ∧ (strace cfg.validNames cfg.noAccessAttrs (SSt.init k159) h).drop 8
        = [some (.yield 0 1 (some ["ppid"])), some (.yield 1 5 (some ["ppid"])),
           some (.yield 2 9 (some ["ppid"])), some .stop] := by
  decide

end Psutil.C04
