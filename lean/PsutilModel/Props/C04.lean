import PsutilModel.Model.C04Gen
import PsutilModel.Spec.C04
namespace Psutil.C04

theorem cfg_good : cfg.drainFirst = true ∧ cfg.rangeGuard = true := by decide

end Psutil.C04
